#!/bin/bash
# tools/seeded_selftest.sh [-j N] [-s seed] [name ...]
# Regression test of the machinery itself: every recorded independent change under seeded/<name>/patch.diff is applied to
# a scratch worktree of /repo HEAD (never to /repo) and `./check <property>` must report a VIOLATION for it.
# Writes seeded/SELFTEST.md (one line per change).  Evidence/replays of these runs go to /var/tmp/verif_out (core.OUT).
V="$(cd "$(dirname "$0")/.." && pwd)"
J=3; SEED=1
while getopts "j:s:" o; do case $o in j) J=$OPTARG;; s) SEED=$OPTARG;; esac; done; shift $((OPTIND-1))
names="$*"; [ -n "$names" ] || names=$(cd $V/seeded && ls -d C*-* | sort -t- -k2,2n -k1,1)
OUT=$V/seeded/SELFTEST.md; [ -n "$*" ] && OUT=/var/tmp/selftest_partial.md       # only a full run rewrites the recorded table
one() {
  name="$1"; V="$2"; SEED="$3"; id="${name%%-*}"; wt=/var/tmp/st_$name
  # two runs that regenerate the same source-derived Coq tables from DIFFERENT trees must not overlap (the registered checks
  # always run against /repo, so this only matters here): one lock per group of properties that share generated files
  case $id in C01|C02|C06) grp=feb;; C04|C07) grp=kernel;; *) grp=$id;; esac
  exec 8>/var/tmp/verif_selftest_$grp.lock; flock 8
  rm -rf $wt; git -C /repo worktree prune; $V/tools/scratch_repo.sh $wt >/dev/null 2>&1 || { echo "$name | worktree failed"; return; }
  if ! git -C $wt apply $V/seeded/$name/patch.diff 2>/dev/null && ! git -C $wt apply --3way $V/seeded/$name/patch.diff 2>/dev/null; then
    echo "$name | $id | patch does not apply to /repo HEAD | -"; git -C /repo worktree remove --force $wt; return; fi
  t0=$(date +%s)
  out=$(cd $V && VERIF_SEED=$SEED VERIF_REPO=$wt timeout 2400 ./check $id 2>&1)
  t1=$(date +%s)
  v=$(echo "$out" | grep -c '^VIOLATION')
  nfi=$(echo "$out" | grep '^VIOLATION' | grep -c 'no-failing-input-found')
  why=$(echo "$out" | grep '^# ' | head -1 | cut -c3-260 | tr '|' '/')
  if [ "$v" = 0 ]; then r="NOT DETECTED"; elif [ "$nfi" = "$v" ]; then r="detected (no-failing-input-found)"; else r="detected with failing input"; fi
  echo "$name | $id | $r | $((t1-t0)) s | $why"
  git -C /repo worktree remove --force $wt
}
export -f one
printf "%s\n" $names | xargs -P $J -I{} bash -c "one {} $V $SEED" | sort > $V/seeded/.selftest.tmp
{ echo "# Self-test: every recorded independent change must be detected (seed $SEED, /repo $(git -C /repo log --format=%h -1), /verif $(git -C $V log --format=%h -1))"
  echo; echo "| change | property | result | wall | first reason |"; echo "|---|---|---|---|---|"; sed 's/^/| /; s/$/ |/' $V/seeded/.selftest.tmp; } > $OUT
rm -f $V/seeded/.selftest.tmp
grep -c "NOT DETECTED" $OUT | sed 's/^/not detected: /'
