#!/usr/bin/env python3
"""validate evidence/*.json against /root/.vp/EVIDENCE.schema.json (run with python3-vt for jsonschema)"""
import json, glob, sys
import jsonschema
sch = json.load(open("/root/.vp/EVIDENCE.schema.json"))
bad = 0
for f in sorted(glob.glob("/verif/evidence/C*.json")):
    e = json.load(open(f))
    try:
        jsonschema.validate(e, sch)
        c = e["coverage"]
        print("%s ok  level=%s oblig=%s/%s evals=%s nontrivial=%s wall=%ss viol=%s" % (e["property_id"], e["level"], c.get("discharged"), c.get("obligations"), c.get("evaluations"), c.get("distinct_nontrivial"), e["wall_s"], e.get("violations")))
    except jsonschema.ValidationError as x:
        bad += 1
        print("%s INVALID: %s" % (f, x.message[:200]))
sys.exit(1 if bad else 0)
