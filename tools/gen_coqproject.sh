#!/bin/sh
# regenerate coq/_CoqProject (all theories/**/*.v) and coq/Makefile
set -e
cd "$(dirname "$0")/../coq"
{ echo "-Q theories QV"; echo "-arg -w -arg -notation-overridden,-deprecated,-ambiguous-paths"; find theories -name '*.v' | LC_ALL=C sort; } > _CoqProject.new
if ! cmp -s _CoqProject.new _CoqProject 2>/dev/null; then mv _CoqProject.new _CoqProject; coq_makefile -f _CoqProject -o Makefile >/dev/null; else rm _CoqProject.new; [ -f Makefile ] || coq_makefile -f _CoqProject -o Makefile >/dev/null; fi
