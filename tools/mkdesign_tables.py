#!/usr/bin/env python3
"""regenerate the generated parts of DESIGN.md (between <!-- GEN:x --> and <!-- /GEN:x -->): findings and seeded changes"""
import json, glob, os, re, subprocess
V = os.path.dirname(os.path.dirname(os.path.abspath(__file__)))
kf = json.load(open(os.path.join(V, "known_findings.json")))["findings"]
def findings():
    out = ["| property | status | commit | what failed |", "|---|---|---|---|"]
    for f in sorted(kf, key=lambda f: (f["property"], f["status"] != "fixed")):
        out.append("| %s | %s | %s | %s |" % (f["property"], f["status"], f.get("commit", ""), f["what"].replace("|", "/")[:330]))
    n_fixed = sum(1 for f in kf if f["status"] == "fixed"); n_open = sum(1 for f in kf if f["status"] == "open")
    return "%d defects repaired by `fix:` commits in /repo, %d recorded as open findings.\n\n" % (n_fixed, n_open) + "\n".join(out)
def seeded():
    out = ["| change | property | what it breaks (author's words, shortened) | suite | demo with / without | `./check` when recorded (seeds 1; 2) | final self-test |", "|---|---|---|---|---|---|---|"]
    st = {}
    try:
        for l in open(os.path.join(V, "seeded", "SELFTEST.md")):
            f = [x.strip() for x in l.strip().strip("|").split("|")]
            if len(f) >= 3 and re.match(r"C\d\d-\d+$", f[0]):
                st[f[0]] = f[2]
    except Exception:
        pass
    for d in sorted(glob.glob(os.path.join(V, "seeded", "C*-*"))):
        if not os.path.isdir(d):
            continue
        name = os.path.basename(d)
        try: m = json.load(open(os.path.join(d, "meta.json")))
        except Exception: m = {}
        try: v = json.load(open(os.path.join(d, "verify.json")))
        except Exception: v = {}
        try: c = open(os.path.join(d, "check_result.txt")).read()
        except Exception: c = ""
        det = []
        for s in ("seed1", "seed2"):
            mm = re.search(s + r": (.*?)\|", c)
            t = mm.group(1).strip() if mm else "?"
            det.append("not detected" if "NOT DETECTED" in t else ("no-failing-input" if "no-failing-input-found" in t else ("failing input" if ("VIOLATION" in t or "failing input" in t or t.startswith("#")) else t[:30])))
        what = (m.get("what_it_breaks") or m.get("breaks") or "")[:260].replace("|", "/").replace("\n", " ")
        out.append("| %s | %s | %s | %s | %s / %s | %s | %s |" % (name, m.get("property", name[:3]), what, v.get("suite", "?"), v.get("demo_with_mutant", "?"), v.get("demo_without_mutant", "?"), "; ".join(det), st.get(name, "")))
    return "\n".join(out)
p = os.path.join(V, "DESIGN.md"); s = open(p).read()
for tag, gen in (("findings", findings), ("seeded", seeded)):
    a, b = "<!-- GEN:%s -->" % tag, "<!-- /GEN:%s -->" % tag
    if a in s and b in s:
        i, j = s.index(a) + len(a), s.index(b)
        s = s[:i] + "\n" + gen() + "\n" + s[j:]
open(p, "w").write(s)
print("DESIGN.md tables regenerated")
# theorem count in section 7
import re as _re
_n = 0
for _f in glob.glob(os.path.join(V, "coq", "theories", "Properties", "*.v")):
    _n += len(_re.findall(r"^\s*(?:Theorem|Corollary)\s", open(_f).read(), _re.M))
_s = open(p).read()
_s = _re.sub(r"<!--NTHM-->\d+<!--/NTHM-->", "<!--NTHM-->%d<!--/NTHM-->" % _n, _s)
open(p, "w").write(_s)
print("property theorems:", _n)
