#!/bin/bash
# process2.sh <Cxx> <mutant_dir> <name>: like process.sh but (a) runs the checks from the stable snapshot /var/tmp/verif_snap
# (so engineers editing /verif do not disturb the result), (b) reads the demo environment from meta.json
id="$1"; md="$2"; name="$3"
SNAP=${SNAP:-/var/tmp/verif_snap}
export DEMO_ENV="$(python3 - "$md/meta.json" <<'PY'
import json,re,sys
try: m=json.load(open(sys.argv[1]))
except Exception: m={}
t=" ".join(str(v) for k,v in m.items() if "demo" in k or "run" in k or "env" in k)
a=re.search(r"QT_NUM_SHEPHERDS=(\d+)",t); b=re.search(r"QT_NUM_WORKERS_PER_SHEPHERD=(\d+)",t)
print(" ".join(x for x in [("QT_NUM_SHEPHERDS="+a.group(1)) if a else "", ("QT_NUM_WORKERS_PER_SHEPHERD="+b.group(1)) if b else ""] if x))
PY
)"
wt=/var/tmp/pm_$name; rm -rf $wt; git -C /repo worktree prune; /verif/tools/scratch_repo.sh $wt >/dev/null 2>&1
cd $wt; git apply "$md/patch.diff" 2>/dev/null || git apply --3way "$md/patch.diff" 2>/dev/null || { echo "$name: PATCH DOES NOT APPLY"; git -C /repo worktree remove --force $wt; exit 2; }
git diff > $wt/_patch_vs_head.diff
cd $SNAP; res=""
for s in 1 2; do r=$(VERIF_SEED=$s VERIF_REPO=$wt timeout 1800 ./check $id 2>&1 | grep -E "^VIOLATION|^# " | head -2 | tr '\n' ' ' | cut -c1-700); res="$res seed$s: ${r:-NOT DETECTED} |"; done
echo "$name check: $res"
mkdir -p /verif/seeded/$name; cp $wt/_patch_vs_head.diff /verif/seeded/$name/patch.diff; cp "$md"/demo.c "$md"/meta.json /verif/seeded/$name/ 2>/dev/null; cp "$md"/RUN.txt /verif/seeded/$name/ 2>/dev/null
echo "$res" > /verif/seeded/$name/check_result.txt
git -C /repo worktree remove --force $wt
/var/tmp/mutkit/verify_mutant2.sh $id /verif/seeded/$name $name 2>&1 | tail -12
