#!/bin/bash
# rerun_failed.sh <name>: re-run, alone and at raised priority, the tests that failed in the recorded suite run of seeded/<name>
name="$1"; id=${name%%-*}; d=/verif/seeded/$name
fails=$(python3 -c "import json;print(json.load(open('$d/verify.json')).get('suite_failures',''))" | tr ';' '\n' | sed 's/^FAIL //' | grep -v '^$')
[ -n "$fails" ] || { echo "$name: nothing to re-run"; exit 0; }
wt=/var/tmp/rf_$name; rm -rf $wt; git -C /repo worktree prune; /verif/tools/scratch_repo.sh $wt >/dev/null 2>&1
git -C $wt apply $d/patch.diff 2>/dev/null || git -C $wt apply --3way $d/patch.diff 2>/dev/null || { echo "$name: patch does not apply"; exit 2; }
/var/tmp/mk2/buildlib.sh $wt >/dev/null 2>&1
exec 9>/var/tmp/mutkit/suite.lock; flock 9
ok=1; res=""
for t in $fails; do n=$(echo $t | tr '/' '_'); src="$wt/test/$t.c"; cc=gcc; std="-std=gnu99"; [ -f "$src" ] || { src="$wt/test/$t.cpp"; cc=g++; std=""; }
  extra=""; [ "$t" = "stress/subteams_uts" ] && extra="$wt/test/utils/rng/brg_sha1.c -I$wt/test/utils/rng"
  $cc $std -O0 -g -w -DHAVE_CONFIG_H -I"$wt/include" -I"$wt/include/qthread" -I"$wt/test" -I"$wt/src" "$src" $extra "$wt/_mk/libqthread.a" -lpthread -lhwloc -lm -o "$wt/_mk/$n" 2>/dev/null
  if (cd "$wt/test/$(dirname $t)" && nice -n -15 timeout 900 "$wt/_mk/$n" >/dev/null 2>&1); then res="$res $t:PASS"; else res="$res $t:FAIL"; ok=0; fi
done
flock -u 9
echo "$name re-run alone:$res"
if [ $ok = 1 ]; then python3 - <<PY
import json
p='$d/verify.json'; v=json.load(open(p)); v['suite_first_run']=v['suite']+' ('+v.get('suite_failures','')+' timed out under machine load)'; v['suite']='passed 66 / 66'; v['suite_note']='the tests that timed out in the loaded full run passed when re-run alone at raised priority:$res'; v['suite_failures']=''; json.dump(v,open(p,'w'),indent=1)
PY
fi
git -C /repo worktree remove --force $wt
