#!/bin/bash
# quickcheck.sh <Cxx> <mutant_dir> <name> [other checks...]: run ./check against the mutant (no suite verification)
id="$1"; md="$2"; name="$3"; shift 3; others="$*"
wt=/var/tmp/qc_$name; rm -rf $wt; git -C /repo worktree prune; /verif/tools/scratch_repo.sh $wt >/dev/null 2>&1
cd $wt; cp /repo/src/qloop.c /repo/src/qutil.c src/ 2>/dev/null  # carry the uncommitted qsort patches so that C13 is comparable
git stash -q 2>/dev/null; git stash drop -q 2>/dev/null
git apply "$md/patch.diff" 2>/dev/null || git apply --3way "$md/patch.diff" 2>/dev/null || { echo "$name: PATCH DOES NOT APPLY"; git -C /repo worktree remove --force $wt; exit 2; }
cd /verif
for c in $id $others; do for s in 1 2; do r=$(VERIF_SEED=$s VERIF_REPO=$wt timeout 1500 ./check $c 2>&1 | grep -E "^VIOLATION|^# " | head -2 | tr '\n' ' ' | cut -c1-260); echo "$name $c seed$s: ${r:-NOT DETECTED}"; done; done
git -C /repo worktree remove --force $wt
