import json,sys
pid,wt,n=sys.argv[1],sys.argv[2],sys.argv[3]
for l in open('/verif/properties.jsonl'):
    p=json.loads(l)
    if p['id']==pid:
        txt="Title: %s\nStatement: %s\nQuantified over: %s\nWhy tests cannot settle it: %s\nAnchors (where the mechanism lives): files %s; mechanisms %s"%(p['title'],p['statement'],p['quantifier']['text'],p['why_tests_cant'],", ".join(p['anchors']['files']),"; ".join(m.get('name','')+" ("+m.get('where','')+")" for m in p['anchors']['mechanism']))
        t=open('/var/tmp/mutkit/PROMPT.txt').read().replace('__WT__',wt).replace('__N__',n).replace('__ID__',pid).replace('__PROP__',txt)
        print(t)
