#!/bin/bash
# run_tests.sh <tree> : build libqthread.a from <tree>/src (same TUs/flags as the configured build) into <tree>/_mk,
# then build and run the 66 baseline tests against it.  Prints PASS/FAIL per test and a summary; exit 0 iff all pass.
# Also leaves <tree>/_mk/libqthread.a for your own demo programs:
#   gcc -I<tree>/include -I<tree>/include/qthread demo.c <tree>/_mk/libqthread.a -lpthread -lhwloc -lm
T="$1"; [ -d "$T/src" ] || { echo "usage: $0 <tree>"; exit 2; }
B="$T/_mk"; mkdir -p "$B/obj" "$B/tests"
for h in include/config.h include/qthread/common.h include/qthread/qthread-int.h; do [ -f "$T/$h" ] || cp "/repo/$h" "$T/$h"; done
TUS="affinity/common.c affinity/hwloc.c alloc/base.c barrier/feb.c cacheline.c ds/dictionary/dictionary_shavit.c ds/dictionary/hash.c ds/qarray.c ds/qdqueue.c ds/qlfqueue.c ds/qpool.c ds/qswsrqueue.c envariables.c fastcontext/asm.S fastcontext/context.c feb.c hashmap.c hazardptrs.c io.c locks.c mpool.c patterns/allpairs.c patterns/wavefront.c performance.c qalloc.c qloop.c qthread.c qtimer/gettime.c queue.c qutil.c shepherds.c sincs/donecount.c syncvar.c syscalls/accept.c syscalls/connect.c syscalls/nanosleep.c syscalls/poll.c syscalls/pread.c syscalls/pwrite.c syscalls/read.c syscalls/select.c syscalls/sleep.c syscalls/system.c syscalls/user_defined.c syscalls/usleep.c syscalls/wait4.c syscalls/write.c teams.c threadqueues/sherwood_threadqueues.c tls.c touch.c workers.c"
CF="-DHAVE_CONFIG_H -I$T/src -I$T/include -I$T/include/qthread -O0 -g -w -std=gnu99"
{ echo "all: libqthread.a"; OBJS=""; for t in $TUS; do o="obj/$(echo $t | tr '/' '_' | sed 's/\.[cS]$/.o/')"; OBJS="$OBJS $o"; echo "$o: $T/src/$t"; echo "	@gcc $CF -c \$< -o \$@"; done; echo "libqthread.a: $OBJS"; echo "	@rm -f \$@; ar rcs \$@ $OBJS"; } > "$B/Makefile"
make -s -C "$B" -j16 all || { echo "LIBRARY BUILD FAILED"; exit 1; }
TESTS="basics/aligned_prodcons basics/aligned_purge_basic basics/aligned_purge_wakes basics/aligned_readXX_basic basics/aligned_writeFF_basic basics/aligned_writeFF_waits basics/arbitrary_blocking_operation basics/external_fork basics/external_syncvar basics/hello_world basics/hello_world_multi basics/qalloc basics/qthread_cacheline basics/qthread_cas basics/qthread_dincr basics/qthread_disable_shepherd basics/qthread_fincr basics/qthread_fork_precond basics/qthread_id basics/qthread_incr basics/qthread_migrate_to basics/qthread_readstate basics/qthread_stackleft basics/qtimer basics/read basics/reinitialization basics/sinc basics/sinc_null basics/sinc_workers basics/syncvar_prodcons basics/tasklocal_data basics/tasklocal_data_no_argcopy basics/tasklocal_data_no_default basics/test_subteams basics/test_teams features/allpairs features/barrier features/cxx_qt_loop features/cxx_qt_loop_balance features/qarray features/qarray_accum features/qdqueue features/qlfqueue features/qloop_utils features/qpool features/qswsrqueue features/qt_dictionary features/qt_loop features/qt_loop_balance features/qt_loop_balance_simple features/qt_loop_balance_sinc features/qt_loop_queue features/qt_loop_simple features/qt_loop_sinc features/qutil features/qutil_qsort features/subteams stress/feb_prodcons_contended stress/feb_stream stress/precond_fib stress/precond_spawn_simple stress/subteams_uts stress/syncvar_prodcons_contended stress/syncvar_stream stress/task_spawn stress/test_spawn_simple"
build_one() { t="$1"; n=$(echo $t | tr '/' '_'); src="$T/test/$t.c"; cc=gcc; std="-std=gnu99"
  [ -f "$src" ] || { src="$T/test/$t.cpp"; cc=g++; std=""; }
  extra=""; [ "$t" = "stress/subteams_uts" ] && extra="$T/test/utils/rng/brg_sha1.c -I$T/test/utils/rng"
  $cc $std -O0 -g -w -DHAVE_CONFIG_H -I"$T/include" -I"$T/include/qthread" -I"$T/test" -I"$T/src" "$src" $extra "$B/libqthread.a" -lpthread -lhwloc -lm -o "$B/tests/$n" 2>"$B/tests/$n.err" || echo "BUILDFAIL $t"; }
export -f build_one; export T B
printf "%s\n" $TESTS | xargs -P 16 -I{} bash -c 'build_one {}'
run_one() { t="$1"; n=$(echo $t | tr '/' '_'); [ -x "$B/tests/$n" ] || { echo "FAIL $t (not built)"; return; }
  (cd "$T/test/$(dirname $t)" && timeout 900 "$B/tests/$n" >"$B/tests/$n.out" 2>&1) && echo "PASS $t" || echo "FAIL $t"; }
export -f run_one
# machine-wide lock: only one suite runs at a time (the tests spin on 16 workers each; several suites at once
# oversubscribe the machine so badly that the ticket locks convoy and tests time out)
exec 9>/var/tmp/mutkit/suite.lock; flock 9
printf "%s\n" $TESTS | xargs -P 1 -I{} bash -c 'run_one {}' | sort > "$B/results.txt"
flock -u 9
cat "$B/results.txt" | grep -v "^PASS"; echo "passed $(grep -c '^PASS' $B/results.txt) / 66"
[ "$(grep -c '^PASS' $B/results.txt)" = 66 ]
