#!/bin/bash
# process.sh <Cxx> <mutant_dir> <name> [demo env...]: run ./check Cxx (2 seeds) against the mutant, then verify it, then store under /verif/seeded/<name>
id="$1"; md="$2"; name="$3"; shift 3; export DEMO_ENV="$*"
wt=/var/tmp/pm_$name; rm -rf $wt; git -C /repo worktree prune; /verif/tools/scratch_repo.sh $wt >/dev/null 2>&1
cd $wt; git apply "$md/patch.diff" 2>/dev/null || git apply --3way "$md/patch.diff" 2>/dev/null || { echo "$name: PATCH DOES NOT APPLY"; git -C /repo worktree remove --force $wt; exit 2; }
git diff > $wt/_patch_vs_head.diff
cd /verif; res=""
for s in 1 2; do r=$(VERIF_SEED=$s VERIF_REPO=$wt timeout 1500 ./check $id 2>&1 | grep -E "^VIOLATION|^# " | head -2 | tr '\n' ' ' | cut -c1-700); res="$res seed$s: ${r:-NOT DETECTED} |"; done
echo "$name check: $res"
mkdir -p /verif/seeded/$name; cp $wt/_patch_vs_head.diff /verif/seeded/$name/patch.diff; cp "$md"/demo.c "$md"/meta.json /verif/seeded/$name/ 2>/dev/null; cp "$md"/RUN.txt /verif/seeded/$name/ 2>/dev/null
echo "$res" > /verif/seeded/$name/check_result.txt
git -C /repo worktree remove --force $wt
/var/tmp/mutkit/verify_mutant.sh $id /verif/seeded/$name $name 2>&1 | tail -12
