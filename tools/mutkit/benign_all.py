#!/usr/bin/env python3
"""benign_all.py <dir with benign_k/patch.diff> <tag> : apply each behaviour-preserving rewrite to a scratch worktree of /repo HEAD and
run the checks of every property whose harness includes (or whose anchors name) a touched file.  Any VIOLATION is a false alarm
(or, when it says no-failing-input-found, a correspondence that is sensitive to a harmless rewrite).  Writes <tag>.results.txt"""
import glob, json, os, re, subprocess, sys
MAP = {"src/feb.c": "C01 C02 C06 C04 C07", "src/syncvar.c": "C03 C04 C05", "src/hashmap.c": "C01 C03", "src/sincs/donecount.c": "C10",
       "src/barrier/feb.c": "C11 C19", "src/io.c": "C20 C19 C04", "src/ds/qswsrqueue.c": "C15", "src/ds/qlfqueue.c": "C15 C19",
       "src/hazardptrs.c": "C15", "src/ds/qdqueue.c": "C15", "src/ds/qpool.c": "C14 C15", "src/mpool.c": "C14", "src/teams.c": "C05",
       "src/qthread.c": "C04 C07 C09 C19 C05", "src/threadqueues/sherwood_threadqueues.c": "C08", "src/qloop.c": "C12 C13",
       "src/qutil.c": "C13", "src/patterns/allpairs.c": "C13", "src/ds/qarray.c": "C17", "src/ds/dictionary/dictionary_shavit.c": "C16 C19",
       "src/ds/dictionary/hash.c": "C16", "src/shepherds.c": "C07", "src/workers.c": "C07 C19"}
src, tag = sys.argv[1], sys.argv[2]
out = open("/var/tmp/mutkit/%s.results.txt" % tag, "a")
for d in sorted(glob.glob(os.path.join(src, "benign_*")), key=lambda x: int(x.rsplit("_", 1)[1])):
    name = tag + "_" + os.path.basename(d)
    patch = os.path.join(d, "patch.diff")
    files = re.findall(r"^\+\+\+ b/(\S+)", open(patch).read(), re.M)
    checks = []
    for f in files:
        for c in MAP.get(f, "").split():
            if c not in checks:
                checks.append(c)
    if f.startswith("src/syscalls/") and "C20" not in checks:
        checks.append("C20")
    wt = "/var/tmp/bn_wt_" + name
    subprocess.run("rm -rf %s; git -C /repo worktree prune; /verif/tools/scratch_repo.sh %s >/dev/null 2>&1" % (wt, wt), shell=True)
    ok = subprocess.run("git -C %s apply %s 2>/dev/null || git -C %s apply --3way %s 2>/dev/null" % (wt, patch, wt, patch), shell=True).returncode == 0
    if not ok:
        out.write("%s | %s | patch does not apply to /repo HEAD\n" % (name, ",".join(files))); out.flush()
    else:
        for c in checks:
            r = subprocess.run("cd /verif && VERIF_REPO=%s timeout 2400 ./check %s 2>&1 | grep -E '^VIOLATION|^# ' | head -2 | tr '\\n' ' ' | cut -c1-400" % (wt, c),
                               shell=True, stdout=subprocess.PIPE, universal_newlines=True).stdout.strip()
            out.write("%s | %s | %s | %s\n" % (name, ",".join(files), c, r or "quiet")); out.flush()
    subprocess.run("git -C /repo worktree remove --force %s" % wt, shell=True)
