#!/bin/bash
# verify_mutant.sh <id> <mutant_dir> <name>: confirm an independent mutant against /repo HEAD:
#  applies, library builds, 66-test suite passes (serialised), demo fails with / passes without. Writes <mutant_dir>/verify.json
id="$1"; md="$2"; name="$3"; wt=/var/tmp/vm_$name
rm -rf $wt; git -C /repo worktree prune; /verif/tools/scratch_repo.sh $wt >/dev/null 2>&1 || { echo "worktree failed"; exit 1; }
cd $wt
if ! git apply "$md/patch.diff" 2>/dev/null; then git apply --3way "$md/patch.diff" 2>/dev/null || { echo "{\"applies\": false}" > "$md/verify.json"; echo "$name: patch does not apply to HEAD"; git -C /repo worktree remove --force $wt; exit 2; }; fi
if [ -n "$WITH_SUITE" ]; then /var/tmp/mutkit/run_tests.sh $wt > $wt/_suite.txt 2>&1; passed=$(grep -o "passed [0-9]* / 66" $wt/_suite.txt | tail -1); fails=$(grep "^FAIL\|^BUILDFAIL" $wt/_suite.txt | tr '\n' ';'); else /var/tmp/mk2/buildlib.sh $wt >/dev/null 2>&1; passed="pending"; fails=""; fi
demo_with=""; demo_without=""
if [ -f "$md/demo.c" ]; then
  envs=$(python3 -c "import json,sys; m=json.load(open('$md/meta.json')); print(m.get('demo_env',''))" 2>/dev/null)
  gcc -std=gnu99 -O0 -g -w -I$wt/include -I$wt/include/qthread -I$wt/src "$md/demo.c" $wt/_mk/libqthread.a -lpthread -lhwloc -lm -o $wt/_demo_with 2>$wt/_demo_build.txt
  w=0; for i in 1 2 3; do (cd $wt; env QT_STACK_SIZE=65536 $DEMO_ENV timeout 120 ./_demo_with >/dev/null 2>&1) || w=$((w+1)); done; demo_with="failed $w/3"
  git checkout -q -- src include; make -s -C $wt/_mk -j16 all >/dev/null 2>&1
  gcc -std=gnu99 -O0 -g -w -I$wt/include -I$wt/include/qthread -I$wt/src "$md/demo.c" $wt/_mk/libqthread.a -lpthread -lhwloc -lm -o $wt/_demo_without 2>>$wt/_demo_build.txt
  o=0; for i in 1 2 3; do (cd $wt; env QT_STACK_SIZE=65536 $DEMO_ENV timeout 120 ./_demo_without >/dev/null 2>&1) || o=$((o+1)); done; demo_without="failed $o/3"
fi
python3 - <<PY
import json
json.dump({"applies": True, "suite": "$passed", "suite_failures": "$fails", "demo_with_mutant": "$demo_with", "demo_without_mutant": "$demo_without", "demo_env": "$DEMO_ENV", "head": "$(git -C /repo log --format=%h -1)"}, open("$md/verify.json","w"), indent=1)
PY
cat "$md/verify.json"
git -C /repo worktree remove --force $wt
