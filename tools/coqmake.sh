#!/bin/sh
# tools/coqmake.sh [targets...] : serialised (flock) regeneration of _CoqProject + make of the given .vo targets
# (paths relative to coq/, e.g. theories/Feb/Model.vo).  Use this instead of calling make in coq/ directly.
cd "$(dirname "$0")/.."
exec flock coq/.lock sh -c './tools/gen_coqproject.sh && cd coq && timeout ${COQ_TIMEOUT:-1500} make -k -j${COQ_JOBS:-8} "$@"' sh "$@"
