#!/usr/bin/env python3
"""tools/c20_srcfacts.py [repo] : regenerate coq/theories/Io/GenIoSwitch.v from the working tree (write-if-changed).

Read off the source with clang -ast-dump=json (DESIGN.md 4.5, C20):
  * switch(item->op) of qt_process_blocking_call (src/io.c) as the FLAT list of its labels, system calls and
    breaks in source order -- fall-through is therefore preserved; its meaning is defined in Io/Model.v;
  * what the proxy does after the switch (requeue, free-if);
  * every wrapper of src/syscalls/*.c that parks the task: op, parameter types, marshalling of each slot,
    order of alloc / park / read ret / free / return;
  * the enum blocking_syscalls (checked against Io/Base.v).
Anything outside the recognised subset raises SrcFactsError: the caller treats that as a broken obligation.
"""
import json
import os
import subprocess
import sys
from concurrent.futures import ThreadPoolExecutor

HERE = os.path.dirname(os.path.abspath(__file__))
VERIF = os.path.dirname(HERE)
OUT = os.path.join(VERIF, "coq", "theories", "Io", "GenIoSwitch.v")
GENH = os.path.join(VERIF, "harness", "gen_headers")

OPS = ["ACCEPT", "CONNECT", "NANOSLEEP", "POLL", "READ", "PREAD", "SELECT", "SLEEP", "SYSTEM", "USLEEP",
       "WAIT4", "WRITE", "PWRITE", "USER_DEFINED"]
SYSNAMES = {"accept": "SysAccept", "connect": "SysConnect", "poll": "SysPoll", "read": "SysRead", "pread": "SysPread",
            "select": "SysSelect", "system": "SysSystem", "wait4": "SysWait4", "write": "SysWrite", "pwrite": "SysPwrite",
            "nanosleep": "SysNanosleep", "sleep": "SysSleep", "usleep": "SysUsleep", "qthread_exec": "SysExecTask"}
# calls inside the switch that are not system calls on behalf of the task
IGNORED_CALLS = {"memcpy", "__builtin_memcpy", "__builtin___memcpy_chk", "fprintf", "getcontext", "qt_getmctxt",
                 "pthread_setspecific", "pthread_getspecific", "__builtin_object_size", "printf"}
SYSCALL_FILES = ["accept", "connect", "nanosleep", "poll", "pread", "pwrite", "read", "select", "sleep", "system",
                 "user_defined", "usleep", "wait4", "write"]


class SrcFactsError(Exception):
    pass


def cppflags(repo):
    return ["-DHAVE_CONFIG_H", "-I%s/src" % repo, "-I%s/include" % repo, "-I%s/include/qthread" % repo,
            "-idirafter", GENH, "-idirafter", GENH + "/qthread", "-std=gnu99", "-w"]


def ast_dump(repo, path, filt):
    cmd = ["clang", "-fsyntax-only", "-Xclang", "-ast-dump=json", "-Xclang", "-ast-dump-filter=" + filt] + cppflags(repo) + [path]
    p = subprocess.run(cmd, stdout=subprocess.PIPE, stderr=subprocess.PIPE, universal_newlines=True, timeout=300)
    if p.returncode != 0:
        raise SrcFactsError("clang cannot parse %s:\n%s" % (path, p.stderr[-2000:]))
    dec = json.JSONDecoder()
    s = p.stdout
    i = 0
    out = []
    n = len(s)
    while True:
        while i < n and s[i] != "{":
            i += 1
        if i >= n:
            break
        obj, i = dec.raw_decode(s, i)
        out.append(obj)
    return out


# ---------------------------------------------------------------- AST helpers
def inner(n):
    return n.get("inner", [])


def strip(n):
    """drop implicit casts / parentheses / full-expression wrappers"""
    # CompoundLiteral/InitList: glibc's transparent-union socket address arguments (__SOCKADDR_ARG)
    while n.get("kind") in ("ImplicitCastExpr", "ParenExpr", "ConstantExpr", "ExprWithCleanups", "CompoundLiteralExpr",
                            "InitListExpr") and len(inner(n)) >= 1 and (n.get("kind") != "InitListExpr" or len(inner(n)) == 1):
        n = inner(n)[0]
    return n


def walk(n):
    yield n
    for c in inner(n):
        if isinstance(c, dict):
            for x in walk(c):
                yield x


def callee_name(call):
    f = strip(inner(call)[0])
    if f.get("kind") == "DeclRefExpr":
        return f["referencedDecl"]["name"]
    return None


def qtype(n):
    t = n.get("type", {})
    return t.get("desugaredQualType", t.get("qualType", ""))


def ctype_of(ts, where):
    ts = ts.replace("const ", "").replace("volatile ", "").replace("restrict", "").strip()
    if ts.endswith("*") or ts.endswith("]"):
        return "TPtr"
    m = {"int": "TI32", "unsigned int": "TU32", "long": "TI64", "unsigned long": "TU64",
         "long long": "TI64", "unsigned long long": "TU64"}
    if ts in m:
        return m[ts]
    raise SrcFactsError("%s: C type '%s' is outside the modelled scalar types" % (where, ts))


def width_of_ctype(c):
    return "W4" if c in ("TI32", "TU32") else "W8"


def sizeof_width(n, where):
    """n = third argument of memcpy: sizeof(T)"""
    n = strip(n)
    if n.get("kind") == "UnaryExprOrTypeTraitExpr" and n.get("name") == "sizeof":
        if "argType" in n:
            t = n["argType"]
            ts = t.get("desugaredQualType", t.get("qualType"))
        else:
            ts = qtype(strip(inner(n)[0]))
        return width_of_ctype(ctype_of(ts, where))
    if n.get("kind") == "IntegerLiteral":
        v = int(n["value"])
        if v == 4:
            return "W4"
        if v == 8:
            return "W8"
    raise SrcFactsError("%s: memcpy size is not sizeof(T) with T a 4- or 8-byte scalar" % where)


def slot_of(n, var):
    """n = <var>->args[k] (after strip)  ->  k, else None"""
    n = strip(n)
    if n.get("kind") != "ArraySubscriptExpr":
        return None
    base, idx = strip(inner(n)[0]), strip(inner(n)[1])
    if base.get("kind") != "MemberExpr" or base.get("name") != "args":
        return None
    obj = strip(inner(base)[0])
    if obj.get("kind") != "DeclRefExpr" or obj["referencedDecl"]["name"] != var:
        return None
    if idx.get("kind") != "IntegerLiteral":
        raise SrcFactsError("args[] index is not a literal")
    return int(idx["value"])


def member_of(n, var, field):
    n = strip(n)
    if n.get("kind") == "MemberExpr" and n.get("name") == field:
        o = strip(inner(n)[0])
        return o.get("kind") == "DeclRefExpr" and o["referencedDecl"]["name"] == var
    return False


def addr_of(n):
    """&x -> stripped x, else None"""
    n = strip(n)
    if n.get("kind") == "CStyleCastExpr":
        n = strip(inner(n)[0])
    if n.get("kind") == "UnaryOperator" and n.get("opcode") == "&":
        return strip(inner(n)[0])
    return None


def is_pool_call(call, fname):
    if callee_name(call) != fname:
        return False
    a0 = strip(inner(call)[1])
    return a0.get("kind") == "DeclRefExpr" and a0["referencedDecl"]["name"] == "syscall_job_pool"


def is_errno(n):
    """errno, i.e. (*__errno_location())"""
    n = strip(n)
    if n.get("kind") == "UnaryOperator" and n.get("opcode") == "*":
        c = strip(inner(n)[0])
        return c.get("kind") == "CallExpr" and callee_name(c) == "__errno_location"
    return False


def enum_const(n):
    n = strip(n)
    if n.get("kind") == "DeclRefExpr" and n["referencedDecl"].get("kind") == "EnumConstantDecl":
        return n["referencedDecl"]["name"]
    return None


# ---------------------------------------------------------------- io.c
def find_def(objs, name):
    for o in objs:
        if o.get("kind") == "FunctionDecl" and o.get("name") == name and any(c.get("kind") == "CompoundStmt" for c in inner(o)):
            return o
    raise SrcFactsError("definition of %s not found" % name)


def flatten_labels(st, out):
    """Case/Default statements nest their first statement: flatten into label, stmt"""
    k = st.get("kind")
    if k == "CaseStmt":
        c = enum_const(inner(st)[0])
        if c is None or c not in OPS:
            raise SrcFactsError("case label is not a known blocking_syscalls constant")
        out.append(("case", c))
        flatten_labels(inner(st)[-1], out)
    elif k == "DefaultStmt":
        out.append(("default",))
        flatten_labels(inner(st)[-1], out)
    else:
        out.append(("stmt", st))


def argspec(n, item, localdefs, where):
    outer = n
    n = strip(n)
    if n.get("kind") == "CStyleCastExpr":
        k = slot_of(inner(n)[0], item)
        if k is not None:
            return "ASlot %d (OutCast %s)" % (k, ctype_of(qtype(n), where))
        return "AOther"
    k = slot_of(n, item)
    if k is not None:    # implicit conversion to the parameter type
        return "ASlot %d (OutCast %s)" % (k, ctype_of(qtype(outer), where))
    if n.get("kind") == "DeclRefExpr":
        nm = n["referencedDecl"]["name"]
        if nm in localdefs:
            k, w = localdefs[nm]
            if w.startswith("cast:"):        # T v = (T)item->args[k];
                if w[5:] != ctype_of(qtype(n), where):
                    raise SrcFactsError("%s: local %s is initialised through a cast to a different type" % (where, nm))
                return "ASlot %d (OutCast %s)" % (k, w[5:])
            return "ASlot %d (OutMemcpy %s %s)" % (k, w, ctype_of(qtype(n), where))
        return "AOther"
    if member_of(n, item, "thread"):
        return "AThread"
    return "AOther"


def switch_facts(fn):
    sw = [n for n in walk(fn) if n.get("kind") == "SwitchStmt"]
    sw = [s for s in sw if member_of(inner(s)[0], "item", "op")]
    if len(sw) != 1:
        raise SrcFactsError("expected exactly one switch(item->op) in qt_process_blocking_call, found %d" % len(sw))
    sw = sw[0]
    body = inner(sw)[-1]
    if body.get("kind") != "CompoundStmt":
        raise SrcFactsError("switch body is not a compound statement")
    flat = []
    for st in inner(body):
        flatten_labels(st, flat)
    # expand compound case bodies in place: a break at that level leaves the switch
    flat2 = []
    for e in flat:
        if e[0] == "stmt" and e[1].get("kind") == "CompoundStmt":
            for c in inner(e[1]):
                if c.get("kind") in ("CaseStmt", "DefaultStmt"):
                    raise SrcFactsError("switch(item->op): label inside a nested block is outside the recognised subset")
                flat2.append(("stmt", c))
        else:
            flat2.append(e)
    elems = []
    localdefs = {}
    for e in flat2:
        if e[0] == "case":
            elems.append("SCase " + e[1])
            continue
        if e[0] == "default":
            elems.append("SDefault")
            continue
        s = e[1]
        if s.get("kind") == "BreakStmt":
            elems.append("SBreak")
            continue
        for n in walk(s):
            k = n.get("kind")
            if k in ("BreakStmt", "ContinueStmt", "ReturnStmt", "GotoStmt", "CaseStmt", "DefaultStmt", "SwitchStmt"):
                raise SrcFactsError("switch(item->op): nested %s is outside the recognised subset" % k)
        calls = [n for n in walk(s) if n.get("kind") == "CallExpr"]
        cond = [n for n in walk(s) if n.get("kind") in ("IfStmt", "WhileStmt", "ForStmt", "ConditionalOperator")]
        # locals defined straight from a slot: T v = (T)item->args[k];  /  v = (T)item->args[k];
        for n in walk(s):
            tgt, init = None, None
            if n.get("kind") == "VarDecl" and inner(n):
                tgt, init, tty = n.get("name"), inner(n)[-1], qtype(n)
            elif n.get("kind") == "BinaryOperator" and n.get("opcode") == "=" and strip(inner(n)[0]).get("kind") == "DeclRefExpr" \
                    and strip(inner(n)[0])["referencedDecl"].get("kind") == "VarDecl":
                tgt, init, tty = strip(inner(n)[0])["referencedDecl"]["name"], inner(n)[1], qtype(strip(inner(n)[0]))
            if tgt is None:
                continue
            i0 = strip(init)
            k = slot_of(inner(i0)[0], "item") if i0.get("kind") == "CStyleCastExpr" else slot_of(i0, "item")
            if k is not None:
                cty = ctype_of(qtype(i0) if i0.get("kind") == "CStyleCastExpr" else tty, "io.c local " + tgt)
                if cty != ctype_of(tty, "io.c local " + tgt):
                    raise SrcFactsError("switch(item->op): local %s is initialised through a cast to a different type" % tgt)
                localdefs[tgt] = (k, "cast:" + cty)
        for c in calls:
            nm = callee_name(c)
            if nm in ("memcpy", "__builtin_memcpy", "__builtin___memcpy_chk"):
                dst, src = addr_of(inner(c)[1]), addr_of(inner(c)[2])
                if dst is not None and dst.get("kind") == "DeclRefExpr" and src is not None:
                    k = slot_of(src, "item")
                    if k is not None:
                        localdefs[dst["referencedDecl"]["name"]] = (k, sizeof_width(inner(c)[3], "io.c memcpy"))
                        continue
                raise SrcFactsError("switch(item->op): memcpy that is not 'local <- item->args[k]'")
            if nm in IGNORED_CALLS:
                continue
            if cond:
                raise SrcFactsError("switch(item->op): call to %s under a condition/loop is outside the recognised subset" % nm)
            to_ret = False
            top = strip(s)
            if top.get("kind") == "BinaryOperator" and top.get("opcode") == "=" and member_of(inner(top)[0], "item", "ret") \
                    and strip(inner(top)[1]) is c:
                to_ret = True
            f = SYSNAMES.get(nm, "SysUnknown")
            args = [argspec(a, "item", localdefs, "io.c call of %s" % nm) for a in inner(c)[1:]]
            elems.append("SCall %s [%s] %s" % (f, "; ".join(args), "true" if to_ret else "false"))
    return sw, elems


def ops_of_cond(e, fn):
    """ops for which the condition expression holds; e is an expression over item->op"""
    e = strip(e)
    if e.get("kind") == "DeclRefExpr" and e["referencedDecl"].get("kind") == "VarDecl":
        nm = e["referencedDecl"]["name"]
        for n in walk(fn):
            if n.get("kind") == "VarDecl" and n.get("name") == nm and inner(n):
                return ops_of_cond(inner(n)[-1], fn)
        raise SrcFactsError("free condition variable %s has no initialiser" % nm)
    if e.get("kind") == "BinaryOperator":
        o = e.get("opcode")
        a, b = inner(e)
        if o in ("==", "!="):
            c = None
            if member_of(a, "item", "op"):
                c = enum_const(b)
            elif member_of(b, "item", "op"):
                c = enum_const(a)
            if c is None:
                raise SrcFactsError("free condition compares something other than item->op with an enum constant")
            return [c] if o == "==" else [x for x in OPS if x != c]
        if o == "||":
            l, r = ops_of_cond(a, fn), ops_of_cond(b, fn)
            return [x for x in OPS if x in l or x in r]
        if o == "&&":
            l, r = ops_of_cond(a, fn), ops_of_cond(b, fn)
            return [x for x in OPS if x in l and x in r]
    if e.get("kind") == "IntegerLiteral":
        return list(OPS) if int(e["value"]) != 0 else []
    raise SrcFactsError("condition guarding FREE_SYSCALLJOB(item) is outside the recognised subset")


def proxy_tail(fn, sw):
    """events after the switch, in source order"""
    body = [c for c in inner(fn) if c.get("kind") == "CompoundStmt"][0]
    sts = inner(body)
    idx = None
    for i, s in enumerate(sts):
        if any(n is sw for n in walk(s)):
            idx = i
    if idx is None or not (sts[idx] is sw):
        raise SrcFactsError("switch(item->op) is not a top-level statement of qt_process_blocking_call")
    # nothing before the switch may free / requeue
    for s in sts[:idx]:
        for n in walk(s):
            if n.get("kind") == "CallExpr" and (is_pool_call(n, "qt_mpool_free") or callee_name(n) == "qt_threadqueue_enqueue"):
                raise SrcFactsError("free/requeue before the switch")
    for n in walk(sw):
        if n.get("kind") == "CallExpr" and (is_pool_call(n, "qt_mpool_free") or callee_name(n) == "qt_threadqueue_enqueue"):
            raise SrcFactsError("free/requeue inside the switch")
    for s0 in sts[:idx + 1]:
        for n in walk(s0):
            if n.get("kind") == "BinaryOperator" and n.get("opcode") == "=" and member_of(inner(n)[0], "item", "err"):
                raise SrcFactsError("item->err is written before the proxied call has finished")
    ev = []

    def visit(s, ops):
        k = s.get("kind")
        if k == "IfStmt":
            parts = inner(s)
            cond, then = parts[0], parts[1]
            o = ops_of_cond(cond, fn)
            visit(then, [x for x in ops if x in o])
            if len(parts) > 2:
                visit(parts[2], [x for x in ops if x not in o])
            return
        if k in ("WhileStmt", "ForStmt", "DoStmt", "SwitchStmt"):
            for n in walk(s):
                if n.get("kind") == "CallExpr" and (is_pool_call(n, "qt_mpool_free") or callee_name(n) == "qt_threadqueue_enqueue"):
                    raise SrcFactsError("free/requeue inside a loop after the switch")
            return
        if k == "BinaryOperator" and s.get("opcode") == "=" and member_of(inner(s)[0], "item", "err"):
            if not is_errno(inner(s)[1]):
                raise SrcFactsError("item->err is assigned something other than errno")
            if ops != OPS:
                raise SrcFactsError("conditional item->err = errno is outside the recognised subset")
            ev.append("PStoreErr")
            return
        if k == "BinaryOperator" and s.get("opcode") == "=" and is_errno(inner(s)[0]):
            raise SrcFactsError("the proxy assigns errno after the switch")
        if k == "CallExpr":
            if is_pool_call(s, "qt_mpool_free"):
                a = strip(inner(s)[2])
                if not (a.get("kind") == "DeclRefExpr" and a["referencedDecl"]["name"] == "item"):
                    raise SrcFactsError("proxy frees something other than item")
                ev.append("PFree [%s]" % "; ".join(ops))
                return
            if callee_name(s) == "qt_threadqueue_enqueue":
                if not member_of(inner(s)[2], "item", "thread"):
                    raise SrcFactsError("proxy requeues something other than item->thread")
                if ops != OPS:
                    raise SrcFactsError("conditional requeue is outside the recognised subset")
                ev.append("PRequeue")
                return
        for c in inner(s):
            if isinstance(c, dict) and c.get("kind") not in ("VarDecl",):
                visit(c, ops)
            elif isinstance(c, dict):
                pass

    for s in sts[idx + 1:]:
        visit(s, list(OPS))
    return ev


# ---------------------------------------------------------------- wrappers
def wrapper_facts(fn, fname):
    """fn: FunctionDecl with a body.  Returns None when the function never parks through a job."""
    params = [c for c in inner(fn) if c.get("kind") == "ParmVarDecl"]
    pnames = [p.get("name") for p in params]
    body = [c for c in inner(fn) if c.get("kind") == "CompoundStmt"][0]
    has_alloc = any(n.get("kind") == "CallExpr" and is_pool_call(n, "qt_mpool_alloc") for n in walk(body))
    has_park = any(n.get("kind") == "CallExpr" and callee_name(n) == "qthread_back_to_master" for n in walk(body))
    if not has_alloc:
        return {"name": fname, "job": False, "parks": has_park,
                "yields": any(n.get("kind") == "CallExpr" and callee_name(n) in ("qthread_yield", "qthread_yield_") for n in walk(body))}
    where = fname
    ptypes = [ctype_of(qtype(p), where + " parameter " + str(p.get("name"))) for p in params]
    rt = fn["type"]["qualType"].split("(")[0].strip()
    # desugar the return type through the declared variable that is returned
    events = []
    op = [None]
    jobvar = [None]
    retvar = [None]
    rettype = [None]

    def pidx(n):
        n = strip(n)
        if n.get("kind") == "CStyleCastExpr":
            n = strip(inner(n)[0])
        if n.get("kind") == "DeclRefExpr" and n["referencedDecl"]["name"] in pnames and n["referencedDecl"].get("kind") == "ParmVarDecl":
            return pnames.index(n["referencedDecl"]["name"])
        a = addr_of(n)
        if a is not None:
            # &(fds[0]) of an array parameter
            if a.get("kind") == "ArraySubscriptExpr":
                b, i = strip(inner(a)[0]), strip(inner(a)[1])
                if b.get("kind") == "DeclRefExpr" and b["referencedDecl"]["name"] in pnames and i.get("kind") == "IntegerLiteral" and int(i["value"]) == 0:
                    return pnames.index(b["referencedDecl"]["name"])
        return None

    def visit(s):
        k = s.get("kind")
        if k in ("WhileStmt", "ForStmt", "DoStmt", "SwitchStmt", "GotoStmt"):
            for n in walk(s):
                if n.get("kind") == "CallExpr" and (is_pool_call(n, "qt_mpool_alloc") or is_pool_call(n, "qt_mpool_free")
                                                    or callee_name(n) == "qthread_back_to_master"):
                    raise SrcFactsError("%s: job protocol inside a loop is outside the recognised subset" % where)
            return
        if k == "VarDecl":
            if inner(s):
                init = strip(inner(s)[-1])
                if init.get("kind") == "CStyleCastExpr":
                    init = strip(inner(init)[0])
                if init.get("kind") == "CallExpr" and is_pool_call(init, "qt_mpool_alloc"):
                    jobvar[0] = s["name"]
                    events.append("WAlloc")
                    return
                for c in inner(s):
                    visit(c)
            return
        if k == "BinaryOperator" and s.get("opcode") == "=":
            lhs, rhs = inner(s)
            j = jobvar[0]
            if j is not None:
                if member_of(lhs, j, "op"):
                    c = enum_const(rhs)
                    if c is None or c not in OPS:
                        raise SrcFactsError("%s: job->op is not assigned an enum constant" % where)
                    op[0] = c
                    events.append("WSetOp")
                    return
                if member_of(lhs, j, "thread"):
                    events.append("WSetThread")
                    return
                if member_of(lhs, j, "next"):
                    return
                k2 = slot_of(lhs, j)
                if k2 is not None:
                    p = pidx(rhs)
                    if p is None:
                        raise SrcFactsError("%s: job->args[%d] is assigned something that is not a parameter" % (where, k2))
                    events.append("WMarshal %d %d InCast" % (k2, p))
                    return
                r = strip(rhs)
                if member_of(r, j, "ret"):
                    l = strip(lhs)
                    if l.get("kind") != "DeclRefExpr":
                        raise SrcFactsError("%s: job->ret is read into something that is not a local" % where)
                    retvar[0] = l["referencedDecl"]["name"]
                    rettype[0] = ctype_of(qtype(l), where + " return variable")
                    events.append("WReadRet")
                    return
            l = strip(lhs)
            if l.get("kind") == "MemberExpr" and l.get("name") == "thread_state":
                c = enum_const(rhs)
                if c != "QTHREAD_STATE_SYSCALL":
                    raise SrcFactsError("%s: thread_state set to %s" % (where, c))
                events.append("WSetState")
                return
            if l.get("kind") == "MemberExpr" and l.get("name") == "io":
                r = strip(rhs)
                if not (r.get("kind") == "DeclRefExpr" and r["referencedDecl"]["name"] == jobvar[0]):
                    raise SrcFactsError("%s: blockedon.io is not set to the job" % where)
                events.append("WSetBlockedOn")
                return
            # assignment of the alloc result to an already declared variable
            r = strip(rhs)
            if r.get("kind") == "CStyleCastExpr":
                r = strip(inner(r)[0])
            if r.get("kind") == "CallExpr" and is_pool_call(r, "qt_mpool_alloc") and l.get("kind") == "DeclRefExpr":
                jobvar[0] = l["referencedDecl"]["name"]
                events.append("WAlloc")
                return
        if k == "CallExpr":
            nm = callee_name(s)
            if nm in ("memcpy", "__builtin_memcpy", "__builtin___memcpy_chk"):
                dst, src = addr_of(inner(s)[1]), addr_of(inner(s)[2])
                k2 = slot_of(dst, jobvar[0]) if (dst is not None and jobvar[0]) else None
                if k2 is None:
                    raise SrcFactsError("%s: memcpy whose destination is not job->args[k]" % where)
                if src is None or src.get("kind") != "DeclRefExpr" or src["referencedDecl"]["name"] not in pnames:
                    raise SrcFactsError("%s: memcpy into job->args[%d] from something that is not a parameter" % (where, k2))
                events.append("WMarshal %d %d (InMemcpy %s)" % (k2, pnames.index(src["referencedDecl"]["name"]),
                                                                sizeof_width(inner(s)[3], where + " memcpy")))
                return
            if is_pool_call(s, "qt_mpool_free"):
                a = strip(inner(s)[2])
                if not (a.get("kind") == "DeclRefExpr" and a["referencedDecl"]["name"] == jobvar[0]):
                    raise SrcFactsError("%s: frees something other than its job" % where)
                events.append("WFree")
                return
            if is_pool_call(s, "qt_mpool_alloc"):
                raise SrcFactsError("%s: job allocation in an unrecognised position" % where)
            if nm == "qthread_back_to_master":
                events.append("WPark")
                return
        if k == "ReturnStmt":
            if inner(s):
                r = strip(inner(s)[0])
                if r.get("kind") == "DeclRefExpr" and r["referencedDecl"]["name"] == retvar[0]:
                    events.append("WReturnRet")
                else:
                    raise SrcFactsError("%s: returns something other than the value read from job->ret" % where)
            else:
                events.append("WReturnVoid")
            return
        if k == "IfStmt":
            parts = inner(s)
            cond = strip(parts[0])
            if cond.get("kind") == "BinaryOperator" and retvar[0] is not None:
                l, r = strip(inner(cond)[0]), strip(inner(cond)[1])
                if l.get("kind") == "DeclRefExpr" and l["referencedDecl"]["name"] == retvar[0]:
                    o = cond.get("opcode")
                    c = None
                    if o == "<" and r.get("kind") == "IntegerLiteral" and int(r["value"]) == 0:
                        c = "ErrNeg"
                    if o == "==" and r.get("kind") == "UnaryOperator" and r.get("opcode") == "-" and \
                            strip(inner(r)[0]).get("kind") == "IntegerLiteral" and int(strip(inner(r)[0])["value"]) == 1:
                        c = "ErrMinus1"
                    if c is None or len(parts) > 2:
                        raise SrcFactsError("%s: test on the call's result is outside the recognised subset" % where)
                    body_st = [x for x in (inner(parts[1]) if parts[1].get("kind") == "CompoundStmt" else [parts[1]])]
                    if len(body_st) != 1:
                        raise SrcFactsError("%s: errno restore block is outside the recognised subset" % where)
                    a0 = strip(body_st[0])
                    if not (a0.get("kind") == "BinaryOperator" and a0.get("opcode") == "=" and is_errno(inner(a0)[0])
                            and member_of(inner(a0)[1], jobvar[0], "err")):
                        raise SrcFactsError("%s: block under the result test is not 'errno = job->err'" % where)
                    events.append("WRestoreErr " + c)
                    return
            # if (in a qthread) { ... } else { not a task }: the task path is the then-branch
            visit(parts[1])
            return
        if k == "BinaryOperator" and s.get("opcode") == "=" and is_errno(inner(s)[0]):
            raise SrcFactsError("%s: unconditional assignment to errno is outside the recognised subset" % where)
        for c in inner(s):
            if isinstance(c, dict):
                visit(c)

    visit(body)
    if op[0] is None:
        raise SrcFactsError("%s: allocates a job but never sets job->op" % where)
    if not any(e.startswith("WReturn") for e in events):
        events.append("WReturnVoid")
    if rt == "void":
        wret = "None"
    else:
        frt = ctype_of(fn["type"].get("desugaredQualType", fn["type"]["qualType"]).split("(")[0].strip()
                       if "desugaredQualType" in fn["type"] else _ret_desugar(rt, where), where + " return type")
        wret = "(Some %s)" % (rettype[0] or frt)
        if rettype[0] and rettype[0] != frt:
            raise SrcFactsError("%s: return variable type differs from the function's return type" % where)
    return {"name": fname, "job": True, "op": op[0], "params": ptypes, "ret": wret, "events": events}


def _ret_desugar(rt, where):
    m = {"ssize_t": "long", "pid_t": "int", "int": "int", "unsigned int": "unsigned int", "long": "long"}
    if rt in m:
        return m[rt]
    raise SrcFactsError("%s: return type %s is outside the modelled scalar types" % (where, rt))


def end_action_facts(fn):
    body = [c for c in inner(fn) if c.get("kind") == "CompoundStmt"][0]
    ev = []
    for n in walk(body):
        if n.get("kind") == "CallExpr":
            if is_pool_call(n, "qt_mpool_alloc") or is_pool_call(n, "qt_mpool_free"):
                raise SrcFactsError("qt_end_blocking_action touches the job pool")
            if callee_name(n) == "qthread_back_to_master":
                ev.append("WPark")
    ev.append("WReturnVoid")
    return ev


# ---------------------------------------------------------------- main
def enum_facts(objs):
    for o in objs:
        for n in walk(o):
            if n.get("kind") == "EnumDecl" and n.get("name") == "blocking_syscalls":
                return [c["name"] for c in inner(n) if c.get("kind") == "EnumConstantDecl"]
    raise SrcFactsError("enum blocking_syscalls not found")


def generate(repo):
    src = os.path.join(repo, "src")
    jobs = {"io": (os.path.join(src, "io.c"), "qt_process_blocking_call"),
            "enum": (os.path.join(src, "io.c"), "blocking_syscalls")}
    for f in SYSCALL_FILES:
        jobs["w_" + f] = (os.path.join(src, "syscalls", f + ".c"), "qt_")
    for k, (p, _) in jobs.items():
        if not os.path.exists(p):
            raise SrcFactsError("source file missing: " + p)
    with ThreadPoolExecutor(max_workers=4) as ex:
        futs = {k: ex.submit(ast_dump, repo, p, flt) for k, (p, flt) in jobs.items()}
        asts = {k: f.result() for k, f in futs.items()}
    enum = enum_facts(asts["enum"])
    if enum != OPS:
        raise SrcFactsError("enum blocking_syscalls changed: %s (Io/Base.v models %s)" % (enum, OPS))
    fn = find_def(asts["io"], "qt_process_blocking_call")
    sw, elems = switch_facts(fn)
    tail = proxy_tail(fn, sw)
    wrappers = []
    nojob = []
    end_ev = None
    for f in SYSCALL_FILES:
        path = os.path.join(src, "syscalls", f + ".c")
        for o in asts["w_" + f]:
            if o.get("kind") != "FunctionDecl" or not o.get("name", "").startswith("qt_"):
                continue
            if not any(c.get("kind") == "CompoundStmt" for c in inner(o)):
                continue
            if o.get("loc", {}).get("includedFrom") and o["loc"].get("file", path) != path:
                continue   # static inline helpers of headers (qt_blockable, ...)
            if o.get("storageClass") == "static":
                continue
            if o["name"] == "qt_end_blocking_action":
                end_ev = end_action_facts(o)
                continue
            w = wrapper_facts(o, o["name"])
            if w["job"]:
                wrappers.append(w)
            else:
                nojob.append(w)
    if end_ev is None:
        raise SrcFactsError("qt_end_blocking_action not found")
    L = []
    L.append("(* GENERATED by tools/c20_srcfacts.py from the working tree -- do not edit.  Regenerated on every ./check C20. *)")
    L.append("From Coq Require Import List String.")
    L.append("From QV Require Import Io.Base.")
    L.append("Import ListNotations.")
    L.append("Local Open Scope string_scope.")
    L.append("")
    L.append("(* flat body of switch(item->op) in qt_process_blocking_call, source order *)")
    L.append("Definition switch_body : list switch_elem :=\n  [ " + ";\n    ".join(elems) + " ].")
    L.append("")
    L.append("(* statements after the switch *)")
    L.append("Definition proxy_tail : list pevent :=\n  [ " + ";\n    ".join(tail) + " ].")
    L.append("")
    L.append("(* wrappers of src/syscalls/*.c that hand a job to the proxy *)")
    ws = []
    for w in wrappers:
        ws.append('mkWrapper "%s" %s [%s] %s\n      [%s]' % (w["name"], w["op"], "; ".join(w["params"]), w["ret"], "; ".join(w["events"])))
    L.append("Definition wrappers : list wrapper :=\n  [ " + ";\n    ".join(ws) + " ].")
    L.append("")
    L.append("(* qt_end_blocking_action *)")
    L.append("Definition end_action_events : list wevent := [%s]." % "; ".join(end_ev))
    L.append("")
    L.append("(* entry points of src/syscalls/*.c that never create a job (name, parks, yields) *)")
    L.append("Definition nojob_wrappers : list (string * bool * bool) :=\n  [ " + ";\n    ".join(
        '("%s", %s, %s)' % (w["name"], "true" if w["parks"] else "false", "true" if w["yields"] else "false") for w in nojob) + " ].")
    L.append("")
    text = "\n".join(L)
    facts = {"switch": elems, "tail": tail, "wrappers": wrappers, "nojob": nojob, "end": end_ev}
    return text, facts


def write_if_changed(text, out=OUT):
    old = open(out).read() if os.path.exists(out) else None
    if old != text:
        tmp = out + ".tmp%d" % os.getpid()
        with open(tmp, "w") as f:
            f.write(text)
        os.replace(tmp, out)
        return True
    return False


if __name__ == "__main__":
    repo = sys.argv[1] if len(sys.argv) > 1 else os.environ.get("VERIF_REPO", "/repo")
    try:
        text, facts = generate(repo)
    except SrcFactsError as e:
        print("c20_srcfacts: " + str(e), file=sys.stderr)
        sys.exit(1)
    ch = write_if_changed(text)
    print(("updated " if ch else "unchanged ") + OUT)
