#!/usr/bin/env python3
"""compose /verif/MANIFEST.json from manifest/C*.json fragments (one per claimed property) + manifest/_base.json"""
import json, glob, os, sys
V = os.path.dirname(os.path.dirname(os.path.abspath(__file__)))
base = json.load(open(os.path.join(V, "manifest", "_base.json")))
checks = []
claimed = set()
accepted = set(open(os.path.join(V, "manifest", "_accepted.txt")).read().split())
CATS = ["exploration", "fault_enumeration", "model_checking", "proof", "translation_validation", "other"]
for f in sorted(glob.glob(os.path.join(V, "manifest", "C*.json"))):
    c = json.load(open(f))
    pid = c["property_id"]
    if pid not in accepted:
        continue
    if c["level_claimed"].get("category") not in CATS:
        c["level_claimed"]["text"] = "(%s) " % c["level_claimed"].get("category") + c["level_claimed"].get("text", "")
        c["level_claimed"]["category"] = "proof"
    for k in list(c):
        if k not in ("property_id", "quick_cmd", "thorough_cmd", "evidence_file", "replay_cmd_template", "engine", "level_claimed", "level_note", "technique"):
            c.setdefault("level_note", ""); c["level_note"] += " [%s: %s]" % (k, json.dumps(c.pop(k))[:400])
    c.setdefault("quick_cmd", "./check %s --tier quick" % pid)
    c.setdefault("thorough_cmd", "./check %s --tier thorough" % pid)
    c.setdefault("evidence_file", "/verif/evidence/%s.json" % pid)
    c.setdefault("replay_cmd_template", "./check %s --replay {path}" % pid)
    c.setdefault("engine", "coq+correspondence")
    checks.append(c); claimed.add(pid)
props = [json.loads(l)["id"] for l in open(os.path.join(V, "properties.jsonl"))]
na = [x for x in base.pop("not_applicable_reasons", []) if x["property_id"] not in claimed]
missing = [p for p in props if p not in claimed and p not in [x["property_id"] for x in na]]
for p in missing:
    na.append({"property_id": p, "reason": "not yet claimed: the check for this property is still being built (see DESIGN.md section 10)"})
m = dict(base); m["checks"] = checks; m["not_applicable"] = na
json.dump(m, open(os.path.join(V, "MANIFEST.json"), "w"), indent=1)
try:
    import jsonschema
    jsonschema.validate(m, json.load(open("/root/.vp/MANIFEST.schema.json")))
    print("MANIFEST.json valid: %d checks, %d not_applicable" % (len(checks), len(na)))
except ImportError:
    print("written (jsonschema not available)")
