#!/usr/bin/env python3
"""C01 micro-step investigation (not part of ./check): searches the micro-step model Feb/Micro.v exhaustively for schedules
of two API calls on one word that no order of the two atomic cell operations explains, and replays each of them on the real
feb.c (harness/c/c01_micro.c: the first mover is held right after its first qt_hash_unlock, the other call runs, the first
mover is released).  usage: tools/c01_micro_probe.py [repo]"""
import os, re, sys
sys.path.insert(0, os.path.join(os.path.dirname(os.path.dirname(os.path.abspath(__file__))), "lib"))
if len(sys.argv) > 1:
    os.environ["VERIF_REPO"] = sys.argv[1]
from verif import core
from verif.props import _feb_common as fc


def explain(opa, va, opb, vb, out):
    """is (resA, resB, full, word) the result of the two atomic operations in some order (initial cell full, 5)?"""
    def app(c, name, v):
        kind, src, dm, nb = fc.canon(name, 0, v)
        r = fc.atomic(c, kind, src)
        if r is None:
            return (c, (fc.OPFAIL, None)) if nb else None
        c1, got = r
        return c1, (0, fc.expect_val(kind, 0 if kind in ("readFE", "readFF", "readXX") else 1, got))

    def seq(first, second):
        c = (1, 5)
        r1 = app(c, *first)
        if r1 is not None:
            c1, x = r1
            r2 = app(c1, *second)
            return (x, r2[1], r2[0]) if r2 else (x, None, c1)
        r2 = app(c, *second)
        if r2 is None:
            return (None, None, c)
        c1, y = r2
        r1 = app(c1, *first)
        return (r1[1], y, r1[0]) if r1 else (None, y, c1)
    a, b = (opa, va), (opb, vb)
    x = seq(a, b)
    y = seq(b, a)
    cands = [(x[0], x[1], x[2]), (y[1], y[0], y[2])]
    return out in cands, cands


def main():
    ctx = core.Ctx("C01", "quick", 1)
    try:
        drv = ctx.model_driver("c01micro_driver")
        rc, out, err = core.sh([drv], timeout=300)
        bad = [l for l in out.splitlines() if l.startswith("BAD")]
        print(out.splitlines()[-1])
        exe = ctx.link("c01_micro", ["c01_micro.c"], exclude=["feb.c"])
        lines, meta = [], []
        for l in bad:
            m = re.match(r"BAD init=(\w+) A=(\w+) B=(\w+) .*schedule=(\d+) outcome: A=(\S+) B=(\S+) full=(\w+) word=(\d+)", l)
            init, a, b, sched, ra, rb, full, word = m.groups()
            if init != "absent":
                continue
            first = sched[0]
            # the first mover is held after its first qt_hash_unlock; harness task "A" is the held one
            if first == "0":
                lines.append("m %s 11 1 %s 22" % (a, b)); meta.append((a, 11, b, 22, False, l))
            else:
                lines.append("m %s 22 1 %s 11" % (b, a)); meta.append((b, 22, a, 11, True, l))
        rc, o, e = core.run_lines(exe, lines, timeout=120, env=core.qenv(3, 1, stack=65536))
        res = [x for x in o if x.startswith("A=")]
        nbad = 0
        for (held, vh, other, vo, swapped, l), r in zip(meta, res):
            m = re.match(r"A=(\S+):(\S+) B=(\S+):(\S+) status=(\d) word=(-?\d+) paused=(\d)", r)
            def rr(c, v):
                return None if c == "BLK" else (int(c), None if v == "-" else int(v))
            outc = (rr(m.group(1), m.group(2)), rr(m.group(3), m.group(4)), (int(m.group(5)), int(m.group(6))))
            ok, cands = explain(held, vh, other, vo, outc)
            nbad += (not ok)
            print("%-11s held after its lookup | %-11s runs | real code: %s | %s" % (held, other, r, "linearisable" if ok else "NOT explained by any order; orders give %s" % (cands,)))
        print("# %d model schedules replayed on the real code, %d non-linearisable outcomes reproduced" % (len(res), nbad))
    finally:
        ctx.cleanup()


main()
