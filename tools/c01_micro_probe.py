#!/usr/bin/env python3
"""C01 micro-step probe, stand-alone (the same tier runs inside ./check C01): replays the held schedules of the micro-step model
Feb/Micro.v on the real feb.c (harness/c/c01_micro.c) and prints every outcome.  usage: tools/c01_micro_probe.py [repo] [--all]"""
import os, sys
sys.path.insert(0, os.path.join(os.path.dirname(os.path.dirname(os.path.abspath(__file__))), "lib"))
args = [a for a in sys.argv[1:] if not a.startswith("-")]
if args:
    os.environ["VERIF_REPO"] = args[0]
from verif import core
from verif.props import _feb_common as fc

ctx = core.Ctx("C01", "quick", 1)
try:
    fc.run_micro(ctx, "--all" not in sys.argv, verbose=True)
    print("#", ctx.cov["micro"])
    for v in ctx.violations:
        print("# VIOLATION:", v[1])
finally:
    ctx.cleanup()
