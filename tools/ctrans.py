#!/usr/bin/env python3
"""tools/ctrans.py [--repo R] [--out DIR] [--check] UNIT...   (UNIT in UNITS below, or `all`)

Regenerates coq/theories/Gen/<Unit>.v -- Gallina definitions of small pure C kernels -- FROM THE SOURCE of the working
tree (clang -Xclang -ast-dump=json with the repository's flags), DESIGN.md section 4.5.  Written only if changed.

C subset (anything else raises CTransError: the caller treats that as a broken proof obligation, never a skip):
  integer / pointer locals and parameters; + - * / % << >> & | ^ ~ ! unary-; comparisons; && || ?: ; casts;
  = and compound assignments, ++/-- as statements (or in a for-increment); if/else; return; while / for
  (-> Fixpoint on an explicit `fuel : nat`, None when exhausted); do { } while (0); switch with constant labels
  (fall-through = concatenation up to the first top-level break); p->f.g of a pointer variable p (-> a scalar
  variable p_f_g; an input when read before it is written); p[i] and p[i].f (-> a variable of type Z -> Z, written
  with CInt.upd); sizeof and enum constants (values from a second clang pass on a probe file); globals and calls
  listed in the kernel description as inputs / oracle functions; calls to other kernels of the same unit.
Semantics: CInt.v.  Every expression node is wrapped to the type clang reports for it (unless that is statically a
no-op); unsigned / and % by zero, signed / overflow and shift counts >= width give None; `return` inside a kernel that
is a slice of a larger function (outputs = ...) gives None as well (abnormal exit).  Inputs are assumed to be in the
range of their C types (the Tie theorems state that).  Statement-level slicing is explicit in the kernel description
(start / stop patterns, skip_calls, skip_stmts, ignore) and is echoed in the header of the generated file.
"""
import hashlib
import json
import os
import re
import subprocess
import sys

HERE = os.path.dirname(os.path.abspath(__file__))
VERIF = os.path.dirname(HERE)
GENH = os.path.join(VERIF, "harness", "gen_headers")
HARNESS = os.path.join(VERIF, "harness", "c")
OUTDIR = os.path.join(VERIF, "coq", "theories", "Gen")
VERSION = "ctrans-1"


class CTransError(Exception):
    pass


class Opaque(CTransError):
    """the expression reads something that is deliberately not modelled (an opaque pointer, a skipped call)"""


# ---------------------------------------------------------------------------------------------- kernel descriptions
# file: relative to the repo (or "@harness/<f>" for a wrapper file under harness/c that #includes repo files)
# funcs: list of kernels.  Per kernel:
#   name      C function;  as: Gallina name (default = name)
#   outputs   None -> result is the function's return value;  else list of C lvalues (as Gallina variable names)
#   start/stop  regexes on the source text of the top-level statements of the body: first statement included /
#             first statement NOT included any more
#   skip_calls  callees whose call statements (and initialisers / right-hand sides of untracked lvalues) are dropped
#   skip_stmts  regexes: statements dropped without looking inside (assumed not to touch the tracked state)
#   trap_calls  callees that end the execution abnormally (-> None)
#   ignore    Gallina variable names that are not tracked (writes dropped, reads are an error)
#   globals   global variables that may be read (-> inputs)
#   oracles   {callee: [indices of the arguments passed on]} -> input of function type
COMMON_TRAPS = ["abort", "__builtin_trap"]
UNITS = {
    "Qarray": dict(
        file="src/ds/qarray.c",
        funcs=[
            dict(name="qarray_elem_nomigrate"),
            dict(name="qarray_internal_segment_shep"),
            dict(name="qarray_internal_shepof_segidx",
                 oracles={"qthread_num_shepherds": [], "qarray_internal_segment_shep_read": [1]}),
            dict(name="qarray_create_internal", as_="qarray_create_sizes",
                 start=r"^ret->count = count", stop=r"^qthread_debug",
                 outputs=["ret_unit_size", "ret_segment_bytes", "ret_segment_size", "ret_dist_type", "segment_count"],
                 ignore=["ret_count"], globals=["_pagesize"], oracles={"qt_lcm": [0, 1]}),
        ]),
    "Qloop": dict(
        file="src/qloop.c",
        funcs=[
            dict(name="qt_loop_balance_inner", as_="qt_loop_balance_split",
                 stop=r"^switch \(sync_type\) \{\s*case SYNCVAR_T:\s*case ALIGNED:\s*case SINC_T:",
                 outputs=["maxworkers", "qwa_startat", "qwa_stopat"],
                 ignore=["internal_flags", "qwa_spawn_flags", "qwa_id", "qwa_level", "qwa_spawnthreads",
                         "qwa_sync_type", "sync_dc", "qwa_func", "qwa_arg", "qwa_sync"],
                 skip_calls=["qt_malloc", "qt_internal_aligned_alloc", "qt_sinc_create", "qthread_empty", "memset"],
                 oracles={"qthread_num_workers": []}),
            dict(name="qt_loopaccum_balance_inner", as_="qt_loopaccum_balance_split",
                 stop=r"^switch \(sync_type\) \{\s*case SYNCVAR_T:\s*case ALIGNED:\s*qassert",
                 outputs=["maxworkers", "qwa_startat", "qwa_stopat"],
                 ignore=["spawn_flags", "qwa_id", "qwa_level", "qwa_spawnthreads", "qwa_sync_type", "sync_dc",
                         "qwa_func", "qwa_arg", "qwa_sync", "qwa_ret", "realrets"],
                 skip_calls=["qt_malloc", "qt_sinc_create", "memset"],
                 oracles={"qthread_num_workers": []}),
            # queue-loop cursors: the arithmetic between the shared accesses; the atomic operation itself is an oracle
            dict(name="qqloop_get_iterations_chunked", as_="qq_chunked", stop=r"^return retval",
                 outputs=["range_startat", "range_stopat", "retval"],
                 oracles={"__sync_fetch_and_add_8": ("fetch_add", [1]), "__sync_fetch_and_add": ("fetch_add", [1]),
                          "qthread_incr_xx": ("fetch_add", [1])}),
            dict(name="qqloop_get_iterations_guided", as_="qq_guided_claim",
                 inside=[r"^if \(ret != ret2\)", r"^while \(ret < iq->stop\)"], start=r"^iterations\s*=", stop=r"^if \(ret == ret2\)",
                 outputs=["iterations", "ret2"], oracles={"__sync_val_compare_and_swap_8": ("cas", [1, 2]), "__sync_val_compare_and_swap": ("cas", [1, 2])}),
            dict(name="qqloop_get_iterations_factored", as_="qq_factored_phase",
                 inside=[r"^while \(ret < iq->stop && ret != ret2\)", r"^while \(ret >= phase"],
                 outputs=["phase"], oracles={"__sync_val_compare_and_swap_8": ("cas", [1, 2]), "__sync_val_compare_and_swap": ("cas", [1, 2])}),
            dict(name="qqloop_get_iterations_factored", as_="qq_factored_claim",
                 inside=[r"^while \(ret < iq->stop && ret != ret2\)"], start=r"^iterations\s*=",
                 outputs=["iterations", "ret2"], oracles={"__sync_val_compare_and_swap_8": ("cas", [1, 2]), "__sync_val_compare_and_swap": ("cas", [1, 2])}),
            dict(name="qqloop_get_iterations_timed", as_="qq_timed_slow",
                 inside=[r"^while \(localstart < localstop\)", r"^if \(loop_time >="], outputs=["dynamicBlock"]),
            dict(name="qqloop_get_iterations_timed", as_="qq_timed_claim",
                 inside=[r"^while \(localstart < localstop\)"], start=r"^if \(\(localstart \+ dynamicBlock\) > localstop\)",
                 stop=r"^if \(tmp == localstart\)", outputs=["dynamicBlock", "tmp"],
                 oracles={"__sync_val_compare_and_swap_8": ("cas", [1, 2]), "__sync_val_compare_and_swap": ("cas", [1, 2])}),
        ]),
    "Int60": dict(
        file="@harness/gen_int60.c",
        funcs=[dict(name="gen_INT64TOINT60"), dict(name="gen_INT60TOINT64"), dict(name="gen_BUILD_UNLOCKED_SYNCVAR")]),
    "Dict": dict(
        file="@harness/gen_dict.c",
        funcs=[dict(name="gen_REVERSE_BYTE"), dict(name="so_dummykey"), dict(name="so_regularkey"), dict(name="GET_PARENT"),
               dict(name="qt_hash_put", as_="qt_hash_put_grow", start=r"^size_t csize = h->size", stop=r"^return ret->value",
                    outputs=["h_size"], globals=["hard_max_buckets"], cas_calls=["__sync_val_compare_and_swap_8", "__sync_val_compare_and_swap"],
                    oracles={"__sync_fetch_and_add_8": ("fetch_add", [1]), "__sync_fetch_and_add": ("fetch_add", [1])}),
               dict(name="qt_hash_put", as_="qt_hash_put_index", start=r"^HASH_KEY", stop=r"^assert\(node\)|^node->hashed_key",
                    outputs=["lkey", "bucket"])]),
    "Swsr": dict(
        file="src/ds/qswsrqueue.c",
        funcs=[dict(name="qswsrqueue_create", as_="qswsr_create_size", stop=r"^q = qt_internal_aligned_alloc", outputs=["elements"]),
               dict(name="qswsrqueue_enqueue", as_="qswsr_enq_index", stop=r"^COMPILER_FENCE", outputs=["cur_tail", "next_tail"]),
               dict(name="qswsrqueue_enqueue_blocking", as_="qswsr_enqb_index", stop=r"^do\b", outputs=["cur_tail", "next_tail"]),
               dict(name="qswsrqueue_dequeue", as_="qswsr_deq_index", start=r"^q->head =", stop=r"^return item", outputs=["q_head"]),
               dict(name="qswsrqueue_dequeue_blocking", as_="qswsr_deqb_index", stop=r"^do\b", outputs=["cur_head", "next_head"]),
               dict(name="qswsrqueue_empty", as_="qswsr_empty")]),
    "Hash": dict(
        file="src/ds/dictionary/hash.c",
        funcs=[dict(name="qt_hash64", blocks=[r"^a = a - b$"])]),
    "Hashmap": dict(
        file="src/hashmap.c",
        funcs=[dict(name="encompassing_power_of_two"),
               dict(name="qt_hash_internal_create", as_="qt_hash_create_sizes", stop=r"^ret->entries = qt_internal_aligned_alloc",
                    outputs=["ret_num_entries", "ret_mask"], globals=["_pagesize", "bucketmask"],
                    # the three float thresholds (entries * 0.65f etc.) are outside the integer subset: not tracked here,
                    # tied by the dynamic correspondence of lib/verif/props/_hashmap.py only
                    ignore=["ret_grow_size", "ret_tidy_up_size", "ret_shrink_size"])]),
    "Sinc": dict(
        file="src/sincs/donecount.c",
        funcs=[dict(name="qt_sinc_init", as_="sinc_init_sizes", inside=[r"else:^if \(sizeof_value == 0\)"], stop=r"^qt_sinc_reduction_t",
                    outputs=["sizeof_shep_value_part", "num_lines"], globals=["num_wps", "num_sheps", "cacheline"]),
               dict(name="qt_sinc_init", as_="sinc_init_shep_offset", inside=[r"else:^if \(sizeof_value == 0\)", r"^for \(size_t s = 0"],
                    stop=r"^for \(size_t w = 0", outputs=["shep_offset"]),
               dict(name="qt_sinc_init", as_="sinc_init_worker_offset",
                    inside=[r"else:^if \(sizeof_value == 0\)", r"^for \(size_t s = 0", r"^for \(size_t w = 0"],
                    stop=r"^memcpy", outputs=["worker_offset"]),
               dict(name="qt_sinc_reset", as_="sinc_reset_shep_offset", inside=[r"^if \(rdata\)|^if \(sinc->rdata\)|^if \(NULL != rdata\)", r"^for \(size_t s = 0"],
                    stop=r"^for \(size_t w = 0", outputs=["shep_offset"]),
               dict(name="qt_sinc_internal_collate", as_="sinc_collate_shep_offset", inside=[r"^if \(sinc->rdata\)", r"^for \(qthread_shepherd_id_t s = 0"],
                    stop=r"^for \(size_t w = 0", outputs=["shep_offset"]),
               dict(name="qt_sinc_submit", as_="sinc_submit_slot", inside=[r"^if \(value\)", r"^if \(NULL != value\)"],
                    stop=r"^rdata->op", outputs=["values"]),
               dict(name="qt_sinc_tmpdata", as_="sinc_tmpdata", oracles={"qthread_shep": [], "qthread_readstate": []})]),
    "Gcd": dict(
        file="src/mpool.c",      # a translation unit that includes include/qt_gcd.h (the functions are static inline there)
        funcs=[dict(name="qt_gcd"), dict(name="qt_lcm")]),
    "Ident": dict(
        file="src/qthread.c",
        funcs=[dict(name="qthread_id", skip_stmts=[r"^qthread_debug"],
                    oracles={"qthread_internal_self": [], "__sync_fetch_and_add_8": ("incr", [1], "site"), "qthread_internal_incr": ("incr", [2], "site")})]),
    "Hazard": dict(
        file="src/hazardptrs.c",
        funcs=[dict(name="binary_search")]),
    "Mpool": dict(
        file="src/mpool.c",
        funcs=[dict(name="qt_mpool_create_aligned", as_="qt_mpool_create_sizes",
                    start=r"^if \(max_alloc_size == 0", stop=r"^pool->reuse_pool",
                    outputs=["pool_item_size", "pool_alignment", "pool_alloc_size", "pool_items_per_alloc",
                             "max_alloc_size"],
                    skip_stmts=[r"^qthread_debug", r"^qassert_ret\(\(pool != NULL\)", r"^VALGRIND_"],
                    globals=["_pagesize"], oracles={"qt_lcm": [0, 1], "qt_internal_get_env_num": []})]),
}


# ---------------------------------------------------------------------------------------------- clang
def cppflags(repo):
    return ["-DHAVE_CONFIG_H", "-I%s/src" % repo, "-I%s/include" % repo, "-I%s/include/qthread" % repo,
            "-idirafter", GENH, "-idirafter", GENH + "/qthread", "-I" + HARNESS, "-std=gnu99", "-w"]


def ast_dump(repo, path, filt):
    cmd = ["clang", "-fsyntax-only", "-Xclang", "-ast-dump=json", "-Xclang", "-ast-dump-filter=" + filt] + \
        cppflags(repo) + [path]
    p = subprocess.run(cmd, stdout=subprocess.PIPE, stderr=subprocess.PIPE, universal_newlines=True, timeout=300)
    if p.returncode != 0:
        raise CTransError("clang cannot parse %s:\n%s" % (path, p.stderr[-2000:]))
    dec = json.JSONDecoder()
    s, i, out = p.stdout, 0, []
    n = len(s)
    while True:
        while i < n and s[i] != "{":
            i += 1
        if i >= n:
            break
        obj, i = dec.raw_decode(s, i)
        out.append(obj)
    return out


def inner(n):
    return [c for c in n.get("inner", []) if isinstance(c, dict)]


# ---------------------------------------------------------------------------------------------- C types
ITYPES = {"char": (True, 8), "signed char": (True, 8), "unsigned char": (False, 8), "short": (True, 16),
          "unsigned short": (False, 16), "int": (True, 32), "unsigned int": (False, 32), "long": (True, 64),
          "unsigned long": (False, 64), "long long": (True, 64), "unsigned long long": (False, 64),
          "_Bool": (False, 8)}
TYPEDEFS = {"uintptr_t": (False, 64), "size_t": (False, 64), "aligned_t": (False, 64), "saligned_t": (True, 64),
            "uint64_t": (False, 64), "int64_t": (True, 64), "uint32_t": (False, 32), "int32_t": (True, 32),
            "uint16_t": (False, 16), "uint8_t": (False, 8), "qthread_shepherd_id_t": (False, 16),
            "qthread_worker_id_t": (False, 16), "uint_fast8_t": (False, 8)}


CUR_UNIT = None


class CT:
    """kind 'i' (signed,bits) | 'p' (pointee text) | 'x' (struct/union/function/void: not a scalar)"""

    def __init__(self, kind, signed=False, bits=0, pointee=None, text=""):
        self.kind, self.signed, self.bits, self.pointee, self.text = kind, signed, bits, pointee, text

    def scalar(self):
        return self.kind in "ip"

    def rng(self):
        if self.kind == "p":
            return (0, 2 ** 64 - 1)
        if self.signed:
            return (-2 ** (self.bits - 1), 2 ** (self.bits - 1) - 1)
        return (0, 2 ** self.bits - 1)

    def wrapname(self):
        if self.kind == "p":
            return "wrapU64"
        return "wrap%s%d" % ("S" if self.signed else "U", self.bits)

    def __repr__(self):
        return self.text


def strip_quals(ts):
    ts = re.sub(r"\b(const|volatile|restrict|__restrict)\b", "", ts)
    return " ".join(ts.split()).replace(" *", "*").replace("* ", "*")


def ctype_of_text(ts):
    t = strip_quals(ts)
    if t.endswith("*"):
        return CT("p", pointee=t[:-1].strip(), text=t)
    if "(" in t or "[" in t:
        return CT("x", text=t)
    if t in ITYPES:
        s, b = ITYPES[t]
        return CT("i", s, b, text=t)
    if t in TYPEDEFS:
        s, b = TYPEDEFS[t]
        return CT("i", s, b, text=t)
    if t.startswith("enum "):
        return CT("i", False, 32, text=t)
    if re.match(r"^[A-Za-z_][A-Za-z0-9_]*$", t) and t != "void" and CUR_UNIT is not None:
        # a typedef name clang does not desugar (e.g. typedef enum {...} distribution_t): ask the compiler
        cls = CUR_UNIT.probe("tyclass:" + t, "__builtin_classify_type(*(%s *)0)" % t)
        if cls in (1, 3):
            sz = CUR_UNIT.probe("tysize:" + t, "sizeof(%s)" % t)
            sg = CUR_UNIT.probe("tysign:" + t, "((%s)-1 < (%s)0)" % (t, t))
            return CT("i", bool(sg), 8 * sz, text=t)
        if cls == 5:
            return CT("p", pointee="void", text=t)
    return CT("x", text=t)


def ctype(n):
    t = n.get("type", {})
    c = ctype_of_text(t.get("desugaredQualType", t.get("qualType", "")))
    if c.kind == "x" and "qualType" in t:
        c2 = ctype_of_text(t["qualType"])
        if c2.kind != "x":
            return c2
    return c


def pointee_size(c, where):
    p = c.pointee
    if p in ("char", "void", "unsigned char", "signed char", "uint8_t"):
        return 1
    pc = ctype_of_text(p)
    if pc.kind == "i":
        return pc.bits // 8
    if pc.kind == "p":
        return 8
    raise CTransError("%s: pointer arithmetic on '%s *' (element size unknown to the translator)" % (where, p))


KEYWORDS = {"at", "in", "end", "as", "fix", "for", "if", "let", "match", "return", "then", "else", "with", "fun",
            "forall", "exists", "Type", "Set", "Prop", "using", "where", "cofix", "fuel", "Some", "None", "upd",
            "b2z", "z2b", "list"}


def gname(s):
    s = re.sub(r"[^A-Za-z0-9_]", "_", s)
    if s in KEYWORDS or s.startswith("wrap") or s.startswith("cdiv") or s.startswith("cmod"):
        s += "_"
    return s


# ---------------------------------------------------------------------------------------------- expressions
class E:
    def __init__(self, term, ty, isbool=False, guards=(), lit=None, atomic=False):
        self.term, self.ty, self.isbool, self.guards, self.lit, self.atomic = term, ty, isbool, list(guards), lit, atomic

    def z(self):
        if self.isbool:
            return "(b2z %s)" % self.par()
        return self.term

    def par(self):
        return self.term if self.atomic else "(%s)" % self.term

    def zpar(self):
        return self.z() if (self.atomic or self.isbool) else "(%s)" % self.term

    def b(self):
        if self.isbool:
            return self.term
        if self.lit is not None:
            return "true" if self.lit != 0 else "false"
        return "negb (%s =? 0)" % self.zpar()

    def bpar(self):
        t = self.b()
        return t if re.match(r"^[A-Za-z0-9_']+$", t) else "(%s)" % t


def balanced(t):
    d = 0
    for ch in t:
        if ch == "(":
            d += 1
        elif ch == ")":
            d -= 1
            if d < 0:
                return False
    return d == 0


def zlit(v):
    return str(v) if v >= 0 else "(%d)" % v


class Var:
    def __init__(self, key, name, ty, coqty="Z", cat="local"):
        self.key, self.name, self.ty, self.coqty, self.cat = key, name, ty, coqty, cat


class Kernel:
    """translation of one C function (or a slice of it)"""

    def __init__(self, unit, spec, fdecl, src_by_file):
        self.unit, self.spec, self.fdecl, self.src = unit, spec, fdecl, src_by_file
        self.cname = spec["name"]
        self.gname = spec.get("as_", spec["name"])
        self.vars = {}            # key -> Var
        self.names = {}           # gallina name -> key
        self.inputs = []          # keys, in registration order
        self.param_order = []
        self.loops = []           # text of Fixpoints
        self.nloops = 0
        self.uses_fuel = False
        self.skipped = []         # notes for the header
        self.probes = {}          # probe id -> C expression text (sizeof / enum)  -> value
        self.probe_vals = unit.probe_vals
        self.outputs = spec.get("outputs")
        self.ignore = set(spec.get("ignore", []))
        self.ret_ty = None
        self.cur_file = None
        self.oracle_sites = {}
        self.puns = {}
        self.last_record = None

    # ----- source text
    def loc_off(self, loc):
        if "expansionLoc" in loc:
            loc = loc["expansionLoc"]
        return loc

    def text_of(self, n):
        r = n.get("range")
        if not r:
            return ""
        b, e = self.loc_off(r["begin"]), self.loc_off(r["end"])
        if "offset" not in b or "offset" not in e:
            return ""
        f = self.func_file
        s = self.src.get(f)
        if s is None:
            return ""
        return s[b["offset"]: e["offset"] + e.get("tokLen", 1)].decode("utf-8", "replace")

    def where(self, n):
        t = " ".join(self.text_of(n).split())
        return "%s: `%s`" % (self.cname, t[:90])

    # ----- variables
    def fresh(self, base):
        nm = gname(base)
        k = 0
        cand = nm
        while cand in self.names:
            k += 1
            cand = "%s_%d" % (nm, k)
        return cand

    def declare(self, key, base, ty, coqty="Z", cat="local"):
        if key in self.vars:
            return self.vars[key]
        nm = self.fresh(base)
        v = Var(key, nm, ty, coqty, cat)
        self.vars[key] = v
        self.names[nm] = key
        return v

    def need_input(self, v, env):
        """v is read while not definitely assigned on this path: it is an input of the kernel"""
        if v.key not in self.inputs:
            if v.cat == "local":
                raise CTransError("%s: local variable '%s' may be read before it is assigned" % (self.cname, v.name))
            self.inputs.append(v.key)

    def read_var(self, v, env, n):
        if v.name in self.ignore:
            raise CTransError("%s: reads '%s', which the kernel description declares untracked" % (self.where(n), v.name))
        if v.key in env["opaque"]:
            raise Opaque("%s: reads the unmodelled value of '%s'" % (self.where(n), v.name))
        if v.key not in env["assigned"]:
            self.need_input(v, env)
        return v

    # ----- lvalues
    def lvalue(self, n, env):
        """-> ('var', Var) | ('map', Var, index E);  registers variables"""
        n0 = n
        while n.get("kind") in ("ParenExpr",):
            n = inner(n)[0]
        k = n.get("kind")
        if k == "DeclRefExpr":
            rd = n["referencedDecl"]
            if rd["kind"] in ("ParmVarDecl", "VarDecl"):
                key = ("v", rd["id"])
                if key in self.vars:
                    return ("var", self.vars[key])
                # not declared in the kernel: a global / static / a local declared before the slice starts
                nm = rd["name"]
                if nm in self.spec.get("globals", []) or key in self.static_locals:
                    return ("var", self.declare(("g", nm), nm, ctype(n), cat="global"))
                if key in self.pre_locals:
                    ty = ctype(n)
                    return ("var", self.declare(key, nm, ty, cat="prelocal"))
                raise CTransError("%s: global variable '%s' is not listed as an input of the kernel" % (self.where(n0), nm))
            raise CTransError("%s: reference to a %s" % (self.where(n0), rd["kind"]))
        if k == "MemberExpr":
            path = [n["name"]]
            base = inner(n)[0]
            arrow = n.get("isArrow")
            while not arrow:
                b = self.unparen(base)
                if b.get("kind") == "MemberExpr":
                    path.insert(0, b["name"])
                    arrow = b.get("isArrow")
                    base = inner(b)[0]
                else:
                    break
            b = self.strip_lv(base)
            if arrow and b.get("kind") == "DeclRefExpr" and b["referencedDecl"]["kind"] in ("ParmVarDecl", "VarDecl"):
                rd = b["referencedDecl"]
                key = ("m", rd["id"], ".".join(path))
                return ("var", self.declare(key, rd["name"] + "_" + "_".join(path), ctype(n), cat="mem"))
            if not arrow and b.get("kind") == "DeclRefExpr" and b["referencedDecl"]["kind"] == "VarDecl":
                rd = b["referencedDecl"]       # local struct / union variable: s.f
                key = ("m", rd["id"], ".".join(path))
                return ("var", self.declare(key, rd["name"] + "_" + "_".join(path), ctype(n), cat="mem"))
            if not arrow and b.get("kind") == "ArraySubscriptExpr":
                arr, idx = inner(b)
                a = self.strip_lv(arr)
                if a.get("kind") == "DeclRefExpr" and a["referencedDecl"]["kind"] in ("ParmVarDecl", "VarDecl"):
                    rd = a["referencedDecl"]
                    key = ("a", rd["id"], ".".join(path))
                    v = self.declare(key, rd["name"] + "_" + "_".join(path), ctype(n), coqty="Z -> Z", cat="map")
                    if v.name in self.ignore:
                        return ("map", v, None)
                    return ("map", v, self.expr(idx, env))
            raise CTransError("%s: member access outside the subset (p->f.g, s.f, p[i].f)" % self.where(n0))
        if k == "ArraySubscriptExpr":
            arr, idx = inner(n)
            a = self.strip_lv(arr)
            if a.get("kind") == "DeclRefExpr" and a["referencedDecl"]["kind"] in ("ParmVarDecl", "VarDecl"):
                rd = a["referencedDecl"]
                key = ("a", rd["id"], "")
                v = self.declare(key, rd["name"] + "_at", ctype(n), coqty="Z -> Z", cat="map")
                if v.name in self.ignore:
                    return ("map", v, None)
                return ("map", v, self.expr(idx, env))
            raise CTransError("%s: array access whose base is not a pointer variable" % self.where(n0))
        raise CTransError("%s: lvalue of kind %s is outside the subset" % (self.where(n0), k))

    def unparen(self, n):
        while n.get("kind") == "ParenExpr":
            n = inner(n)[0]
        return n

    def strip_lv(self, n):
        while n.get("kind") in ("ParenExpr", "ImplicitCastExpr") and \
                (n.get("kind") == "ParenExpr" or n.get("castKind") in ("LValueToRValue", "NoOp")):
            n = inner(n)[0]
        return n

    # ----- wrapping
    def wrap(self, term, ty, lo=None, hi=None, atomic=False):
        """term (a Z expression whose value is known to lie in [lo,hi] when given) as a value of type ty"""
        if not ty.scalar():
            raise CTransError("%s: value of non-scalar type %s" % (self.cname, ty))
        a, b = ty.rng()
        if lo is not None and a <= lo and hi <= b:
            return term, atomic
        return "%s %s" % (ty.wrapname(), term if atomic else "(%s)" % term), False

    def conv(self, e, ty):
        """E converted to scalar type ty (cast / assignment)"""
        if e.lit is not None:
            a, b = ty.rng()
            v = e.lit
            if not (a <= v <= b):
                m = b - a + 1
                v = (v - a) % m + a
            return E(zlit(v), ty, lit=v, atomic=True, guards=e.guards)
        if e.isbool:
            return E(e.term, ty, isbool=True, guards=e.guards)
        lo, hi = e.ty.rng()
        t, at = self.wrap(e.term, ty, lo, hi, e.atomic)
        return E(t, ty, guards=e.guards, atomic=at)

    # ----- expressions
    def expr(self, n, env):
        k = n.get("kind")
        ty = ctype(n)
        if k in ("ParenExpr", "ConstantExpr"):
            if k == "ConstantExpr" and "value" in n and ty.kind == "i":
                v = int(n["value"])
                return E(zlit(v), ty, lit=v, atomic=True)
            return self.expr(inner(n)[0], env)
        if k == "IntegerLiteral" or k == "CharacterLiteral":
            v = int(n["value"])
            return E(zlit(v), ty, lit=v, atomic=True)
        if k in ("ImplicitCastExpr", "CStyleCastExpr"):
            ck = n.get("castKind")
            sub = inner(n)[0]
            if ck in ("LValueToRValue",):
                return self.rvalue(sub, env)
            if ck == "NoOp":
                return self.expr(sub, env)
            if ck == "NullToPointer":
                return E("0", ty, lit=0, atomic=True)
            if ck in ("IntegralCast", "PointerToIntegral", "IntegralToPointer", "BitCast", "IntegralToBoolean"):
                e = self.expr(sub, env)
                if not ty.scalar():
                    raise CTransError("%s: cast to non-scalar type" % self.where(n))
                if ck == "IntegralToBoolean":
                    return E(e.b(), ty, isbool=True, guards=e.guards)
                return self.conv(e, ty)
            if ck == "ToVoid":
                raise CTransError("%s: (void) cast inside an expression" % self.where(n))
            raise CTransError("%s: cast kind %s is outside the subset" % (self.where(n), ck))
        if k in ("DeclRefExpr", "MemberExpr", "ArraySubscriptExpr"):
            if k == "DeclRefExpr" and n["referencedDecl"]["kind"] == "EnumConstantDecl":
                v = self.probe("enum:" + n["referencedDecl"]["name"], n["referencedDecl"]["name"])
                return E(zlit(v), ctype_of_text("int"), lit=v, atomic=True)
            raise CTransError("%s: lvalue used without a load" % self.where(n))
        if k == "UnaryExprOrTypeTraitExpr":
            if n.get("name") != "sizeof":
                raise CTransError("%s: %s is outside the subset" % (self.where(n), n.get("name")))
            if "argType" in n:
                txt = n["argType"]["qualType"]
            else:
                txt = inner(n)[0].get("type", {}).get("qualType")
            v = self.probe("sizeof:" + txt, "sizeof(%s)" % txt)
            return E(zlit(v), ty, lit=v, atomic=True)
        if k == "UnaryOperator":
            op = n["opcode"]
            if op in ("++", "--"):
                raise CTransError("%s: %s inside an expression (only allowed as a statement)" % (self.where(n), op))
            if op == "&":
                try:
                    key = self.lvalue_noexpr(inner(n)[0])
                except CTransError:
                    key = None
                v = self.vars.get(key)
                if v is not None and v.ty.kind == "i" and v.name not in self.ignore:
                    raise CTransError("%s: the address of the tracked variable '%s' is taken" % (self.where(n), v.name))
                raise Opaque("%s: address-of (unmodelled pointer value)" % self.where(n))
            if op == "*":
                raise CTransError("%s: unary * is outside the subset" % self.where(n))
            e = self.expr(inner(n)[0], env)
            if op == "!":
                bt = e.b()
                m = re.match(r"^negb \((.*)\)$", bt)
                if m and balanced(m.group(1)):
                    return E(m.group(1), ty, isbool=True, guards=e.guards)
                return E("negb %s" % e.bpar(), ty, isbool=True, guards=e.guards)
            if op == "+":
                return e
            if op == "-":
                if e.lit is not None:
                    return self.conv(E(zlit(-e.lit), ty, lit=-e.lit, atomic=True), ty)
                lo, hi = e.ty.rng()
                t, at = self.wrap("- %s" % e.zpar(), ty, -hi, -lo)
                return E(t, ty, guards=e.guards, atomic=at)
            if op == "~":
                if e.lit is not None:
                    return self.conv(E(zlit(-e.lit - 1), ty, lit=-e.lit - 1, atomic=True), ty)
                lo, hi = e.ty.rng()
                t, at = self.wrap("Z.lnot %s" % e.zpar(), ty, -hi - 1, -lo - 1)
                return E(t, ty, guards=e.guards, atomic=at)
            raise CTransError("%s: unary operator %s" % (self.where(n), op))
        if k == "BinaryOperator":
            return self.binop(n, env, ty)
        if k == "ConditionalOperator":
            c, a, b = [self.expr(x, env) for x in inner(n)]
            if c.lit is not None:
                return a if c.lit else b
            g = list(c.guards)
            if a.guards or b.guards:
                g.append("(if %s then %s else %s)" % (c.b(), self.conj(a.guards), self.conj(b.guards)))
            if a.isbool and b.isbool:
                return E("if %s then %s else %s" % (c.b(), a.term, b.term), ty, isbool=True, guards=g)
            a2, b2 = self.conv(a, ty) if ty.scalar() else a, self.conv(b, ty) if ty.scalar() else b
            return E("if %s then %s else %s" % (c.b(), a2.z(), b2.z()), ty, guards=g)
        if k == "CallExpr":
            return self.call(n, env, ty)
        raise CTransError("%s: expression kind %s is outside the subset" % (self.where(n), k))

    def conj(self, gs):
        return " && ".join(gs) if gs else "true"

    def pun_read(self, n, env):
        """k.b[c] of a punned union (see tr_decl) -> E, else None"""
        m = self.unparen(n)
        if m.get("kind") != "ArraySubscriptExpr":
            return None
        arr, idx = inner(m)
        while arr.get("kind") in ("ParenExpr", "ImplicitCastExpr"):
            arr = inner(arr)[0]
        if arr.get("kind") != "MemberExpr" or arr.get("isArrow"):
            return None
        b = self.unparen(inner(arr)[0])
        if b.get("kind") != "DeclRefExpr" or b["referencedDecl"].get("id") not in self.puns:
            return None
        wv, bf, wf = self.puns[b["referencedDecl"]["id"]]
        if arr.get("name") != bf:
            return None
        i = self.expr(idx, env)
        if i.lit is None or not (0 <= i.lit < 8):
            raise CTransError("%s: byte index of a punned union must be a constant 0..7" % self.where(n))
        self.read_var(wv, env, n)
        bty = ctype_of_text("unsigned char")
        if i.lit == 0:
            return E("Z.land %s 255" % wv.name, bty)
        return E("Z.land (Z.shiftr %s %d) 255" % (wv.name, 8 * i.lit), bty)

    def rvalue(self, n, env):
        pr = self.pun_read(n, env)
        if pr is not None:
            return pr
        lv = self.lvalue(n, env)
        if lv[0] == "var":
            v = self.read_var(lv[1], env, n)
            if not v.ty.scalar():
                raise CTransError("%s: load of a non-scalar" % self.where(n))
            return E(v.name, v.ty, atomic=True)
        v = self.read_var(lv[1], env, n)
        idx = lv[2]
        return E("%s %s" % (v.name, idx.zpar()), v.ty, guards=idx.guards)

    def binop(self, n, env, ty):
        op = n["opcode"]
        ln, rn = inner(n)
        if op == "," or op == "=" or op.endswith("=") and op not in ("==", "!=", "<=", ">="):
            raise CTransError("%s: operator %s inside an expression (only allowed as a statement)" % (self.where(n), op))
        a = self.expr(ln, env)
        b = self.expr(rn, env)
        g = a.guards + b.guards
        if op in ("&&", "||"):
            g = list(a.guards)
            if b.guards:
                g.append("(if %s then %s else %s)" % (a.b(), self.conj(b.guards) if op == "&&" else "true",
                                                     "true" if op == "&&" else self.conj(b.guards)))
            return E("%s %s %s" % (a.bpar(), op, b.bpar()), ty, isbool=True, guards=g)
        if op in ("==", "!=", "<", ">", "<=", ">="):
            x, y = a.zpar(), b.zpar()
            t = {"==": "%s =? %s", "!=": "negb (%s =? %s)", "<": "%s <? %s", ">": "%s <? %s", "<=": "%s <=? %s",
                 ">=": "%s <=? %s"}[op]
            if op in (">", ">="):
                x, y = y, x
            return E(t % (x, y), ty, isbool=True, guards=g)
        # pointer arithmetic
        if ty.kind == "p" and op in ("+", "-"):
            if a.ty.kind == "p" and b.ty.kind == "i":
                sz = pointee_size(a.ty, self.where(n))
                off = b.zpar() if sz == 1 else "(%s * %d)" % (b.zpar(), sz)
                return E("wrapU64 (%s %s %s)" % (a.zpar(), op, off), ty, guards=g)
            if b.ty.kind == "p" and a.ty.kind == "i" and op == "+":
                sz = pointee_size(b.ty, self.where(n))
                off = a.zpar() if sz == 1 else "(%s * %d)" % (a.zpar(), sz)
                return E("wrapU64 (%s + %s)" % (b.zpar(), off), ty, guards=g)
            raise CTransError("%s: pointer arithmetic outside the subset" % self.where(n))
        if a.ty.kind == "p" or b.ty.kind == "p":
            raise CTransError("%s: pointer operands of %s" % (self.where(n), op))
        if ty.kind != "i":
            raise CTransError("%s: arithmetic at type %s" % (self.where(n), ty))
        if a.lit is not None and b.lit is not None and not g:
            # constant folding (the value is then converted to the node's type like any other result)
            v = None
            if op == "+":
                v = a.lit + b.lit
            elif op == "-":
                v = a.lit - b.lit
            elif op == "*":
                v = a.lit * b.lit
            elif op == "<<" and 0 <= b.lit < ty.bits:
                v = a.lit << b.lit
            elif op == ">>" and 0 <= b.lit < ty.bits:
                v = a.lit >> b.lit
            elif op == "&":
                v = a.lit & b.lit
            elif op == "|":
                v = a.lit | b.lit
            elif op == "^":
                v = a.lit ^ b.lit
            if v is not None:
                return self.conv(E(zlit(v), ty, lit=v, atomic=True), ty)
        x, y = a.zpar(), b.zpar()
        alo, ahi = a.ty.rng() if a.lit is None else (a.lit, a.lit)
        blo, bhi = b.ty.rng() if b.lit is None else (b.lit, b.lit)
        if a.isbool:
            alo, ahi = 0, 1
        if b.isbool:
            blo, bhi = 0, 1
        if op == "+":
            t, at = self.wrap("%s + %s" % (x, y), ty, alo + blo, ahi + bhi)
        elif op == "-":
            t, at = self.wrap("%s - %s" % (x, y), ty, alo - bhi, ahi - blo)
        elif op == "*":
            c = [alo * blo, alo * bhi, ahi * blo, ahi * bhi]
            t, at = self.wrap("%s * %s" % (x, y), ty, min(c), max(c))
        elif op in ("/", "%"):
            if b.lit is None:
                g.append("negb (%s =? 0)" % y)
            elif b.lit == 0:
                g.append("false")
            if ty.signed:
                if b.lit is None or b.lit == -1:
                    g.append("negb ((%s =? %d) && (%s =? -1))" % (x, ty.rng()[0], y))
                t, at = ("cdivS %s %s" if op == "/" else "cmodS %s %s") % (x, y), False
            else:
                t, at = ("cdivU %s %s" if op == "/" else "cmodU %s %s") % (x, y), False
        elif op in ("<<", ">>"):
            if b.lit is None:
                g.append("(0 <=? %s) && (%s <? %d)" % (y, y, ty.bits))
            elif not (0 <= b.lit < ty.bits):
                g.append("false")
            if op == "<<":
                if b.lit is not None and b.lit >= 0:
                    t, at = self.wrap("Z.shiftl %s %s" % (x, y), ty, min(alo * 2 ** b.lit, alo), ahi * 2 ** b.lit)
                else:
                    t, at = self.wrap("Z.shiftl %s %s" % (x, y), ty)
            else:
                t, at = "Z.shiftr %s %s" % (x, y), False
        elif op in ("&", "|", "^"):
            f = {"&": "Z.land", "|": "Z.lor", "^": "Z.lxor"}[op]
            t, at = "%s %s %s" % (f, x, y), False      # stays in range for in-range operands of the promoted type
        else:
            raise CTransError("%s: binary operator %s" % (self.where(n), op))
        return E(t, ty, guards=g, atomic=at)

    def callee(self, n):
        f = inner(n)[0]
        while f.get("kind") in ("ImplicitCastExpr", "ParenExpr", "CStyleCastExpr"):
            f = inner(f)[0]
        if f.get("kind") == "DeclRefExpr":
            return f["referencedDecl"]["name"]
        return None

    def call(self, n, env, ty):
        name = self.callee(n)
        args = inner(n)[1:]
        orc = self.spec.get("oracles", {})
        if name in orc:
            idxs = orc[name]
            oname = name
            site = None
            if isinstance(idxs, tuple):
                if len(idxs) == 3:
                    # sequenced oracle: every call site passes its number (order of appearance in the source) first, so
                    # that two calls with equal arguments may return different values (fetch-and-add, reads of shared memory)
                    sites = self.oracle_sites.setdefault(name, [])
                    if n.get("id") not in sites:
                        sites.append(n.get("id"))
                    site = sites.index(n.get("id"))
                oname, idxs = idxs[0], idxs[1]
            if not ty.scalar():
                raise CTransError("%s: oracle call returns a non-scalar" % self.where(n))
            coqty = " -> ".join(["Z"] * (len(idxs) + 1 + (1 if site is not None else 0)))
            v = self.declare(("o", name), oname, ty, coqty=coqty, cat="oracle")
            if v.key not in self.inputs:
                self.inputs.append(v.key)
            if v.key not in env["assigned"]:
                env["assigned"] = env["assigned"] | {v.key}
            es = [self.expr(args[i], env) for i in idxs]
            g = [x for e in es for x in e.guards]
            if site is not None:
                return E("%s %s" % (v.name, " ".join([str(site)] + [e.zpar() for e in es])), ty, guards=g)
            if not idxs:
                return E(v.name, ty, atomic=True)
            return E("%s %s" % (v.name, " ".join(e.zpar() for e in es)), ty, guards=g)
        if name == "__builtin_expect":
            return self.conv(self.expr(args[0], env), ty)
        if name in self.unit.done:
            return self.kcall(n, self.unit.done[name], args, env, ty)
        if name in self.spec.get("skip_calls", []):
            raise Opaque("%s: value of a call to %s (not modelled)" % (self.where(n), name))
        raise CTransError("%s: call to '%s' is outside the subset (not an oracle, not a kernel of this unit)" % (self.where(n), name))

    def kcall(self, n, K, args, env, ty):
        """call of another kernel of the unit: hoisted `match`"""
        actual = []
        g = []
        for key in K.param_order:
            if key == "fuel":
                self.uses_fuel = True
                actual.append("fuel")
                continue
            kv = K.vars[key]
            if kv.cat == "param":
                e = self.conv(self.expr(args[kv.pindex], env), kv.ty)
                g += e.guards
                actual.append(e.zpar())
            elif kv.cat in ("mem", "map"):
                pidx = K.param_index_of_id[key[1]]
                b = args[pidx]
                while b.get("kind") in ("ImplicitCastExpr", "ParenExpr", "CStyleCastExpr"):
                    b = inner(b)[0]
                if b.get("kind") != "DeclRefExpr":
                    raise CTransError("%s: struct argument of a kernel call must be a pointer variable" % self.where(n))
                rd = b["referencedDecl"]
                path = key[2]
                k2 = (key[0], rd["id"], path)
                v = self.declare(k2, rd["name"] + "_" + path.replace(".", "_"), kv.ty, coqty=kv.coqty, cat=kv.cat)
                self.read_var(v, env, n)
                actual.append(v.name)
            else:   # global / oracle: same name here
                v = self.declare(key, kv.name, kv.ty, coqty=kv.coqty, cat=kv.cat)
                if v.key not in self.inputs:
                    self.inputs.append(v.key)
                actual.append(v.name)
        tmp = "call%d" % (len(env["binds"]) + 1 + env["nbind"][0])
        env["nbind"][0] += 1
        env["binds"].append((tmp, "%s %s" % (K.gname, " ".join(actual)), g))
        return E(tmp, ty, atomic=True)

    def probe(self, pid, ctext):
        return self.unit.probe(pid, ctext)

    # ----- scanning (which variables does a statement list assign?)
    def assigned_in(self, nodes, env):
        """keys of variables assigned in nodes (syntactic), in order of first occurrence"""
        out = []

        def lv(n):
            try:
                l = self.lvalue_noexpr(n)
            except CTransError:
                return
            if l is not None and l not in out:
                out.append(l)

        def walk(n):
            k = n.get("kind")
            if k == "BinaryOperator" and (n["opcode"] == "=" or (n["opcode"].endswith("=") and n["opcode"] not in ("==", "!=", "<=", ">="))):
                lv(inner(n)[0])
            if k == "CompoundAssignOperator":
                lv(inner(n)[0])
            if k == "UnaryOperator" and n["opcode"] in ("++", "--"):
                lv(inner(n)[0])
            if k == "CallExpr" and self.callee(n) in self.spec.get("cas_calls", []) and len(inner(n)) > 1:
                a0 = inner(n)[1]
                while a0.get("kind") in ("ParenExpr", "ImplicitCastExpr", "CStyleCastExpr"):
                    a0 = inner(a0)[0]
                if a0.get("kind") == "UnaryOperator" and a0.get("opcode") == "&":
                    lv(inner(a0)[0])
            for c in inner(n):
                walk(c)
        for n in nodes:
            walk(n)
        return out

    def lvalue_noexpr(self, n):
        """key of the variable an lvalue denotes, without translating index expressions; None if untracked"""
        saved = self.expr
        try:
            self.expr = lambda *_a, **_k: E("0", ctype_of_text("int"), lit=0, atomic=True)
            l = self.lvalue(n, {"assigned": frozenset(), "opaque": frozenset()})
        finally:
            self.expr = saved
        return l[1].key

    def has_escape(self, nodes, kinds, through_loops=False):
        def walk(n, inloop, insw):
            k = n.get("kind")
            if k == "ReturnStmt" and "return" in kinds:
                return True
            if k == "GotoStmt":
                return True
            if k == "BreakStmt" and "break" in kinds and not inloop and not insw:
                return True
            if k == "ContinueStmt" and "continue" in kinds and not inloop:
                return True
            il = inloop or k in ("WhileStmt", "ForStmt", "DoStmt")
            isw = insw or k == "SwitchStmt"
            return any(walk(c, il, isw) for c in inner(n))
        return any(walk(n, False, False) for n in nodes)

    def effect_free(self, n):
        """no assignment / ++ / call to a non-skippable function inside n"""
        def walk(x):
            k = x.get("kind")
            if k == "CompoundAssignOperator":
                return False
            if k == "BinaryOperator" and (x["opcode"] == "=" or (x["opcode"].endswith("=") and x["opcode"] not in ("==", "!=", "<=", ">="))):
                return False
            if k == "UnaryOperator" and x["opcode"] in ("++", "--"):
                return False
            if k == "CallExpr":
                nm = self.callee(x)
                if nm not in self.spec.get("skip_calls", []) and nm not in self.spec.get("oracles", {}):
                    return False
            return all(walk(c) for c in inner(x))
        return walk(n)

    # ----- statements.  tr(nodes, env, ctx, k) -> lines (list of str) of a Gallina term of the kernel's result type
    # env: assigned (frozenset of keys definitely assigned), opaque (frozenset), scope (keys visible)
    # ctx: dict(ret=fn(E)->lines, brk=fn(env)->lines or None, cont=fn(env)->lines or None)
    def flatten(self, nodes):
        out = []
        for n in nodes:
            if n.get("kind") == "CompoundStmt":
                out.append(("block", n))
            else:
                out.append(("s", n))
        return out

    def tr(self, nodes, env, ctx, k):
        if not nodes:
            return k(env)
        n, rest = nodes[0], nodes[1:]
        kind = n.get("kind")
        cont = lambda env2: self.tr(rest, env2, ctx, k)
        if kind == "NullStmt":
            return cont(env)
        if kind == "CtransBlock":
            return self.tr_block(n["stmts"], env, cont)
        if kind == "CompoundStmt":
            scope0 = env["scope"]
            return self.tr(inner(n), env, ctx, lambda e2: cont(dict(e2, scope=scope0)))
        txt = " ".join(self.text_of(n).split())
        for pat in self.spec.get("skip_stmts", []):
            if re.search(pat, txt):
                self.skipped.append("statement skipped by description: `%s`" % txt[:100])
                return cont(env)
        if kind == "DoStmt":
            body, cnd = inner(n)
            c = self.expr_noenv(cnd)
            if c is None or c.lit != 0:
                raise CTransError("%s: do-while other than do { } while (0)" % self.where(n))
            if self.has_escape([body], ("break", "continue")):
                raise CTransError("%s: break/continue inside do { } while (0)" % self.where(n))
            return self.tr([body] + rest, env, ctx, k)
        if kind == "DeclStmt":
            return self.tr_decl(inner(n), env, ctx, cont, n)
        if kind == "ReturnStmt":
            sub = inner(n)
            if self.outputs is not None:
                return ["None (* return inside the slice: abnormal exit *)"]
            if not sub:
                raise CTransError("%s: return without a value" % self.where(n))
            return self.with_expr(lambda e_: self.expr(sub[0], e_), env,
                                  lambda e, env2: ctx["ret"](self.conv(e, self.ret_ty)), n)
        if kind == "BreakStmt":
            if ctx.get("brk") is None:
                raise CTransError("%s: break outside a loop (a break inside a switch must be at the top level of its case)" % self.where(n))
            return ctx["brk"](env)
        if kind == "ContinueStmt":
            if ctx.get("cont") is None:
                raise CTransError("%s: continue outside a loop" % self.where(n))
            return ctx["cont"](env)
        if kind == "IfStmt":
            sub = inner(n)
            cnd, th = sub[0], sub[1]
            el = sub[2] if len(sub) > 2 else None
            return self.with_expr(lambda e_: self.expr(cnd, e_), env,
                                  lambda c, env2: self.branch([(c.b(), [th])], [el] if el else [], rest, env2, ctx, k), n)
        if kind == "SwitchStmt":
            return self.tr_switch(n, rest, env, ctx, k)
        if kind in ("WhileStmt", "ForStmt"):
            return self.tr_loop(n, rest, env, ctx, k)
        if kind in ("LabelStmt", "GotoStmt"):
            raise CTransError("%s: goto / label is outside the subset" % self.where(n))
        # expression statement
        return self.tr_exprstmt(n, env, ctx, cont)

    def expr_noenv(self, n):
        try:
            return self.expr(n, {"assigned": frozenset(), "opaque": frozenset(), "binds": [], "nbind": [0]})
        except NeedProbe:
            raise
        except CTransError:
            return None

    def with_expr(self, mk, env, use, n):
        """translate an expression (mk(env) -> E), emit hoisted kernel calls and guards, then use(E, env)"""
        env = dict(env, binds=[], nbind=env.get("nbind", [0]))
        e = mk(env)
        binds = env["binds"]
        lines = []
        close = 0
        for tmp, callterm, g in binds:
            if g:
                lines.append("if %s then" % self.conj(g))
                close += 1
            lines.append("match %s with None => None | Some %s =>" % (callterm, tmp))
            close_m = True
        body = []
        if e is not None and e.guards:
            body.append("if %s then" % self.conj(self.dedup(e.guards)))
            body += self.indent(use(E(e.term, e.ty, e.isbool, [], e.lit, e.atomic), env))
            body.append("else None")
        else:
            body += use(e, env)
        out = lines + body
        for tmp, callterm, g in reversed(binds):
            out.append("end")
            if g:
                out.append("else None")
        return out

    def dedup(self, xs):
        out = []
        for x in xs:
            if x not in out and x != "true":
                out.append(x)
        return out

    def indent(self, lines, n=2):
        return [" " * n + l for l in lines]

    def tr_decl(self, decls, env, ctx, cont, n):
        if not decls:
            return cont(env)
        d, more = decls[0], decls[1:]
        nxt = lambda env2: self.tr_decl(more, env2, ctx, cont, n)
        if d.get("kind") != "VarDecl":
            if d.get("kind") == "RecordDecl":
                self.last_record = (d.get("tagUsed"), [(f.get("name"), f.get("type", {}).get("qualType", ""), f.get("type", {}).get("desugaredQualType", ""))
                                                      for f in inner(d) if f.get("kind") == "FieldDecl"])
            if d.get("kind") in ("RecordDecl", "TypedefDecl", "EnumDecl"):
                return nxt(env)
            raise CTransError("%s: declaration of kind %s" % (self.where(n), d.get("kind")))
        ty = ctype(d)
        key = ("v", d["id"])
        init = [c for c in inner(d) if c.get("kind") not in ("AlignedAttr", "UnusedAttr")]
        if d.get("storageClass") == "static":
            self.static_locals.add(key)
            self.skipped.append("static local '%s' is an input (its value before the call)" % d["name"])
            return nxt(env)
        if not ty.scalar() and init and init[0].get("kind") == "InitListExpr" and getattr(self, "last_record", None):
            # type punning idiom:  union { uint64_t w; uint8_t b[8]; } k = { e };   k.b[i]  reads byte i of e.
            # LITTLE-ENDIAN byte order (x86-64, the configured build): k.b[i] = (e >> 8*i) & 0xff.
            tag, flds = self.last_record
            il = init[0]
            ok = (tag == "union" and len(flds) == 2 and il.get("field", {}).get("name") == flds[0][0] and
                  ctype_of_text(flds[0][2] or flds[0][1]).kind == "i" and ctype_of_text(flds[0][2] or flds[0][1]).bits == 64 and
                  re.match(r"^(const )?(uint8_t|unsigned char)\s*\[8\]$", flds[1][1]) and len(inner(il)) == 1)
            if ok:
                wty = ctype_of_text(flds[0][2] or flds[0][1])
                wv = self.declare(("pun", d["id"]), d["name"] + "_" + flds[0][0], wty)
                self.puns[d["id"]] = (wv, flds[1][0], flds[0][0])
                self.skipped.append("union '%s' {%s %s; uint8_t %s[8]}: %s.%s[i] is byte i of %s.%s in LITTLE-ENDIAN order "
                                    "((w >> 8*i) & 0xff): assumption about the target (x86-64)" % (
                                        d["name"], wty, flds[0][0], flds[1][0], d["name"], flds[1][0], d["name"], flds[0][0]))
                return self.assign(wv, None, lambda e_: self.expr(inner(il)[0], e_), dict(env, scope=env["scope"] | {key}), nxt, n, declare=True)
        if not ty.scalar():
            # struct / union / array local: only its scalar members are tracked (as variables s_f), on demand
            if init and not all(self.effect_free(c) for c in init):
                raise CTransError("%s: initialiser with side effects" % self.where(n))
            self.skipped.append("non-scalar local '%s' (%s): members tracked on demand" % (d["name"], ty))
            self.nonscalar_locals.add(d["id"])
            return nxt(env)
        v = self.declare(key, d["name"], ty)
        if v.name in self.ignore:
            if init and not self.effect_free(init[0]):
                raise CTransError("%s: initialiser of an untracked variable has side effects" % self.where(n))
            return nxt(dict(env, scope=env["scope"] | {key}))
        if not init:
            # uninitialised: reading it is undefined behaviour in C; the model gives it 0
            return ["let %s := 0 in" % v.name] + nxt(self.assign_env(env, key, declare=True))
        return self.assign(v, None, lambda e_: self.expr(init[0], e_), env, nxt, n, declare=True)

    def assign_env(self, env, key, declare=False, opaque=False):
        e2 = dict(env)
        if opaque:
            e2["opaque"] = env["opaque"] | {key}
            e2["assigned"] = env["assigned"] - {key}
        else:
            e2["assigned"] = env["assigned"] | {key}
            e2["opaque"] = env["opaque"] - {key}
        if declare:
            e2["scope"] = env["scope"] | {key}
        return e2

    def assign(self, v, idx, mk, env, cont, n, declare=False):
        """v (or v[idx]) := mk(env) converted to v's type"""
        try:
            def use(e, env2):
                e = self.conv(e, v.ty)
                if idx is None:
                    return ["let %s := %s in" % (v.name, e.z())] + cont(self.assign_env(env2, v.key, declare))
                if v.key not in env2["assigned"]:
                    self.need_input(v, env2)
                return ["let %s := upd %s %s %s in" % (v.name, v.name, idx.zpar(), e.zpar())] + \
                    cont(self.assign_env(env2, v.key, declare))
            return self.with_expr(mk, env, use, n)
        except Opaque as ex:
            if v.ty.kind != "p":
                raise CTransError("%s (assigned to the tracked integer '%s')" % (ex, v.name))
            self.skipped.append("pointer '%s' := unmodelled value (%s)" % (v.name, " ".join(self.text_of(n).split())[:70]))
            return cont(self.assign_env(env, v.key, declare, opaque=True))

    def tr_exprstmt(self, n, env, ctx, cont):
        n0 = n
        while n.get("kind") in ("ParenExpr", "ExprWithCleanups", "ConstantExpr") or \
                (n.get("kind") in ("CStyleCastExpr", "ImplicitCastExpr") and n.get("castKind") == "ToVoid"):
            n = inner(n)[0]
        k = n.get("kind")
        if k == "BinaryOperator" and n["opcode"] == ",":
            a, b = inner(n)
            return self.tr_exprstmt(a, env, ctx, lambda e2: self.tr_exprstmt(b, e2, ctx, cont))
        if k == "CallExpr":
            name = self.callee(n)
            if name in self.spec.get("trap_calls", []) + COMMON_TRAPS:
                return ["None (* %s *)" % name]
            if name in self.spec.get("cas_calls", []):
                # compare-and-swap on a tracked location, as a statement:  v := if v = old then new else v
                # (the sequential meaning of the atomic operation; the returned value is discarded by the source)
                a0 = inner(n)[1]
                while a0.get("kind") in ("ParenExpr", "ImplicitCastExpr", "CStyleCastExpr"):
                    a0 = inner(a0)[0]
                if not (a0.get("kind") == "UnaryOperator" and a0.get("opcode") == "&"):
                    raise CTransError("%s: first argument of the CAS is not &lvalue" % self.where(n0))
                lv = self.lvalue(inner(a0)[0], env)
                if lv[0] != "var":
                    raise CTransError("%s: CAS on an array cell" % self.where(n0))
                v = lv[1]

                def mk(e_):
                    self.read_var(v, e_, n)
                    old_ = self.conv(self.expr(inner(n)[2], e_), v.ty)
                    new_ = self.conv(self.expr(inner(n)[3], e_), v.ty)
                    return E("if %s =? %s then %s else %s" % (v.name, old_.zpar(), new_.zpar(), v.name), v.ty, guards=old_.guards + new_.guards)
                return self.assign(v, None, mk, env, cont, n0)
            if name in self.spec.get("skip_calls", []):
                if not all(self.effect_free(a) for a in inner(n)[1:]):
                    raise CTransError("%s: argument with side effects in a skipped call" % self.where(n0))
                self.skipped.append("call skipped by description: %s(...)" % name)
                return cont(env)
            raise CTransError("%s: call statement to '%s' (not in skip_calls / trap_calls)" % (self.where(n0), name))
        is_asg = k == "BinaryOperator" and n["opcode"] == "="
        is_casg = k == "CompoundAssignOperator"
        is_inc = k == "UnaryOperator" and n["opcode"] in ("++", "--")
        if not (is_asg or is_casg or is_inc):
            if self.effect_free(n):
                self.skipped.append("expression statement without effect: `%s`" % " ".join(self.text_of(n0).split())[:80])
                return cont(env)
            raise CTransError("%s: expression statement outside the subset" % self.where(n0))
        lhs = inner(n)[0]
        lty = ctype(lhs)
        if is_asg:
            r = inner(n)[1]
            r0 = r
            while r0.get("kind") in ("ParenExpr", "ImplicitCastExpr") or (r0.get("kind") == "CStyleCastExpr" and r0.get("castKind") in ("NoOp", "IntegralCast")):
                r0 = inner(r0)[0]
            if r0.get("kind") == "BinaryOperator" and r0.get("opcode") == "=":
                # a = (b = e)  is  b = e; a = b   (the value of an assignment is the value of its left operand)
                def wrapcasts(x, leaf):
                    if x is r0:
                        return leaf
                    return dict(x, inner=[wrapcasts(inner(x)[0], leaf)])
                load = {"kind": "ImplicitCastExpr", "castKind": "LValueToRValue", "type": inner(r0)[0].get("type"), "inner": [inner(r0)[0]],
                        "range": r0.get("range")}
                outer = dict(n, inner=[lhs, wrapcasts(r, load)])
                return self.tr_exprstmt(r0, env, ctx, lambda e2: self.tr_exprstmt(outer, e2, ctx, cont))
        # untracked targets
        try:
            probe_key = self.lvalue_noexpr(lhs)
            pv = self.vars[probe_key]
        except CTransError:
            pv = None
            if lty.kind == "i":
                raise
        if pv is None or pv.name in self.ignore or not lty.scalar():
            rhs_ok = all(self.effect_free(c) for c in inner(n)[1:]) and self.effect_free_lv(lhs)
            if not rhs_ok:
                raise CTransError("%s: assignment to an untracked location has side effects on its right-hand side" % self.where(n0))
            self.skipped.append("write to untracked location: `%s`" % " ".join(self.text_of(n0).split())[:80])
            return cont(env)

        def go(env1):
            lv = self.lvalue(lhs, env1)
            v = lv[1]
            idx = lv[2] if lv[0] == "map" else None
            if idx is not None and idx.guards:
                raise CTransError("%s: partial index expression" % self.where(n0))
            if is_asg:
                return self.assign(v, idx, lambda e_: self.expr(inner(n)[1], e_), env1, cont, n0)

            def cur(e_):
                self.read_var(v, e_, lhs)
                if idx is None:
                    return E(v.name, v.ty, atomic=True)
                return E("%s %s" % (v.name, idx.zpar()), v.ty)
            if is_inc:
                one = {"kind": "IntegerLiteral", "value": "1", "type": {"qualType": "int"}}
                fake = {"kind": "BinaryOperator", "opcode": n["opcode"][0], "type": self.promoted(v.ty), "range": n.get("range")}
                return self.assign(v, idx, lambda e_: self.arith(fake, cur(e_), self.expr(one, e_)), env1, cont, n0)
            op = n["opcode"][:-1]
            cty = n.get("computeResultType", n.get("type"))
            fake = {"kind": "BinaryOperator", "opcode": op, "type": cty, "range": n.get("range")}
            clt = ctype_of_text(n.get("computeLHSType", {}).get("desugaredQualType", n.get("computeLHSType", {}).get("qualType", ""))) \
                if "computeLHSType" in n else None

            def mk(e_):
                a = cur(e_)
                if clt is not None and clt.scalar():
                    a = self.conv(a, clt)
                return self.arith(fake, a, self.expr(inner(n)[1], e_))
            return self.assign(v, idx, mk, env1, cont, n0)
        return go(env)

    def effect_free_lv(self, lhs):
        return all(self.effect_free(c) for c in inner(lhs))

    def promoted(self, ty):
        if ty.kind == "p":
            return {"qualType": ty.text}
        if ty.bits < 32:
            return {"qualType": "int"}
        return {"qualType": ty.text}

    def arith(self, fake, a, b):
        """binary operation on already translated operands, through binop's code path"""
        saved = self.expr
        seq = [a, b]
        try:
            self.expr = lambda *_a, **_k: seq.pop(0)
            fake = dict(fake, inner=[{"kind": "X"}, {"kind": "X"}])
            return self.binop(fake, None, ctype(fake))
        finally:
            self.expr = saved

    # ----- branching
    def branch(self, arms, els, rest, env, ctx, k):
        """arms: [(bool term, [stmts])]; els: [stmts] (possibly empty).  Join form when no arm escapes."""
        all_arms = [a[1] for a in arms] + [els]
        escapes = any(self.has_escape(a, ("return", "break", "continue")) for a in all_arms)
        if escapes:
            # continuation duplicated into the arms
            out = []
            for i, (c, body) in enumerate(arms):
                out.append(("if %s then" if i == 0 else "else if %s then") % c)
                out += self.indent(self.tr_arm(body + rest, env, ctx, k))
            out.append("else")
            out += self.indent(self.tr_arm(els + rest, env, ctx, k))
            return out
        # join: variables assigned in some arm and visible before
        keys = []
        for a in all_arms:
            for key in self.assigned_in(a, env):
                v = self.vars.get(key)
                if v is None or v.name in self.ignore:
                    continue
                if key in env["scope"] or v.cat in ("mem", "map", "global", "prelocal"):
                    if key not in keys:
                        keys.append(key)
        finals = []

        def arm_k(env2):
            finals.append(env2)
            live = [self.vars[x].name for x in keys if x not in env2["opaque"]]
            return None   # placeholder, replaced below

        # two passes: first find which keys end up opaque / assigned in every arm, then emit
        results = []
        for body in all_arms:
            cap = {}

            def kk(env2, cap=cap):
                cap["env"] = env2
                return ["@JOIN@"]
            lines = self.tr_arm(body, env, ctx, kk)
            results.append((lines, cap.get("env", env)))
        opq = set()
        for _, e2 in results:
            opq |= set(e2["opaque"])
        jkeys = self.canon([x for x in keys if x not in opq])
        # a join variable that some arm leaves unassigned must have a value before: make it an input if needed
        for x in jkeys:
            if x not in env["assigned"] and not all(x in e2["assigned"] for _, e2 in results):
                self.need_input(self.vars[x], env)
        names = [self.vars[x].name for x in jkeys]
        partial = any(any(("None" in l.split() or l.startswith("None")) for l in lines) for lines, _ in results)
        tup = self.tuple(names)
        jt = ("Some %s" % self.ptuple(names)) if partial else tup
        if not jkeys and not partial:
            # nothing tracked changes in any arm
            env3 = dict(env, opaque=env["opaque"] | opq)
            return self.tr(rest, env3, ctx, k)
        out = []
        hdr = "match (" if partial else "let %s := (" % self.pattern(names)
        out.append(hdr)
        for i, ((c, _), (lines, _e)) in enumerate(zip(arms + [(None, None)], results)):
            if i < len(arms):
                out.append(("  if %s then" if i == 0 else "  else if %s then") % c)
            else:
                out.append("  else")
            out += self.indent([l.replace("@JOIN@", jt) for l in lines], 4)
        asg = set(env["assigned"])
        common = None
        for _, e2 in results:
            common = set(e2["assigned"]) if common is None else common & set(e2["assigned"])
        env3 = dict(env, assigned=frozenset((asg | (common or set())) - opq), opaque=frozenset(set(env["opaque"]) | opq))
        if partial:
            out.append(") with None => None | Some %s =>" % self.ptuple(names))
            out += self.tr(rest, env3, ctx, k)
            out.append("end")
        else:
            out.append(") in")
            out += self.tr(rest, env3, ctx, k)
        return out

    def canon(self, keys):
        """canonical order of a state / join tuple: memory variables (fields, array cells) sorted by name, then
        parameters and locals in DECLARATION order -- neither renaming a local nor swapping two independent stores
        or assignments in the source changes it"""
        mem = sorted([x for x in keys if self.vars[x].cat in ("mem", "map", "global")], key=lambda x: self.vars[x].name)
        order = {k: i for i, k in enumerate(self.vars)}
        return mem + sorted([x for x in keys if x not in mem], key=lambda x: order[x])

    def tr_arm(self, body, env, ctx, k):
        scope0 = env["scope"]
        return self.tr([b for b in body if b is not None], env, ctx, lambda e2: k(dict(e2, scope=scope0)))

    def tuple(self, names):
        if not names:
            return "tt"
        return names[0] if len(names) == 1 else "(" + ", ".join(names) + ")"

    def ptuple(self, names):
        if not names:
            return "tt"
        return names[0] if len(names) == 1 else "(" + ", ".join(names) + ")"

    def pattern(self, names):
        if not names:
            return "_"
        return names[0] if len(names) == 1 else "'(" + ", ".join(names) + ")"

    def tr_switch(self, n, rest, env, ctx, k):
        cnd, body = inner(n)[0], inner(n)[-1]
        if body.get("kind") != "CompoundStmt":
            raise CTransError("%s: switch body is not a block" % self.where(n))
        groups = []          # [labels(list of int or 'default'), stmts]

        def unlabel(s):
            labels = []
            while s is not None and s.get("kind") in ("CaseStmt", "DefaultStmt"):
                sub = inner(s)
                if s["kind"] == "CaseStmt":
                    c = self.expr_noenv(sub[0])
                    if c is None or c.lit is None:
                        raise CTransError("%s: case label is not a constant" % self.where(s))
                    if len(sub) > 2:
                        raise CTransError("%s: case range" % self.where(s))
                    labels.append(c.lit)
                    s = sub[1] if len(sub) > 1 else None
                else:
                    labels.append("default")
                    s = sub[0] if sub else None
            return labels, s
        for s in inner(body):
            labels, s2 = unlabel(s)
            if labels:
                groups.append([labels, []])
            elif not groups:
                raise CTransError("%s: statement before the first case label" % self.where(n))
            if s2 is not None:
                groups[-1][1].append(s2)
        # fall-through: a group's code is its statements followed by the next groups' up to the first top-level break
        arms = []
        for i, (labels, _) in enumerate(groups):
            code = []
            done = False
            for (_, st) in groups[i:]:
                for s in st:
                    if s.get("kind") == "BreakStmt":
                        done = True
                        break
                    code.append(s)
                if done:
                    break
                if code and code[-1].get("kind") == "ReturnStmt":
                    break
            if self.has_escape(code, ("break",)):
                raise CTransError("%s: break nested inside a statement of a switch case" % self.where(n))
            arms.append((labels, code))

        def go(c, env2):
            x = c.zpar()
            conds = []
            dflt = []
            for labels, code in arms:
                if "default" in labels:
                    dflt = code
            for labels, code in arms:
                ls = [l for l in labels if l != "default"]
                if "default" in labels or not ls:
                    continue
                conds.append((" || ".join("(%s =? %s)" % (x, zlit(l)) for l in ls), code))
            # merge adjacent arms with identical code objects (labels stacked through empty groups)
            merged = []
            for cnd_, code in conds:
                if merged and merged[-1][1] is not None and [id(s) for s in merged[-1][1]] == [id(s) for s in code]:
                    merged[-1] = (merged[-1][0] + " || " + cnd_, code)
                else:
                    merged.append((cnd_, code))
            # labels whose code is the default's code need no test of their own
            merged = [(c_, code) for c_, code in merged if [id(s) for s in code] != [id(s) for s in dflt]]
            if not merged:
                return self.tr(dflt + rest, env2, ctx, k)
            return self.branch(merged, dflt, rest, env2, ctx, k)
        return self.with_expr(lambda e_: self.expr(cnd, e_), env, go, n)

    def tr_block(self, bstmts, env, cont):
        okeys = []
        for key in self.assigned_in(bstmts, env):
            v = self.vars.get(key)
            if v is None or v.name in self.ignore:
                continue
            if key in env["scope"] or v.cat in ("mem", "map", "global", "prelocal"):
                okeys.append(key)
        okeys = self.canon(okeys)
        onames = [self.vars[x].name for x in okeys]
        cap = {}

        def kend(env2):
            cap["env"] = env2
            return [self.tuple(onames)]
        body = self.tr(bstmts, env, {"ret": None, "brk": None, "cont": None}, kend)
        if any(("None" in l.split()) or l.startswith("match ") for l in body):
            raise CTransError("%s: a `blocks` segment must be total straight-line code" % self.cname)
        toks = set(re.findall(r"[A-Za-z_][A-Za-z0-9_']*", "\n".join(body)))
        fkeys = self.canon([key for key, v in self.vars.items() if v.name in toks and (key in env["assigned"] or key in self.inputs)])
        self.nblocks = getattr(self, "nblocks", 0) + 1
        bname = "%s_blk%d" % (self.gname, self.nblocks)
        binders = "".join(" (%s : %s)" % (self.vars[x].name, self.vars[x].coqty) for x in fkeys)
        rty = " * ".join(("(%s)" % self.vars[x].coqty if "->" in self.vars[x].coqty else self.vars[x].coqty) for x in okeys) or "unit"
        self.loops.append("Definition %s%s : %s :=\n%s." % (bname, binders, rty, "\n".join(self.indent(body))))
        call = "%s %s" % (bname, " ".join(self.vars[x].name for x in fkeys))
        return ["let %s := %s in" % (self.pattern(onames), call)] + cont(cap.get("env", env))

    # ----- loops
    def tr_loop(self, n, rest, env, ctx, k):
        sub = n.get("inner", [])
        if n["kind"] == "WhileStmt":
            sub = [c for c in sub if isinstance(c, dict) and c]
            cnd, body = sub[0], sub[1]
            init, inc = None, None
        else:
            # ForStmt: init, condvar, cond, inc, body (empty dicts for missing parts)
            init, _cv, cnd, inc, body = (sub + [None] * 5)[:5]
            init = init if init else None
            cnd = cnd if cnd else None
            inc = inc if inc else None
        if init is not None:
            scope0 = env["scope"]
            loop_only = dict(n, inner=[{}, {}, cnd or {}, inc or {}, body], _noinit=True)
            if init.get("kind") == "DeclStmt":
                return self.tr_decl(inner(init), env, ctx,
                                    lambda e2: self.tr_loop(loop_only, rest, e2, ctx,
                                                            lambda e3: k(dict(e3, scope=scope0)) if not rest else k(e3)), init)
            return self.tr_exprstmt(init, env, ctx, lambda e2: self.tr_loop(loop_only, rest, e2, ctx, k))
        self.uses_fuel = True
        self.nloops += 1
        lname = "%s_loop%d" % (self.gname, self.nloops)
        bodyl = [body] + ([inc] if inc is not None else [])
        # state: variables assigned in the loop that exist outside it
        skeys = []
        for key in self.assigned_in(bodyl, env):
            v = self.vars.get(key)
            if v is None or v.name in self.ignore:
                continue
            if key in env["scope"] or v.cat in ("mem", "map", "global", "prelocal"):
                skeys.append(key)
        for x in skeys:
            if x not in env["assigned"] and x not in env["opaque"]:
                self.need_input(self.vars[x], env)
        skeys = self.canon([x for x in skeys if x not in env["opaque"]])
        snames = [self.vars[x].name for x in skeys]
        has_ret = self.has_escape(bodyl, ("return",)) and self.outputs is None
        env_in = dict(env, assigned=env["assigned"] | set(skeys))
        n_inputs_before = len(self.inputs)
        vars_before = set(self.vars)
        ret_wrap = (lambda t: "Some (LReturn %s)" % t) if has_ret else None
        norm = (lambda names: "Some (LNormal %s)" % self.ptuple(names)) if has_ret else (lambda names: "Some %s" % self.ptuple(names))
        CALL = "@CALL%d@" % self.nloops

        def k_next(env2):
            return [CALL]

        def do_inc(env2):
            if inc is None:
                return k_next(env2)
            return self.tr_exprstmt(inc, env2, {}, k_next)
        lctx = dict(ret=(lambda e: ["Some (LReturn %s)" % e.zpar()]) if has_ret else ctx.get("ret"),
                    brk=lambda env2: [norm(snames)],
                    cont=do_inc)
        if self.outputs is not None:
            lctx["ret"] = None
        scope0 = env_in["scope"]
        body_lines = self.tr([body], env_in, lctx, lambda e2: do_inc(dict(e2, scope=scope0)))
        if cnd is not None:
            def use(c, env2):
                return ["if %s then" % c.b()] + self.indent(body_lines) + ["else %s" % norm(snames)]
            inner_lines = self.with_expr(lambda e_: self.expr(cnd, e_), env_in, use, n)
        else:
            inner_lines = body_lines
        # free variables: every variable name occurring in the loop text that is visible here and not state
        text = "\n".join(inner_lines)
        toks = set(re.findall(r"[A-Za-z_][A-Za-z0-9_']*", text))
        fkeys = []
        for key, v in self.vars.items():
            if v.name in toks and key not in skeys and (key in env["scope"] or key in self.inputs or v.cat != "local"):
                if key in env["assigned"] or key in self.inputs:
                    fkeys.append(key)
        fkeys = self.canon(fkeys)
        fnames = [self.vars[x].name for x in fkeys]
        binders = "".join(" (%s : %s)" % (self.vars[x].name, self.vars[x].coqty) for x in fkeys + skeys)
        call = "%s fuel %s" % (lname, " ".join(fnames + snames)) if (fnames or snames) else "%s fuel" % lname
        sty = " * ".join(("(%s)" % self.vars[x].coqty if "->" in self.vars[x].coqty else self.vars[x].coqty) for x in skeys) or "unit"
        rty = "option (lres (%s) Z)" % sty if has_ret else "option (%s)" % sty
        fx = ["Fixpoint %s (fuel : nat)%s {struct fuel} : %s :=" % (lname, binders, rty),
              "  match fuel with", "  | O => None", "  | S fuel =>"]
        fx += self.indent([l.replace(CALL, call) for l in inner_lines], 4)
        fx += ["  end."]
        self.loops.append("\n".join(fx))
        self.loop_sigs.append((lname, fnames, snames, has_ret))
        # the call site
        env_out = dict(env, assigned=env["assigned"] | set(skeys))
        out = ["match %s with" % call, "| None => None"]
        if has_ret:
            out.append("| Some (LReturn r) => Some r")
            out.append("| Some (LNormal %s) =>" % self.ptuple(snames))
        else:
            out.append("| Some %s =>" % self.ptuple(snames))
        out += self.indent(self.tr(rest, env_out, ctx, k))
        out.append("end")
        return out

    # ----- whole kernel
    def translate(self):
        fd = self.fdecl
        self.func_file = self.unit.file_of(fd)
        params = [c for c in inner(fd) if c.get("kind") == "ParmVarDecl"]
        body = [c for c in inner(fd) if c.get("kind") == "CompoundStmt"]
        if not body:
            raise CTransError("%s: no body" % self.cname)
        rt = fd["type"]["qualType"].split("(")[0].strip()
        self.ret_ty = ctype_of_text(self.unit.resolve_typedef(rt))
        self.static_locals = set()
        self.nonscalar_locals = set()
        self.pre_locals = set()
        self.loop_sigs = []
        self.param_index_of_id = {}
        env = {"assigned": frozenset(), "opaque": frozenset(), "scope": frozenset()}
        for i, p in enumerate(params):
            ty = ctype(p)
            self.param_index_of_id[p["id"]] = i
            if "name" not in p:
                continue
            if ty.scalar():
                v = self.declare(("v", p["id"]), p["name"], ty, cat="param")
                v.pindex = i
                env["assigned"] = env["assigned"] | {v.key}
                env["scope"] = env["scope"] | {v.key}
        stmts = inner(body[0])
        # every local of the function that is not declared inside the slice is visible with an unknown value
        def all_decls(n):
            if n.get("kind") == "VarDecl":
                yield n
            for c in inner(n):
                for x in all_decls(c):
                    yield x
        for dcl in all_decls(body[0]):
            if dcl.get("storageClass") == "static":
                self.static_locals.add(("v", dcl["id"]))
            else:
                self.pre_locals.add(("v", dcl["id"]))
        for pat in self.spec.get("inside", []):
            want_else = pat.startswith("else:")
            if want_else:
                pat = pat[5:]
            texts = [" ".join(self.text_of(s_).split()) for s_ in stmts]
            hits = [i for i, t in enumerate(texts) if re.search(pat, t)]
            if len(hits) != 1:
                raise CTransError("%s: inside pattern %r matches %d statements" % (self.cname, pat, len(hits)))
            st = stmts[hits[0]]
            kd = st.get("kind")
            sub = [c for c in st.get("inner", []) if isinstance(c, dict) and c]
            if kd == "IfStmt":
                if want_else and len(sub) < 3:
                    raise CTransError("%s: inside pattern else:%r selects an if without else" % (self.cname, pat))
                nb = sub[2] if want_else else sub[1]
            elif kd in ("WhileStmt", "ForStmt"):
                nb = sub[-1]
            elif kd == "CompoundStmt":
                nb = st
            else:
                raise CTransError("%s: inside pattern %r selects a %s" % (self.cname, pat, kd))
            self.skipped.append("slice: inside `%s`" % texts[hits[0]][:70])
            stmts = inner(nb) if nb.get("kind") == "CompoundStmt" else [nb]
        start, stop = self.spec.get("start"), self.spec.get("stop")
        if start or stop:
            texts = [" ".join(self.text_of(s).split()) for s in stmts]
            i0 = 0
            if start:
                hits = [i for i, t in enumerate(texts) if re.search(start, t)]
                if len(hits) != 1:
                    raise CTransError("%s: start pattern %r matches %d top-level statements" % (self.cname, start, len(hits)))
                i0 = hits[0]
            i1 = len(stmts)
            if stop:
                hits = [i for i, t in enumerate(texts) if i >= i0 and re.search(stop, t)]
                if len(hits) < 1:
                    raise CTransError("%s: stop pattern %r matches no top-level statement" % (self.cname, stop))
                i1 = hits[0]
            # locals declared before the slice: visible, values unknown (inputs when read)
            for s in stmts[:i0]:
                if s.get("kind") == "DeclStmt":
                    for d in inner(s):
                        if d.get("kind") == "VarDecl":
                            if d.get("storageClass") == "static":
                                self.static_locals.add(("v", d["id"]))
                            else:
                                self.pre_locals.add(("v", d["id"]))
            self.skipped.append("slice: top-level statements %d..%d of %d (first: `%s`; first excluded: `%s`)" % (
                i0 + 1, i1, len(stmts), texts[i0][:60], texts[i1][:60] if i1 < len(stmts) else "end of function"))
            stmts = stmts[i0:i1]
        # locals declared INSIDE the slice are ordinary locals of the kernel, not inputs
        self.decl_in_slice = set()
        for st_ in stmts:
            for dcl in all_decls(st_):
                self.pre_locals.discard(("v", dcl["id"]))
                self.decl_in_slice.add(("v", dcl["id"]))
        self.slice_text = "\n".join(self.text_of(s) for s in stmts)
        bpats = self.spec.get("blocks", [])
        if bpats:
            # straight-line runs starting at a statement that matches a `blocks` pattern become auxiliary definitions
            # <name>_blkK (inputs = the variables they read, result = the variables they assign): the main definition
            # stays linear in size and each block can be reasoned about on its own
            out_, cur = [], None
            for st_ in stmts:
                t_ = " ".join(self.text_of(st_).split())
                starts = any(re.search(bp, t_) for bp in bpats)
                simple = st_.get("kind") in ("BinaryOperator", "CompoundAssignOperator", "UnaryOperator", "ParenExpr")
                if starts and simple:
                    cur = {"kind": "CtransBlock", "stmts": [st_]}
                    out_.append(cur)
                elif cur is not None and simple:
                    cur["stmts"].append(st_)
                else:
                    cur = None
                    out_.append(st_)
            stmts = out_

        def k_end(env2):
            if self.outputs is None:
                if self.ret_ty.kind == "x":
                    raise CTransError("%s: void function without declared outputs" % self.cname)
                return ["None (* control reaches the end of a non-void function *)"]
            names = []
            missing = [o for o in self.outputs if o not in self.names]
            subst = {}
            if missing:
                # a declared output was renamed in the source: take it by position when that is unambiguous, i.e. when as
                # many scalar locals declared inside the slice are left over (not named as outputs) as outputs are missing
                left = [v.name for key, v in self.vars.items()
                        if v.cat == "local" and key[0] == "v" and key in env2["assigned"] and v.ty.scalar() and
                        v.name not in self.outputs and key in self.decl_in_slice]
                if len(left) == len(missing):
                    subst = dict(zip(missing, left))
                    self.out_subst = subst
                    for o_, n_ in subst.items():
                        self.skipped.append("declared output '%s' is not a variable any more: taken by position, '%s'" % (o_, n_))
            for o in self.outputs:
                o = subst.get(o, o)
                if o not in self.names:
                    raise CTransError("%s: declared output '%s' is not a variable of the kernel" % (self.cname, o))
                key = self.names[o]
                if key not in env2["assigned"]:
                    self.need_input(self.vars[key], env2)
                if key in env2["opaque"]:
                    raise CTransError("%s: output '%s' has an unmodelled value" % (self.cname, o))
                names.append(o)
            return ["Some %s" % self.ptuple(names)]
        ctx = dict(ret=lambda e: ["Some %s" % e.zpar()], brk=None, cont=None)
        lines = self.tr(stmts, env, ctx, k_end)
        # parameters: fuel, C parameters in declaration order (used ones), then the other inputs sorted by name
        used = set(re.findall(r"[A-Za-z_][A-Za-z0-9_']*", "\n".join(lines + self.loops)))
        order = []
        if self.uses_fuel:
            order.append("fuel")
        pk = [("v", p["id"]) for p in params if ("v", p["id"]) in self.vars and self.vars[("v", p["id"])].name in used]
        order += pk
        others = [key for key in self.inputs if key not in pk]
        others.sort(key=lambda key: self.vars[key].name)
        order += others
        self.param_order = order
        binders = "".join(" (fuel : nat)" if key == "fuel" else " (%s : %s)" % (self.vars[key].name, self.vars[key].coqty) for key in order)
        if self.outputs is None:
            rty = "option Z"
        else:
            outs_ = [getattr(self, "out_subst", {}).get(o, o) for o in self.outputs]
            rty = "option (%s)" % " * ".join(("(%s)" % self.vars[self.names[o]].coqty if "->" in self.vars[self.names[o]].coqty else "Z") for o in outs_)
        text = "\n\n".join(self.loops + ["Definition %s%s : %s :=\n%s." % (self.gname, binders, rty, "\n".join(self.indent(lines)))])
        return text


class NeedProbe(Exception):
    pass


class Unit:
    def __init__(self, name, repo):
        self.name, self.repo = name, repo
        self.spec = UNITS[name]
        f = self.spec["file"]
        self.path = os.path.join(HARNESS, f[len("@harness/"):]) if f.startswith("@harness/") else os.path.join(repo, f)
        self.probe_vals = {}
        self.probe_req = {}
        self.done = {}
        self.src = {}
        self.typedefs = {}

    def probe(self, pid, ctext):
        if pid in self.probe_vals:
            return self.probe_vals[pid]
        self.probe_req[pid] = ctext
        raise NeedProbe(pid)

    def file_of(self, fd):
        loc = fd.get("loc", {})
        if "expansionLoc" in loc:
            loc = loc["expansionLoc"]
        f = loc.get("file") or fd.get("range", {}).get("begin", {}).get("file") or self.path
        if f not in self.src:
            self.src[f] = open(f, "rb").read()
        return f

    def resolve_typedef(self, t):
        t = strip_quals(t)
        return t

    def find_func(self, name):
        objs = ast_dump(self.repo, self.path, name)
        best = None
        for o in objs:
            if o.get("kind") == "FunctionDecl" and o.get("name") == name and any(c.get("kind") == "CompoundStmt" for c in inner(o)):
                best = o
        if best is None:
            raise CTransError("function %s (with a body) not found in %s" % (name, self.path))
        return best

    def run_probes(self):
        """second clang pass: values of sizeof(...) and enum constants, read off array types"""
        if not self.probe_req:
            return
        OFF = 1 << 20
        ids = sorted(self.probe_req)
        lines = ['#include "%s"' % self.path]
        for i, pid in enumerate(ids):
            lines.append("typedef char ctrans_probe_%d[(long)(%s) + %d];" % (i, self.probe_req[pid], OFF))
        tmp = os.path.join(os.environ.get("CTRANS_TMP", "/var/tmp"), "ctrans_probe_%d_%s.c" % (os.getpid(), self.name))
        try:
            with open(tmp, "w") as f:
                f.write("\n".join(lines) + "\n")
            objs = ast_dump(self.repo, tmp, "ctrans_probe_")
        finally:
            if os.path.exists(tmp):
                os.unlink(tmp)
        for o in objs:
            if o.get("kind") == "TypedefDecl" and o.get("name", "").startswith("ctrans_probe_"):
                i = int(o["name"][len("ctrans_probe_"):])
                m = re.match(r"char\[(\d+)\]", o["type"]["qualType"])
                if not m:
                    raise CTransError("probe %s: unexpected type %s" % (ids[i], o["type"]["qualType"]))
                self.probe_vals[ids[i]] = int(m.group(1)) - OFF
        for pid in ids:
            if pid not in self.probe_vals:
                raise CTransError("probe for %s failed" % pid)
        self.probe_req = {}

    def generate(self):
        global CUR_UNIT
        CUR_UNIT = self
        texts = []
        heads = []
        for fs in self.spec["funcs"]:
            fd = self.find_func(fs["name"])
            for attempt in range(12):
                K = Kernel(self, fs, fd, self.src)
                try:
                    body = K.translate()
                    break
                except NeedProbe:
                    self.run_probes()
            else:
                raise CTransError("%s: probes did not converge" % fs["name"])
            self.done[fs["name"]] = K
            h = hashlib.sha256(" ".join(K.slice_text.split()).encode()).hexdigest()[:16]   # whitespace-insensitive
            f = self.spec["file"]
            hd = ["(* ---- %s  <-  %s : %s   (sha256 of the translated source text: %s)" % (K.gname, f, fs["name"], h)]
            ins = []
            for key in K.param_order:
                if key == "fuel":
                    ins.append("fuel : nat (bound on loop iterations; None when exhausted)")
                else:
                    v = K.vars[key]
                    ins.append("%s : %s  [%s, C type %s]" % (v.name, v.coqty, v.cat, v.ty))
            hd.append("     inputs: " + ";\n             ".join(ins))
            if K.outputs is not None:
                hd.append("     outputs: " + ", ".join(K.outputs))
            seen = []
            for s in K.skipped:
                if s not in seen:
                    seen.append(s)
            for s in seen:
                hd.append("     note: " + s.replace("(*", "( *").replace("*)", "* )"))
            hd.append("*)")
            texts.append("\n".join(hd) + "\n" + body)
        src = ("(* GENERATED by tools/ctrans.py (%s) from the working tree -- do not edit.  Unit %s.\n"
               "   Semantics of the C integer operations: Gen/CInt.v.  Inputs are assumed to lie in the range of their C types. *)\n"
               "From Coq Require Import ZArith Bool.\nFrom QV Require Import Gen.CInt.\nLocal Open Scope Z_scope.\nLocal Open Scope bool_scope.\n\n"
               % (VERSION, self.name)) + "\n\n".join(texts) + "\n"
        return src


def regenerate(name, repo, outdir=OUTDIR, check=False):
    """-> (changed: bool, path).  Raises CTransError."""
    u = Unit(name, repo)
    text = u.generate()
    os.makedirs(outdir, exist_ok=True)
    path = os.path.join(outdir, name + ".v")
    old = open(path).read() if os.path.exists(path) else None
    if old == text:
        return False, path
    if not check:
        tmp = path + ".tmp%d" % os.getpid()
        with open(tmp, "w") as f:
            f.write(text)
        os.replace(tmp, path)
    return True, path


def main(argv):
    repo = os.environ.get("VERIF_REPO", "/repo")
    outdir = OUTDIR
    check = False
    names = []
    i = 0
    while i < len(argv):
        a = argv[i]
        if a == "--repo":
            repo = argv[i + 1]; i += 2; continue
        if a == "--out":
            outdir = argv[i + 1]; i += 2; continue
        if a == "--check":
            check = True; i += 1; continue
        names.append(a); i += 1
    if not names or names == ["all"]:
        names = list(UNITS)
    rc = 0
    for nm in names:
        if nm not in UNITS:
            print("ctrans: unknown unit %s" % nm); rc = 2; continue
        try:
            ch, p = regenerate(nm, repo, outdir, check)
            print("ctrans: %s %s" % (p, "CHANGED" if ch else "unchanged"))
        except CTransError as e:
            print("ctrans: FAILED %s: %s" % (nm, e))
            rc = 1
    return rc


if __name__ == "__main__":
    sys.exit(main(sys.argv[1:]))
