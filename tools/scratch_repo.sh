#!/bin/sh
# tools/scratch_repo.sh <dir>: scratch git worktree of /repo (HEAD) with the generated headers, for trying mutations.
# Use with VERIF_REPO=<dir> ./check Cxx ; remove with: git -C /repo worktree remove --force <dir>
set -e
d="$1"; [ -n "$d" ] || { echo "usage: $0 <dir outside /repo and /verif>"; exit 1; }
git -C /repo worktree add --detach "$d" HEAD >/dev/null
cp /repo/include/config.h "$d/include/"; cp /repo/include/qthread/common.h /repo/include/qthread/qthread-int.h "$d/include/qthread/"
echo "$d"
