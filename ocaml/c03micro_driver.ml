(* C03 micro-step layer (extension B): the extracted model Syncvar/MicroAll.v.
   The code as it is by default; --oldff / --oldnb / --old: the access order before /repo 8cdc001 (readFF wait path) / e1e6722
   (_nb calls) / both (regression models; the uaf_class / nb_class guards are compared with what the search finds under --old).
   usage: c03micro_driver [--itmo N] [-v]       exhaustive search of every interleaving of every pair of calls from every initial
                                                 state; one line per (init, opA, opB) with a final state that is not good
                                                 (BAD = not even under the weak reading of _nb, NBFAIL = only the strict reading fails)
          c03micro_driver --held [--itmo N]      stdin lines "h <init> <A op> <k> <B op> <j>": the model's outcome of the schedule
                                                 "A up to (not including) its k-th interposed access, B up to its j-th (or as far as
                                                  it gets), A to the end (or as far as it gets), B to the end, then whatever is left"
                                                 (the alphabet of harness/c/c03_micro.c; k / j = 0: no hold) *)
open C03micro_model
let rec pos_of_int n = if n = 1 then XH else if n land 1 = 0 then XO (pos_of_int (n lsr 1)) else XI (pos_of_int (n lsr 1))
let n_of_int n = if n = 0 then N0 else Npos (pos_of_int n)
let rec int_of_pos = function XH -> 1 | XO p -> 2 * int_of_pos p | XI p -> 2 * int_of_pos p + 1
let int_of_n = function N0 -> 0 | Npos p -> int_of_pos p
let rec nat_of_int n = if n = 0 then O else S (nat_of_int (n - 1))
let t0 = N0 and t1 = Npos XH
let va = 11 and vb = 22
let ops v = [ "readFF", ReadFF true; "readFF_nb", ReadFF_nb true; "readFE", ReadFE true; "readFE_nb", ReadFE_nb true;
              "writeF", WriteF (n_of_int v); "writeEF", WriteEF (n_of_int v); "writeEF_nb", WriteEF_nb (n_of_int v);
              "fill", Fill; "empty", Empty; "incrF", IncrF (n_of_int v); "status", Status ]
let inits = [ "full", IFull; "empty", IEmpty; "fullEF", IFullEF; "emptyFE", IEmptyFE; "emptyFF", IEmptyFF ]
let argi name d = let r = ref d in Array.iteri (fun i a -> if a = name && i + 1 < Array.length Sys.argv then r := int_of_string Sys.argv.(i + 1)) Sys.argv; !r
let itmo = nat_of_int (argi "--itmo" 2)
let oldff = Array.mem "--oldff" Sys.argv || Array.mem "--old" Sys.argv and oldnb = Array.mem "--oldnb" Sys.argv || Array.mem "--old" Sys.argv
let mstep = mstep_gen (not oldff) (not oldnb)
let rcs = function RC_SUCCESS -> "OK" | RC_OPFAIL -> "OPFAIL" | RC_OVERFLOW -> "OVERFLOW" | RC_TIMEOUT -> "TIMEOUT"
let str_res = function None -> "BLK:-" | Some (c, v) -> rcs c ^ ":" ^ (match v with None -> "-" | Some z -> string_of_int (int_of_n z))
let wl l = "[" ^ String.concat "," (List.map (fun x -> string_of_int (int_of_n x.w_tid)) l) ^ "]"
let outcome s =
  let r = hashed s in
  Printf.sprintf "A=%s B=%s G=%s st=%d dat=%d lk=%d rec=%d E=%s FE=%s FF=%s uaf=%d fault=%d"
    (str_res (res_of s.g_t0)) (str_res (res_of s.g_t1)) (str_res (res_of s.g_t2)) (int_of_n s.g_w.w_st) (int_of_n s.g_w.w_dat)
    (if s.g_w.w_lk then 1 else 0) (match s.g_hash with Some _ -> 1 | None -> 0) (wl r.r_EFQ) (wl r.r_FEQ) (wl r.r_FFQ)
    (if s.g_uaf then 1 else 0) (if s.g_fault then 1 else 0)

let pcname = function
  | PStart -> "start" | PFast -> "load" | PMwLoad -> "mwload" | PMwCas -> "cas" | PMwUnl -> "mwunl" | PBlkHLock -> "hlock" | PBlkHGet -> "hget_locked"
  | PBlkRLock -> "rlock" | PBlkHUnl -> "hunlock" | PFFGet -> "hget" | PFFPut -> "hput" | PFFRLock -> "rlock" | PBlkPub -> "fence" | PEnq -> "enq"
  | PSwitch -> "switch" | PRelGet -> "hget" | PRelRLock -> "rlock" | PRelPub -> "fence" | PRelBody -> "gotlock_fill" | PEmpGet -> "hget" | PEmpRLock -> "rlock"
  | PEmpBody -> "fence" | PRecUnl _ -> "runlock" | PRmHLock -> "hlock" | PRmGet -> "hget_locked" | PRmRLock -> "rlock" | PRmCheck -> "rmcheck" | PRmHUnl -> "hunlock"
  | PRmFree -> "runlock" | PPub _ -> "fence" | PStUnl -> "stunl" | PDone -> "done"
(* accesses the harness can interpose (macros / functions that syncvar.c calls); the others are plain loads / stores *)
let interposed = function
  | PMwCas | PBlkHLock | PBlkHGet | PBlkRLock | PBlkHUnl | PFFGet | PFFPut | PFFRLock | PBlkPub | PRelGet | PRelRLock | PRelPub | PEmpGet | PEmpRLock
  | PEmpBody | PRecUnl _ | PRmHLock | PRmGet | PRmRLock | PRmHUnl | PRmFree | PPub _ -> true
  | _ -> false
let interposed_at s th =
  match th.t_pc with
  | PRmCheck -> (match th.t_m with Some i -> (match List.nth_opt s.g_heap (let rec n = function O -> 0 | S k -> 1 + n k in n i) with
                                               | Some r -> r.r_EFQ <> [] || r.r_FEQ <> [] || r.r_FFQ <> [] | None -> false) | None -> false)
  | p -> interposed p
let name_at th = match th.t_pc with PRmCheck -> "runlock" | p -> pcname p
let rle l =
  let rec go acc = function
    | [] -> List.rev acc
    | x :: r -> (match acc with (y, n) :: a when y = x -> go ((y, n + 1) :: a) r | _ -> go ((x, 1) :: acc) r) in
  String.concat "," (List.map (fun (x, n) -> Printf.sprintf "%s*%d" x n) (go [] l))

let fixed_any = not (oldff && oldnb)
module H = Hashtbl.Make (struct type t = gst let equal = (=) let hash x = Hashtbl.hash_param 400 800 x end)

let held () =
  try while true do
    let line = String.trim (input_line stdin) in
    (match String.split_on_char ' ' line with
     | ["h"; init; na; k; nb; j] ->
       let k = int_of_string k and j = int_of_string j in
       let ik = List.assoc init inits and oa = List.assoc na (ops va) and ob = List.assoc nb (ops vb) in
       let s = ref (minit ik oa ob) in
       let budget = ref 200000 in
       let seqs = [| ref []; ref [] |] and cnts = [| ref 0; ref 0 |] and heldat = [| ref "-"; ref "-" |] in
       let thr_of i = if i = 0 then !s.g_t0 else !s.g_t1 in
       let tid i = if i = 0 then t0 else t1 in
       (* run task i until it cannot move, or up to (not including) its lim-th interposed access (lim = 0: no hold) *)
       let run i lim =
         let stop = ref false in
         while not !stop && !budget > 0 do
           decr budget;
           let th = thr_of i in
           if th.t_blk || finished th then stop := true
           else begin
             let ip = interposed_at !s th in
             if ip && lim > 0 && !(cnts.(i)) + 1 = lim then (stop := true; heldat.(i) := name_at th)
             else match mstep itmo !s (tid i) with
               | Some s' -> if ip then (incr cnts.(i); seqs.(i) := name_at th :: !(seqs.(i))); s := s'
               | None -> stop := true
           end
         done in
       let settled_t i = let th = thr_of i in finished th || th.t_blk in
       run 0 k;                                             (* 1: A up to its hold point *)
       run 1 j;                                             (* 2: B up to its hold point, or as far as it gets *)
       let c1 = if !(heldat.(1)) <> "-" || settled_t 1 then 0 else 1 in
       run 0 0;                                             (* 3: A is released *)
       if c1 = 1 then begin                                 (*    B was waiting for a lock A held: both move now *)
         let moved = ref true in
         while !moved && !budget > 0 do let before = !s in run 1 j; run 0 0; moved := (before <> !s) done end;
       let c2 = if settled_t 0 then 0 else 1 in
       let moved = ref true in                              (* 4: B is released; everything runs on *)
       while !moved && !budget > 0 do let before = !s in run 1 0; run 0 0; moved := (before <> !s) done;
       Printf.printf "%s atA=%s atB=%s seqA=%s seqB=%s c1=%d c2=%d good=%d weak=%d\n" (outcome !s) !(heldat.(0)) !(heldat.(1))
         (rle (List.rev !(seqs.(0)))) (rle (List.rev !(seqs.(1)))) c1 c2
         (if good_final ik oa ob !s then 1 else 0) (if good_final_weak ik oa ob !s then 1 else 0)
     | _ -> print_endline "ERR");
    flush stdout
  done with End_of_file -> ()

let () =
  if Array.mem "--held" Sys.argv then held () else
  let verbose = Array.mem "-v" Sys.argv in
  let nstates = ref 0 and nfinal = ref 0 and npairs = ref 0 and badpairs = ref 0 and nbpairs = ref 0 and maxst = ref 0 in
  List.iter (fun (ni, k) ->
    List.iter (fun (na, oa) ->
      List.iter (fun (nb, ob) ->
        incr npairs;
        let seen = H.create 4096 in
        let bad = ref [] and nbf = ref [] in
        let cnt = ref 0 in
        let stack = Stack.create () in
        Stack.push (minit k oa ob, []) stack;
        while not (Stack.is_empty stack) do
          let (s, path) = Stack.pop stack in
          if not (H.mem seen s) then begin
            H.add seen s (); incr nstates; incr cnt;
            let a = mstep itmo s t0 and b = mstep itmo s t1 in
            (match a, b with
             | None, None ->
               incr nfinal;
               if not (good_final_weak k oa ob s) then bad := (List.rev path, s) :: !bad
               else if not (good_final k oa ob s) then nbf := (List.rev path, s) :: !nbf
             | _ -> ());
            (match a with Some s' -> Stack.push (s', 0 :: path) stack | None -> ());
            (match b with Some s' -> Stack.push (s', 1 :: path) stack | None -> ())
          end
        done;
        if !cnt > !maxst then maxst := !cnt;
        let shortest l = List.fold_left (fun acc x -> match acc with None -> Some x | Some (p, _) -> if List.length (fst x) < List.length p then Some x else acc) None l in
        let report tag l =
          match shortest l with
          | Some (p, s) ->
            Printf.printf "%s init=%s A=%s B=%s finals=%d states=%d schedule=%s outcome: %s settled=%b\n" tag ni na nb (List.length l) !cnt
              (String.concat "" (List.map string_of_int p)) (outcome s) (settled s)
          | None -> () in
        let found = if !bad <> [] then 2 else if !nbf <> [] then 1 else 0 in
        let cls = if uaf_class k oa ob then 2 else if nb_class k oa ob then 1 else 0 in
        if found <> cls && not fixed_any then Printf.printf "CLASSMISMATCH init=%s A=%s B=%s found=%d class=%d\n" ni na nb found cls;
        if !bad <> [] then (incr badpairs; report "BAD" !bad)
        else if !nbf <> [] then (incr nbpairs; report "NBFAIL" !nbf)
        else if verbose then Printf.printf "ok  init=%s A=%s B=%s states=%d\n" ni na nb !cnt)
        (ops vb)) (ops va)) inits;
  Printf.printf "# pairs=%d bad_pairs=%d nbfail_pairs=%d states=%d max_states_per_pair=%d finals=%d\n" !npairs !badpairs !nbpairs !nstates !maxst !nfinal
