(* driver for the extracted qarray model: one command per line on stdin, one result per line *)
open C17_model
let rec pos_of_int n = if n = 1 then XH else if n land 1 = 0 then XO (pos_of_int (n lsr 1)) else XI (pos_of_int (n lsr 1))
let n_of_int n = if n = 0 then N0 else Npos (pos_of_int n)
let rec int_of_pos = function XH -> 1 | XO p -> 2 * int_of_pos p | XI p -> 2 * int_of_pos p + 1
let int_of_n = function N0 -> 0 | Npos p -> int_of_pos p
let dist_of_int = function
  | 0 -> DFIXED_HASH | 1 -> DFIXED_FIELDS | 2 -> DALL_SAME | 3 -> DDIST | 4 -> DDIST_STRIPES | 5 -> DDIST_FIELDS
  | 6 -> DDIST_RAND | 7 -> DDIST_LEAST | 8 -> DALL_LOCAL | 9 -> DALL_RAND | _ -> DALL_LEAST
let kind_int = function FIXED_HASH -> 0 | FIXED_FIELDS -> 1 | ALL_SAME -> 2 | DIST -> 3
let cur = ref None
let nsh = ref N0
let asg = ref [||]
let asgf s = let i = int_of_n s in if i < Array.length !asg then n_of_int !asg.(i) else N0
let pr_ranges tag l =
  List.iter (fun (s, rs) ->
    Printf.printf "%s %d" tag (int_of_n s);
    List.iter (fun (lo, hi) -> Printf.printf " %d:%d" (int_of_n lo) (int_of_n hi)) rs;
    print_newline ()) l
let () =
  try while true do
    let line = input_line stdin in
    match String.split_on_char ' ' (String.trim line) with
    | "A" :: rest ->
      (match List.map int_of_string rest with
       | [count; obj; d; tight; segpages; pagesize; nsheps; oshep] ->
         let a = create (n_of_int count) (n_of_int obj) (dist_of_int d) (tight <> 0) (n_of_int segpages)
             (n_of_int pagesize) (n_of_int nsheps) (n_of_int oshep) in
         cur := Some a; nsh := n_of_int nsheps;
         let sc = int_of_n (seg_count a.d_count a.d_segsize) in
         (* deterministic assignments are computed by the model; others are overridden by an O line *)
         asg := Array.init (if a.d_segsize = N0 then 0 else sc) (fun s -> int_of_n (assign_of (dist_of_int d) (n_of_int sc) !nsh (n_of_int s)));
         Printf.printf "D %d %d %d %d %d %d %d %d %d\n" (int_of_n a.d_unit) (int_of_n a.d_segbytes) (int_of_n a.d_segsize)
           (kind_int a.d_kind) (int_of_n a.d_sps) (int_of_n a.d_extras) (int_of_n a.d_shep) sc
           (if a.d_kind = DIST then int_of_n (shep_slot a) else 0)
       | _ -> print_endline "ERR")
    | "O" :: rest -> asg := Array.of_list (List.map int_of_string rest); print_endline "O"
    | ["S"] ->
      (match !cur with Some a ->
         let sc = int_of_n (seg_count a.d_count a.d_segsize) in
         print_string "S";
         for s = 0 to sc - 1 do Printf.printf " %d" (int_of_n (shepof !nsh asgf a (n_of_int (s * int_of_n a.d_segsize)))) done;
         print_newline ()
       | None -> print_endline "ERR")
    | "e" :: rest ->
      (match !cur with Some a ->
         print_string "e"; List.iter (fun i -> Printf.printf " %d" (int_of_n (elem_off a (n_of_int (int_of_string i))))) rest; print_newline ()
       | None -> print_endline "ERR")
    | ["I"; k; st; sp] ->
      (match !cur with Some a ->
         let st = n_of_int (int_of_string st) and sp = n_of_int (int_of_string sp) in
         let r = if k = "0" then iter !nsh asgf a st sp else if k = "3" then iter_loopaccum !nsh asgf a st sp else iter_loop !nsh asgf a st sp in
         pr_ranges "R" r; print_endline "."
       | None -> print_endline "ERR")
    | ["F"] -> cur := None; print_endline "F"
    | _ -> print_endline "ERR"
  done with End_of_file -> ()
