(* driver for the extracted micro-step machine of the insert-only dictionary class (Dict/Micro.v)
   S k so k so ...        so_regularkey of each key (as the real code computes it)
   L so:key:val ...       initial list (the dump of the real list after the sequential set-up)
   P t op k v start       append an operation to task t's program (op = a | g; start = index of the bucket's dummy)
   B                      build the initial state
   X t                    task t runs to its next schedule point -> "x kind"   (3 hash, 4 equals, 1 cas, 9 end, 0 stuck)
   D                      reachable list -> "D | so:key:val ..."
   R t                    results of task t, in program order -> "R v v ..." *)
open C16m_model

let rec pos_of_i64 (n : int64) : positive =
  if n = 1L then XH
  else if Int64.logand n 1L = 0L then XO (pos_of_i64 (Int64.shift_right_logical n 1))
  else XI (pos_of_i64 (Int64.shift_right_logical n 1))
let n_of_i64 n = if n = 0L then N0 else Npos (pos_of_i64 n)
let rec i64_of_pos = function
  | XH -> 1L
  | XO p -> Int64.shift_left (i64_of_pos p) 1
  | XI p -> Int64.logor (Int64.shift_left (i64_of_pos p) 1) 1L
let i64_of_n = function N0 -> 0L | Npos p -> i64_of_pos p
let n_of_string s = n_of_i64 (Int64.of_string ("0u" ^ s))
let str_of_n n = Printf.sprintf "%Lu" (i64_of_n n)
let rec nat_of_int i = if i <= 0 then O else S (nat_of_int (i - 1))
let rec int_of_nat = function O -> 0 | S n -> 1 + int_of_nat n

let tab : (int64, n) Hashtbl.t = Hashtbl.create 64
let sof k = match Hashtbl.find_opt tab (i64_of_n k) with Some h -> h | None -> N0
let keq a b = (i64_of_n a) = (i64_of_n b)

let init_list = ref []
let progs : (int, mop list) Hashtbl.t = Hashtbl.create 16
let st = ref (minit [] [])
let words l = List.filter (fun s -> s <> "") (String.split_on_char ' ' (String.trim l))

let () =
  try while true do
    let line = input_line stdin in
    (match words line with
     | "S" :: rest ->
       Hashtbl.reset tab;
       let rec go = function k :: h :: t -> Hashtbl.replace tab (Int64.of_string ("0u" ^ k)) (n_of_string h); go t | _ -> () in
       go rest; print_endline "S"
     | "L" :: rest ->
       init_list := List.map (fun x -> match String.split_on_char ':' x with
           | [a; b; c] -> ((n_of_string a, n_of_string b), n_of_string c) | _ -> failwith "L") rest;
       Hashtbl.reset progs; print_endline "L"
     | ["P"; t; op; k; v; start] ->
       let t = int_of_string t in
       let o = if op = "a" then MPia (n_of_string k, n_of_string v, nat_of_int (int_of_string start))
         else MGet (n_of_string k, nat_of_int (int_of_string start)) in
       Hashtbl.replace progs t ((try Hashtbl.find progs t with Not_found -> []) @ [o]); print_endline "P"
     | ["B"; nt] ->
       let nt = int_of_string nt in
       st := minit !init_list (List.init nt (fun t -> try Hashtbl.find progs t with Not_found -> []));
       print_endline "B"
     | ["X"; t] ->
       let (s', k) = run_to_sp sof keq (nat_of_int 100000) !st (nat_of_int (int_of_string t)) in
       st := s'; Printf.printf "x %d\n" (int_of_nat k)
     | ["D"] ->
       print_string "D |";
       List.iter (fun i -> let nd = getn !st.m_heap i in
                   Printf.printf " %s:%s:%s" (str_of_n nd.mn_so) (str_of_n nd.mn_key) (str_of_n nd.mn_val)) (mlist !st);
       print_newline ()
     | ["R"; t] ->
       (match List.nth_opt !st.m_thr (int_of_string t) with
        | Some th -> print_string "R"; List.iter (fun v -> Printf.printf " %s" (str_of_n v)) (List.rev th.t_res); print_newline ()
        | None -> print_endline "R")
     | _ -> print_endline "ERR");
  done with End_of_file -> ()
