(* driver for the extracted sinc model (Sinc/Model.v).  Values are byte strings (hex on the wire).
   S <hd> <size> <opk> <init> <nslots> <c0>   new sinc; then one "T <ops>" line per thread; then "R <r..>"
   Z <n>                                              reset; then T lines; then R
   ops: s:<hex>:<slot>  n:<slot> (submit NULL)  e:<n>  w (wait with target)  v (wait without)
   output per micro-step: "<tid> <Kind> <counter> <ready> <res> <slots> | <states>[ ; W<t>=<val>]" then "END done|deadlock <k>" *)
open C10_model
let rec nat_of_int n = if n <= 0 then O else S (nat_of_int (n - 1))
let rec int_of_nat = function O -> 0 | S n -> 1 + int_of_nat n
let rec pos_of_int n = if n = 1 then XH else if n land 1 = 0 then XO (pos_of_int (n lsr 1)) else XI (pos_of_int (n lsr 1))
let z_of_int n = if n = 0 then Z0 else if n > 0 then Zpos (pos_of_int n) else Zneg (pos_of_int (-n))
let rec i64_of_pos = function
  | XH -> 1L | XO p -> Int64.shift_left (i64_of_pos p) 1 | XI p -> Int64.logor (Int64.shift_left (i64_of_pos p) 1) 1L
let str_of_z = function Z0 -> "0" | Zpos p -> Printf.sprintf "%Lu" (i64_of_pos p) | Zneg p -> "-" ^ Printf.sprintf "%Lu" (i64_of_pos p)
let unhex h = String.init (String.length h / 2) (fun i -> Char.chr (int_of_string ("0x" ^ String.sub h (2 * i) 2)))
let hex s = String.concat "" (List.map (fun c -> Printf.sprintf "%02x" (Char.code c)) (List.init (String.length s) (String.get s)))
let bytewise f a b = String.init (String.length a) (fun i -> Char.chr ((f (Char.code a.[i]) (Char.code b.[i])) land 255))
let add64 a b =
  let get s = let r = ref 0L in for i = 7 downto 0 do r := Int64.logor (Int64.shift_left !r 8) (Int64.of_int (Char.code s.[i])) done; !r in
  let v = Int64.add (get a) (get b) in
  String.init 8 (fun i -> Char.chr (Int64.to_int (Int64.logand (Int64.shift_right_logical v (8 * i)) 255L)))
let vop_of = function
  | 0 -> bytewise ( + ) | 1 -> bytewise max | 2 -> bytewise ( lxor ) | 3 -> bytewise min | _ -> add64
let parse_op tok =
  match String.split_on_char ':' tok with
  | ["s"; h; k] -> Submit (Some (unhex h), nat_of_int (int_of_string k))
  | ["n"; k] -> Submit (None, nat_of_int (int_of_string k))
  | ["e"; n] -> Expect (nat_of_int (int_of_string n))
  | ["w"] -> Wait true
  | ["v"] -> Wait false
  | _ -> failwith ("bad op " ^ tok)
let stname = function
  | PIdle -> "Idle" | PSlot _ -> "Slot" | PDec _ -> "Dec" | PC0 -> "C0" | PCol k -> "Col" ^ string_of_int (int_of_nat k)
  | PFill -> "Fill" | PAdd _ -> "Add" | PEmpty -> "Empty" | PRead _ -> "Read" | PBlk _ -> "Blk" | PCopy -> "Copy"
let kindname = function PCol _ -> "Col" | p -> stname p
type pending = NoSinc | Start of bool * string * int * int | Reset of int
let () =
  let vop = ref (vop_of 0) in
  let st : string state option ref = ref None in
  let pend = ref NoSinc in
  let progs = ref [] in
  try while true do
    let line = input_line stdin in
    match List.filter (fun x -> x <> "") (String.split_on_char ' ' (String.trim line)) with
    | ["S"; hd; _size; opk; iv; ns; c0] ->
      vop := vop_of (int_of_string opk);
      pend := Start (hd <> "0", unhex iv, int_of_string ns, int_of_string c0); progs := []
    | ["Z"; n] -> pend := Reset (int_of_string n); progs := []
    | "T" :: ops -> progs := !progs @ [List.map parse_op ops]
    | "R" :: rs ->
      let rs = Array.of_list (List.map int_of_string rs) in
      let s0 = match !pend, !st with
        | Start (hd, iv, ns, c0), _ -> start hd iv (nat_of_int ns) (z_of_int c0) !progs
        | Reset n, Some s -> reset s (z_of_int n) !progs
        | _ -> failwith "R without S" in
      let s = ref s0 in
      Printf.printf "I %s %d %s %s\n" (str_of_z s0.counter) (if s0.ready then 1 else 0)
        (if s0.hasdata then hex s0.result else "-")
        (if s0.hasdata then String.concat "," (List.map hex s0.slots) else "-");
      let k = ref 0 and fin = ref false in
      while not !fin do
        let r = if Array.length rs = 0 then 0 else rs.(!k mod Array.length rs) in
        match pick !vop !s (nat_of_int r) with
        | None ->
          Printf.printf "END %s %d\n" (if quiescent !s then "done" else "deadlock") !k; fin := true
        | Some i ->
          let ii = int_of_nat i in
          let told = List.nth !s.thrs ii in
          (match step !vop !s i with
           | None -> Printf.printf "END modelerror %d\n" !k; fin := true
           | Some s' ->
             let before = List.map (fun t -> List.length t.t_got) !s.thrs in
             s := s'; incr k;
             Printf.printf "%d %s %s %d %s %s |" ii (kindname told.t_pc) (str_of_z s'.counter) (if s'.ready then 1 else 0)
               (if s'.hasdata then hex s'.result else "-")
               (if s'.hasdata then String.concat "," (List.map hex s'.slots) else "-");
             List.iter (fun t -> Printf.printf " %s" (stname t.t_pc)) s'.thrs;
             List.iteri (fun j t ->
                 let b = List.nth before j in
                 List.iteri (fun q g -> if q >= b then
                                Printf.printf " ; W%d=%s" j (match g with Some v -> hex v | None -> "-")) t.t_got) s'.thrs;
             print_newline ())
      done;
      st := Some !s; pend := NoSinc
    | [] -> ()
    | _ -> print_endline "ERR"
  done with End_of_file -> ()
