(* driver for the extracted loops model (coq/theories/Loops/Model.v): one command per line on stdin,
   one canonical result line per command.  See lib/verif/props/c12.py for the protocol. *)
open C12_model

let rec pos_of_int n = if n = 1 then XH else if n land 1 = 0 then XO (pos_of_int (n lsr 1)) else XI (pos_of_int (n lsr 1))
let z_of_int n = if n = 0 then Z0 else if n > 0 then Zpos (pos_of_int n) else Zneg (pos_of_int (-n))
let rec nat_of_int n = if n <= 0 then O else S (nat_of_int (n - 1))
let rec int_of_nat = function O -> 0 | S n -> 1 + int_of_nat n
let rec pos_bits = function XH -> 1 | XO p | XI p -> 1 + pos_bits p
let rec int_of_pos = function XH -> 1 | XO p -> 2 * int_of_pos p | XI p -> 2 * int_of_pos p + 1
let e9 = z_of_int 1000000000
(* decimal strings of any size (64-bit ranges do not fit OCaml's 63-bit int) *)
let z_of_string s =
  let neg = String.length s > 0 && s.[0] = '-' in
  let s = if neg then String.sub s 1 (String.length s - 1) else s in
  let n = String.length s in
  let rec go i acc =
    if i >= n then acc
    else let l = min 9 (n - i) in
      let chunk = int_of_string (String.sub s i l) in
      let mul = z_of_int (int_of_float (10. ** float_of_int l)) in
      go (i + l) (Z.add (Z.mul acc mul) (z_of_int chunk)) in
  let v = go 0 Z0 in
  if neg then Z.mul v (z_of_int (-1)) else v
let rec string_of_zpos z =
  match z with
  | Z0 -> "0"
  | Zpos p when pos_bits p <= 60 -> string_of_int (int_of_pos p)
  | Zpos _ -> let (q, r) = Z.div_eucl z e9 in
    let rs = (match r with Z0 -> 0 | Zpos p -> int_of_pos p | Zneg _ -> 0) in
    string_of_zpos q ^ Printf.sprintf "%09d" rs
  | Zneg _ -> "?"
let string_of_z z = match z with Zneg p -> "-" ^ string_of_zpos (Zpos p) | _ -> string_of_zpos z
let zcmp a b = match Z.compare a b with Lt -> -1 | Eq -> 0 | Gt -> 1
let sz = string_of_z

let synct_of = function "aligned" -> ALIGNED | "sv" -> SYNCVAR_T | "sinc" | "simple_sinc" -> SINC_T | _ -> DONECOUNT
let slot_s = function SlotIdx i -> sz i | SlotSinc -> "s" | SlotNone -> "n"
let fl_of = function "chunk" -> CHUNK | "guided" -> GUIDED | "factored" -> FACTORED | _ -> TIMED

let pr_ranges tag rs =
  let rs = List.sort (fun (a, _) (b, _) -> zcmp a b) rs in
  print_string tag; List.iter (fun (lo, hi) -> Printf.printf " %s:%s" (sz lo) (sz hi)) rs; print_newline ()

let cur_p = ref None
let cur_s = ref None
let seen = ref 0

let () =
  try while true do
    let line = input_line stdin in
    (match String.split_on_char ' ' (String.trim line) with
    | ["S"; a; b; nw] ->
      let rs = split (z_of_string a) (z_of_string b) (z_of_string nw) in
      print_string "S"; List.iter (fun (lo, hi) -> Printf.printf " %s:%s" (sz lo) (sz hi)) rs; print_newline ()
    | ["B"; st; a; b; nw] ->
      let ts = balance_tasks (synct_of st) (z_of_string a) (z_of_string b) (z_of_string nw) in
      let ts = List.sort (fun (((i, _), _), _) (((j, _), _), _) -> zcmp i j) ts in
      print_string "T"; List.iter (fun (((i, l), s), _) -> Printf.printf " %s:%s:%s" (sz i) (sz l) (slot_s s)) ts; print_newline ();
      pr_ranges "R" (List.map (fun (_, r) -> r) ts)
    | ["L"; st; a; b; nw] ->
      let st = synct_of st in
      let a = z_of_string a and b = z_of_string b and nw = z_of_string nw in
      let ts = balance_tasks st a b nw in
      let ts = List.sort (fun (((i, _), _), _) (((j, _), _), _) -> zcmp i j) ts in
      print_string "T"; List.iter (fun (((i, l), s), _) -> Printf.printf " %s:%s:%s" (sz i) (sz l) (slot_s s)) ts; print_newline ();
      let ws = qt_loop_tasks a b nw in
      let ws = List.sort (fun ((i, _), _) ((j, _), _) -> zcmp i j) ws in
      print_string "W";
      List.iter (fun ((lo, _), tc) -> Printf.printf " %s:%s:%s" (sz lo) (sz tc) (slot_s (spawner_slot st tc))) ws;
      print_newline ();
      pr_ranges "R" (List.map (fun ((lo, hi), _) -> (lo, hi)) ws)
    | ["C"; fl; a; b; nthreads; nw; sheps; chunk; step; nsheps; lb0] ->
      let p = { p_fl = fl_of fl; p_stop = z_of_string b; p_nw = z_of_string nw; p_sheps = z_of_string sheps;
                p_chunk = z_of_string chunk; p_step = z_of_string step } in
      let ns = int_of_string nsheps in
      let shl = List.init (int_of_string nthreads) (fun i -> z_of_int (i mod ns)) in
      cur_p := Some p; cur_s := Some (init p (z_of_string a) shl (z_of_string lb0)); seen := 0;
      print_endline "C"
    | ["g"; tid; slow] ->
      (match !cur_p, !cur_s with
       | Some p, Some s ->
         let t = nat_of_int (int_of_string tid) in
         let s' = grant p s t (slow <> "0") in
         cur_s := Some s';
         let ((k, a), b) = pending p s' t in
         Printf.printf "G %s %s %s %s:%s:%s" tid (sz s'.s_cur) (if p.p_fl = FACTORED then sz s'.s_phase else "0") (sz k) (sz a) (sz b);
         List.iteri (fun i (_, (lo, hi)) -> if i >= !seen then Printf.printf " %s:%s" (sz lo) (sz hi)) s'.s_out;
         seen := List.length s'.s_out;
         print_newline ()
       | _ -> print_endline "ERR")
    | ["a"; fuel] ->
      (match !cur_p, !cur_s with
       | Some p, Some s ->
         let s' = run_alone p (nat_of_int (int_of_string fuel)) s in
         cur_s := Some s';
         pr_ranges (if all_done s' then "A" else "A-outoffuel") (List.map snd s'.s_out)
       | _ -> print_endline "ERR")
    | ["d"] ->
      (match !cur_s with Some s -> print_endline (if all_done s then "d 1" else "d 0") | None -> print_endline "ERR")
    | _ -> print_endline "ERR");
  done with End_of_file -> ()
