(* driver for the extracted FEB model (C01/C02/C06): same script as harness/c/c01_feb.c, same canonical lines *)
open C01_model
let rec pos_of_int n = if n = 1 then XH else if n land 1 = 0 then XO (pos_of_int (n lsr 1)) else XI (pos_of_int (n lsr 1))
let n_of_int n = if n = 0 then N0 else Npos (pos_of_int n)
let rec int_of_pos = function XH -> 1 | XO p -> 2 * int_of_pos p | XI p -> 2 * int_of_pos p + 1
let int_of_n = function N0 -> 0 | Npos p -> int_of_pos p
let z_of_int n = if n = 0 then Z0 else if n > 0 then Zpos (pos_of_int n) else Zneg (pos_of_int (-n))
let int_of_z = function Z0 -> 0 | Zpos p -> int_of_pos p | Zneg p -> - (int_of_pos p)

let api_of_string = function
  | "readFE" -> A_readFE | "readFE_nb" -> A_readFE_nb | "readFF" -> A_readFF | "readFF_nb" -> A_readFF_nb
  | "writeEF" -> A_writeEF | "writeEF_nb" -> A_writeEF_nb | "writeF" -> A_writeF | "writeFF" -> A_writeFF
  | "purge_to" -> A_purge_to | "fill" -> A_fill | "empty" -> A_empty | s -> failwith ("api " ^ s)
let bt_of_string = function
  | "PURGE" -> BT_PURGE | "WRITEEF" -> BT_WRITEEF | "WRITEEF_NB" -> BT_WRITEEF_NB | "WRITEF" -> BT_WRITEF
  | "WRITEFF" -> BT_WRITEFF | "READFF" -> BT_READFF | "READFF_NB" -> BT_READFF_NB | "READFE" -> BT_READFE
  | "READFE_NB" -> BT_READFE_NB | "FILL" -> BT_FILL | "EMPTY" -> BT_EMPTY | s -> failwith ("bt " ^ s)

let passes = ref [] and runs = ref []
let tbl f = runs_as !passes !runs f

let dmode_of = function 0 -> DOwn | 1 -> DNull | _ -> DSame
let src_of a1 a2 = if a1 = 0 then Some (z_of_int a2) else None
let op_of name a1 a2 =
  match name with
  | "readFE" -> OReadFE (dmode_of a1) | "readFE_nb" -> OReadFE_nb (dmode_of a1)
  | "readFF" -> OReadFF (dmode_of a1) | "readFF_nb" -> OReadFF_nb (dmode_of a1) | "readXX" -> OReadXX (dmode_of a1)
  | "writeEF" -> OWriteEF (src_of a1 a2) | "writeEF_nb" -> OWriteEF_nb (src_of a1 a2)
  | "writeF" -> OWriteF (src_of a1 a2) | "writeFF" -> OWriteFF (src_of a1 a2) | "purge_to" -> OPurge (src_of a1 a2)
  | "writeEF_const" -> OWriteEF (Some (z_of_int a2)) | "writeF_const" -> OWriteF (Some (z_of_int a2))
  | "writeFF_const" -> OWriteFF (Some (z_of_int a2)) | "purge_to_const" -> OPurge (Some (z_of_int a2))
  | "writeEF_const_nb" -> OWriteEF_nb (Some (z_of_int a2))
  | "fill" -> OFill | "empty" -> OEmpty | "purge" -> OPurge (Some Z0)
  | "lock" -> OReadFE DNull | "unlock" -> OFill | "status" -> OStatus
  | s -> failwith ("op " ^ s)

let st = ref init
let nt = ref 0 and ne = ref 0 and np = ref 0 and nw = ref 0
let step_no = ref 0
let pinfo : (int, int * int * int) Hashtbl.t = Hashtbl.create 16       (* k -> retmode, retw, retval *)
let plaunch : (int, int) Hashtbl.t = Hashtbl.create 16                 (* k -> ordinal *)
let pspawned : (int, unit) Hashtbl.t = Hashtbl.create 16

let str_val = function None -> "-" | Some z -> string_of_int (int_of_z z)
let code_int = function OK -> 0 | OPFAIL -> -7

let print_word w =
  let ro = lookup (n_of_int w) !st.st_febs in
  let present, full, q = match ro with
    | None -> 0, 1, [ []; []; []; [] ]
    | Some r -> 1, (if r.r_full then 1 else 0), [ r.r_EFQ; r.r_FEQ; r.r_FFQ; r.r_FFWQ ] in
  let lst l = "[" ^ String.concat "." (List.map (fun x -> string_of_int (int_of_n x.w_tid) ^ (if x.w_nascent then "n" else "")) l) ^ "]" in
  Printf.printf " W%d=%d,%d,%d,%d,%s" w present full full (int_of_z (memget (n_of_int w) !st)) (String.concat "," (List.map lst q))

(* small scripts: every word; many-words scripts: the touched word, its neighbour, one word chosen by the step number *)
let print_words touched =
  if !nw <= 6 then for w = 0 to !nw - 1 do print_word w done
  else begin
    print_word touched; print_word ((touched + 1) mod !nw); print_word ((17 * touched + !step_no) mod !nw)
  end

(* run one model step and the cascade of return-value writes of launched precondition tasks *)
let do_step (f : state -> state * event list) caller touched =
  let released = ref [] and launched = ref [] and callres = ref None and special = ref None in
  let queue = Queue.create () in
  let absorb first evs =
    List.iter (function
        | Ret (t, c, v) ->
          let t = int_of_n t in
          if first && t = caller && !callres = None then callres := Some (c, v)
          else if t < 100 then released := (t, c, v) :: !released
        | Enq k -> let k = int_of_n k in launched := k :: !launched; Hashtbl.replace plaunch k !step_no; Queue.add k queue
        | Skip _ -> special := Some "SKIP"
        | Bad -> special := Some "BAD"
        | Fuel -> special := Some "FUEL") evs in
  let (s1, evs) = f !st in
  (match evs with [Skip _] -> () | _ -> incr step_no);
  st := s1;
  absorb true evs;
  while not (Queue.is_empty queue) do
    let k = Queue.pop queue in
    match Hashtbl.find_opt pinfo k with
    | Some (rm, rw, rv) when rm <> 0 ->
      let (s2, ev2) = step !st (n_of_int k) (GWord (n_of_int rw, OWriteEF (Some (z_of_int rv)))) in
      st := s2; absorb false ev2
    | _ -> ()
  done;
  match !special with
  | Some s -> Printf.printf "r %d %s\n" caller s
  | None ->
    Printf.printf "r %d " caller;
    (match !callres with None -> print_string "BLK -" | Some (c, v) -> Printf.printf "%d %s" (code_int c) (str_val v));
    print_string " |";
    List.iter (fun (t, c, v) -> Printf.printf " %d:%d:%s" t (code_int c) (str_val v)) (List.sort compare !released);
    print_string " |";
    List.iter (fun k -> Printf.printf " %d" k) (List.sort compare !launched);
    print_string " |";
    print_words touched;
    print_newline ()

let () =
  try while true do
    let line = String.trim (input_line stdin) in
    (match String.split_on_char ' ' line with
    | ["TP"; f; b] -> passes := !passes @ [ (api_of_string f, bt_of_string b) ]
    | ["TR"; b; f] -> runs := !runs @ [ (bt_of_string b, api_of_string f) ]
    | ["TC"] -> passes := []; runs := []
    | "S" :: a :: b :: c :: d :: vals ->
      nt := int_of_string a; ne := int_of_string b; np := int_of_string c; nw := int_of_string d;
      step_no := 0; Hashtbl.reset pinfo; Hashtbl.reset plaunch; Hashtbl.reset pspawned;
      let mem = List.mapi (fun i v -> (n_of_int i, z_of_int (int_of_string v))) vals in
      st := { st_mem = mem; st_febs = []; st_pre = [] };
      print_endline "s"
    | ["o"; tid; w; name; a1; a2] ->
      let tid = int_of_string tid and w = int_of_string w in
      let o = op_of name (int_of_string a1) (int_of_string a2) in
      if tid >= !nt then do_step (fun s -> step_ext tbl s (n_of_int tid) (n_of_int w) o) tid w
      else do_step (fun s -> step s (n_of_int tid) (GWord (n_of_int w, o))) tid w
    | "p" :: tid :: k :: _variant :: retmode :: retw :: retval :: _n :: pcs ->
      let tid = int_of_string tid and k = 100 + int_of_string k in
      let rm = int_of_string retmode and rw = int_of_string retw and rv = int_of_string retval in
      let pcs = List.map (fun x -> n_of_int (int_of_string x)) (List.filter (fun x -> x <> "") pcs) in
      Hashtbl.replace pinfo k (rm, rw, rv);
      Hashtbl.replace pspawned k ();
      do_step (fun s ->
          (* qthread_spawn step 4: qthread_empty(ret) before the precondition check *)
          if rm = 1 then begin
            let (s1, e1) = step s (n_of_int tid) (GWord (n_of_int rw, OEmpty)) in
            match e1 with
            | [Skip _] -> (s1, e1)
            | _ ->
              let e1' = List.filter (function Ret (t, _, _) when int_of_n t = tid -> false | _ -> true) e1 in
              let (s2, e2) = step s1 (n_of_int tid) (GSpawn (n_of_int k, pcs)) in
              (s2, e2 @ e1')
          end else step s (n_of_int tid) (GSpawn (n_of_int k, pcs))) tid 0
    | ["E"] ->
      let items = List.concat (List.map (fun (a, r) -> List.map (fun x -> (int_of_n a, int_of_n x.w_tid)) (waiters_of r)) !st.st_febs) in
      print_string "e";
      List.iter (fun (w, t) -> Printf.printf " %d:%d" w t) (List.sort compare items);
      print_string " ;";
      let ks = List.sort compare (List.map (fun (k, _) -> int_of_n k) !st.st_pre) in
      List.iter (fun k -> match Hashtbl.find_opt plaunch k with
          | Some o -> Printf.printf " %d:1:%d" k o
          | None -> Printf.printf " %d:0:-1" k) ks;
      print_newline ()
    | [""] | ["Q"] -> ()
    | _ -> print_endline "ERR");
    flush stdout
  done with End_of_file -> ()
