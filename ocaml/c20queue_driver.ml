(* driver of the extracted C20 queue/proxy micro-step machine (coq/theories/Io/QueueMicro.v).
   stdin, one case per line:   case <max> <fin> <W> {<n> j1 .. jn}*W <S> {t c}*S
   stdout, one line per case:  R ; obs0 ; obs1 ; ... ; end <quiet|fix|cap>  (one observation per schedule entry, obs0 = initial
   state; then the fair completion: round-robin grants with every timed wait timing out)
   The real code (harness/c/c20_queue.c) prints the same line for the same case. *)
open C20queue_model
let rec nat_of_int n = if n <= 0 then O else S (nat_of_int (n - 1))
let rec int_of_nat = function O -> 0 | S n -> 1 + int_of_nat n
let rec int_of_pos = function XH -> 1 | XO p -> 2 * int_of_pos p | XI p -> 2 * int_of_pos p + 1
let int_of_z = function Z0 -> 0 | Zpos p -> int_of_pos p | Zneg p -> - (int_of_pos p)
let rec pos_of_int n = if n <= 1 then XH else if n land 1 = 0 then XO (pos_of_int (n lsr 1)) else XI (pos_of_int (n lsr 1))
let z_of_int n = if n = 0 then Z0 else if n > 0 then Zpos (pos_of_int n) else Zneg (pos_of_int (- n))
let ids l = if l = [] then "-" else String.concat "." (List.map (fun n -> string_of_int (int_of_nat n)) l)
let kind = function
  | TW (pc, _, _) -> (match pc with W_Lock -> "L" | W_Decide -> "?d" | W_Spawn -> "S" | W_Incr -> "I+" | W_Signal -> "G"
                                  | W_Unlock -> "U" | W_Done -> "D")
  | TP (pc, it) -> (match pc with P_Test -> "T" | P_Lock -> "L" | P_Check -> "?c" | P_Wait0 -> "W" | P_Waiting -> "Z"
                                | P_Reacq true -> "RT" | P_Reacq false -> "R0" | P_After _ -> "?a" | P_Decr | P_DecrX -> "I-"
                                | P_UnlockExit | P_Unlock0 | P_UnlockItem -> "U" | P_Deq -> "?q"
                                | P_Call -> "C" ^ string_of_int (int_of_nat it) | P_Requeue -> "Q" ^ string_of_int (int_of_nat it)
                                | P_Exit -> "X")
  | TF pc -> (match pc with F_Set -> "F" | F_Read -> "M" | F_Lock -> "L" | F_Unlock -> "U" | F_Done -> "D")
let fmt_state st nj =
  let q = s_q st in
  Printf.sprintf "k=%s own=%s q=%s tl=%s len=%d cnt=%d pe=%d ca=%s bk=%s fl=-"
    (String.concat "," (List.map kind (s_thr st)))
    (match s_lock st with None -> "-" | Some t -> string_of_int (int_of_nat t))
    (ids (walk (nat_of_int (nj + 2)) (q_head q) (q_nxt q)))
    (match q_tail q with None -> "-" | Some t -> string_of_int (int_of_nat t))
    (int_of_z (q_len q)) (int_of_z (s_count st)) (if s_pe st then 1 else 0) (ids (s_called st)) (ids (s_back st))
let obs tag st nj = tag ^ " " ^ fmt_state st nj
let words l = List.filter (fun s -> s <> "") (String.split_on_char ' ' (String.trim l))
let () =
  try while true do
    let line = input_line stdin in
    (match words line with
     | "case" :: rest ->
       (try
         let a = Array.of_list (List.map int_of_string rest) in
         let p = ref 0 in
         let next () = let v = a.(!p) in incr p; v in
         let mx = next () in let fin = next () in let w = next () in
         let jobs = List.init w (fun _ -> let n = next () in List.init n (fun _ -> nat_of_int (next ()))) in
         let nj = List.fold_left (fun s l -> s + List.length l) 0 jobs in
         let s = next () in
         let st = ref (init jobs (fin <> 0) (z_of_int mx)) in
         let b = Buffer.create 4096 in
         Buffer.add_string b ("R ; " ^ obs "i" !st nj);
         for _ = 1 to s do
           let t = next () in let c = next () in
           (match grant !st (nat_of_int t) (nat_of_int c) with
            | Some st' -> st := st'; Buffer.add_string b (" ; " ^ obs "g" !st nj)
            | None -> Buffer.add_string b (" ; " ^ obs "s" !st nj))
         done;
         (* fair completion (same rule as the harness): round-robin, every timed wait times out *)
         let fin_reason = ref "cap" in
         (try
           for _ = 1 to 300 do
             let before = fmt_state !st nj in
             let granted = ref 0 in
             let t = ref 0 in
             while !t < List.length (s_thr !st) do
               (match grant !st (nat_of_int !t) O with
                | Some st' -> st := st'; incr granted; Buffer.add_string b (" ; " ^ obs ("t" ^ string_of_int !t) !st nj)
                | None -> ());
               incr t
             done;
             if !granted = 0 then (fin_reason := "quiet"; raise Exit);
             if before = fmt_state !st nj then (fin_reason := "fix"; raise Exit)
           done
         with Exit -> ());
         Buffer.add_string b (" ; end " ^ !fin_reason);
         print_endline (Buffer.contents b)
       with _ -> print_endline "ERR bad case")
     | _ -> print_endline "ERR");
    flush stdout
  done with End_of_file -> ()
