(* driver for the extracted C13 model (Util/Reduce.v, Util/Sort.v, Util/Allpairs.v):
   one command per line on stdin, one canonical result line per command.  See lib/verif/props/c13.py.
   Values are 64-bit patterns (Int64): aligned_t / saligned_t / the bits of a double.  The model's
   operator and comparison arguments are the machine operations on those patterns. *)
open C13_model

(* ---------- conversions ---------- *)
let nat_of_int k = let rec go acc k = if k <= 0 then acc else go (S acc) (k - 1) in go O k
let rec int_of_nat = function O -> 0 | S n -> 1 + int_of_nat n
let rec pos_of_int n = if n = 1 then XH else if n land 1 = 0 then XO (pos_of_int (n lsr 1)) else XI (pos_of_int (n lsr 1))
let n_of_int n = if n = 0 then N0 else Npos (pos_of_int n)
let rec int_of_pos = function XH -> 1 | XO p -> 2 * int_of_pos p | XI p -> 2 * int_of_pos p + 1
let int_of_n = function N0 -> 0 | Npos p -> int_of_pos p
(* Z <-> Int64 (for the cross-check of the Coq integer operators against the machine ones) *)
let rec pos_of_i64 (x : int64) =      (* x > 0 as unsigned *)
  if x = 1L then XH
  else let h = Int64.shift_right_logical x 1 in
    if Int64.logand x 1L = 0L then XO (pos_of_i64 h) else XI (pos_of_i64 h)
let z_of_u64 (x : int64) = if x = 0L then Z0 else Zpos (pos_of_i64 x)
let z_of_s64 (x : int64) =
  if x = 0L then Z0 else if x > 0L then Zpos (pos_of_i64 x)
  else if x = Int64.min_int then Zneg (pos_of_i64 x) (* 2^63 as unsigned pattern *)
  else Zneg (pos_of_i64 (Int64.neg x))
let rec i64_of_pos = function
  | XH -> 1L | XO p -> Int64.shift_left (i64_of_pos p) 1 | XI p -> Int64.logor (Int64.shift_left (i64_of_pos p) 1) 1L
let i64_of_z = function Z0 -> 0L | Zpos p -> i64_of_pos p | Zneg p -> Int64.neg (i64_of_pos p)

(* ---------- the one PRNG and the array generator (same code in harness/c/c13_util.c) ---------- *)
let sm_next (s : int64 ref) =
  s := Int64.add !s 0x9E3779B97F4A7C15L;
  let z = !s in
  let z = Int64.mul (Int64.logxor z (Int64.shift_right_logical z 30)) 0xBF58476D1CE4E5B9L in
  let z = Int64.mul (Int64.logxor z (Int64.shift_right_logical z 27)) 0x94D049BB133111EBL in
  Int64.logxor z (Int64.shift_right_logical z 31)
let urem a b = Int64.unsigned_rem a b
let ext_u = [| 0L; 1L; -1L; Int64.min_int; Int64.max_int; -2L |]
let ext_d = [| 0L; 0x7FEFFFFFFFFFFFFFL; 0xFFEFFFFFFFFFFFFFL; 1L; 0x000FFFFFFFFFFFFFL; 0x8000000000000001L;
               0x3FF0000000000000L; 0xBFF0000000000000L; 0x7FF0000000000000L; 0xFFF0000000000000L |]
let dbits f = Int64.bits_of_float f
let explicit : int64 array ref = ref [||]

(* patterns 11/12/13: mixed signs, a unique maximum at `pos` and a unique minimum at pos+1, pos in the first chunk /
   the middle / the last three elements; 14: sorted with one swap; 15: sorted except that the last element is the smallest *)
let xpos pat n = let p = (match pat with 11 -> 7 | 12 -> n / 2 | _ -> if n >= 3 then n - 3 else 0) in if p >= n then n - 1 else p
let gen ty pat n (seed : int64) : int64 array =
  let s = ref seed in
  let sd = Int64.to_int (urem seed 1000L) in
  let k24 = Int64.logand (Int64.mul seed 2654435761L) 0xFFFFFFL in
  Array.init n (fun i ->
    let r = sm_next s in
    if ty = 'd' then
      match pat with
      | 0 -> let sign = Int64.shift_left (Int64.shift_right_logical r 63) 63 in
        let e = Int64.add 993L (Int64.logand (Int64.shift_right_logical r 52) 63L) in
        Int64.logor sign (Int64.logor (Int64.shift_left e 52) (Int64.logand r 0xFFFFFFFFFFFFFL))
      | 1 -> Int64.add 0x3FF0000000000000L (Int64.of_int (i * 0x10000000 + sd))
      | 2 -> Int64.add 0x3FF0000000000000L (Int64.of_int ((n - i) * 0x10000000 + sd))
      | 3 -> Int64.add 0x4000000000000000L (Int64.shift_left (Int64.logand k24 0xFFFFFL) 20)
      | 4 -> if Int64.logand r 1L = 1L then 0x3FF8000000000000L else 0x4004000000000000L
      | 5 -> (* extremes; +inf and -inf never in the same array (their sum is NaN) *)
        let j = Int64.to_int (urem r 9L) in
        if j = 8 then ext_d.(8 + (Int64.to_int (Int64.logand seed 1L))) else ext_d.(j)
      | 6 -> dbits (float_of_int (Int64.to_int (urem r 16L)))
      | 7 -> dbits (float_of_int (Int64.to_int (urem r 1000003L)))
      | 9 -> (* most elements equal the maximum, a few smaller ones *)
        if Int64.to_int (urem r 64L) = 0 then 0x3FF0000000000000L else 0x4000000000000000L
      | 10 -> (* strided two-valued input on which a partition pass leaves both walls in place *)
        if i > 0 && (i mod 40 < 16 || i mod 40 >= 32) then 0x4000000000000000L else 0x3FF0000000000000L
      | 11 | 12 | 13 ->
        let pos = xpos pat n in
        if i = pos then (if Int64.logand seed 1L = 0L then 0x7FF0000000000000L else dbits 1e300)
        else if i = pos + 1 then (if Int64.logand seed 1L = 1L then 0xFFF0000000000000L else dbits (-1e300))
        else dbits (float_of_int (Int64.to_int (urem r 2001L) - 1000))
      | 14 -> let j = (if i = n / 3 then 2 * n / 3 else if i = 2 * n / 3 then n / 3 else i) in
        Int64.add 0x3FF0000000000000L (Int64.of_int (j * 0x10000000 + sd))
      | 15 -> let j = (if i = n - 1 then 0 else i + 1) in
        Int64.add 0x3FF0000000000000L (Int64.of_int (j * 0x10000000 + sd))
      | _ -> !explicit.(i)
    else
      match pat with
      | 0 -> r
      | 1 -> Int64.of_int (i * 7919 + sd)
      | 2 -> Int64.of_int ((n - i) * 7919 + sd)
      | 3 -> Int64.shift_right_logical (Int64.mul seed 0x9E3779B97F4A7C15L) 4
      | 4 -> if Int64.logand r 1L = 1L then k24 else Int64.add k24 1000L
      | 5 -> ext_u.(Int64.to_int (urem r 6L))
      | 6 -> urem r 16L
      | 7 -> urem r 1000003L
      | 9 -> if Int64.to_int (urem r 64L) = 0 then 5L else 9L
      | 10 -> if i > 0 && (i mod 40 < 16 || i mod 40 >= 32) then 2L else 1L
      | 11 | 12 | 13 ->
        let pos = xpos pat n in
        if i = pos then Int64.of_int (1000000 + sd)
        else if i = pos + 1 then Int64.of_int (- (1000000 + sd))
        else Int64.of_int (Int64.to_int (urem r 2001L) - 1000)
      | 14 -> let j = (if i = n / 3 then 2 * n / 3 else if i = 2 * n / 3 then n / 3 else i) in Int64.of_int (j * 7919 + sd)
      | 15 -> let j = (if i = n - 1 then 0 else i + 1) in Int64.of_int (j * 7919 + sd)
      | _ -> !explicit.(i))

(* ---------- machine operators, written as in the C sources ---------- *)
let f = Int64.float_of_bits
let ucmp = Int64.unsigned_compare
(* qloop.c: ADD a + b, MULT a * b, MAX (a > b) ? a : b, MIN (a < b) ? a : b *)
let qloop_op ty op : int64 -> int64 -> int64 =
  match ty, op with
  | 'd', "sum" -> fun a b -> dbits (f a +. f b)
  | 'd', "prod" -> fun a b -> dbits (f a *. f b)
  | 'd', "max" -> fun a b -> if f a > f b then a else b
  | 'd', "min" -> fun a b -> if f a < f b then a else b
  | _, "sum" -> Int64.add
  | _, "prod" -> Int64.mul
  | 'u', "max" -> fun a b -> if ucmp a b > 0 then a else b
  | 'u', "min" -> fun a b -> if ucmp a b < 0 then a else b
  | _, "max" -> fun a b -> if compare a b > 0 then a else b
  | _, _ -> fun a b -> if compare a b < 0 then a else b
(* qutil.c: sum += add; prod *= factor; if (max < c) max = c; if (max > c) max = c *)
let qutil_op ty op : int64 -> int64 -> int64 =
  match ty, op with
  | 'd', "max" -> fun a b -> if f a < f b then b else a
  | 'd', "min" -> fun a b -> if f a > f b then b else a
  | 'u', "max" -> fun a b -> if ucmp a b < 0 then b else a
  | 'u', "min" -> fun a b -> if ucmp a b > 0 then b else a
  | 'i', "max" -> fun a b -> if compare a b < 0 then b else a
  | 'i', "min" -> fun a b -> if compare a b > 0 then b else a
  | _, _ -> qloop_op ty op
(* the Coq instances (Reduce.v) *)
let coq_op ty op = match ty, op with
  | 'u', "sum" -> Some (u_add, z_of_u64) | 'u', "prod" -> Some (u_mul, z_of_u64)
  | 'u', "max" -> Some (z_max, z_of_u64) | 'u', "min" -> Some (z_min, z_of_u64)
  | 'i', "sum" -> Some (s_add, z_of_s64) | 'i', "prod" -> Some (s_mul, z_of_s64)
  | 'i', "max" -> Some (z_max, z_of_s64) | 'i', "min" -> Some (z_min, z_of_s64)
  | _ -> None

let is_nan_bits x = Int64.logand x 0x7FF0000000000000L = 0x7FF0000000000000L && Int64.logand x 0xFFFFFFFFFFFFFL <> 0L
let show ty x = if ty = 'd' && is_nan_bits x then "nan" else Printf.sprintf "%016Lx" x

let oob = 0x4141414141414141L   (* what the harness puts after the end of the array *)

(* ---------- sorting support ---------- *)
let leb_of ty : int64 -> int64 -> bool =
  if ty = 'd' then (fun a b -> f a <= f b) else (fun a b -> ucmp a b <= 0)
let base_sort ty (a : int64 arr) (b : n) (len : n) : int64 arr =
  let b = int_of_n b and len = int_of_n len in
  let seg = Array.init len (fun i -> aget oob a (n_of_int (b + i))) in
  let cmp = if ty = 'd' then (fun x y -> compare (f x) (f y)) else ucmp in
  Array.stable_sort cmp seg;
  let r = ref a in
  Array.iteri (fun i v -> r := aset !r (n_of_int (b + i)) v) seg; !r
let hash_arr (a : int64 arr) n =
  let h = ref 0xcbf29ce484222325L in
  for i = 0 to n - 1 do h := Int64.mul (Int64.logxor !h (aget oob a (n_of_int i))) 0x100000001b3L done; !h
let sorted_arr ty a n =
  let ok = ref true in
  for i = 1 to n - 1 do if not (leb_of ty (aget oob a (n_of_int (i - 1))) (aget oob a (n_of_int i))) then ok := false done; !ok

let () =
  try while true do
    let line = input_line stdin in
    (try
      match String.split_on_char ' ' (String.trim line) with
      | "explicit" :: rest -> explicit := Array.of_list (List.map (fun s -> Int64.of_string ("0x" ^ s)) rest); print_endline "explicit"
      | ["red"; kind; op; ty; pat; n; seed; workers; start; stop; c] ->
        let ty = ty.[0] and n = int_of_string n and pat = int_of_string pat in
        let arr = gen ty pat n (Int64.of_string seed) in
        let l = Array.to_list arr in
        let workers = int_of_string workers and start = int_of_string start and stop = int_of_string stop in
        let res, xres =
          match kind with
          | "la" | "sinc" ->
            let o = qloop_op ty op in
            let r = if kind = "la" then loopaccum o oob l (nat_of_int start) (nat_of_int stop) (nat_of_int workers)
              else (* one slot holding every partial; the initial value is the operator's identity *)
                let init = (match ty, op with
                    | _, "sum" -> 0L | 'd', "prod" -> dbits 1.0 | _, "prod" -> 1L
                    | 'u', "max" -> 0L | 'u', "min" -> -1L | 'i', "max" -> Int64.min_int | 'i', "min" -> Int64.max_int
                    | _, "max" -> 0xFFF0000000000000L | _, _ -> 0x7FF0000000000000L) in
                sinc_collate o init [partials o oob l (nat_of_int start) (nat_of_int stop) (nat_of_int workers)] in
            let x = (match coq_op ty op with
                | Some (zo, conv) when n <= 300 && kind = "la" ->
                  Some (i64_of_z (loopaccum zo Z0 (List.map conv l) (nat_of_int start) (nat_of_int stop) (nat_of_int workers)))
                | _ -> None) in
            r, x
          | _ ->
            let o = qutil_op ty op in
            let r = qutil_reduce o oob (nat_of_int (int_of_string c)) l in
            let x = (match coq_op ty op with
                | Some (zo, conv) when n <= 300 -> Some (i64_of_z (qutil_reduce zo Z0 (nat_of_int (int_of_string c)) (List.map conv l)))
                | _ -> None) in
            r, x in
        (match xres with
         | Some x when x <> res -> Printf.printf "r COQ-OPERATOR-MISMATCH %016Lx %016Lx\n" res x
         | _ -> Printf.printf "r %s\n" (show ty res))
      | ["ranges"; start; stop; workers] ->
        let rs = loopaccum_ranges (nat_of_int (int_of_string start)) (nat_of_int (int_of_string stop)) (nat_of_int (int_of_string workers)) in
        print_string "g"; List.iter (fun (a, b) -> Printf.printf " %d:%d" (int_of_nat a) (int_of_nat b)) rs; print_newline ()
      | [("sort" | "sortold" | "sortnostall") as cmd; which; pat; n; seed; p1; p2; fuel; wfuel] ->
        let variant = (match cmd with "sortold" -> 0 | "sortnostall" -> 1 | _ -> 2) in
        let n = int_of_string n and pat = int_of_string pat in
        let ty = if which = "aligned" then 'u' else 'd' in
        let arr = gen ty pat n (Int64.of_string seed) in
        let a0 = of_list (Array.to_list arr) in
        let leb = leb_of ty in
        let res =
          match which with
          | "merge" -> Some (mergesort leb oob (base_sort ty) a0 (n_of_int n))
          | "qt" -> (match variant with 0 -> qsort_inner_old | 1 -> qsort_inner_nostall | _ -> qsort_inner) leb oob (n_of_int n) (base_sort ty) (qt_params (n_of_int (int_of_string p1)))
                      (nat_of_int (int_of_string fuel)) (nat_of_int (int_of_string wfuel)) a0 N0 (n_of_int n)
          | _ -> (match variant with 0 -> qsort_inner_old | 1 -> qsort_inner_nostall | _ -> qsort_inner) leb oob (n_of_int n) (base_sort ty) (qutil_params (n_of_int (int_of_string p1)) (n_of_int (int_of_string p2)))
                   (nat_of_int (int_of_string fuel)) (nat_of_int (int_of_string wfuel)) a0 N0 (n_of_int n) in
        (match res with
         | None -> print_endline "s outoffuel"
         | Some a -> Printf.printf "s ok %016Lx %d\n" (hash_arr a n) (if sorted_arr ty a n then 1 else 0))
      | ["wallstrace"; which; pat; n; seed; p1; p2; passes] ->
        (* diagnostic: the (leftwall, rightwall) sequence of the partitioner passes of the top-level call *)
        let n = int_of_string n and pat = int_of_string pat in
        let ty = if which = "aligned" then 'u' else 'd' in
        let arr = gen ty pat n (Int64.of_string seed) in
        let a0 = of_list (Array.to_list arr) in
        let leb = leb_of ty in
        let prm = if which = "qt" then qt_params (n_of_int (int_of_string p1))
          else qutil_params (n_of_int (int_of_string p1)) (n_of_int (int_of_string p2)) in
        let len = n_of_int n in
        (match trimedian leb oob len a0 N0 len with
         | None -> print_endline "w none"
         | Some a1 ->
           let pivot = aget oob a1 (n_of_int (n / 2)) in
           let thresh = int_of_n (prm.p_thresh len) in
           let rec go a lw rw k acc =
             if k = 0 || not (lw < rw && rw - lw > thresh) then acc
             else match partitioner leb oob len prm a (n_of_int lw) (n_of_int (rw - lw + 1)) pivot with
               | None -> acc ^ " none"
               | Some ((a', l), r) -> let lw' = int_of_n l + lw and rw' = int_of_n r + lw in
                 go a' lw' rw' (k - 1) (acc ^ Printf.sprintf " %d:%d" lw' rw') in
           print_endline ("w" ^ go a1 0 (n - 1) (int_of_string passes) ""))
      | ["wallspost"; which; pat; n; seed; p1; p2] ->
        (* evaluates the named hypothesis strided_partition_post (Util/SortCorrect.v) on the top-level node:
           the partition loop returns, has only rearranged the array, everything left of the left wall is <= pivot,
           everything right of the right wall is > pivot, right wall < len *)
        let n = int_of_string n and pat = int_of_string pat in
        let ty = if which = "aligned" then 'u' else 'd' in
        let arr = gen ty pat n (Int64.of_string seed) in
        let a0 = of_list (Array.to_list arr) in
        let leb = leb_of ty in
        let prm = if which = "qt" then qt_params (n_of_int (int_of_string p1))
          else qutil_params (n_of_int (int_of_string p1)) (n_of_int (int_of_string p2)) in
        let len = n_of_int n in
        (match trimedian leb oob len a0 N0 len with
         | None -> print_endline "p none-trimedian"
         | Some a1 ->
           let pivot = aget oob a1 (n_of_int (n / 2)) in
           (match walls leb oob len prm true (nat_of_int (n + 1)) a1 N0 (prm.p_thresh len) pivot N0 (n_of_int (n - 1)) with
            | None -> print_endline "p none-walls"
            | Some ((a2, lw), rw) ->
              let lw = int_of_n lw and rw = int_of_n rw in
              let get a i = aget oob a (n_of_int i) in
              let bad = ref "" in
              if not (rw < n) then bad := "rightwall>=len";
              for i = 0 to (min lw n) - 1 do if not (leb (get a2 i) pivot) then bad := Printf.sprintf "a[%d]>pivot left of leftwall %d" i lw done;
              for i = rw + 1 to n - 1 do if leb (get a2 i) pivot then bad := Printf.sprintf "a[%d]<=pivot right of rightwall %d" i rw done;
              let s1 = Array.init n (fun i -> get a1 i) and s2 = Array.init n (fun i -> get a2 i) in
              Array.sort compare s1; Array.sort compare s2;
              if s1 <> s2 then bad := "not a rearrangement";
              if !bad = "" then Printf.printf "p ok %d %d %s\n" lw rw (if lw <> 0 || rw <> n - 1 then "entered" else "not-entered")
              else Printf.printf "p VIOLATED %s\n" !bad))
      | "ap" :: nworkers :: evs ->
        let nw = int_of_string nworkers in
        let parse tok =
          match tok.[0] with
          | 'e' -> EEnq (n_of_int (int_of_string (String.sub tok 1 (String.length tok - 1))))
          | 'x' -> EDone (nat_of_int (int_of_string (String.sub tok 1 (String.length tok - 1))))
          | _ -> (match String.split_on_char ':' (String.sub tok 1 (String.length tok - 1)) with
              | [w; fl; u] -> EDeq (nat_of_int (int_of_string w), fl = "1", (if u = "-" then None else Some (n_of_int (int_of_string u))))
              | _ -> failwith "event") in
        let rec go s i = function
          | [] -> if tr_final_ok s (nat_of_int nw) then print_endline "a ok" else print_endline "a final-bad"
          | t :: r -> (match tr_step s (parse t) with
              | None -> Printf.printf "a reject %d %s\n" i t
              | Some s' -> go s' (i + 1) r) in
        go tr_init 0 (List.filter (fun t -> t <> "") evs)
      | _ -> print_endline "ERR"
    with e -> Printf.printf "ERR %s\n" (Printexc.to_string e))
  done with End_of_file -> ()
