(* driver for the extracted qt_hash model (coq/theories/Hashmap/Model.v): same protocol as harness/c/hashmap_m1.c *)
open Hashmap_model
let rec pos_of_u64 (x : int64) =
  if x = 1L then XH
  else if Int64.logand x 1L = 0L then XO (pos_of_u64 (Int64.shift_right_logical x 1))
  else XI (pos_of_u64 (Int64.shift_right_logical x 1))
let n_of_u64 x = if x = 0L then N0 else Npos (pos_of_u64 x)
let rec u64_of_pos = function
  | XH -> 1L
  | XO p -> Int64.shift_left (u64_of_pos p) 1
  | XI p -> Int64.logor (Int64.shift_left (u64_of_pos p) 1) 1L
let u64_of_n = function N0 -> 0L | Npos p -> u64_of_pos p
let n_of_string s = n_of_u64 (Int64.of_string ("0u" ^ s))
let pn buf n = Buffer.add_string buf (Printf.sprintf "%Lu" (u64_of_n n))
let bs = ref N0
let me = ref N0
let cur : tbl option ref = ref None
let dumpmode = ref false

let entries_out buf t =
  Buffer.add_string buf " E";
  List.iteri (fun i (k, v) ->
      if k <> N0 || v <> N0 then Buffer.add_string buf (Printf.sprintf " %d:%Lu:%Lu" i (u64_of_n k) (u64_of_n v))) t.ents

(* checksum = sum over the entries of g(index, key, value) mod 2^31; maintained incrementally: `upd` shares every
   unchanged pair and the unchanged tail with the previous list, so only physically new pairs are converted *)
let g i (k, v) =
  if k = N0 && v = N0 then 0 else begin
    let m30 x = Int64.to_int (Int64.logand x 0x3FFFFFFFL) in
    let k = u64_of_n k and v = u64_of_n v in
    let c = ref 0 in
    let upd x = c := (!c * 1000003 + x) land 0x7FFFFFFF in
    upd i; upd (m30 k); upd (m30 (Int64.shift_right_logical k 30));
    upd (m30 v); upd (m30 (Int64.shift_right_logical v 30)); !c end
let prev_ents : (n * n) list ref = ref []
let prev_cs = ref 0
let full_cs l = let c = ref 0 in List.iteri (fun i e -> c := (!c + g i e) land 0x7FFFFFFF) l; !c
let checksum l =
  let rec go i old nw acc =
    if old == nw then Some acc else
    match old, nw with
    | o :: ot, x :: xt -> go (i + 1) ot xt (if o == x then acc else (acc - g i o + g i x) land 0x7FFFFFFF)
    | _ -> None in
  let c = match go 0 !prev_ents l !prev_cs with Some c -> c | None -> full_cs l in
  prev_ents := l; prev_cs := c; c

let state_out buf full t =
  let cs = ref (checksum t.ents) in
  Buffer.add_string buf " | H";
  List.iter (fun n -> Buffer.add_char buf ' '; pn buf n) [t.mask0; t.nent; t.pop; t.dels; t.grow; t.shrink; t.tidy];
  Buffer.add_string buf (Printf.sprintf " %d %d " (if t.has0 then 1 else 0) (if t.has1 then 1 else 0));
  pn buf t.val0; Buffer.add_char buf ' '; pn buf t.val1;
  Buffer.add_string buf (Printf.sprintf " C %d" !cs);
  if full || !dumpmode then entries_out buf t

let () =
  let buf = Buffer.create 65536 in
  let interactive = Array.length Sys.argv > 1 && Sys.argv.(1) = "-i" in   (* answer every line at once (generator steering) *)
  let flush () = print_string (Buffer.contents buf); Buffer.clear buf; if interactive then Stdlib.flush stdout in
  let withT f = match !cur with None -> Buffer.add_string buf "ERR\n" | Some t -> f t in
  let ret_state r t = pn buf r; state_out buf false t; Buffer.add_char buf '\n' in
  (try while true do
    let line = input_line stdin in
    (match String.split_on_char ' ' (String.trim line) with
     | ["I"] -> Buffer.add_string buf "I\n"
     | ["N"; l; p; _; d] ->
       let l = int_of_string l and p = int_of_string p in
       bs := n_of_u64 (Int64.of_int (l / 16)); me := n_of_u64 (Int64.of_int (2 * p / 16));
       dumpmode := (d <> "0");
       let t = create !bs !me in
       cur := Some t;
       Buffer.add_string buf "N "; pn buf !bs; Buffer.add_char buf ' '; pn buf !me; state_out buf false t; Buffer.add_char buf '\n'
     | [("p" | "P"); k; v] -> withT (fun t ->
         let (r, t') = put !bs !me t (n_of_string k) (n_of_string v) in cur := Some t'; ret_state r t')
     | [("g" | "G"); k] -> withT (fun t -> ret_state (get !bs t (n_of_string k)) t)
     | [("r" | "R"); k] -> withT (fun t ->
         let (r, t') = remove !bs !me t (n_of_string k) in cur := Some t'; ret_state r t')
     | ["c"] -> withT (fun t -> ret_state (count t) t)
     | ["b"] -> withT (fun t ->
         Buffer.add_char buf 'b';
         List.iter (fun (k, v) -> Buffer.add_string buf (Printf.sprintf " %Lu:%Lu" (u64_of_n k) (u64_of_n v))) (callback t);
         state_out buf false t; Buffer.add_char buf '\n')
     | ["D"] -> withT (fun t ->
         Buffer.add_char buf 'D';
         List.iter (fun v -> Buffer.add_string buf (Printf.sprintf " %Lu" (u64_of_n v))) (destroy_deallocate t);
         cur := None; Buffer.add_char buf '\n')
     | ["d"] -> withT (fun t -> Buffer.add_char buf 'd'; state_out buf true t; Buffer.add_char buf '\n')
     | ["q"; k] -> withT (fun t ->      (* generator steering only: where would a put of k land? *)
         Buffer.add_string buf (match put_probe !bs t (n_of_string k) with
             | PColl -> "q C" | PRepl _ -> "q R" | PNoFree -> "q X"
             | PFree f -> if key_at t.ents f = N0 then "q N" else "q D");
         Buffer.add_char buf '\n')
     | ["h"; k] -> Buffer.add_string buf "h "; pn buf (qt_hash64 (n_of_string k)); Buffer.add_char buf '\n'
     | _ -> Buffer.add_string buf "ERR\n");
    if interactive || Buffer.length buf > 60000 then flush ()
  done with End_of_file -> ());
  flush ()
