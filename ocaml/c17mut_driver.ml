(* driver for the extracted model of the mutating qarray entry points (Qarray/ModelMut.v, extension L of C17):
   one command per line on stdin (same alphabet as harness/c/c17_mut.c), canonical result lines on stdout *)
open C17mut_model
let rec pos_of_int n = if n = 1 then XH else if n land 1 = 0 then XO (pos_of_int (n lsr 1)) else XI (pos_of_int (n lsr 1))
let n_of_int n = if n = 0 then N0 else Npos (pos_of_int n)
let rec int_of_pos = function XH -> 1 | XO p -> 2 * int_of_pos p | XI p -> 2 * int_of_pos p + 1
let int_of_n = function N0 -> 0 | Npos p -> int_of_pos p
let int_of_z = function Z0 -> 0 | Zpos p -> int_of_pos p | Zneg p -> - (int_of_pos p)
let rec nat_of_int n = if n <= 0 then O else S (nat_of_int (n - 1))
let rec int_of_nat = function O -> 0 | S n -> 1 + int_of_nat n
let dist_of_int = function
  | 0 -> DFIXED_HASH | 1 -> DFIXED_FIELDS | 2 -> DALL_SAME | 3 -> DDIST | 4 -> DDIST_STRIPES | 5 -> DDIST_FIELDS
  | 6 -> DDIST_RAND | 7 -> DDIST_LEAST | 8 -> DALL_LOCAL | 9 -> DALL_RAND | _ -> DALL_LEAST
let kind_int = function FIXED_HASH -> 0 | FIXED_FIELDS -> 1 | ALL_SAME -> 2 | DIST -> 3
let nsh = ref N0
let pagesize = ref N0
let w = ref (world0 N0)
let rnd = ref []
let undef = ref false     (* once the script left the defined behaviour nothing more is predicted *)
let pr_ranges tag l =
  List.iter (fun (s, rs) ->
    Printf.printf "%s %d" tag (int_of_n s);
    List.iter (fun (lo, hi) -> Printf.printf " %d:%d" (int_of_n lo) (int_of_n hi)) rs;
    print_newline ()) l
let get slot = find_arr (n_of_int slot) !w.w_arrs
let pr_desc x =
  let a = x.a_desc in
  Printf.printf "D %d %d %d %d %d %d %d %d %d\n" (int_of_n a.d_unit) (int_of_n a.d_segbytes) (int_of_n a.d_segsize)
    (kind_int a.d_kind) (int_of_n a.d_sps) (int_of_n a.d_extras) (int_of_n a.d_shep) (int_of_n (nsegs a)) (int_of_n a.d_count)
let do_step o ok =
  match step !nsh !pagesize !w o with
  | Some w' -> w := w'; ok ()
  | None -> undef := true; print_endline "UNDEF"
let ints l = List.map int_of_string (List.filter (fun s -> s <> "") l)
let () =
  try while true do
    let line = input_line stdin in
    match String.split_on_char ' ' (String.trim line) with
    | ["H"; ns; ps] -> nsh := n_of_int (int_of_string ns); pagesize := n_of_int (int_of_string ps); w := world0 !nsh; print_endline "H"
    | "O" :: rest -> rnd := List.map n_of_int (ints rest); print_endline "O"
    | "A" :: rest ->
      (match ints rest with
       | [slot; count; obj; d; tight; segpages; oshep] ->
         do_step (OCreate (n_of_int slot, n_of_int count, n_of_int obj, dist_of_int d, tight <> 0, n_of_int segpages, n_of_int oshep, !rnd))
           (fun () -> if count = 0 || obj = 0 then print_endline "D NULL" else match get slot with Some x -> pr_desc x | None -> print_endline "ERR");
         rnd := []
       | _ -> print_endline "ERR")
    | ["d"; slot] -> (match get (int_of_string slot) with Some x -> pr_desc x | None -> print_endline "ERR")
    | ["S"; slot] ->
      (match get (int_of_string slot) with
       | Some x -> print_string "S"; List.iter (fun s -> Printf.printf " %d" (int_of_n s)) (owners !nsh x); print_newline ()
       | None -> print_endline "ERR")
    | ["T"] -> print_string "T"; List.iter (fun z -> Printf.printf " %d" (int_of_z z)) !w.w_tr; print_newline ()
    | ["P"; slot; i; shep] ->
      do_step (OSet (n_of_int (int_of_string slot), n_of_int (int_of_string i), n_of_int (int_of_string shep))) (fun () -> print_endline "P")
    | ["L"; r; m] -> do_step (OLike (n_of_int (int_of_string r), n_of_int (int_of_string m))) (fun () -> print_endline "L")
    | ["F"; slot] -> do_step (ODestroy (n_of_int (int_of_string slot))) (fun () -> print_endline "F")
    | "e" :: slot :: rest ->
      (match get (int_of_string slot) with
       | Some x -> print_string "e"; List.iter (fun i -> Printf.printf " %d" (int_of_n (elem_off x.a_desc (n_of_int i)))) (ints rest); print_newline ()
       | None -> print_endline "ERR")
    | ["I"; slot; k; st; sp] ->
      (match get (int_of_string slot) with
       | Some x ->
         let st = n_of_int (int_of_string st) and sp = n_of_int (int_of_string sp) in
         let f = asg_of x.a_own in
         let r = if k = "0" then iter !nsh f x.a_desc st sp else if k = "3" then iter_loopaccum !nsh f x.a_desc st sp else iter_loop !nsh f x.a_desc st sp in
         pr_ranges "R" r; print_endline "."
       | None -> print_endline "ERR")
    | ["N"; slot; st; sp] ->
      (match get (int_of_string slot) with
       | Some x ->
         let st = n_of_int (int_of_string st) and sp = n_of_int (int_of_string sp) in
         let r = iter_loop !nsh (asg_of x.a_own) x.a_desc st sp in
         pr_ranges "R" r;
         (* the op-level model of the non-blocking call: one strider per spawned shepherd with as many invocations as
            the loop strider makes; schedule = wrapper spawns, every strider begins its first invocation and is held
            (the harness's gate), the wrapper is offered the processor again and again; then everything runs freely *)
         let plan = List.map (fun (_, rs) -> nat_of_int (List.length rs)) r in
         let k = List.length plan in
         let s0 = nb_init plan in
         let st0 = s0.nb_full in
         let tids = List.init k (fun j -> nat_of_int (j + 1)) in
         let held = nb_run s0 ((O :: tids) @ [O; O; O]) in
         let st1 = held.nb_full in
         (* invocations that have returned while the others are held *)
         let fin1 = List.fold_left2 (fun acc s n -> acc + (int_of_nat n - int_of_nat s.s_left - (if s.s_active then 1 else 0))) 0 held.nb_str plan in
         let total = List.fold_left (fun acc n -> acc + 2 * int_of_nat n + 2) 4 plan in
         let free = List.concat (List.init total (fun _ -> O :: tids)) in
         let fin = nb_run held free in
         let act = List.fold_left (fun acc s -> acc + (if s.s_active then 1 else 0)) 0 fin.nb_str in
         let b x = if x then 1 else 0 in
         Printf.printf "n %d %d %d %d %d %d %d %d\n" (b st0) (b st1) (b fin.nb_full) 0 act
           (if fin1 = 0 then 0 else 1) (b (nb_all_returned fin)) (b (int_of_nat fin.nb_fills = 1))
       | None -> print_endline "ERR")
    | ["M"; slot; from; i] ->
      (match get (int_of_string slot) with
       | Some x ->
         (match elem_migrate_code !nsh x (n_of_int (int_of_string i)) with
          | EM_null -> Printf.printf "M -1 %s %s\n" from from
          | EM_at (off, dest) -> Printf.printf "M %d %s %d\n" (int_of_n off) from (int_of_n dest)
          | EM_undefined -> print_endline "M UNDEF")
       | None -> print_endline "ERR")
    | _ -> print_endline "ERR"
  done with End_of_file -> ()
