(* driver for the extracted syncvar model (C03): same commands and the same output lines as harness/c/c03_syncvar.c *)
open C03_model

(* hex <-> extracted N without going through native ints (values are 64-bit) *)
let n_double = function N0 -> N0 | Npos p -> Npos (XO p)
let n_sdouble = function N0 -> Npos XH | Npos p -> Npos (XI p)
let n_of_hex (s : string) : n =
  let acc = ref N0 in
  String.iter (fun c ->
      let d = match c with
        | '0' .. '9' -> Char.code c - 48 | 'a' .. 'f' -> Char.code c - 87 | 'A' .. 'F' -> Char.code c - 55
        | _ -> failwith "hex" in
      for b = 3 downto 0 do
        acc := if (d lsr b) land 1 = 1 then n_sdouble !acc else n_double !acc
      done) s;
  !acc
let rec bits_of_pos = function XH -> [1] | XO p -> 0 :: bits_of_pos p | XI p -> 1 :: bits_of_pos p
let hex_of_n = function
  | N0 -> "0"
  | Npos p ->
    let rec nibbles = function
      | [] -> []
      | b0 :: r ->
        let b1, r = (match r with x :: r -> x, r | [] -> 0, []) in
        let b2, r = (match r with x :: r -> x, r | [] -> 0, []) in
        let b3, r = (match r with x :: r -> x, r | [] -> 0, []) in
        (b0 + 2 * b1 + 4 * b2 + 8 * b3) :: nibbles r in
    let ns = List.rev (nibbles (bits_of_pos p)) in
    String.concat "" (List.map (fun d -> String.make 1 "0123456789abcdef".[d]) ns)
let rec pos_of_int n = if n = 1 then XH else if n land 1 = 0 then XO (pos_of_int (n lsr 1)) else XI (pos_of_int (n lsr 1))
let n_of_int n = if n = 0 then N0 else Npos (pos_of_int n)
let rec int_of_pos = function XH -> 1 | XO p -> 2 * int_of_pos p | XI p -> 2 * int_of_pos p + 1
let int_of_n = function N0 -> 0 | Npos p -> int_of_pos p

let rcname = function RC_SUCCESS -> "OK" | RC_OPFAIL -> "OPFAIL" | RC_OVERFLOW -> "OVERFLOW" | RC_TIMEOUT -> "TIMEOUT"

let op_of code v hd =
  let d = hd <> 0 in
  match code with
  | 0 -> ReadFF d | 1 -> ReadFF_nb d | 2 -> ReadFE d | 3 -> ReadFE_nb d
  | 4 -> WriteF v | 5 -> WriteEF v | 6 -> WriteEF_nb v | 7 -> Fill | 8 -> Empty | 9 -> IncrF v | _ -> Status

let st : (n * svar) list ref = ref []
let ntasks = ref 0
let nvars = ref 0

let var i = List.assoc (n_of_int i) !st
let set_word i w = st := List.map (fun (k, x) -> if k = n_of_int i then (k, { x with word = w }) else (k, x)) !st

let dump_vars b =
  for i = 0 to !nvars - 1 do
    let x = var i in
    let s = (match status x N0 with
        | Ok (_, [Ret (_, _, Some v)]) -> string_of_int (int_of_n v)
        | _ -> "?") in
    let lst l = String.concat "," (List.map (fun w -> string_of_int (int_of_n w.w_tid)) l) in
    let (e, fe, ff, r) = (match x.rec0 with
        | Some m -> (lst m.eFQ, lst m.fEQ, lst m.fFQ, 1)
        | None -> ("", "", "", 0)) in
    Buffer.add_string b (Printf.sprintf " V%d w=%s s=%s r=%d E=[%s] FE=[%s] FF=[%s]" i (hex_of_n x.word) s r e fe ff)
  done

(* returned tasks of a list of events, sorted by task id *)
let returned evs =
  let l = List.filter_map (function
      | Ret (t, c, v) -> Some (int_of_n t, Printf.sprintf " R%d:%s:%s" (int_of_n t) (rcname c) (match v with Some v -> hex_of_n v | None -> "-"))
      | _ -> None) evs in
  List.map snd (List.sort compare l)

let do_step t v o =
  let (s', evs) = step !st (n_of_int t) (n_of_int v) o in
  st := s'; evs

let () =
  try while true do
    let line = String.trim (input_line stdin) in
    let b = Buffer.create 256 in
    (match String.split_on_char ' ' line with
     | ["N"; nt; nv] ->
       ntasks := int_of_string nt; nvars := int_of_string nv;
       st := List.init !nvars (fun i -> (n_of_int i, { word = sYNCVAR_INITIALIZER; rec0 = None }));
       Buffer.add_string b (Printf.sprintf "N %d %d" !ntasks !nvars)
     | ["I"; v; kind; hex] ->
       let value = n_of_hex hex in
       let w = (match int_of_string kind with
           | 0 -> sYNCVAR_INITIALIZER | 1 -> sYNCVAR_EMPTY_INITIALIZER
           | 2 -> sYNCVAR_INITIALIZE_TO value | _ -> sYNCVAR_EMPTY_INITIALIZE_TO value) in
       set_word (int_of_string v) w;
       Buffer.add_string b "I |"; dump_vars b
     | "O" :: _ | "M" :: _ | "X" :: _ | "Y" :: _ ->
       let (t, v, code, hex, hd) = (match String.split_on_char ' ' line with
           | ["O"; t; v; code; hex; hd] -> (int_of_string t, int_of_string v, int_of_string code, hex, int_of_string hd)
           | ["M"; v; code; hex; hd] | ["X"; v; code; hex; hd] | ["Y"; v; code; hex; hd] -> (!ntasks, int_of_string v, int_of_string code, hex, int_of_string hd)
           | _ -> failwith "bad O/M line") in
       let evs = do_step t v (op_of code (n_of_hex hex) hd) in
       if List.exists (function Busy _ -> true | _ -> false) evs then
         Buffer.add_string b (Printf.sprintf "BUSY %d" t)
       else if List.exists (function Fault | NoVar -> true | _ -> false) evs then
         Buffer.add_string b "FAULT"
       else begin
         Buffer.add_string b "S";
         List.iter (function Blocked t -> Buffer.add_string b (Printf.sprintf " B%d" (int_of_n t)) | _ -> ()) evs;
         List.iter (Buffer.add_string b) (returned evs);
         Buffer.add_string b " |"; dump_vars b
       end
     | ["D"] ->
       (* drain exactly like the harness: per variable, empty while writers wait, else fill while readers wait *)
       let all = ref [] in
       for v = 0 to !nvars - 1 do
         let guard = ref 0 in
         let continue = ref true in
         while !continue && !guard < 64 do
           incr guard;
           let x = var v in
           let (ne, nr) = (match x.rec0 with
               | Some m -> (List.length m.eFQ, List.length m.fEQ + List.length m.fFQ) | None -> (0, 0)) in
           if ne > 0 then all := !all @ (List.filter (function Ret (t, _, _) -> int_of_n t <> !ntasks | _ -> false) (do_step !ntasks v Empty))
           else if nr > 0 then all := !all @ (List.filter (function Ret (t, _, _) -> int_of_n t <> !ntasks | _ -> false) (do_step !ntasks v Fill))
           else continue := false
         done
       done;
       Buffer.add_string b "D";
       List.iter (Buffer.add_string b) (returned !all);
       Buffer.add_string b " |"; dump_vars b
     | ["Q"] -> raise End_of_file
     | _ -> Buffer.add_string b "ERR");
    print_endline (Buffer.contents b)
  done with End_of_file -> ()
