(* driver for the extracted C09 model (Kernel/Ident.v + Kernel/Tasklocal.v).
   stdin:  K <AC> <TL> | C <counter> | T <slot> <argsz> <shep> <ops..> | S <order..> | R
   stdout: the same lines as harness/c/c09_tasklocal.c prints for a run ("??" = unspecified byte) *)
open C09_model

(* ---- conversions ---- *)
let rec pos_of_i64 (x : int64) : positive =
  if Int64.equal x 1L then XH
  else if Int64.equal (Int64.logand x 1L) 0L then XO (pos_of_i64 (Int64.shift_right_logical x 1))
  else XI (pos_of_i64 (Int64.shift_right_logical x 1))
let n_of_i64 x = if Int64.equal x 0L then N0 else Npos (pos_of_i64 x)
let rec i64_of_pos = function
  | XH -> 1L
  | XO p -> Int64.shift_left (i64_of_pos p) 1
  | XI p -> Int64.logor (Int64.shift_left (i64_of_pos p) 1) 1L
let i64_of_n = function N0 -> 0L | Npos p -> i64_of_pos p
let n_of_int i = n_of_i64 (Int64.of_int i)
let int_of_n x = Int64.to_int (i64_of_n x)
let n_of_string s = n_of_i64 (Int64.of_string ("0u" ^ s))
let string_of_n x = Printf.sprintf "%Lu" (i64_of_n x)
let rec nat_of_int i = if i <= 0 then O else S (nat_of_int (i - 1))
let int_of_nat n = let rec go acc = function O -> acc | S m -> go (acc + 1) m in go 0 n

let junk_byte = n_of_int 256
let junk (_ : nat) = junk_byte

let hex bs =
  let b = Buffer.create 64 in
  List.iter (fun x -> let v = int_of_n x in if v > 255 then Buffer.add_string b "??" else Buffer.add_string b (Printf.sprintf "%02x" v)) bs;
  Buffer.contents b

(* ---- script state ---- *)
type tdecl = { slot : int; argsz : int; ops : (char * int) list }
let cfg = ref { aC = nat_of_int 1024; tL = nat_of_int 8 }
let counter = ref (n_of_int 1)
let decls : tdecl list ref = ref []

(* byte patterns are a convention of the harness (same formula as in c09_tasklocal.c), not part of the model *)
let byte_tab = Array.init 256 n_of_int
let pat seed i = byte_tab.((seed * 131 + i * 7 + (i lsr 8)) land 0xff)
let pattern_list seed n = List.init n (fun i -> pat seed i)
let argbytes slot argsz =
  List.init argsz (fun i -> if i < 4 then byte_tab.((slot lsr (8 * i)) land 0xff) else pat (7000 + slot) i)

let parse_ops toks =
  List.filter_map (fun s -> if s = "" then None else
    Some (s.[0], if String.length s > 1 then int_of_string (String.sub s 1 (String.length s - 1)) else 0)) toks

let run order =
  let st = ref init in
  let ds = List.sort (fun a b -> compare a.slot b.slot) !decls in
  let fld = Hashtbl.create 16 in
  let out = Hashtbl.create 64 in
  let pc = Hashtbl.create 16 in
  List.iter (fun d ->
    st := thread_new !cfg junk !st (n_of_int d.slot) (argbytes d.slot d.argsz);
    Hashtbl.replace fld d.slot nON_TASK_ID; Hashtbl.replace pc d.slot 0) ds;
  let step d =
    let k = Hashtbl.find pc d.slot in
    if k < List.length d.ops then begin
      Hashtbl.replace pc d.slot (k + 1);
      let (c, a) = List.nth d.ops k in
      let tid = n_of_int d.slot in
      let line =
        match c with
        | 'g' ->
          (match get_tasklocal !cfg junk !st tid (nat_of_int a) with
           | None -> " NULL"
           | Some (r, s') ->
             st := s';
             let avail = match size_tasklocal !cfg !st tid with Some n -> int_of_nat n | None -> -1 in
             let tlsz = match aget !st.s_tasks tid with Some t -> int_of_nat t.t_tlsz | None -> -1 in
             let off = match aget !st.s_tasks tid with Some t -> int_of_nat (tl_off !cfg t) | None -> -1 in
             let view = match tl_view !cfg !st tid with Some v -> v | None -> [] in
             (match r with
              | RDesc (_, o, _) -> Printf.sprintf " D %d %d %d 1 1 %s" (int_of_nat o) avail tlsz (hex view)
              | RBlob (_, _) -> Printf.sprintf " B %d %d %d 1 1 %s" off avail tlsz (hex view)))
        | 'w' ->
          let n = match size_tasklocal !cfg !st tid with Some n -> int_of_nat n | None -> 0 in
          (match tl_write !cfg !st tid O (pattern_list a n) with
           | Some s' -> st := s'; ""
           | None -> " OOB")
        | 'y' | 'b' | 'x' -> ""
        | 'm' -> Printf.sprintf " 0 %d" a
        | 'i' ->
          let f0 = Hashtbl.find fld d.slot in
          let ((r1, f1), c1) = qthread_id f0 !counter in
          let ((r2, f2), c2) = qthread_id f1 c1 in
          counter := c2; Hashtbl.replace fld d.slot f2;
          Printf.sprintf " %s %s %s %s" (string_of_n r1) (string_of_n r2) (string_of_n f2) (string_of_n c2)
        | 's' -> " 1 1 1 1"
        | 'a' ->
          if d.argsz = 0 then " 1"
          else (match arg_view !st tid with
              | Some v -> if v = argbytes d.slot d.argsz then " 1" else " 0"
              | None -> " 0")
        | _ -> " ?" in
      Hashtbl.replace out (d.slot, k) (Printf.sprintf "%d %d %c%s" d.slot k c line)
    end in
  (match order with
   | Some o -> List.iter (fun s -> match List.find_opt (fun d -> d.slot = s) ds with Some d -> step d | None -> ()) o
   | None -> ());
  List.iter (fun d -> for _ = 0 to List.length d.ops do step d done) ds;
  List.iter (fun d ->
    for k = 0 to List.length d.ops - 1 do print_endline (Hashtbl.find out (d.slot, k)) done;
    let tid = n_of_int d.slot in
    (match aget !st.s_tasks tid with
     | Some t ->
       Printf.printf "%d f %d %d %d\n" d.slot (if int_of_nat t.t_tlsz > 0 then 1 else 0) (if t.t_big then 1 else 0)
         (match t.t_arg with ArgHeap (_, _) -> 1 | _ -> 0)
     | None -> Printf.printf "%d f ?\n" d.slot);
    st := thread_free !st tid) ds;
  if !st.s_heap <> [] || !st.s_tasks <> [] then print_endline "LEAK";
  print_endline "E";
  decls := []

let () =
  try while true do
    let line = String.trim (input_line stdin) in
    match String.split_on_char ' ' line with
    | ["K"; ac; tl] -> cfg := { aC = nat_of_int (int_of_string ac); tL = nat_of_int (int_of_string tl) }
    | ["C"; c] -> if c.[0] <> '-' then counter := n_of_string c
    | "T" :: slot :: argsz :: _shep :: ops ->
      decls := { slot = int_of_string slot; argsz = int_of_string argsz; ops = parse_ops ops } :: !decls
    | "S" :: order -> run (Some (List.filter_map (fun s -> if s = "" then None else Some (int_of_string s)) order))
    | ["R"] -> run None
    | _ -> ()
  done with End_of_file -> ()
