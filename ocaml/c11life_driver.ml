(* driver for the extracted barrier life-cycle machine (Barrier/Lifecycle.v).
   input : L <gm> | <op> <op> ... | <r1> <r2> ...     ops: w  e:<n>:<E>  r:<m>  d  c:<m>  gi:<m>  gr:<m>  gd
   output: one line per micro-step
             "<id> <kind> <in> <out> <blockers> <maxb> <alive> <uaf> | <pc>:<ep> ... | <cpc>[ R <k> <mincalls>]"
           then "END done|deadlock|runaway <steps>"     (ids: participants 0..n-1, controller = n)
   O <gm> | <ops>  ->  "OK 0|1"  (okscript: the script stays inside the contract) *)
open C11life_model
let limit = 600
let rec nat_of_int n = if n <= 0 then O else S (nat_of_int (n - 1))
let rec int_of_nat = function O -> 0 | S n -> 1 + int_of_nat n
let rec pos_of_int n = if n = 1 then XH else if n land 1 = 0 then XO (pos_of_int (n lsr 1)) else XI (pos_of_int (n lsr 1))
let z_of_int n = if n = 0 then Z0 else if n > 0 then Zpos (pos_of_int n) else Zneg (pos_of_int (-n))
let rec int_of_pos = function XH -> 1 | XO p -> 2 * int_of_pos p | XI p -> 2 * int_of_pos p + 1
let int_of_z = function Z0 -> 0 | Zpos p -> int_of_pos p | Zneg p -> - (int_of_pos p)
let pcname = function
  | PCall -> "Call" | PIn -> "In" | PInW -> "InW" | PInc -> "Inc" | PEmpIn -> "EmpIn" | PFillOut -> "FillOut"
  | POut -> "Out" | POutW -> "OutW" | PDec -> "Dec" | PEmpOut -> "EmpOut" | PFillIn -> "FillIn"
let cpname = function CNext -> "Next" | CYield -> "Yield" | CFillOut -> "DFillOut" | CFillIn -> "DFillIn" | CFree -> "Free"
let opname = function
  | LWait -> "Wait" | LEra _ -> "Era" | LResize _ -> "Resize" | LDestroy -> "Destroy" | LCreate _ -> "Create"
  | LGInit _ -> "GInit" | LGResize _ -> "GResize" | LGDestroy -> "GDestroy"
let parse_op tok =
  match String.split_on_char ':' tok with
  | ["w"] -> LWait
  | ["e"; n; e] -> LEra (nat_of_int (int_of_string n), nat_of_int (int_of_string e))
  | ["r"; m] -> LResize (z_of_int (int_of_string m))
  | ["d"] -> LDestroy
  | ["c"; m] -> LCreate (z_of_int (int_of_string m))
  | ["gi"; m] -> LGInit (z_of_int (int_of_string m))
  | ["gr"; m] -> LGResize (z_of_int (int_of_string m))
  | ["gd"] -> LGDestroy
  | _ -> failwith ("bad op " ^ tok)
let b2i b = if b then 1 else 0
let words s = List.filter (fun x -> x <> "") (String.split_on_char ' ' (String.trim s))
let () =
  try while true do
    let line = input_line stdin in
    match String.split_on_char '|' line with
    | [h; ops; rs] when String.length h > 0 && h.[0] = 'L' ->
      let gm = (match words h with [_; g] -> g <> "0" | _ -> false) in
      let sc = List.map parse_op (words ops) in
      let rs = Array.of_list (List.map int_of_string (words rs)) in
      let l = ref (lstart gm sc) in
      let k = ref 0 and fin = ref false in
      while not !fin do
        if !k >= limit then (Printf.printf "END runaway %d\n" !k; fin := true)
        else begin
          let r = if Array.length rs = 0 then 0 else rs.(!k mod Array.length rs) in
          match lpick !l (nat_of_int r) with
          | None -> Printf.printf "END %s %d\n" (if lfinished !l then "done" else "deadlock") !k; fin := true
          | Some i ->
            let ii = int_of_nat i in
            let n = List.length !l.bar.thrs in
            let kind, epold =
              if ii < n then (let t = List.nth !l.bar.thrs ii in (pcname t.t_pc, int_of_nat t.t_ep))
              else ((match !l.cp, !l.script with
                     | CNext, o :: _ -> opname o
                     | c, _ -> cpname c), 0) in
            (match lstep !l i with
             | None -> Printf.printf "END modelerror %d\n" !k; fin := true
             | Some l' ->
               l := l'; incr k;
               let b = l'.bar in
               Printf.printf "%d %s %d %d %d %d %d %d |" ii kind (b2i b.in_full) (b2i b.out_full) (int_of_z b.blockers)
                 (int_of_z l'.maxb) (b2i l'.alive) (int_of_nat l'.uaf);
               List.iter (fun t -> Printf.printf " %s:%d" (pcname t.t_pc) (int_of_nat t.t_ep)) b.thrs;
               Printf.printf " | %s" (cpname l'.cp);
               if ii < n then begin
                 let tnew = List.nth b.thrs ii in
                 if int_of_nat tnew.t_ep > epold then
                   Printf.printf " R %d %d" (int_of_nat tnew.t_ep) (int_of_nat (min_calls b))
               end;
               print_newline ())
        end
      done
    | [h; ops] when String.length h > 0 && h.[0] = 'O' ->
      let gm = (match words h with [_; g] -> g <> "0" | _ -> false) in
      let sc = List.map parse_op (words ops) in
      Printf.printf "OK %d\n" (b2i (okscript gm MD false Z0 sc))
    | _ -> print_endline "ERR"
  done with End_of_file -> ()
