(* C06 micro-step layer with a nascent (precondition) waiter (extension K part 2): the extracted model Feb/Micro3Pre.v.
   usage: c06micro_driver [-v] [--skip | --nocheck]   exhaustive search of every interleaving (two calls + the environment's flip of the
                                                       second word); one line per (init, opA, opB) with a reachable state that breaks the
                                                       invariant or a final state that is not good.  --skip: regression variant C06-3 / C06-1
                                                       (launch skipped when the record is not removeable); --nocheck: launch without re-check
          c06micro_driver --held [--skip | --nocheck] stdin lines "h <init> <A op> <k> <B op> <j> <flip>": as c01micro3_driver; flip = 1: the
                                                       environment flips the second word after B's turn, while A is still held *)
open C06micro_model
let rec pos_of_int n = if n = 1 then XH else if n land 1 = 0 then XO (pos_of_int (n lsr 1)) else XI (pos_of_int (n lsr 1))
let z_of_int n = if n = 0 then Z0 else if n > 0 then Zpos (pos_of_int n) else Zneg (pos_of_int (- n))
let rec int_of_pos = function XH -> 1 | XO p -> 2 * int_of_pos p | XI p -> 2 * int_of_pos p + 1
let int_of_z = function Z0 -> 0 | Zpos p -> int_of_pos p | Zneg p -> - (int_of_pos p)
let int_of_n = function N0 -> 0 | Npos p -> int_of_pos p
let t0 = N0 and t1 = Npos XH
let va = 11 and vb = 22
let ops v = let v = z_of_int v in
  [ "readFE", OReadFE DOwn; "readFE_nb", OReadFE_nb DOwn; "readFF", OReadFF DOwn; "readFF_nb", OReadFF_nb DOwn;
    "readXX", OReadXX DOwn; "writeEF", OWriteEF (Some v); "writeEF_nb", OWriteEF_nb (Some v); "writeF", OWriteF (Some v);
    "writeFF", OWriteFF (Some v); "fill", OFill; "empty", OEmpty; "purge_to", OPurge (Some v); "status", OStatus ]
let inits = [ "pre1", IPre1; "pre2F", IPre2F; "pre2E", IPre2E ]
let skip = Array.mem "--skip" Sys.argv and nocheck = Array.mem "--nocheck" Sys.argv
let norecheck = false
let mstep = mstep_gen skip nocheck
let t2 = Npos (XO XH)
let rec int_of_nat = function O -> 0 | S k -> 1 + int_of_nat k
let str_res = function None -> "BLK:-" | Some (c, v) -> (match c with OK -> "OK" | OPFAIL -> "OPFAIL") ^ ":" ^ (match v with None -> "-" | Some z -> string_of_int (int_of_z z))
let wl l = "[" ^ String.concat "," (List.map (fun x -> string_of_int (int_of_n x.w_tid)) l) ^ "]"
let outcome s =
  let r = hashed s in
  let q f = match r with Some r -> wl (f r) | None -> "[]" in
  Printf.sprintf "A=%s B=%s full=%d word=%d rec=%d EF=%s FE=%s FF=%s FFW=%s launched=%d parkedU=%d ufull=%d uaf=%d"
    (str_res (res_of s.g_t0)) (str_res (res_of s.g_t1)) (if full_now s then 1 else 0) (int_of_z s.g_word)
    (match s.g_hash with Some _ -> 1 | None -> 0) (q (fun r -> r.r_EFQ)) (q (fun r -> r.r_FEQ)) (q (fun r -> r.r_FFQ)) (q (fun r -> r.r_FFWQ))
    (int_of_nat s.g_n.n_launch) (if s.g_n.n_parkedU then 1 else 0) (if s.g_u then 1 else 0) (if s.g_uaf then 1 else 0)

let rcd_of s th = match th.t_m with Some i -> List.nth_opt s.g_heap (int_of_nat i) | None -> None
(* the interposed accesses of one model step: (the access the step IS, markers that follow it inside the step) *)
let names s th : string list * string list =
  let own = (match th.t_x with Some x -> x.w_dest = DOwn | None -> false) in
  match th.t_pc with
  | PHLock | PRmHLock | PPreHLock -> ["hlock"], []
  | PHGet | PRmGet | PPreGet -> ["hget_locked"], []
  | PHPut -> ["hput_locked"], []
  | PFast | PWord -> [], (match th.t_op with OWriteF _ -> [] | _ -> ["fence"])
  | PRLock | PRmRLock | PPreRLock -> ["rlock"], []
  | PHUnl | PRmHUnl | PPreHUnl -> ["hunlock"], []
  | PRUnl | PEnd | PPreRUnlF | PPreRUnlP -> ["runlock"], []
  | PPreEnq -> ["sched"], ["scheddone"]
  | PPreU -> (* the second word is a real word in the harness: its walk takes u's stripe lock, looks u up, and -- u empty: a record exists --
                locks the record, parks, unlocks.  One abstract step here: the accesses after the first are markers inside the step *)
    if s.g_u then ["hlock"], ["hget_locked"; "hunlock"] else ["hlock"], ["hget_locked"; "rlock"; "hunlock"; "runlock"]
  | PFfwEff | PEfqEff -> [], ["fence"]
  | PFfqEff | PFeqEff -> [], (if own then ["fence"] else [])
  | PFfwSch | PFfqSch | PFeqSch | PEfqSch -> ["sched"], ["scheddone"]
  | PRmChk -> (match rcd_of s th with
               | Some k -> let r = k.k_rec in
                 if norecheck || (r.r_EFQ = [] && r.r_FEQ = [] && r.r_FFQ = [] && r.r_FFWQ = [] && r.r_full) then ["hremove_locked"], [] else ["runlock"], []
               | None -> [], [])
  | PRmFin -> ["runlock"], ["free"]
  | _ -> [], []
let zone th = match th.t_pc with
  | PFSet | PFfw | PFfwEff | PFfwSch | PFfq | PFfqEff | PFfqSch | PFeq | PFeqEff | PFeqSch | PESet | PEfq | PEfqEff | PEfqSch | PEnd -> "body"
  | PRmHLock | PRmGet | PRmRLock | PRmChk | PRmHUnl | PRmFin -> "remove"
  | PPreHLock | PPreGet | PPreRLock | PPreHUnl | PPreTest | PPrePark | PPreRUnlF | PPreRUnlP | PPreU | PPreEnq -> "launch"
  | PDone -> "done"
  | _ -> "call"
let rle l =
  let rec go acc = function
    | [] -> List.rev acc
    | x :: r -> (match acc with (y, n) :: a when y = x -> go ((y, n + 1) :: a) r | _ -> go ((x, 1) :: acc) r) in
  String.concat "," (List.map (fun (x, n) -> Printf.sprintf "%s*%d" x n) (go [] l))

module H = Hashtbl.Make (struct type t = gst let equal = (=) let hash x = Hashtbl.hash_param 400 800 x end)

let held () =
  try while true do
    let line = String.trim (input_line stdin) in
    (match String.split_on_char ' ' line with
     | ["h"; init; na; k; nb; j; flip] ->
       let k = int_of_string k and j = int_of_string j and flip = int_of_string flip in
       let ik = List.assoc init inits and oa = List.assoc na (ops va) and ob = List.assoc nb (ops vb) in
       let s = ref (minit ik oa ob) in
       let budget = ref 200000 in
       let seqs = [| ref []; ref [] |] and cnts = [| ref 0; ref 0 |] and heldat = [| ref "-"; ref "-" |] and heldzone = [| ref "-"; ref "-" |] in
       let pending = [| ref []; ref [] |] and inu = [| ref false; ref false |] in            (* markers of the step just executed that are not yet passed *)
       let other_moved_while_held = ref 0 in
       let thr_of i = if i = 0 then !s.g_t0 else !s.g_t1 in
       let tid i = if i = 0 then t0 else t1 in
       (* run task i until it cannot move, or up to (not including) its lim-th interposed access (lim = 0: no hold) *)
       let run i lim =
         let stop = ref false in
         while not !stop && !budget > 0 do
           decr budget;
           match !(pending.(i)) with
           | m :: rest ->
             if lim > 0 && !(cnts.(i)) + 1 = lim then (stop := true; heldat.(i) := m; heldzone.(i) := (if !(inu.(i)) then "uwalk" else zone (thr_of i)))
             else (incr cnts.(i); seqs.(i) := m :: !(seqs.(i)); pending.(i) := rest)
           | [] ->
             let th = thr_of i in
             if th.t_blk || finished th then stop := true
             else begin
               let (pre, post) = names !s th in
               if pre <> [] && lim > 0 && !(cnts.(i)) + 1 = lim then (stop := true; heldat.(i) := List.hd pre; heldzone.(i) := zone th)
               else match mstep !s (tid i) with
                 | Some s' -> List.iter (fun m -> incr cnts.(i); seqs.(i) := m :: !(seqs.(i))) pre; pending.(i) := post;
                   inu.(i) := (th.t_pc = PPreU); s := s'
                 | None -> stop := true
             end
         done in
       let settled_t i = let th = thr_of i in (finished th || th.t_blk) && !(pending.(i)) = [] in
       run 0 k;                                             (* 1: A up to its hold point *)
       let before_b = !s in
       run 1 j;                                             (* 2: B up to its hold point, or as far as it gets *)
       if !(heldat.(0)) <> "-" && !s <> before_b then other_moved_while_held := 1;
       let c1 = if !(heldat.(1)) <> "-" || settled_t 1 then 0 else 1 in
       let g_early = 0 in
       if flip = 1 then (match mstep !s t2 with Some s' -> s := s' | None -> ());   (* the environment flips u while A is held *)
       run 0 0;                                             (* 3: A is released *)
       if c1 = 1 then begin                                 (*    B was waiting for a lock A held: both move now *)
         let moved = ref true in
         while !moved && !budget > 0 do let before = (!s, !(cnts.(1))) in run 1 j; run 0 0; moved := (before <> (!s, !(cnts.(1)))) done end;
       let c2 = if settled_t 0 then 0 else 1 in
       let moved = ref true in                              (* 4: B is released; everything runs on *)
       while !moved && !budget > 0 do let before = (!s, !(cnts.(0)), !(cnts.(1))) in run 1 0; run 0 0; moved := (before <> (!s, !(cnts.(0)), !(cnts.(1)))) done;
       Printf.printf "%s atA=%s atB=%s zoneA=%s zoneB=%s seqA=%s seqB=%s c1=%d c2=%d overlap=%d gearly=%d good=%d nlw=%d\n" (outcome !s)
         !(heldat.(0)) !(heldat.(1)) !(heldzone.(0)) !(heldzone.(1))
         (rle (List.rev !(seqs.(0)))) (rle (List.rev !(seqs.(1)))) c1 c2 !other_moved_while_held g_early
         (if good_final !s && inv_ok !s then 1 else 0) (if no_lost_wakeup !s then 1 else 0)
     | _ -> print_endline "ERR");
    flush stdout
  done with End_of_file -> ()

let () =
  if Array.mem "--held" Sys.argv then held () else
  let verbose = Array.mem "-v" Sys.argv in
  let nstates = ref 0 and nfinal = ref 0 and npairs = ref 0 and badpairs = ref 0 and maxst = ref 0 in
  List.iter (fun (ni, k) ->
    List.iter (fun (na, oa) ->
      List.iter (fun (nb, ob) ->
        incr npairs;
        let seen = H.create 4096 in
        let bad = ref [] in
        let cnt = ref 0 in
        let stack = Stack.create () in
        Stack.push (minit k oa ob, []) stack;
        while not (Stack.is_empty stack) do
          let (s, path) = Stack.pop stack in
          if not (H.mem seen s) then begin
            H.add seen s (); incr nstates; incr cnt;
            let a = mstep s t0 and b = mstep s t1 and e = mstep s t2 in
            if not (inv_ok s) then bad := (List.rev path, s) :: !bad;
            (match a, b with
             | None, None -> incr nfinal; if not (good_final s) then bad := (List.rev path, s) :: !bad
             | _ -> ());
            (match a with Some s' -> Stack.push (s', 0 :: path) stack | None -> ());
            (match b with Some s' -> Stack.push (s', 1 :: path) stack | None -> ());
            (match e with Some s' -> Stack.push (s', 2 :: path) stack | None -> ())
          end
        done;
        if !cnt > !maxst then maxst := !cnt;
        let shortest l = List.fold_left (fun acc x -> match acc with None -> Some x | Some (p, _) -> if List.length (fst x) < List.length p then Some x else acc) None l in
        (match shortest !bad with
         | Some (p, s) ->
           incr badpairs;
           Printf.printf "BAD init=%s A=%s B=%s finals=%d states=%d schedule=%s outcome: %s settled=%b inv=%b nascent_final=%b\n" ni na nb (List.length !bad) !cnt
             (String.concat "" (List.map string_of_int p)) (outcome s) (settled s) (inv_ok s) (nascent_final_ok s)
         | None -> if verbose then Printf.printf "ok  init=%s A=%s B=%s states=%d\n" ni na nb !cnt))
        (ops vb)) (ops va)) inits;
  Printf.printf "# pairs=%d bad_pairs=%d states=%d max_states_per_pair=%d finals=%d\n" !npairs !badpairs !nstates !maxst !nfinal
