(* driver for the extracted dictionary model: one command per line on stdin, one result per line
   (same formats as harness/c/c16_dict.c) *)
open C16_model

(* N <-> int64 (unsigned) *)
let rec pos_of_i64 (n : int64) : positive =
  if n = 1L then XH
  else if Int64.logand n 1L = 0L then XO (pos_of_i64 (Int64.shift_right_logical n 1))
  else XI (pos_of_i64 (Int64.shift_right_logical n 1))
let n_of_i64 n = if n = 0L then N0 else Npos (pos_of_i64 n)
let rec i64_of_pos = function
  | XH -> 1L
  | XO p -> Int64.shift_left (i64_of_pos p) 1
  | XI p -> Int64.logor (Int64.shift_left (i64_of_pos p) 1) 1L
let i64_of_n = function N0 -> 0L | Npos p -> i64_of_pos p
let n_of_string s = n_of_i64 (Int64.of_string ("0u" ^ s))
let str_of_n n = Printf.sprintf "%Lu" (i64_of_n n)
let n_of_int i = n_of_i64 (Int64.of_int i)
let rec int_of_nat = function O -> 0 | S n -> 1 + int_of_nat n

let tab : (int64, n) Hashtbl.t = Hashtbl.create 1024
let hash k = match Hashtbl.find_opt tab (i64_of_n k) with Some h -> h | None -> N0
let keq a b = (i64_of_n a) = (i64_of_n b)

let fnv_init = 0xcbf29ce484222325L   (* 14695981039346656037 *)
let fnv h x =
  let h = ref h in
  for i = 0 to 7 do
    h := Int64.logxor !h (Int64.logand (Int64.shift_right_logical x (8 * i)) 0xffL);
    h := Int64.mul !h 1099511628211L
  done; !h

let d = ref (create N0)
let words l = List.filter (fun s -> s <> "") (String.split_on_char ' ' (String.trim l))

let sorted_B () =
  List.sort_uniq compare (List.map i64_of_n !d.d_B)

let dump full =
  let l = !d.d_list in
  let bs = sorted_B () in
  if full then begin
    Printf.printf "D %s %s |" (str_of_n !d.d_size) (str_of_n !d.d_count);
    List.iter (fun e -> Printf.printf " %s:%s:%s" (str_of_n e.e_so) (str_of_n e.e_key) (str_of_n e.e_val)) l;
    print_string " | B";
    List.iter (fun b -> Printf.printf " %Lu" b) bs;
    print_newline ()
  end else begin
    let h = List.fold_left (fun h e -> fnv (fnv (fnv h (i64_of_n e.e_so)) (i64_of_n e.e_key)) (i64_of_n e.e_val)) fnv_init l in
    let hb = List.fold_left (fun h b -> fnv (fnv h b) (i64_of_n (so_dummykey (n_of_i64 b)))) fnv_init bs in
    Printf.printf "d %s %s %d %Lu %d %Lu\n" (str_of_n !d.d_size) (str_of_n !d.d_count) (List.length l) h (List.length bs) hb
  end

let b2i b = if b then 1 else 0

let iterate_cmd () =
  let dd = !d in
  let g0 = match it_get dd it_create with
    | None -> N0
    | Some p -> (match List.nth_opt dd.d_list (int_of_nat p) with Some e -> e.e_key | None -> N0) in
  Printf.printf "I %d %s |" (b2i (it_equals it_create it_end)) (str_of_n g0);
  let (l, it) = iterate dd in
  List.iter (fun (k, v) -> Printf.printf " %s:%s" (str_of_n k) (str_of_n v)) l;
  let g1 = it_get dd it in
  let (it2, e2) = it_next (S (length dd.d_list)) dd it in
  (* after the final (NULL) next: it equals end; its copy too; get NULL; a further next is NULL; get tracked next *)
  Printf.printf " | %d %d %d %d %d\n" (b2i (it_equals it2 it_end)) (b2i (it_equals it it_end)) (b2i (g1 = None)) (b2i (e2 = None)) 1

let () =
  try while true do
    let line = input_line stdin in
    (match words line with
     | "T" :: rest ->
       let rec go = function k :: h :: t -> Hashtbl.replace tab (Int64.of_string ("0u" ^ k)) (n_of_string h); go t | _ -> () in
       go rest; print_endline "T"
     | "N" :: cap :: _ -> d := create (n_of_string cap);
       Printf.printf "N %s %s %s\n" (str_of_n !d.d_size) (str_of_n !d.d_count) cap
     | [("p" | "a") as op; k; v] ->
       let (d1, r) = (if op = "p" then put else put_if_absent) hash keq !d (n_of_string k) (n_of_string v) in
       d := d1; Printf.printf "%s %s %s %s\n" op (str_of_n r) (str_of_n d1.d_size) (str_of_n d1.d_count)
     | ["g"; k] -> let (d1, r) = get hash keq !d (n_of_string k) in d := d1; Printf.printf "g %s\n" (str_of_n r)
     | ["x"; k] -> let (d1, r) = delete hash keq !d (n_of_string k) in d := d1;
       Printf.printf "x %s %s %s\n" (str_of_n r) (str_of_n d1.d_size) (str_of_n d1.d_count)
     | ["R"; n; op; k; v; ks] ->
       let n = int_of_string n and k = Int64.of_string k and v = Int64.of_string v and ks = Int64.of_string ks in
       let r = ref N0 in
       for i = 0 to n - 1 do
         let kk = n_of_i64 (Int64.add k (Int64.mul (Int64.of_int i) ks)) and vv = n_of_i64 (Int64.add v (Int64.of_int i)) in
         let (d1, r1) = (if op = "p" then put else put_if_absent) hash keq !d kk vv in d := d1; r := r1
       done;
       Printf.printf "R %s %s %s\n" (str_of_n !r) (str_of_n !d.d_size) (str_of_n !d.d_count)
     | ["D"] -> dump true
     | ["d"] -> dump false
     | ["I"] -> iterate_cmd ()
     | "Z" :: rest -> print_string "Z"; List.iter (fun x -> Printf.printf " %s" (str_of_n (hash64 (n_of_string x)))) rest; print_newline ()
     | "V" :: rest -> print_string "V"; List.iter (fun x -> Printf.printf " %s" (str_of_n (rev64 (n_of_string x)))) rest; print_newline ()
     | _ -> print_endline "ERR");
  done with End_of_file -> ()
