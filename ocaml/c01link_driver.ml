(* Extension R: executes the link theorems of Feb/ModelHistory.v and Syncvar/ModelHistory.v on concrete instances.
   Reads an M2 script in the format of c01_driver (FEB: TP/TR/TC, S, o, p, E) or of c03_driver (syncvar: N, I, O, M/X/Y, D),
   collects it as a script of the op-atomic model and, on
       EVAL feb|sv <fuel> <mutation> [i [j]]        mutation: none | drop i | swap i j | bump i
   runs the extracted model, builds the history of every word / variable from the MODEL's own events (hist_from /
   sv_hist_of_run), optionally perturbs it, and asks the extracted acceptor (decide).  Answer, one line:
       L <w>:<verdict>:<calls>:<pending>:<overlap> ...       verdict: A accepted, R rejected, U fuel exhausted, B ill-formed
   By model_runs_are_accepted / sv_model_runs_are_accepted an unperturbed history is never rejected; an R here would mean the
   extraction or this glue is wrong. *)
open C01link_model

let rec pos_of_int n = if n = 1 then XH else if n land 1 = 0 then XO (pos_of_int (n lsr 1)) else XI (pos_of_int (n lsr 1))
let n_of_int n = if n = 0 then N0 else Npos (pos_of_int n)
let rec int_of_pos = function XH -> 1 | XO p -> 2 * int_of_pos p | XI p -> 2 * int_of_pos p + 1
let int_of_n = function N0 -> 0 | Npos p -> int_of_pos p
let z_of_int n = if n = 0 then Z0 else if n > 0 then Zpos (pos_of_int n) else Zneg (pos_of_int (-n))
let rec nat_of_int n = if n <= 0 then O else S (nat_of_int (n - 1))
let n_double = function N0 -> N0 | Npos p -> Npos (XO p)
let n_sdouble = function N0 -> Npos XH | Npos p -> Npos (XI p)
let n_of_hex (s : string) : n =
  let acc = ref N0 in
  String.iter (fun c ->
      let d = match c with
        | '0' .. '9' -> Char.code c - 48 | 'a' .. 'f' -> Char.code c - 87 | 'A' .. 'F' -> Char.code c - 55
        | _ -> failwith "hex" in
      for b = 3 downto 0 do
        acc := if (d lsr b) land 1 = 1 then n_sdouble !acc else n_double !acc
      done) s;
  !acc

(* ---------------- FEB ---------------- *)
let api_of_string = function
  | "readFE" -> A_readFE | "readFE_nb" -> A_readFE_nb | "readFF" -> A_readFF | "readFF_nb" -> A_readFF_nb
  | "writeEF" -> A_writeEF | "writeEF_nb" -> A_writeEF_nb | "writeF" -> A_writeF | "writeFF" -> A_writeFF
  | "purge_to" -> A_purge_to | "fill" -> A_fill | "empty" -> A_empty | s -> failwith ("api " ^ s)
let bt_of_string = function
  | "PURGE" -> BT_PURGE | "WRITEEF" -> BT_WRITEEF | "WRITEEF_NB" -> BT_WRITEEF_NB | "WRITEF" -> BT_WRITEF
  | "WRITEFF" -> BT_WRITEFF | "READFF" -> BT_READFF | "READFF_NB" -> BT_READFF_NB | "READFE" -> BT_READFE
  | "READFE_NB" -> BT_READFE_NB | "FILL" -> BT_FILL | "EMPTY" -> BT_EMPTY | s -> failwith ("bt " ^ s)
let passes = ref [] and runs = ref []
let tbl f = runs_as !passes !runs f

let dmode_of = function 0 -> DOwn | 1 -> DNull | _ -> DSame
let src_of a1 a2 = if a1 = 0 then Some (z_of_int a2) else None
let feb_op name a1 a2 =
  match name with
  | "readFE" -> OReadFE (dmode_of a1) | "readFE_nb" -> OReadFE_nb (dmode_of a1)
  | "readFF" -> OReadFF (dmode_of a1) | "readFF_nb" -> OReadFF_nb (dmode_of a1) | "readXX" -> OReadXX (dmode_of a1)
  | "writeEF" -> OWriteEF (src_of a1 a2) | "writeEF_nb" -> OWriteEF_nb (src_of a1 a2)
  | "writeF" -> OWriteF (src_of a1 a2) | "writeFF" -> OWriteFF (src_of a1 a2) | "purge_to" -> OPurge (src_of a1 a2)
  | "writeEF_const" -> OWriteEF (Some (z_of_int a2)) | "writeF_const" -> OWriteF (Some (z_of_int a2))
  | "writeFF_const" -> OWriteFF (Some (z_of_int a2)) | "purge_to_const" -> OPurge (Some (z_of_int a2))
  | "writeEF_const_nb" -> OWriteEF_nb (Some (z_of_int a2))
  | "fill" -> OFill | "empty" -> OEmpty | "purge" -> OPurge (Some Z0)
  | "lock" -> OReadFE DNull | "unlock" -> OFill | "status" -> OStatus
  | s -> failwith ("op " ^ s)

let f_nt = ref 0 and f_nw = ref 0
let f_mem : (n * z) list ref = ref []
let f_script : (n * gop) list ref = ref []          (* reversed *)

(* ---------------- syncvar ---------------- *)
let sv_op code v hd =
  let d = hd <> 0 in
  match code with
  | 0 -> ReadFF d | 1 -> ReadFF_nb d | 2 -> ReadFE d | 3 -> ReadFE_nb d
  | 4 -> WriteF v | 5 -> WriteEF v | 6 -> WriteEF_nb v | 7 -> Fill | 8 -> Empty | 9 -> IncrF v | _ -> Status
let s_nt = ref 0 and s_nv = ref 0
let s_vars : (int * n) list ref = ref []
let s_script : ((n * n) * op0) list ref = ref []     (* reversed *)
let word_of kind value =
  match kind with
  | 0 -> sYNCVAR_INITIALIZER | 1 -> sYNCVAR_EMPTY_INITIALIZER
  | 2 -> sYNCVAR_INITIALIZE_TO value | _ -> sYNCVAR_EMPTY_INITIALIZE_TO value

let verdict_char v = match int_of_n v with 0 -> "A" | 1 -> "R" | 2 -> "U" | _ -> "B"
let print_result w (v, (n, (p, o))) =
  Printf.printf " %d:%s:%d:%d:%d" w (verdict_char v) (int_of_n n) (int_of_n p) (if o then 1 else 0)

let split l = List.filter (fun x -> x <> "") (String.split_on_char ' ' l)

let () =
  try while true do
    let line = String.trim (input_line stdin) in
    (match split line with
     (* ---- FEB script ---- *)
     | ["TP"; f; b] -> passes := !passes @ [ (api_of_string f, bt_of_string b) ]
     | ["TR"; b; f] -> runs := !runs @ [ (bt_of_string b, api_of_string f) ]
     | ["TC"] -> passes := []; runs := []
     | "S" :: a :: _b :: _c :: d :: vals ->
       f_nt := int_of_string a; f_nw := int_of_string d;
       f_mem := List.mapi (fun i v -> (n_of_int i, z_of_int (int_of_string v))) vals;
       f_script := []
     | ["o"; tid; w; name; a1; a2] ->
       let tid = int_of_string tid and w = int_of_string w in
       let o = feb_op name (int_of_string a1) (int_of_string a2) in
       (* a call by a non-qthread pthread is executed by a proxy task as the function the blocker table names *)
       let o' = if tid >= !f_nt then ext_op tbl o else Some o in
       (match o' with
        | Some o' -> f_script := (n_of_int tid, GWord (n_of_int w, o')) :: !f_script
        | None -> ())
     | "p" :: tid :: k :: _variant :: retmode :: retw :: _retval :: _n :: pcs ->
       let tid = int_of_string tid and k = 100 + int_of_string k in
       let pcs = List.map (fun x -> n_of_int (int_of_string x)) (List.filter (fun x -> x <> "") pcs) in
       (* qthread_spawn step 4: qthread_empty(ret) before the precondition check *)
       if int_of_string retmode = 1 then
         f_script := (n_of_int tid, GWord (n_of_int (int_of_string retw), OEmpty)) :: !f_script;
       f_script := (n_of_int tid, GSpawn (n_of_int k, pcs)) :: !f_script
     | ["E"] | ["Q"] | ["D"] -> ()
     (* ---- syncvar script ---- *)
     | ["N"; nt; nv] ->
       s_nt := int_of_string nt; s_nv := int_of_string nv;
       s_vars := List.init !s_nv (fun i -> (i, N0));
       s_script := []
     | ["I"; v; kind; hex] ->
       let v = int_of_string v in
       let w = word_of (int_of_string kind) (n_of_hex hex) in
       s_vars := List.map (fun (i, x) -> if i = v then (i, w) else (i, x)) !s_vars
     | ["O"; t; v; code; hex; hd] ->
       s_script := ((n_of_int (int_of_string t), n_of_int (int_of_string v)),
                    sv_op (int_of_string code) (n_of_hex hex) (int_of_string hd)) :: !s_script
     | [("M" | "X" | "Y"); v; code; hex; hd] ->
       s_script := ((n_of_int !s_nt, n_of_int (int_of_string v)),
                    sv_op (int_of_string code) (n_of_hex hex) (int_of_string hd)) :: !s_script
     (* ---- evaluation ---- *)
     | "EVAL" :: which :: fuel :: mut ->
       let fuel = n_of_int (int_of_string fuel) in
       print_string "L";
       (match which with
        | "feb" ->
          let m = (match mut with
              | ["drop"; i] -> MDropRet (nat_of_int (int_of_string i))
              | ["swap"; i; j] -> MSwapRet (nat_of_int (int_of_string i), nat_of_int (int_of_string j))
              | ["bump"; i] -> MBumpVal (nat_of_int (int_of_string i))
              | _ -> MNone) in
          let script = List.rev !f_script in
          for w = 0 to !f_nw - 1 do
            print_result w (feb_link fuel !f_mem script m (n_of_int w))
          done
        | _ ->
          let m = (match mut with
              | ["drop"; i] -> SMDropRet (nat_of_int (int_of_string i))
              | ["swap"; i; j] -> SMSwapRet (nat_of_int (int_of_string i), nat_of_int (int_of_string j))
              | ["bump"; i] -> SMBumpVal (nat_of_int (int_of_string i))
              | _ -> SMNone) in
          let script = List.rev !s_script in
          let vars = List.map (fun (i, w) -> (n_of_int i, w)) !s_vars in
          for v = 0 to !s_nv - 1 do
            print_result v (sv_link fuel vars script m (n_of_int v))
          done);
       print_newline ()
     | [] -> ()
     | _ -> print_endline "ERR");
    flush stdout
  done with End_of_file -> ()
