(* driver for the extracted shutdown machine (Lifecycle/Shutdown.v), C19 extension U.
   INIT <S> <W> <hw>                       -> "INIT n=<threads> flags=<bits> active=<n>"      (start-up side)
   ACC <v> <S> <W> <sact bits> <wact bits> <queue lengths i,i,..> <ev;ev;...>
        the machine as ACCEPTOR of the event order logged by harness/c/c19_shutdown.c in one qthread_finalize
        (v = 1: the variant whose re-enabling test reads the shepherd's flag -- the seeded C19-3 / C19-4 change)
     -> "ACC ok|rej idx=<event index> fin=<pc> stuck=<i>:<j>|- exited=<n>/<n> termleft=<0|1> phantom=<n> steps=<n> mu=<first>-><last> done=<0|1> why=<text>" *)
open C19shutdown_model
let rec nat_of_int n = if n <= 0 then O else S (nat_of_int (n - 1))
let rec int_of_nat = function O -> 0 | S n -> 1 + int_of_nat n
let words s = List.filter (fun x -> x <> "") (String.split_on_char ' ' (String.trim s))
let bits s = List.init (String.length s) (fun i -> s.[i] = '1')
let fpname = function
  | FEnq k -> Printf.sprintf "Enq%d" (int_of_nat k) | FRead k -> Printf.sprintf "Read%d" (int_of_nat k)
  | FCas k -> Printf.sprintf "Cas%d" (int_of_nat k) | FEarly -> "Early" | FJoin k -> Printf.sprintf "Join%d" (int_of_nat k)
  | FFree -> "Free" | FNormal -> "Normal" | FLate -> "Late" | FDone -> "Done"
exception Rej of string
let rej fmt = Printf.ksprintf (fun s -> raise (Rej s)) fmt

let accept v ns nw sact wact tasks evs =
  let nthreads = ns * nw - 1 in
  let s0 = init_state (nat_of_int ns) (nat_of_int nw) (nat_of_int (ns * nw)) sact (List.map nat_of_int tasks) in
  let s0 = List.fold_left (fun (s, k) b -> (set_worker_flag s (nat_of_int k) b, k + 1)) (s0, 0) wact |> fst in
  let evs = Array.of_list evs in
  (* where each worker thread is when logging starts: its first event tells (a flag read: at the `while (!active)`
     test; a result of get_thread: inside qt_scheduler_get_thread) *)
  let first = Array.make (max nthreads 1) 0 in
  Array.iter (fun (kd, a, b, _, _, _) ->
      let me = (match kd with "WR" -> a * nw + b | "WG" -> a | _ -> 0) in
      if me >= 1 && me <= nthreads && first.(me - 1) = 0 then first.(me - 1) <- (if kd = "WG" then 2 else 1)) evs;
  let s0 = { s0 with workers = List.mapi (fun k w -> if first.(k) = 2 then set_pc w WGet else w) s0.workers } in
  let s = ref s0 and steps = ref 0 and phantom = ref 0 and idx = ref 0 in
  let wk k = match nth_error !s.workers (nat_of_int k) with Some w -> w | None -> rej "no worker thread %d in a %dx%d runtime" k ns nw in
  let sh i = match nth_error !s.sheps (nat_of_int i) with Some x -> x | None -> rej "no shepherd %d" i in
  let wname k = let w = wk k in Printf.sprintf "(%d,%d)" (int_of_nat w.wshep) (int_of_nat w.wloc) in
  let fstep why = match step v !s AFin with Some s' -> s := s'; incr steps | None -> rej "%s" why in
  let add_task i = let x = sh i in s := { !s with sheps = upd !s.sheps (nat_of_int i) { x with qtask = S x.qtask } }; incr phantom in
  let result verdict why =
    let ex = List.length (List.filter (fun w -> w.wpc_ = WExit) !s.workers) in
    Printf.sprintf "ACC %s idx=%d fin=%s stuck=%s exited=%d/%d termleft=%d phantom=%d steps=%d mu=%d->%d done=%d why=%s" verdict !idx
      (fpname !s.fin) (match stuck_at_join !s with Some (i, j) -> Printf.sprintf "%d:%d" (int_of_nat i) (int_of_nat j) | None -> "-")
      ex nthreads (if no_term_left !s then 0 else 1) !phantom !steps (int_of_nat (mu s0)) (int_of_nat (mu !s))
      (if !s.fin = FDone then 1 else 0) why in
  try
    Array.iteri (fun n (kd, a, b, c, d, e) ->
        idx := n;
        match kd with
        | "FE" ->
          (match !s.fin with
           | FEnq k -> let k = int_of_nat k in let w = wk k in
             if a <> int_of_nat w.wshep then rej "the terminator for worker %s is enqueued on shepherd %d's queue (its own shepherd's queue in the model)" (wname k) a;
             if b <> 0 then rej "the terminator for worker %s is enqueued stealable" (wname k);
             fstep "enqueue"
           | f -> rej "a terminator is enqueued while the finalizer of the model is at %s" (fpname f))
        | "FR" ->
          (match !s.fin with
           | FRead k -> let k = int_of_nat k in let w = wk k in
             let i = int_of_nat w.wshep and j = int_of_nat w.wloc in
             if not v then begin
               if a <> 1 || b <> i || c <> j then
                 rej "the re-enabling test for worker %s reads %s (the model reads the worker's own flag)" (wname k)
                   (if a = 2 then Printf.sprintf "shepherd %d's active flag" b else Printf.sprintf "worker (%d,%d)'s flag" b c);
               if (d <> 0) <> w.wact then rej "worker %s's flag read as %d by the finalizer, %b in the model" (wname k) d w.wact
             end else begin
               if a <> 2 || b <> i then rej "variant: expected a read of shepherd %d's flag" i;
               if (d <> 0) <> (sh i).sact then rej "variant: shepherd flag value"
             end;
             fstep "read"
           | FEnq _ | FCas _ -> rej "the finalizer reads a flag where the model enqueues / re-enables (at %s)" (fpname !s.fin)
           | _ -> ())
        | "FC" ->
          (match !s.fin with
           | FCas k -> let k = int_of_nat k in let w = wk k in
             if a <> 1 || b <> int_of_nat w.wshep || c <> int_of_nat w.wloc then rej "the re-enabling CAS for worker %s is applied to another flag" (wname k);
             if d <> 1 then rej "the re-enabling CAS of worker %s is CAS(active, %d, %d); the model's is CAS(active, 0, 1)" (wname k) (d / 2) (d mod 2);
             fstep "cas"
           | f -> rej "a CAS on an active flag while the finalizer of the model is at %s" (fpname f))
        | "FS" ->
          (match a, !s.fin with
           | 0, FEarly -> fstep "early"
           | 0, f -> rej "the early cleanup stage starts while the finalizer of the model is at %s" (fpname f)
           | 1, FFree -> if b <> 0 then rej "the normal cleanup stage starts while %d worker threads are alive" b; fstep "free"; fstep "normal"
           | 1, FJoin k -> rej "the normal cleanup stage starts but worker %s has not been joined" (wname (int_of_nat k))
           | 2, FLate -> if b <> 0 then rej "the late cleanup stage starts while %d worker threads are alive" b; fstep "late"
           | _, f -> rej "cleanup stage %d starts while the finalizer of the model is at %s" a (fpname f))
        | "FJ" ->
          (match !s.fin with
           | FJoin k -> let k = int_of_nat k in
             if a - 1 <> k then rej "pthread_join returned for worker thread %d, the model joins %s next" a (wname k);
             if b <> 0 then rej "pthread_join failed (%d)" b;
             fstep (Printf.sprintf "pthread_join of worker %s returned although the worker has not left qthread_master" (wname k))
           | f -> rej "pthread_join returned while the finalizer of the model is at %s" (fpname f))
        | "FD" ->
          if !s.fin <> FDone then rej "qthread_finalize returned while the finalizer of the model is at %s" (fpname !s.fin);
          if not (all_exited !s) then rej "qthread_finalize returned and a worker thread has not exited";
          if not (no_term_left !s) then rej "qthread_finalize returned and a terminator was never taken"
        | "WR" ->
          let k = a * nw + b - 1 in let w = wk k in
          if (c <> 0) <> w.wact then rej "worker %s reads its active flag as %d, %b in the model" (wname k) c w.wact;
          (match step v !s (ACheck (nat_of_int k)) with
           | Some s' -> s := s'; incr steps
           | None -> rej "worker %s tests its active flag but is %s in the model" (wname k) (if w.wpc_ = WExit then "gone" else "inside get_thread"))
        | "WG" ->
          let k = a - 1 in let w = wk k in let i = int_of_nat w.wshep in let kn = nat_of_int k in
          if b = 1 then
            (match step v !s (ATerm kn) with
             | Some s' -> s := s'; incr steps
             | None -> rej "worker %s got a terminator but %s" (wname k)
                         (if w.wpc_ <> WGet then "it is not inside get_thread in the model" else Printf.sprintf "shepherd %d's queue holds none in the model" i))
          else begin
            let dest = if (sh i).sact then 0 else begin
                let d = ref 0 and found = ref false in
                for m = n + 1 to Array.length evs - 1 do
                  let (kd2, a2, b2, _, _, _) = evs.(m) in
                  if not !found && kd2 = "WQ" && a2 = a then (d := b2; found := true)
                done; !d end in
            let try_task () = step v !s (ATask (kn, nat_of_int dest)) in
            let try_steal () =
              let r = ref None in
              for vi = 0 to ns - 1 do if !r = None then r := step v !s (ASteal (kn, nat_of_int vi, O)) done; !r in
            (match try_task () with
             | Some s' -> s := s'; incr steps
             | None ->
               match (if w.wpc_ = WGet then try_steal () else None) with
               | Some s' -> s := s'; incr steps
               | None ->
                 if w.wpc_ <> WGet then rej "worker %s got a task but is not inside get_thread in the model" (wname k);
                 add_task i;          (* tasks queued at the entry of finalize are not counted by the harness: admit one *)
                 (match try_task () with
                  | Some s' -> s := s'; incr steps
                  | None -> rej "worker %s got a task that the model cannot deliver (destination shepherd %d)" (wname k) dest))
          end
        | "WQ" -> if c = 1 then rej "worker thread %d re-enqueues a terminator" a
        | "WX" ->
          let k = a - 1 in let w = wk k in
          if w.wpc_ <> WExit then rej "worker %s leaves qthread_master without having taken a terminator" (wname k)
        | "XD" -> s := set_worker_flag !s (nat_of_int (a - 1)) false     (* a concurrent qthread_disable_worker (op cd) *)
        | "XC" -> rej "worker thread %d applies a CAS to worker (%d,%d)'s flag during finalize" a b c
        | _ -> ()) evs;
    idx := Array.length evs;
    result "ok" "-"
  with Rej why -> result "rej" why

let parse_ev tok =
  match String.split_on_char ',' tok with
  | [k; a; b; c; d; e] -> (k, int_of_string a, int_of_string b, int_of_string c, int_of_string d, int_of_string e)
  | _ -> failwith ("bad event " ^ tok)

let () =
  try while true do
      let line = input_line stdin in
      (match words line with
       | ["INIT"; s; w; hw] ->
         let s = int_of_string s and w = int_of_string w and hw = int_of_string hw in
         let ws = init_workers (nat_of_int s) (nat_of_int w) (nat_of_int hw) in
         Printf.printf "INIT n=%d flags=%s active=%d\n" (List.length ws)
           (String.concat "" (List.map (fun x -> if x.wact then "1" else "0") ws))
           (int_of_nat (active_workers (nat_of_int s) (nat_of_int w) (nat_of_int hw)))
       | "ACC" :: v :: s :: w :: sact :: wact :: qlen :: rest ->
         let tasks = List.map int_of_string (List.filter (fun x -> x <> "") (String.split_on_char ',' qlen)) in
         let evs = List.filter (fun x -> x <> "") (String.split_on_char ';' (String.concat "" rest)) in
         (try print_endline (accept (v = "1") (int_of_string s) (int_of_string w) (bits sact) (bits (if wact = "-" then "" else wact)) tasks (List.map parse_ev evs))
          with Failure m -> Printf.printf "ACC error why=%s\n" m)
       | _ -> print_endline "ERR bad command");
      flush stdout
    done with End_of_file -> ()
