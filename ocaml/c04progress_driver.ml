(* C04 progress (extension M): ocaml/c04_driver.ml's acceptor (same event-to-label translation, the extracted module is
   Kernel/ExtractProgress.v = the kernel model + Kernel/Progress.v) extended with
     - failed spawns: a descriptor freed inside its own spawn call + a non-zero return code is the model's
       spawn_call ... (Some rc) = SpawnFailed rc st (state unchanged: no reference is created); a body that starts for
       such a tag, a success code after the free, or an error code with a live descriptor are REJECTed;
     - the end-of-run obligation of Kernel/Progress.v: lines "Z shep qlength qlength_stealable walk nohead" (the real
       ready queues, read white-box) and "Y allocs frees waited_ms" feed the extracted [quiescent_ok]; output
       "QUIESCENT ok" | "QUIESCENT bad <what>".
   Original header: C04/C07 driver for the extracted kernel model (Kernel/Model.v).
   Mode 1 (acceptor, M4): stdin = the event log of harness/c/c04_kernel.c ("H ..." header, "T ..." task table, events);
     every event is translated into the label(s) of the model it witnesses and fed to the extracted [step]; output:
       "ACCEPT <labels> racy=<n>"  | "REJECT <seq> <reason>"  then "FIN ok" | "FIN unfinished <tids>"
     A REJECT means: the real runtime did something that is not a transition of the model.
   Mode 2 (M1): lines "X fas ...", "X fasnl ...", "X new ..." evaluate the pure kernels. *)
open C04progress_model

let rec nat_of_int n = if n <= 0 then O else S (nat_of_int (n - 1))
let rec int_of_nat = function O -> 0 | S n -> 1 + int_of_nat n
let rec pos_of_int n = if n = 1 then XH else if n land 1 = 0 then XO (pos_of_int (n lsr 1)) else XI (pos_of_int (n lsr 1))
let n_of_int n = if n = 0 then N0 else Npos (pos_of_int n)

exception Reject of string
let reject fmt = Printf.ksprintf (fun s -> raise (Reject s)) fmt

let st = ref (init O O N0)
let nlabels = ref 0
let racy = ref 0
let trace = ref false

let string_of_loc = function
  | InQueue (s, b) -> Printf.sprintf "InQueue(%d,%s)" (int_of_nat s) (if b then "stealable" else "unstealable")
  | Held (s, w, n) -> Printf.sprintf "Held(%d,%d%s)" (int_of_nat s) (int_of_nat w) (if n then ",near" else "")
  | OnWorker (s, w) -> Printf.sprintf "OnWorker(%d,%d)" (int_of_nat s) (int_of_nat w)
  | Blocked -> "Blocked" | InSyscall -> "InSyscall" | Nascent -> "Nascent" | Freed -> "Freed"
let string_of_state = function
  | NEW -> "NEW" | RUNNING -> "RUNNING" | YIELDED -> "YIELDED" | YIELDED_NEAR -> "YIELDED_NEAR" | FEB_BLOCKED -> "FEB_BLOCKED"
  | SYSCALL -> "SYSCALL" | MIGRATING -> "MIGRATING" | TERMINATED -> "TERMINATED" | NASCENT -> "NASCENT"
let code_of_state = function NASCENT -> 0 | NEW -> 1 | RUNNING -> 2 | YIELDED -> 3 | YIELDED_NEAR -> 4 | FEB_BLOCKED -> 6
                             | TERMINATED -> 11 | MIGRATING -> 12 | SYSCALL -> 13

let place t = place_of (nat_of_int t) !st.places
let task t = get_task (nat_of_int t) !st.tasks
let place_s t = match place t with Some l -> string_of_loc l | None -> "nowhere"

(* three-valued knowledge about shepherd flags, for deciding whether an inferred read can be checked *)
let nshep = ref 0
let definite = Array.make 256 true
let last_change = Array.make 256 (-1)

let apply ?(take_seq = -1) seq what l =
  if not (reads_plausible !st l) then reject "%s: the branch taken needs active[0] = false, which nobody ever writes" what;
  (* reads that can be checked: flag definite now and unchanged since the worker took the task *)
  List.iter (fun (s, b) ->
      let s = int_of_nat s in
      let cur = nthb !st.active (nat_of_int s) in
      if cur <> b then begin
        if s < 256 && definite.(s) && last_change.(s) < take_seq then
          reject "%s: the worker acted as if active[%d] = %b, but the flag has been %b since event %d (before the task was dequeued at %d)"
            what s b cur last_change.(s) take_seq
        else incr racy
      end) (reads_of !st l);
  match step !st l with
  | Some s' -> st := s'; incr nlabels
  | None -> reject "%s: not a transition of the model" what

let thr_sw thr = if thr >= 100000 then None else Some (thr / 256, thr mod 256)

(* bookkeeping of the translation *)
let addr_tid : (int, int) Hashtbl.t = Hashtbl.create 64      (* live descriptor address -> tid *)
let tag_tid : (int, int) Hashtbl.t = Hashtbl.create 64
let tid_tag : (int, int) Hashtbl.t = Hashtbl.create 64
let tid_big : (int, bool) Hashtbl.t = Hashtbl.create 64
let take_seq_of : (int, int) Hashtbl.t = Hashtbl.create 64   (* tid -> seq of the G event that handed it to a worker *)
type pend = { p_parent : int; p_child : int; p_variant : int; p_target : int; p_asize : int; p_cks : int;
              mutable p_addr : int; mutable p_big : bool; mutable p_done : bool; mutable p_failed : bool }
let pending : (int, pend) Hashtbl.t = Hashtbl.create 16      (* thr -> spawn in progress *)
let pend_by_addr : (int, int) Hashtbl.t = Hashtbl.create 16  (* addr -> thr *)
let pending_fas : (int, int) Hashtbl.t = Hashtbl.create 16
let mig_expect : (int, int) Hashtbl.t = Hashtbl.create 16    (* tid -> expected rc name code *)
let tasktab : (int, int * int * int * int) Hashtbl.t = Hashtbl.create 64  (* tag -> variant,target,asize,retkind *)
(* team leaders may block inside qthread_wrapper AFTER the body returned (qt_internal_teamfinish waits for the members):
   for them the model's LEnd is applied when the descriptor is released, the body's return only announces a possible block *)
let failed_tags : (int, int) Hashtbl.t = Hashtbl.create 16   (* tag -> return code of its failed spawn *)
let qobs : (int * (int * int * int * int)) list ref = ref []
let yline : (int * int * int) option ref = ref None
let z_of_int n = if n = 0 then Z0 else if n > 0 then Zpos (pos_of_int n) else Zneg (pos_of_int (-n))
let tid_leader : (int, bool) Hashtbl.t = Hashtbl.create 16
let deferred_end : (int, bool) Hashtbl.t = Hashtbl.create 16

let tid_of_addr seq what a =
  match Hashtbl.find_opt addr_tid a with
  | Some t -> t
  | None -> reject "%s refers to descriptor %d which is not a live task (freed or never spawned)" what a
let tid_of_tag tag = match Hashtbl.find_opt tag_tid tag with Some t -> t | None -> reject "event for tag %d which was never spawned" tag

let row_of v = match List.assoc_opt v (List.map (fun (k, r) -> (int_of_nat k, r)) spawn_table) with
  | Some r -> r | None -> reject "unknown spawn variant %d" v

let check_flags what t flags target =
  match task t with
  | None -> reject "%s: no such task" what
  | Some x ->
    let bit b = (flags lsr (int_of_nat b)) land 1 = 1 in
    if bit bit_unstealable <> x.t_unsteal then reject "%s: QTHREAD_UNSTEALABLE is %b in the descriptor, model %b" what (bit bit_unstealable) x.t_unsteal;
    if bit bit_simple <> x.t_simple then reject "%s: QTHREAD_SIMPLE is %b in the descriptor, model %b" what (bit bit_simple) x.t_simple;
    if bit bit_real_mccoy <> x.t_mccoy then reject "%s: QTHREAD_REAL_MCCOY mismatch" what;
    let mt = match x.t_target with Some h -> int_of_nat h | None -> 65535 in
    if mt <> target then reject "%s: target_shepherd is %d in the descriptor, model %d" what target mt

(* perform the spawn whose descriptor is [p.p_addr]; queued = Some shep if the spawner enqueued it *)
let do_spawn seq thr (p : pend) queued =
  let row = row_of p.p_variant in
  let caller = match thr_sw thr with Some (s, w) -> Some (nat_of_int s, nat_of_int w) | None -> None in
  let shep_param = if p.p_target = 65535 then None else Some (nat_of_int p.p_target) in
  let src = n_of_int (1000 + p.p_child) in
  if p.p_asize > 0 then apply seq "source buffer contents at the spawn" (LStore (src, [n_of_int p.p_cks]));
  let tid = int_of_nat !st.next in
  apply seq (Printf.sprintf "spawn of tag %d (variant %d)" p.p_child p.p_variant)
    (LSpawn (caller, row, shep_param, n_of_int p.p_asize, src, (queued = None)));
  Hashtbl.replace addr_tid p.p_addr tid;
  Hashtbl.replace tag_tid p.p_child tid; Hashtbl.replace tid_tag tid p.p_child;
  Hashtbl.replace tid_big tid p.p_big;
  if row.r_team <> O then Hashtbl.replace tid_leader tid true;
  Hashtbl.remove pend_by_addr p.p_addr;
  p.p_done <- true;
  (match queued, place tid with
   | Some q, Some (InQueue (q', _)) -> if int_of_nat q' <> q then reject "spawn of tag %d enqueued on shepherd %d, model: shepherd %d" p.p_child q (int_of_nat q')
   | Some q, _ -> reject "spawn of tag %d enqueued on shepherd %d although a precondition is announced unsatisfied" p.p_child q
   | None, _ -> ());
  tid

let ensure_blocked seq s w =
  (* a worker that goes on with another task while the model still has a may-block task on it: that task did block *)
  match worker_ref (nat_of_int s) (nat_of_int w) !st.places with
  | Some (y, OnWorker (_, _)) ->
    (match get_task y !st.tasks with
     | Some x when x.t_mayblock && x.t_state = RUNNING ->
       apply seq (Printf.sprintf "tid %d blocked (worker %d.%d moved on)" (int_of_nat y) s w) (LBlocked (nat_of_int s, nat_of_int w, y))
     | _ -> ())
  | _ -> ()

let handle seq kind thr a b c d e f =
  let sw () = match thr_sw thr with Some x -> x | None -> reject "event %c from a pthread that is not a worker" kind in
  match kind with
  | 'A' ->
    (match Hashtbl.find_opt pending thr with
     | Some p when not p.p_done && p.p_addr = 0 -> p.p_addr <- a; p.p_big <- (b = 1); Hashtbl.replace pend_by_addr a thr
     | _ -> reject "descriptor %d allocated outside a spawn call" a);
    if Hashtbl.mem addr_tid a then reject "descriptor %d handed out by the pool while task %d still lives in it" a (Hashtbl.find addr_tid a)
  | 'S' -> Hashtbl.replace pending thr { p_parent = a; p_child = b; p_variant = c; p_target = d; p_asize = e; p_cks = f; p_addr = 0; p_big = false; p_done = false; p_failed = false }
  | 's' ->
    (match Hashtbl.find_opt pending thr with
     | Some p when b <> 0 ->
       (* qthread_spawn returned an error: the model's spawn_call with a failing return-location preparation *)
       if p.p_done then reject "spawn of tag %d returned error %d after its task had been created (tid %d exists)" p.p_child b (try Hashtbl.find tag_tid p.p_child with Not_found -> -1);
       if p.p_addr <> 0 && not p.p_failed then reject "spawn of tag %d returned error %d but its descriptor %d was not handed back to the pool" p.p_child b p.p_addr;
       let row = row_of p.p_variant in
       let caller = match thr_sw thr with Some (s, w) -> Some (nat_of_int s, nat_of_int w) | None -> None in
       let shep_param = if p.p_target = 65535 then None else Some (nat_of_int p.p_target) in
       (match spawn_call !st caller row shep_param (n_of_int p.p_asize) (n_of_int (1000 + p.p_child)) false (Some (nat_of_int 1)) with
        | SpawnFailed (_, st') -> st := st'      (* unchanged *)
        | _ -> reject "model: failing spawn is not SpawnFailed");
       Hashtbl.replace failed_tags p.p_child b;
       Hashtbl.remove pending thr
     | Some p ->
       if p.p_failed then reject "spawn of tag %d returned success although its descriptor was freed inside the call" p.p_child;
       if not p.p_done then begin
         if p.p_addr = 0 then reject "spawn of tag %d returned success without allocating a descriptor" p.p_child;
         ignore (do_spawn seq thr p None)
       end;
       Hashtbl.remove pending thr
     | None -> reject "spawn-return without spawn")
  | 'W' -> apply seq "scribble" (LStore (n_of_int (1000 + a), [n_of_int b]))
  | 'Q' ->
    let q = b and head = (c = 1) and flags = d and target = e and stc = f land 15 and tu = f lsr 4 in
    (match Hashtbl.find_opt pend_by_addr a with
     | Some pthr ->
       let p = Hashtbl.find pending pthr in
       if pthr = thr && tu = 0 then begin
         let tid = do_spawn seq thr p (Some q) in
         check_flags "spawn enqueue" tid flags target;
         if head then reject "spawn enqueued at the head";
         if stc <> 1 then reject "spawned task enqueued in state %d, expected NEW" stc
       end else begin
         (* launched by somebody else before the spawner returned: it was nascent *)
         let tid = do_spawn seq pthr p None in
         let ws = fst (sw ()) in
         apply seq (Printf.sprintf "launch of nascent tid %d" tid) (LLaunch (nat_of_int ws, nat_of_int tid, nat_of_int q));
         check_flags "launch enqueue" tid flags target
       end
     | None ->
       let t = tid_of_addr seq "enqueue" a in
       let nt = nat_of_int t in
       let x = match task t with Some x -> x | None -> reject "enqueue of unknown task" in
       let what = Printf.sprintf "enqueue of tid %d (tag %d, %s, %s) on shepherd %d by %d [tu %d]" t
           (try Hashtbl.find tid_tag t with Not_found -> -1) (place_s t) (string_of_state x.t_state) q thr tu in
       let tseq = try Hashtbl.find take_seq_of t with Not_found -> -1 in
       (match place t, thr_sw thr with
        | Some (Held (s, w, false)), Some (s', w') when int_of_nat s = s' && int_of_nat w = w' && tu = 0 ->
          (match Hashtbl.find_opt pending_fas thr with
           | Some r ->
             Hashtbl.remove pending_fas thr;
             let r' = if r = 65535 then s' else r in
             if r' <> q then reject "%s: find_active_shepherd returned %d" what r;
             apply ~take_seq:tseq seq what (LReroute (s, w, nt, nat_of_int q))
           | None -> apply ~take_seq:tseq seq what (LSendHome (s, w, nt, nat_of_int q)));
          if head then reject "%s: at the head" what
        | Some (Held (s, w, true)), Some (s', w') when int_of_nat s = s' && int_of_nat w = w' && tu = 0 ->
          if q <> s' || head then reject "%s: yield-near partner must go to the tail of the own queue" what;
          apply seq what (LRequeueNear (s, w, nt))
        | Some (OnWorker (s, w)), Some (s', w') when int_of_nat s = s' && int_of_nat w = w' && tu = 0 ->
          (match x.t_state with
           | YIELDED -> if q <> s' || not head then reject "%s: a yielded task goes to the head of the own queue" what;
             apply seq what (LPostYield (s, w, nt))
           | YIELDED_NEAR -> if q <> s' || head then reject "%s: yield-near goes to the tail of the own queue" what;
             apply seq what (LPostNear (s, w, nt))
           | MIGRATING -> if head then reject "%s: at the head" what;
             apply seq what (LPostMigrate (s, w, nt))
           | _ -> reject "%s: the worker re-queues a task whose state asks for no re-queue" what)
        | Some (OnWorker (s, w)), Some (ws, _) when (tu = 1 || tu = 2) && x.t_mayblock ->
          apply seq what (LBlocked (s, w, nt));
          apply seq what (LWake (nat_of_int ws, nt, nat_of_int q, nat_of_int tu));
          if head then reject "%s: at the head" what
        | Some Blocked, Some (ws, _) when tu = 1 || tu = 2 ->
          apply seq what (LWake (nat_of_int ws, nt, nat_of_int q, nat_of_int tu));
          if head then reject "%s: at the head" what
        | Some Nascent, Some (ws, _) when tu = 1 ->
          apply seq what (LLaunch (nat_of_int ws, nt, nat_of_int q))
        | Some InSyscall, _ when tu = 3 -> apply seq what (LIoDone (nt, nat_of_int q))
        | _ -> reject "%s: no branch of the kernel enqueues a task from there" what);
       (match place t with
        | Some (InQueue (q', _)) when int_of_nat q' = q -> ()
        | _ -> reject "%s: the model puts it %s" what (place_s t));
       check_flags what t flags target;
       (match task t with
        | Some x' -> if code_of_state x'.t_state <> stc then reject "%s: thread_state %d at the enqueue, model %s" what stc (string_of_state x'.t_state)
        | None -> ()))
  | 'G' ->
    let t = tid_of_addr seq "dequeue" a in
    let s = b and w = c in
    if thr_sw thr <> Some (s, w) then reject "dequeue logged by thread %d for worker %d.%d" thr s w;
    ensure_blocked seq s w;
    let from = match place t with
      | Some (InQueue (q, _)) -> int_of_nat q
      | _ -> reject "worker %d.%d dequeued tid %d which is %s (not in any ready queue)" s w t (place_s t) in
    apply seq (Printf.sprintf "worker %d.%d dequeues tid %d (tag %d) from the queue of shepherd %d (%s)" s w t
                 (try Hashtbl.find tid_tag t with Not_found -> -1) from (place_s t))
      (LTake (nat_of_int s, nat_of_int w, nat_of_int from, nat_of_int t));
    Hashtbl.replace take_seq_of t seq;
    check_flags "dequeue" t d e;
    (match task t with
     | Some x -> if code_of_state x.t_state <> (f land 15) then reject "dequeued tid %d in thread_state %d, model %s" t (f land 15) (string_of_state x.t_state)
     | None -> ())
  | 'R' -> Hashtbl.replace pending_fas thr a
  | 'I' ->
    let t = tid_of_addr seq "syscall hand-over" a in
    let (s, w) = sw () in
    apply seq (Printf.sprintf "tid %d handed to the blocking subsystem" t) (LPostSyscall (nat_of_int s, nat_of_int w, nat_of_int t))
  | 'F' when (match Hashtbl.find_opt pend_by_addr a with Some pthr -> pthr = thr | None -> false) ->
    (* error path of qthread_spawn: qthread_thread_free(t) before anything refers to t *)
    let p = Hashtbl.find pending thr in
    p.p_failed <- true; Hashtbl.remove pend_by_addr a
  | 'F' ->
    (match Hashtbl.find_opt pend_by_addr a with Some _ -> reject "descriptor freed by another thread during its spawn" | None -> ());
    let t = tid_of_addr seq "free" a in
    let (s, w) = sw () in
    if Hashtbl.mem deferred_end t then begin
      Hashtbl.remove deferred_end t;
      (match place t with
       | Some (Held (s', w', false)) when int_of_nat s' = s && int_of_nat w' = w ->
         let tseq = try Hashtbl.find take_seq_of t with Not_found -> -1 in
         apply ~take_seq:tseq seq (Printf.sprintf "team leader tid %d resumes inside the wrapper" t) (LExec (s', w', nat_of_int t, None))
       | _ -> ());
      (match task t with Some x when x.t_mayblock -> apply seq "team wait did not block" (LNoBlock (nat_of_int t)) | _ -> ());
      apply seq (Printf.sprintf "team leader tid %d terminates" t) (LEnd (nat_of_int t))
    end;
    apply seq (Printf.sprintf "worker %d.%d frees tid %d (%s)" s w t (place_s t)) (LFree (nat_of_int s, nat_of_int w, nat_of_int t));
    Hashtbl.remove addr_tid a
  | 'B' ->
    let tag = a and addr = b and shep = c and pw = d and cks = e and ptrok = (f = 1) in
    let (s, w) = sw () in
    let nw = int_of_nat !st.nwk in
    if shep <> s || pw <> s * nw + w then reject "qthread_shep()/qthread_worker() = %d/%d inside worker %d.%d" shep pw s w;
    if Hashtbl.mem failed_tags tag then reject "body of tag %d runs although its spawn returned error %d" tag (Hashtbl.find failed_tags tag);
    let t = tid_of_addr seq "body start" addr in
    (match Hashtbl.find_opt tag_tid tag with
     | Some t' when t' = t -> ()
     | _ -> reject "body of tag %d runs in descriptor %d which belongs to tid %d (tag %d)" tag addr t (try Hashtbl.find tid_tag t with Not_found -> -1));
    let (_, _, asize, _) = try Hashtbl.find tasktab tag with Not_found -> (0, 0, 0, 0) in
    let got = if asize = 0 then Ptr (n_of_int (if ptrok then 1000 + tag else 7))
      else Copy ((if ptrok then [n_of_int cks] else []), (try Hashtbl.find tid_big t with Not_found -> false)) in
    let tseq = try Hashtbl.find take_seq_of t with Not_found -> -1 in
    apply ~take_seq:tseq seq (Printf.sprintf "first execution of tid %d (tag %d, %s) on worker %d.%d, argument %s" t tag (place_s t) s w
                                (if asize = 0 then (if ptrok then "pointer ok" else "WRONG POINTER") else Printf.sprintf "copy cks %d" cks))
      (LExec (nat_of_int s, nat_of_int w, nat_of_int t, Some got))
  | 'r' | 'M' ->
    let tag = a in
    let shep, pw = if kind = 'r' then b, c else c, d in
    let t = tid_of_tag tag in
    let (s, w) = sw () in
    let nw = int_of_nat !st.nwk in
    if shep <> s || pw <> s * nw + w then reject "qthread_shep()/qthread_worker() = %d/%d inside worker %d.%d" shep pw s w;
    (match place t with
     | Some (Held (s', w', false)) when int_of_nat s' = s && int_of_nat w' = w ->
       let tseq = try Hashtbl.find take_seq_of t with Not_found -> -1 in
       apply ~take_seq:tseq seq (Printf.sprintf "tid %d (tag %d) resumes on worker %d.%d" t tag s w) (LExec (s', w', nat_of_int t, None))
     | Some (OnWorker (s', w')) when int_of_nat s' = s && int_of_nat w' = w ->
       (match task t with
        | Some x when x.t_state = RUNNING -> if x.t_mayblock then apply seq "operation did not block" (LNoBlock (nat_of_int t))
        | Some x -> reject "tid %d (tag %d) continues on worker %d.%d in state %s without passing through the scheduler" t tag s w (string_of_state x.t_state)
        | None -> ())
     | _ -> reject "tid %d (tag %d) resumes on worker %d.%d but the model has it %s" t tag s w (place_s t));
    if kind = 'M' then begin
      let rc = match b with 0 -> 0 | 0xffffffff -> 1 | 0xfffffffd -> 2 | _ -> 9 in
      match Hashtbl.find_opt mig_expect t with
      | Some ex -> if ex <> rc then reject "qthread_migrate_to of tid %d returned code %d, model %d (0 ok, 1 BADARGS, 2 NOT_ALLOWED)" t rc ex
      | None -> reject "migrate return without call"
    end
  | 'p' ->
    let tag = a and op = Char.chr b in
    let t = tid_of_tag tag in
    let nt = nat_of_int t in
    let what = Printf.sprintf "tid %d (tag %d, %s) announces op %c" t tag (place_s t) op in
    (match op with
     | 'y' -> apply seq what (LYield nt)
     | 'n' -> apply seq what (LYieldNear nt)
     | 'b' | 'v' | 'w' | 'W' -> apply seq what (LMayBlock nt)
     | 's' -> apply seq what (LSyscallPre nt)
     | 'm' ->
       let h = if c = 65535 then None else Some (nat_of_int c) in
       (match place t, task t with
        | Some (OnWorker (s, _)), Some x -> Hashtbl.replace mig_expect t (int_of_nat (migrate_rc (migrate_case_of x.t_mccoy s h !st.nsh)))
        | _ -> ());
       apply seq what (LMigrate (nt, h))
     | _ -> ())
  | 'E' ->
    let t = tid_of_tag a in
    if Hashtbl.mem tid_leader t then begin
      Hashtbl.replace deferred_end t true;
      apply seq (Printf.sprintf "team leader tid %d (tag %d) returns from its body" t a) (LMayBlock (nat_of_int t))
    end else apply seq (Printf.sprintf "tid %d (tag %d) returns" t a) (LEnd (nat_of_int t))
  | 'w' -> ()
  | 'd' -> if a < 256 then (definite.(a) <- false; last_change.(a) <- seq)
  | 'D' ->
    let expect = if a = 0 then 0xfffffffd else if a >= int_of_nat !st.nsh then 0xffffffff else 0 in
    if b <> expect then reject "qthread_disable_shepherd(%d) returned %d, model %d" a b expect;
    apply seq "disable" (LDisable (nat_of_int a));
    if a < 256 then (definite.(a) <- true; last_change.(a) <- seq)
  | 'e' -> apply seq "enable" (LEnable (nat_of_int a)); if a < 256 then (definite.(a) <- false; last_change.(a) <- seq)
  | 'f' -> if a < 256 then (definite.(a) <- true; last_change.(a) <- seq)
  | '?' -> ()   (* slot reserved by a thread that had not yet written it when the log was cut *)
  | c -> reject "unknown event kind %c" c

let ints l = List.map int_of_string (List.filter (fun s -> s <> "") l)
let fn_of_list l = fun i -> (match List.nth_opt l (int_of_nat i) with Some v -> v | None -> 0)

let () =
  let rejected = ref false in
  (try while true do
      let line = String.trim (input_line stdin) in
      match String.split_on_char ' ' line with
      | "H" :: ns :: nw :: ac :: mc :: _ ->
        st := init (nat_of_int (int_of_string ns)) (nat_of_int (int_of_string nw)) (n_of_int (int_of_string ac));
        nshep := int_of_string ns;
        Hashtbl.reset addr_tid; Hashtbl.reset tag_tid; Hashtbl.reset tid_tag; Hashtbl.reset pending; Hashtbl.reset pend_by_addr;
        Hashtbl.reset tid_leader; Hashtbl.reset deferred_end; Hashtbl.reset failed_tags; qobs := []; yline := None;
        Hashtbl.reset pending_fas; Hashtbl.reset mig_expect; Hashtbl.reset tasktab; Hashtbl.reset take_seq_of; Hashtbl.reset tid_big;
        Array.fill definite 0 256 true; Array.fill last_change 0 256 (-1);
        Hashtbl.replace addr_tid (int_of_string mc) 0; Hashtbl.replace tag_tid 0 0; Hashtbl.replace tid_tag 0 0;
        nlabels := 0; racy := 0; rejected := false
      | "T" :: tag :: variant :: target :: asize :: retkind :: _ ->
        Hashtbl.replace tasktab (int_of_string tag) (int_of_string variant, int_of_string target, int_of_string asize, int_of_string retkind)
      | ["TRACE"] -> trace := true
      | ("END" | "TIMEOUT") :: _ ->
        if not !rejected then Printf.printf "ACCEPT %d racy=%d\n" !nlabels !racy;
        (* team leaders whose body returned but whose descriptor was not yet released when the log was cut *)
        Hashtbl.iter (fun t _ ->
            (match place t, task t with
             | Some (OnWorker _), Some x when x.t_state = RUNNING ->
               (try apply 0 "end of log" (LEnd (nat_of_int t)) with Reject _ -> ())
             | _ -> ())) (Hashtbl.copy deferred_end);
        let fin_ok = finished !st || List.for_all (fun (t, x) -> x.t_mccoy || x.t_state = TERMINATED || Hashtbl.mem deferred_end (int_of_nat t)) !st.tasks
                                     && List.for_all (fun (t, x) -> x.t_mccoy || Hashtbl.mem deferred_end (int_of_nat t) ||
                                                                    (match place (int_of_nat t) with Some Freed | Some (OnWorker _) -> true | _ -> false)) !st.tasks in
        (* the end-of-run obligation of Kernel/Progress.v *)
        if not !rejected then begin
          let obs = List.map (fun (_, (ql, qs, _, nh)) -> ((z_of_int ql, z_of_int qs), nh = 1)) !qobs in
          let why = Buffer.create 64 in
          let ok = quiescent_ok !st obs in
          if not ok then begin
            List.iter (fun t -> let t = int_of_nat t in
                        Printf.bprintf why " tag%d:%s:%s" (try Hashtbl.find tid_tag t with Not_found -> -1)
                          (match task t with Some x -> string_of_state x.t_state | None -> "?") (place_s t)) (not_done !st);
            List.iter (fun (t, l) -> match l with
                | InQueue _ | Held _ | Nascent | InSyscall -> Printf.bprintf why " ref(tid %d:%s)" (int_of_nat t) (string_of_loc l)
                | Blocked | OnWorker _ -> if int_of_nat t <> 0 then Printf.bprintf why " ref(tid %d:%s)" (int_of_nat t) (string_of_loc l)
                | Freed -> ()) !st.places;
            List.iter (fun (i, (ql, qs, walk, nh)) -> if ql <> 0 || qs <> 0 || nh <> 1 then
                          Printf.bprintf why " queue%d(qlength=%d,qlength_stealable=%d,nodes=%d,%s)" i ql qs walk (if nh = 1 then "head=tail=NULL" else "head/tail set")) !qobs;
            if List.length !qobs <> int_of_nat !st.nsh then Printf.bprintf why " queues-observed=%d" (List.length !qobs)
          end;
          let walk_bad = List.exists (fun (_, (_, _, walk, _)) -> walk <> 0) !qobs in
          if walk_bad && ok then Buffer.add_string why " a ready queue still links nodes although its counters are 0";
          let pool_bad = match !yline with Some (a, f, _) -> a <> f | None -> true in
          if pool_bad then (match !yline with
              | Some (a, f, w) -> Printf.bprintf why " descriptors: %d handed out, %d handed back (waited %d ms)" a f w
              | None -> Buffer.add_string why " no descriptor count");
          if ok && not walk_bad && not pool_bad then Printf.printf "QUIESCENT ok failed_spawns=%d\n" (Hashtbl.length failed_tags)
          else Printf.printf "QUIESCENT bad%s\n" (Buffer.contents why)
        end;
        if fin_ok then print_endline "FIN ok"
        else begin
          print_string "FIN unfinished";
          List.iter (fun (t, x) -> if not x.t_mccoy && not (x.t_state = TERMINATED) then
                        Printf.printf " %d:%s:%s" (try Hashtbl.find tid_tag (int_of_nat t) with Not_found -> -1) (string_of_state x.t_state) (place_s (int_of_nat t))) !st.tasks;
          print_newline ()
        end
      | "L" :: _ -> ()
      | ["Z"; i; ql; qs; walk; nohead] -> qobs := !qobs @ [(int_of_string i, (int_of_string ql, int_of_string qs, int_of_string walk, int_of_string nohead))]
      | ["Y"; a; f; w] -> yline := Some (int_of_string a, int_of_string f, int_of_string w)
      | "X" :: "fas" :: rest ->
        (* X fas l,l,.. | d,d,.. | act.. | qlen.. | coins..   (d/act/qlen indexed by shepherd id) *)
        let parts = List.map (fun s -> ints (String.split_on_char ',' (String.trim s))) (String.split_on_char '|' (String.concat " " rest)) in
        (match parts with
         | [l; d; act; qlen; coins] ->
           let d = List.map nat_of_int d and qlen = List.map nat_of_int qlen in
           let dn = fun i -> (match List.nth_opt d (int_of_nat i) with Some v -> v | None -> O) in
           let qn = fun i -> (match List.nth_opt qlen (int_of_nat i) with Some v -> v | None -> O) in
           let an = fun i -> (match List.nth_opt act (int_of_nat i) with Some v -> v <> 0 | None -> false) in
           (match fas (List.map nat_of_int l) dn an qn (List.map (fun c -> c <> 0) coins) with
            | Some r -> Printf.printf "fas %d\n" (int_of_nat r)
            | None -> print_endline "fas NULL")
         | _ -> print_endline "ERR")
      | "X" :: "fasnl" :: rest ->
        let parts = List.map (fun s -> ints (String.split_on_char ',' (String.trim s))) (String.split_on_char '|' (String.concat " " rest)) in
        (match parts with
         | [[n]; act; qlen; coins] ->
           let qlen = List.map nat_of_int qlen in
           let qn = fun i -> (match List.nth_opt qlen (int_of_nat i) with Some v -> v | None -> O) in
           let an = fun i -> (match List.nth_opt act (int_of_nat i) with Some v -> v <> 0 | None -> false) in
           (match fas_nolist (nat_of_int n) an qn (List.map (fun c -> c <> 0) coins) with
            | Some r -> Printf.printf "fas %d\n" (int_of_nat r)
            | None -> print_endline "fas NULL")
         | _ -> print_endline "ERR")
      | ["X"; "new"; ac; asize] ->
        let ac = n_of_int (int_of_string ac) and asz = n_of_int (int_of_string asize) in
        Printf.printf "new %d %d\n" (int_of_nat (thread_new_flags ac asz)) (int_of_nat (thread_new_where ac asz))
      | seq :: kind :: thr :: rest when String.length kind = 1 && not !rejected ->
        (match ints rest with
         | [a; b; c; d; e; f] ->
           let seq = int_of_string seq in
           (try handle seq kind.[0] (int_of_string thr) a b c d e f;
              if !trace then Printf.printf "# %d %s ok\n" seq kind
            with Reject why -> rejected := true; Printf.printf "REJECT %d %s\n" seq why)
         | _ -> ())
      | _ -> ()
    done with End_of_file -> ())
