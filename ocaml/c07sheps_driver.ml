(* C07 extension N: driver for the extracted Kernel/Sheps.v.  Reads the script of harness/c/c07_sheps.c (same commands) and
   prints the same canonical line per command.  Extra commands (model only):
     K success badargs notallowed ptherr noshep      numeric constants of the build (first line of the harness output)
     G n | D (n*n, row major) | rands                gendists: prints "row s .." / "list s .." for every s (several lines),
                                                     "used k", and installs rows and lists
     I n nwps hwpar                                  init_tbl: prints "state A=.. W=.. .." and installs the table *)
open C07sheps_model

let rec nat_of_int n = if n <= 0 then O else S (nat_of_int (n - 1))
let int_of_nat n = let rec go acc = function O -> acc | S m -> go (acc + 1) m in go 0 n
let rec int_of_pos = function XH -> 1 | XO p -> 2 * int_of_pos p | XI p -> 2 * int_of_pos p + 1
let int_of_z = function Z0 -> 0 | Zpos p -> int_of_pos p | Zneg p -> - (int_of_pos p)
let rec pos_of_int n = if n = 1 then XH else if n land 1 = 0 then XO (pos_of_int (n lsr 1)) else XI (pos_of_int (n lsr 1))
let z_of_int n = if n = 0 then Z0 else if n > 0 then Zpos (pos_of_int n) else Zneg (pos_of_int (- n))

let k_success = ref 0 and k_badargs = ref (-1) and k_notallowed = ref (-3) and k_ptherr = ref (-2) and k_noshep = ref 65535

let ints s =
  String.split_on_char ',' (String.trim s) |> List.map String.trim
  |> List.filter (fun x -> x <> "" && x <> "-") |> List.map int_of_string
let ids l = if l = [] then "-" else String.concat "," (List.map (fun x -> string_of_int (int_of_nat x)) l)
let bools l = String.concat "," (List.map (fun b -> if b then "1" else "0") l)

let n = ref 0
let rows : nat list option array ref = ref [||]
let lists : nat list array ref = ref [||]
let t = ref (init_tbl O O O)

let dump () =
  Printf.sprintf "A=%s W=%s nsa=%d nwa=%d nums=%d numw=%d" (bools !t.sact) (bools !t.wact) (int_of_z !t.nsa) (int_of_z !t.nwa)
    (int_of_z (num_shepherds !t)) (int_of_z (num_workers !t))
let rcname = function RcSuccess -> "SUCCESS" | RcBadArgs -> "BADARGS" | RcNotAllowed -> "NOT_ALLOWED" | RcVoid -> "VOID"

let set_table ns nw =
  n := ns; rows := Array.make (max ns 1) None; lists := Array.make (max ns 1) [];
  let full = init_tbl (nat_of_int ns) (nat_of_int nw) (nat_of_int (ns * nw)) in
  t := full

let () =
  try
    while true do
      let line = input_line stdin in
      let parts = String.split_on_char '|' line in
      let head = String.split_on_char ' ' (String.trim (List.hd parts)) |> List.filter (fun x -> x <> "") in
      let part i = match List.nth_opt parts i with Some s -> s | None -> "" in
      (try
         (match head with
          | ["K"; a; b; c; d; e] ->
            k_success := int_of_string a; k_badargs := int_of_string b; k_notallowed := int_of_string c;
            k_ptherr := int_of_string d; k_noshep := int_of_string e;
            Printf.printf "K %s %s %s %s %s\n" a b c d e
          | ["T"; a; b] -> set_table (int_of_string a) (int_of_string b); print_endline "."
          | "A" :: _ ->
            let v = ints (String.concat " " (List.tl head)) in
            let cur = Array.of_list !t.sact in
            List.iteri (fun i x -> if i < Array.length cur then cur.(i) <- (x <> 0)) v;
            t := { !t with sact = Array.to_list cur }; print_endline "."
          | "W" :: _ ->
            let v = ints (String.concat " " (List.tl head)) in
            let cur = Array.of_list !t.wact in
            List.iteri (fun i x -> if i < Array.length cur then cur.(i) <- (x <> 0)) v;
            t := { !t with wact = Array.to_list cur }; print_endline "."
          | ["C"; a; b] -> t := { !t with nsa = z_of_int (int_of_string a); nwa = z_of_int (int_of_string b) }; print_endline "."
          | "R" :: s :: rest ->
            let s = int_of_string s in
            let txt = String.concat " " rest in
            !rows.(s) <- (if String.contains txt '-' then None else
                            let v = List.map nat_of_int (ints txt) in
                            (* the harness allocates nshepherds slots, zero filled *)
                            let v = List.filteri (fun i _ -> i < !n) v in
                            Some (v @ List.init (max 0 (!n - List.length v)) (fun _ -> O)));
            print_endline "."
          | "L" :: s :: rest ->
            let s = int_of_string s in
            let v = List.map nat_of_int (ints (String.concat " " rest)) in
            let v = List.filteri (fun i _ -> i < !n - 1) v in
            !lists.(s) <- v @ List.init (max 0 (!n - 1 - List.length v)) (fun _ -> O);
            print_endline "."
          | [("next" | "nextl"); c] -> Printf.printf "next %d\n" (int_of_nat (shep_next (nat_of_int !n) (nat_of_int (int_of_string c))))
          | [("prev" | "prevl"); c] ->
            (* the result is stored into an unsigned short *)
            Printf.printf "prev %d\n" (int_of_nat (shep_prev (nat_of_int !n) (nat_of_int (int_of_string c))) land 65535)
          | ["dist"; a; b] ->
            (match distance (nat_of_int !n) (Array.to_list (Array.sub !rows 0 !n)) (nat_of_int (int_of_string a)) (nat_of_int (int_of_string b)) with
             | DistBad -> Printf.printf "dist %d\n" !k_badargs
             | DistVal d -> Printf.printf "dist %d\n" (int_of_nat d))
          | ["sremote"; s] ->
            (match sorted_remote (nat_of_int !n) (Array.to_list (Array.sub !lists 0 !n)) (nat_of_int (int_of_string s)) with
             | None -> print_endline "sremote NULL"
             | Some l -> Printf.printf "sremote %s\n" (ids l))
          | ["ok"; me] ->
            let me = int_of_string me in
            (match shep_ok (if me < 0 then None else Some (nat_of_int me)) !t.sact with
             | OkErr -> Printf.printf "ok %d\n" !k_ptherr
             | OkFlag b -> Printf.printf "ok %d\n" (if b then 1 else 0))
          | ["self"; me] ->
            let me = int_of_string me in
            (match shep_self (if me < 0 then None else Some (nat_of_int me)) with
             | None -> Printf.printf "self %d\n" !k_noshep
             | Some s -> Printf.printf "self %d\n" (int_of_nat s))
          | ["ssorted"; me] ->
            let me = int_of_string me in
            if me < 0 then print_endline "ssorted NULL" else Printf.printf "ssorted %s\n" (ids !lists.(me))
          | ["sort"; _] ->
            let d = List.map nat_of_int (ints (part 1)) and l = List.map nat_of_int (ints (part 2)) and r = List.map nat_of_int (ints (part 3)) in
            let dn = fun i -> (match List.nth_opt d (int_of_nat i) with Some v -> v | None -> O) in
            let (res, rest) = sort_sheps dn l r in
            Printf.printf "sort %s used=%d\n" (ids res) (List.length r - List.length rest)
          | [("ds" | "es" | "dw" | "ew") as c; a] ->
            let a = nat_of_int (int_of_string a) in
            let o = (match c with "ds" -> DisS a | "es" -> EnS a | "dw" -> DisW a | _ -> EnW a) in
            let (rc, t') = apply_op !t o in
            t := t';
            Printf.printf "%s %s %s\n" c (rcname rc) (dump ())
          | ["fas"; me] ->
            let me = int_of_string me in
            let qlen = List.map nat_of_int (ints (part 1)) and coins = List.map (fun c -> c <> 0) (ints (part 2)) in
            let row = (match !rows.(me) with Some r -> r | None -> []) in
            let dn = fun i -> (match List.nth_opt row (int_of_nat i) with Some v -> v | None -> O) in
            let qn = fun i -> (match List.nth_opt qlen (int_of_nat i) with Some v -> v | None -> O) in
            let an = fun i -> nthb !t.sact i in
            (match fas !lists.(me) dn an qn coins with
             | Some r -> Printf.printf "fas %d\n" (int_of_nat r)
             | None -> print_endline "fas NULL")
          | ["G"; ns] ->
            let ns = int_of_string ns in
            let dm = Array.of_list (ints (part 1)) in
            let r = List.map nat_of_int (ints (part 2)) in
            let df = fun i j -> let k = int_of_nat i * ns + int_of_nat j in if k < Array.length dm then nat_of_int dm.(k) else O in
            let (res, rest) = gendists (nat_of_int ns) df r in
            n := ns; rows := Array.make (max ns 1) None; lists := Array.make (max ns 1) [];
            List.iteri (fun i (row, _) -> !rows.(i) <- Some row; Printf.printf "row %d %s\n" i (ids row)) res;
            List.iteri (fun i (_, l) -> !lists.(i) <- l; Printf.printf "list %d %s\n" i (ids l)) res;
            Printf.printf "used %d\n" (List.length r - List.length rest)
          | ["I"; ns; nw; hw] ->
            t := init_tbl (nat_of_int (int_of_string ns)) (nat_of_int (int_of_string nw)) (nat_of_int (int_of_string hw));
            Printf.printf "state %s\n" (dump ())
          | ["task"; _] -> print_endline "task -"
          | _ -> print_endline "ERR")
       with Not_found | Failure _ | Invalid_argument _ -> print_endline "ERR")
    done
  with End_of_file -> ()
