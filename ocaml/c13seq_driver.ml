(* driver for the extracted model of drf_qsort_dbl / drf_qsort_algt (Util/SeqSort.v).
   One command per line on stdin, one result line per command; see lib/verif/props/_c13_seq.py and harness/c/c13_seq.c.
     seq <d|u> <pre> <n> <post> w_0 .. w_{pre+n+post-1}      (16-digit hex words; the call sorts [pre, pre+n))
     -> q cap=<MAX> depth=<largest stack index> it=<loop-head visits> arr=<w,..>|h=<fnv>
        q none            the model stopped: the explicit stack would be overrun (or the fuel ran out)
   Elements are 64-bit words ordered as the C type orders them: d = IEEE double (no NaN, no -0.0), u = aligned_t. *)
open C13seq_model

let rec pos_of_int n = if n = 1 then XH else if n land 1 = 0 then XO (pos_of_int (n lsr 1)) else XI (pos_of_int (n lsr 1))
let n_of_int n = if n = 0 then N0 else Npos (pos_of_int n)
let rec int_of_pos = function XH -> 1 | XO p -> 2 * int_of_pos p | XI p -> 2 * int_of_pos p + 1
let int_of_n = function N0 -> 0 | Npos p -> int_of_pos p

(* order-preserving keys *)
let key_d (b : int64) = if Int64.compare b 0L < 0 then Int64.lognot (Int64.logand b Int64.max_int) else b
let key_u (b : int64) = Int64.logxor b Int64.min_int
let leb_d x y = Int64.compare (key_d x) (key_d y) <= 0
let leb_u x y = Int64.compare (key_u x) (key_u y) <= 0

let dflt = 0x4141414141414141L

let do_seq toks =
  match toks with
  | ty :: pre :: n :: post :: ws ->
    let pre = int_of_string pre and n = int_of_string n and post = int_of_string post in
    let tot = pre + n + post in
    let vals = List.map (fun w -> Int64.of_string ("0x" ^ w)) ws in
    if List.length vals <> tot then "ERR short" else begin
      let a0 = of_list vals in
      let leb = if ty = "d" then leb_d else leb_u in
      match seqsort_run leb dflt a0 (n_of_int pre) (n_of_int n) with
      | None -> "q none"
      | Some ((a, d), it) ->
        let b = Buffer.create (32 + 17 * (min tot 600)) in
        Buffer.add_string b (Printf.sprintf "q cap=%d depth=%d it=%d" (int_of_n (stack_cap (n_of_int n))) (int_of_n d) (int_of_n it));
        if tot <= 600 then begin
          Buffer.add_string b " arr=";
          for k = 0 to tot - 1 do
            if k > 0 then Buffer.add_char b ',';
            Buffer.add_string b (Printf.sprintf "%016Lx" (aget dflt a (n_of_int k)))
          done
        end else begin
          let h = ref 0xcbf29ce484222325L in
          for k = 0 to tot - 1 do h := Int64.mul (Int64.logxor !h (aget dflt a (n_of_int k))) 0x100000001b3L done;
          Buffer.add_string b (Printf.sprintf " h=%016Lx" !h)
        end;
        Buffer.contents b
    end
  | _ -> "ERR"

let () =
  try
    while true do
      let line = input_line stdin in
      let toks = List.filter (fun s -> s <> "") (String.split_on_char ' ' (String.trim line)) in
      (match toks with
       | "seq" :: rest -> print_endline (try do_seq rest with e -> "ERR " ^ Printexc.to_string e)
       | "Q" :: _ -> raise End_of_file
       | _ -> print_endline "ERR");
      flush stdout
    done
  with End_of_file -> ()
