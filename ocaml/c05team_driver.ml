(* driver for the extracted team-finish machine (Kernel/TeamFinish.v + TeamFinishAccept.v): the ACCEPTOR of the event log
   that harness/c/c05_team.c prints for one team tree.  stdin: N lines (the tree), then the harness output of the tree
   (e lines, J line, E or TIMEOUT).  One answer line per tree:
     OK <events> <teams> <members> <ops>      every event was the next operation of its actor and enabled; end state all done
     REJECT <index> <event> :: <reason>       first event the machine refuses (index -1: end-of-run obligation)
   The glue below only translates names (node ids / team ordinals of the log -> actors / team indices of the machine, in
   the order in which the log creates them); what is accepted is decided by the extracted estep. *)
open C05team_model

let rec n2i = function O -> 0 | S n -> 1 + n2i n
let rec i2n i = if i <= 0 then O else S (i2n (i - 1))
let rec pos2i = function XH -> 1 | XO p -> 2 * pos2i p | XI p -> 2 * pos2i p + 1
let z2i = function Z0 -> 0 | Zpos p -> pos2i p | Zneg p -> - (pos2i p)

let lpc_name = function
  | LNasc -> "LNasc" | LReady -> "LReady" | LWx -> "expect(sinc) for the watcher" | LWw -> "readFF(watcher_started)" | LRun -> "function running"
  | LA -> "submit(sinc)" | LA2 -> "second submit(sinc)" | LB -> "wait(sinc)" | LC -> "submit(subteams_sinc)" | LD -> "wait(subteams_sinc)"
  | LE -> "reset(sinc,1)" | LF -> "writeEF(parent_eureka)" | LG -> "wait(sinc) for the watcher" | LH -> "submit(parent_subteams_sinc)"
  | LI -> "destroy(sinc)" | LJ -> "destroy(subteams_sinc)" | LK -> "FREE_TEAM" | LL -> "deliver return value" | LDone -> "done"
let wpc_name = function WNone -> "none" | WNasc -> "nascent" | WReady -> "ready" | WStarted -> "waiting for EXIT" | WGot -> "submit(sinc)" | WDone -> "done"
let mpc_name = function MNasc -> "nascent" | MReady -> "ready" | MRun -> "function running" | MRet -> "submit(sinc)" | MSub -> "deliver return value" | MDone -> "done"

let actor_name = function Lead t -> Printf.sprintf "leader of team %d" (n2i t) | Watch t -> Printf.sprintf "watcher of team %d" (n2i t)
                        | Memb k -> Printf.sprintf "member #%d" (n2i k)
let where s = function
  | Lead t -> Printf.sprintf "%s is at: %s (sinc=%d subteams_sinc=%d)" (actor_name (Lead t)) (lpc_name (q_lpc s t)) (z2i (q_sinc s t)) (z2i (q_subs s t))
  | Watch t -> Printf.sprintf "%s is at: %s" (actor_name (Watch t)) (wpc_name (q_wpc s t))
  | Memb k -> Printf.sprintf "%s (team %s) is at: %s" (actor_name (Memb k))
                (match q_mteam s k with Some t -> string_of_int (n2i t) | None -> "default") (mpc_name (q_mpc s k))

exception Reject of string

type tree = { mutable kinds : (int * (int * char)) list }

let run_tree (tr : tree) (events : string list) (timed_out : bool) : string =
  let st = ref init in
  let nodes : (int, actor) Hashtbl.t = Hashtbl.create 16 in        (* harness node id -> machine actor *)
  let tmap : (int, nat) Hashtbl.t = Hashtbl.create 16 in           (* harness team ordinal -> machine team index *)
  let pending : (string, int * char) Hashtbl.t = Hashtbl.create 16 in   (* actor -> child it is spawning *)
  let created : (string, nat) Hashtbl.t = Hashtbl.create 16 in          (* actor -> team created by its expect on the parent's subteams sinc *)
  let pend_lf : (int, nat) Hashtbl.t = Hashtbl.create 16 in             (* team index whose leader is inside writeEF(parent_eureka) -> parent *)
  let ops = ref 0 in
  let rej fmt = Printf.ksprintf (fun m -> raise (Reject m)) fmt in
  let team o = match Hashtbl.find_opt tmap o with Some t -> t | None -> rej "operation on a team structure the machine does not know (ordinal %d)" o in
  let actor_of (ak : string) : actor =
    let k = ak.[0] and id = int_of_string (String.sub ak 1 (String.length ak - 1)) in
    match k with
    | 'm' -> Memb O
    | 'n' -> (match Hashtbl.find_opt nodes id with Some a -> a
                                                  | None -> rej "node %d acts before the machine knows it (spawned without registration on its team?)" id)
    | 'w' -> Watch (team id)
    | _ -> rej "event by a thread that is no task" in
  let estep_ a o what =
    match estep false !st a o with
    | Some s' -> st := s'; incr ops;
      if uaf s' then rej "%s: the operation touches a destroyed sinc / a freed team structure" what
    | None -> rej "%s is not the next enabled operation: %s" what (where !st a) in
  (* operations the log cannot see: the wrapper starting (before a subteam leader forks its watcher), the release of a
     precondition member *)
  let implicit a evkind =
    (match next_op !st a with
     | Some OpRel when evkind <> "enq" ->
       (match a with Memb _ -> estep_ a OpRel "release of a precondition member" | _ -> ())
     | _ -> ());
    (match next_op !st a with
     | Some OpStart when evkind <> "start" -> estep_ a OpStart "start of the wrapper"
     | _ -> ()) in
  let idx = ref 0 in
  let cur = ref "" in
  let result =
    try
      List.iter (fun line ->
          cur := line;
          (match String.split_on_char ' ' line with
           | ["e"; ak; kind; a_; b_; c_] ->
             let a = int_of_string a_ and b = int_of_string b_ and c = int_of_string c_ in
             (match kind with
              | "open" | "satisfy" -> ()
              | "spawn" -> let act = actor_of ak in implicit act kind;
                if cur_team !st act = None then rej "spawn by a task whose function is not running: %s" (where !st act);
                Hashtbl.replace pending ak (a, Char.chr b)
              | "spawned" ->
                if not (Hashtbl.mem nodes a) then
                  rej "qthread_spawn returned for node %d but it was never registered (no qt_sinc_expect on its team's sinc / no team created)" a;
                Hashtbl.remove pending ak
              | "expect" ->
                if c <> 0 then rej "qt_sinc_expect on a destroyed sinc / freed team";
                let act = actor_of ak in implicit act kind;
                let t = team a in
                if Char.chr b = 'S' then begin
                  let prog = (match next_op !st act with Some (OpExpectS t') when t' = t -> true | _ -> false) in
                  estep_ act (OpExpectS t) (Printf.sprintf "qt_sinc_expect(team %d sinc)" (n2i t));
                  if not prog then begin
                    match Hashtbl.find_opt pending ak with
                    | Some (ch, ('m' | 'M' | 'p')) -> Hashtbl.replace nodes ch (Memb (i2n (n2i (nm !st) - 1)))
                    | _ -> rej "qt_sinc_expect(team sinc) outside a member spawn"
                  end
                end else begin
                  estep_ act (OpExpectB t) (Printf.sprintf "qt_sinc_expect(team %d subteams_sinc)" (n2i t));
                  match Hashtbl.find_opt pending ak with
                  | Some (ch, 's') -> let ti = i2n (n2i (nt !st) - 1) in Hashtbl.replace nodes ch (Lead ti); Hashtbl.replace created ak ti
                  | _ -> rej "qt_sinc_expect(subteams_sinc) outside a subteam spawn"
                end
              | "teamnew" ->
                let act = actor_of ak in implicit act kind;
                let pk = (match Hashtbl.find_opt pending ak with Some (ch, k) -> Some (ch, k) | None -> None) in
                (match Char.chr b, pk with
                 | 'S', Some (_, 's') ->
                   (match Hashtbl.find_opt created ak with
                    | Some ti -> (match q_kind !st ti with
                        | KSub p when c >= 0 && Hashtbl.find_opt tmap c = Some p -> ()
                        | _ -> rej "subteam created under another parent than the one whose subteams_sinc was told");
                      Hashtbl.replace tmap a ti; Hashtbl.remove created ak
                    | None -> rej "subteam created without qt_sinc_expect on the parent's subteams_sinc")
                 | 'T', Some (ch, 't') -> estep_ act OpNewTeam "qt_internal_team_new (new team)";
                   let ti = i2n (n2i (nt !st) - 1) in Hashtbl.replace nodes ch (Lead ti); Hashtbl.replace tmap a ti
                 | 'U', Some (ch, ('u' | 's')) -> estep_ act OpNewSubDef "qt_internal_team_new (subteam of the default team)";
                   let ti = i2n (n2i (nt !st) - 1) in Hashtbl.replace nodes ch (Lead ti); Hashtbl.replace tmap a ti
                 | k, _ -> rej "qt_internal_team_new of kind %c does not match the spawn in progress" k)
              | "enq" ->
                if Char.chr a = 'n' then begin
                  match Hashtbl.find_opt nodes b with
                  | None -> rej "node %d enqueued before it was registered on its team (qt_sinc_expect must precede the enqueue)" b
                  | Some ch -> estep_ ch OpRel "enqueue"
                end else estep_ (Watch (team b)) OpRel "enqueue of the watcher"
              | "start" -> let act = actor_of ak in implicit act "other";
                (match next_op !st act with
                 | Some OpStart -> estep_ act OpStart "function start"
                 | _ -> if cur_team !st act = None then rej "function starts but %s" (where !st act))
              | "ret" -> let act = actor_of ak in estep_ act OpRet "function return"
              | "submit" | "wait" | "reset" | "destroy" ->
                if c <> 0 then rej "qt_sinc_%s on a destroyed sinc (use after destroy/free)" kind;
                let act = actor_of ak in implicit act kind;
                let t = team a in
                let s = (Char.chr b = 'S') in
                let o = (match kind with
                    | "submit" -> if s then OpSubmitS t else OpSubmitB t
                    | "wait" -> if s then OpWaitS t else OpWaitB t
                    | "reset" -> OpResetS t
                    | _ -> if s then OpDestroyS t else OpDestroyB t) in
                estep_ act o (Printf.sprintf "qt_sinc_%s(team %d %s)" kind (n2i t) (if s then "sinc" else "subteams_sinc"))
              | "free" ->
                if b <> 0 then rej "FREE_TEAM of an already freed team";
                let act = actor_of ak in estep_ act (OpFree (team a)) "FREE_TEAM"
              | "sigb" ->
                if c <> 0 then rej "writeEF on the eureka word of a freed team";
                (match actor_of ak with Lead t -> Hashtbl.replace pend_lf (n2i t) (team a) | _ -> rej "EXIT signal by a task that is no leader")
              | "sige" ->
                (match actor_of ak with
                 | Lead t -> (match Hashtbl.find_opt pend_lf (n2i t) with
                     | Some p -> Hashtbl.remove pend_lf (n2i t); estep_ (Lead t) (OpSignal p) "writeEF(parent_eureka, EXIT)"
                     | None -> ())
                 | _ -> ())
              | "wgot" ->
                if b <> 0 then rej "watcher empties the eureka word of a freed team";
                (match actor_of ak with
                 | Watch t ->
                   (match Hashtbl.find_opt pend_lf (n2i t) with
                    | Some p -> Hashtbl.remove pend_lf (n2i t); estep_ (Lead t) (OpSignal p) "writeEF(parent_eureka, EXIT)"
                    | None -> ());
                   estep_ (Watch t) (OpGot (team a)) "watcher consumes EXIT"
                 | _ -> rej "eureka word emptied by a task that is no watcher")
              | "wstart" -> if b <> 0 then rej "watcher_started of a freed team"; estep_ (actor_of ak) (OpWStart (team a)) "fill(watcher_started)"
              | "lwaitw" -> if b <> 0 then rej "watcher_started of a freed team";
                let act = actor_of ak in implicit act kind; estep_ act (OpWaitW (team a)) "readFF(watcher_started)"
              | "retfill" ->
                let act = actor_of ak in
                (match Hashtbl.find_opt nodes a with
                 | Some x when x = act -> ()
                 | _ -> rej "return location of node %d filled by another task" a);
                (match act with Memb k -> (match skip_default_finish false !st k with Some s' -> st := s' | None -> ()) | _ -> ());
                estep_ act OpFill (Printf.sprintf "delivery to the return location of node %d" a)
              | k -> rej "unknown event kind %s" k)
           | _ -> ());
          incr idx) events;
      if timed_out then Printf.sprintf "TIMEOUT %d accepted-prefix" !idx
      else begin
        cur := "end of run"; idx := -1;
        if Hashtbl.length pend_lf > 0 then rej "a leader never returned from writeEF(parent_eureka)";
        (* the controller (main task, default team) finishes *)
        estep_ (Memb O) OpRet "main returns";
        (match skip_default_finish false !st O with Some s' -> st := s' | None -> ());
        estep_ (Memb O) OpFill "main done";
        if not (all_done !st) then begin
          let n = n2i (nt !st) in
          let msg = ref "" in
          for t = n - 1 downto 0 do
            let tn = i2n t in
            if q_lpc !st tn <> LDone then msg := where !st (Lead tn)
            else if (q_wpc !st tn <> WNone && q_wpc !st tn <> WDone) then msg := where !st (Watch tn)
          done;
          for k = n2i (nm !st) - 1 downto 0 do
            if q_mpc !st (i2n k) <> MDone then msg := where !st (Memb (i2n k)) done;
          rej "the run ended but not every task finished its program: %s" !msg
        end;
        Printf.sprintf "OK %d %d %d %d" (List.length events) (n2i (nt !st)) (n2i (nm !st)) !ops
      end
    with
    | Reject m -> Printf.sprintf "REJECT %d %s :: %s" !idx !cur m
    | Failure m -> Printf.sprintf "REJECT %d %s :: malformed (%s)" !idx !cur m
    | Invalid_argument m -> Printf.sprintf "REJECT %d %s :: malformed (%s)" !idx !cur m in
  ignore tr; result

let () =
  let tr = { kinds = [] } in
  let evs = ref [] in
  try while true do
    let line = String.trim (input_line stdin) in
    if String.length line = 0 then ()
    else match line.[0] with
      | 'N' -> (match String.split_on_char ' ' line with
          | [_; id; parent; kind] -> tr.kinds <- (int_of_string id, (int_of_string parent, kind.[0])) :: tr.kinds
          | _ -> ())
      | 'e' -> evs := line :: !evs
      | 'E' -> print_endline (run_tree tr (List.rev !evs) false); evs := []; tr.kinds <- []
      | 'T' -> print_endline (run_tree tr (List.rev !evs) true); evs := []; tr.kinds <- []
      | 'C' -> print_endline (run_tree tr (List.rev !evs) true); evs := []; tr.kinds <- []
      | _ -> ()
  done with End_of_file -> ()
