(* driver for the extracted C19 lifecycle model over GenSubsystems.gen_table.
   commands: "T" table facts; "X" reset; "I w" initialize with w workers; "F ok" finalize (ok = 1: called by the main task on
   shepherd 0 worker 0); "U i" use row i; "D" dump the state *)
open C19_model
let rec nat_of_int n = if n <= 0 then O else S (nat_of_int (n - 1))
let rec int_of_nat = function O -> 0 | S n -> 1 + int_of_nat n
let ints l = String.concat "," (List.map (fun n -> string_of_int (int_of_nat n)) l)
let () =
  let ae = gen_atexit_every_initialize in
  let s = ref fresh in
  try while true do
      let line = String.trim (input_line stdin) in
      (match String.split_on_char ' ' line with
       | ["T"] ->
         Printf.printf "T rows=%d bad=[%s] init=[%s] io_wf=%b atexit_each=%b\n" (List.length gen_table) (ints (bad_rows gen_table O))
           (ints (init_ids gen_table)) (io_wellformed gen_table) ae
       | ["X"] -> s := fresh; print_endline "X"
       | ["I"; w] -> s := step gen_table ae !s (OInit (nat_of_int (int_of_string w))); print_endline "I"
       | ["F"; ok] -> s := step gen_table ae !s (OFin (ok = "1")); print_endline "F"
       | ["U"; i] -> s := step gen_table ae !s (OUse (nat_of_int (int_of_string i))); print_endline "U"
       | ["D"] ->
         let x = !s in
         Printf.printf "D qlib=%b early=[%s] normal=[%s] late=[%s] ledger=[%s] threads=%d proxies=%d created=[%s] dirty=[%s] atexits=%d fault=%b ran=[%s]\n"
           x.qlib (ints x.early) (ints x.normal) (ints x.late) (ints x.ledger) (int_of_nat x.threads) (int_of_nat x.proxies)
           (ints x.created) (ints x.dirty) (int_of_nat x.atexits) x.fault (ints x.ran)
       | [""] -> ()
       | _ -> print_endline "ERR")
    done with End_of_file -> ()
