(* driver for the extracted C15 extension models (LfqReclaim, DqMicro): one command per line on stdin, canonical result lines on
   stdout.  Formats are documented in lib/verif/props/_c15_ext.py. *)
open C15ext_model
let rec pos_of_int n = if n = 1 then XH else if n land 1 = 0 then XO (pos_of_int (n lsr 1)) else XI (pos_of_int (n lsr 1))
let n_of_int n = if n = 0 then N0 else Npos (pos_of_int n)
let rec int_of_pos = function XH -> 1 | XO p -> 2 * int_of_pos p | XI p -> 2 * int_of_pos p + 1
let int_of_n = function N0 -> 0 | Npos p -> int_of_pos p
let rec nat_of_int n = if n <= 0 then O else S (nat_of_int (n - 1))
let rec int_of_nat = function O -> 0 | S n -> 1 + int_of_nat n

let split_bar s = List.map String.trim (String.split_on_char '|' s)
let words s = List.filter (fun w -> w <> "") (String.split_on_char ' ' s)
let suffix w = n_of_int (int_of_string (String.sub w 1 (String.length w - 1)))
let pr_list l = String.concat " " (List.map (fun x -> string_of_int (int_of_n x)) l)

(* ---------------- lfq with reclamation ---------------- *)
let lf_op w = match w.[0] with 'e' -> LEnq (suffix w) | 'd' -> LDeq | 'm' -> LEmp | _ -> failwith "op"
let lf_res = function LInt n -> "i" ^ string_of_int (int_of_n n) | LPtr v -> "p" ^ string_of_int (int_of_n v)
let lf_kind = function
  | KAlloc -> "ALLOC" | KHz0 -> "HZ0" | KHz1 -> "HZ1" | KCasTail -> "CAST" | KCasNext -> "CASN" | KCasHead -> "CASH"
  | LKMF -> "MF" | KRel -> "REL" | LKEnd r -> "END " ^ lf_res r
let lr_done s t = match List.nth_opt s.r_thr t with Some th -> th.rt_pc = RIdle && th.rt_ops = [] | None -> true
let lr_dump s =
  Printf.sprintf "%s | %s | T %d | P %d : %s | W %s" (pr_list (rchain_from_head s)) (pr_list (rcontents s))
    (int_of_n s.r_tail.pa) (int_of_n s.r_bump) (pr_list s.r_free)
    (String.concat " " (List.map (fun th -> Printf.sprintf "%d %d : %s ;" (int_of_n th.rt_hz0) (int_of_n th.rt_hz1) (pr_list th.rt_rl)) s.r_thr))
(* LR cap fmax | ops task0 | ops task1 ... | schedule ; model thread 0 is the idle worker of shepherd 0 (the controller), task t is
   model thread t + 1 (pinned on shepherd t + 1) *)
let run_lr parts =
  match parts with
  | hdr :: rest when List.length rest >= 2 ->
    let cap, fmax = (match words hdr with [_; c; f] -> int_of_string c, int_of_string f | _ -> failwith "hdr") in
    let nt = List.length rest - 1 in
    let sched = List.nth rest nt in
    let progs = List.map (fun p -> List.map lf_op (words p)) (List.filteri (fun i _ -> i < nt) rest) in
    let s = ref (rinit (nat_of_int fmax) ([] :: progs)) in
    let grant t =
      if lr_done !s (t + 1) then Printf.printf "g %d - | %s\n" t (lr_dump !s)
      else begin
        let (s', k) = rrun_to_sp (nat_of_int 4096) !s (nat_of_int (t + 1)) in
        s := s';
        Printf.printf "g %d %s | %s\n" t (match k with None -> "?" | Some k -> lf_kind k) (lr_dump !s)
      end in
    String.iter (fun c -> let t = Char.code c - 48 in if t >= 0 && t < nt then grant t) sched;
    let extra = ref 0 in
    let progress = ref true in
    while !progress && !extra < cap do
      progress := false;
      for t = 0 to nt - 1 do
        if not (lr_done !s (t + 1)) && !extra < cap then (grant t; incr extra; progress := true)
      done
    done;
    Printf.printf "F | %s\n"
      (String.concat " " (List.filter_map (fun t -> if lr_done !s (t + 1) then None else Some (string_of_int t)) (List.init nt (fun i -> i))))
  | _ -> print_endline "ERR"

(* ---------------- extension H (DM): qdqueue micro-step machine (CQueues/DqMicro.v) ----------------
   DM cap ns | alls0 ; alls1 ; ... | nbrs0 ; nbrs1 ; ... | <shep>: ops | <shep>: ops ... | schedule
   ops: e<v>, t<there>,<v>, d.  Prints exactly the grant / F lines of the harness' DM mode (see harness/c/c15_queues.c). *)
let split_on c s = List.map String.trim (String.split_on_char c s)
let ints s = List.map int_of_string (words s)
let dm_op w = match w.[0] with
  | 'e' -> DEnq (suffix w)
  | 'd' -> DDeq
  | 't' -> (match String.split_on_char ',' (String.sub w 1 (String.length w - 1)) with
            | [a; b] -> DEnqThere (nat_of_int (int_of_string a), n_of_int (int_of_string b))
            | _ -> failwith "op t")
  | _ -> failwith "op"
let dm_res = function DInt n -> "i" ^ string_of_int (int_of_n n) | DPtr None -> "p0" | DPtr (Some v) -> "p" ^ string_of_int (int_of_n v)
let dm_kind = function
  | KLfEmpty -> "LFEMPTY" | KLfEnq -> "LFENQ" | KLfDeq -> "LFDEQ" | KIncr -> "INCR" | KCas -> "CASV" | KCasP -> "CASP"
  | KLock -> "LOCK" | KUnlock -> "UNLOCK" | DKEnd r -> "END " ^ dm_res r
let dm_done s t = match List.nth_opt s.dm_tasks t with Some k -> k.k_pc = PIdle && k.k_ops = [] | None -> true
let opt_idx = function None -> "-" | Some i -> string_of_int (int_of_nat i)
let dm_dump s ns =
  String.concat " | " (List.init ns (fun i ->
    let ni = nat_of_int i in
    let sp l = String.concat "" (List.map (fun x -> " " ^ x) l) in
    Printf.sprintf "q%s ; lc %s ; ai %d ac %d ; h%s ; e%s"
      (sp (List.map (fun x -> string_of_int (int_of_n x)) (dm_contents s ni)))
      (opt_idx (dm_last_consumed s ni)) (int_of_n (dm_last_ad_issued s ni)) (int_of_n (dm_last_ad_consumed s ni))
      (sp (List.map (fun x -> string_of_int (int_of_nat x)) (dm_heap_chain s ni)))
      (sp (List.map (fun e -> Printf.sprintf "%d:%d:%s:%s" (if e.e_inheap then 1 else 0) (int_of_n e.e_gen) (opt_idx e.e_prev) (opt_idx e.e_next))
             (getq s ni).q_heap))))
(* statistics only (not compared): the distinct pc transitions "A>B" the model took, found by re-walking a grant with dm_step *)
let pc_name = function
  | PIdle -> "Idle" | PCrash _ -> "Crash" | PEnqEmpty _ -> "EnqEmpty" | PEnqPut _ -> "EnqPut" | PEnqLdIssued _ -> "EnqLdIssued"
  | PEnqLdConsumed _ -> "EnqLdConsumed" | PEnqIncr _ -> "EnqIncr" | PEnqRet -> "EnqRet" | PPushLock _ -> "PushLock"
  | PPushCrit _ -> "PushCrit" | PPushUnlock _ -> "PushUnlock" | PDeqOwn -> "DeqOwn" | PDeqStRet _ -> "DeqStRet" | PDeqStNull -> "DeqStNull"
  | PPopPre -> "PopPre" | PPopLock -> "PopLock" | PPopCrit -> "PopCrit" | PPopUnlockEmpty -> "PopUnlockEmpty" | PPopUnlock _ -> "PopUnlock"
  | PDeqLdLc _ -> "DeqLdLc" | PDeqLdConsumed _ -> "DeqLdConsumed" | PDeqCas _ -> "DeqCas" | PDeqSteal _ -> "DeqSteal" | PDeqCasP _ -> "DeqCasP"
  | PDeqRLdLc _ -> "DeqRLdLc" | PDeqRDeq _ -> "DeqRDeq" | PDeqLcDeq _ -> "DeqLcDeq" | PDeqEmptyChk _ -> "DeqEmptyChk" | PDeqRetNull -> "DeqRetNull"
let dm_walk tbl s t =
  let rec go s fuel =
    if fuel > 0 then
      match dm_step s t with
      | None -> ()
      | Some (s', r) ->
        let a = dm_pc_of s t and b = dm_pc_of s' t in
        Hashtbl.replace tbl (pc_name a ^ ">" ^ pc_name b) ();
        (match a, b with
         | PPushCrit (h, i, g, _), PPushUnlock _ ->      (* which arm of qdqueue_adheap_push's critical section *)
           let q = getq s h and q' = getq s' h in
           let e = List.nth q.q_heap (int_of_nat i) in
           let arm = if q' = q then "noop" else if e.e_inheap then "already" else
               (match q.q_first with None -> "first" | Some f -> if int_of_nat i < int_of_nat f then "before" else if int_of_nat f < int_of_nat i then "after" else "wasfirst") in
           Hashtbl.replace tbl ("push:" ^ arm ^ (if g = N0 then "0" else "")) ()
         | _ -> ());
        if r = None && dm_sp_kind b = None then go s' (fuel - 1) in
  go s 4096
let run_dm parts =
  match parts with
  | hdr :: alls :: nbrs :: rest when List.length rest >= 2 ->
    let cap, ns = (match words hdr with [_; c; n] -> int_of_string c, int_of_string n | _ -> failwith "hdr") in
    let lists p = List.map (fun l -> List.map nat_of_int (ints l)) (split_on ';' p) in
    let alls = lists alls and nbrs = lists nbrs in
    let nt = List.length rest - 1 in
    let sched = List.nth rest nt in
    let progs = List.map (fun p -> match String.index_opt p ':' with
        | Some i -> (nat_of_int (int_of_string (String.trim (String.sub p 0 i))),
                     List.map dm_op (words (String.sub p (i + 1) (String.length p - i - 1))))
        | None -> failwith "task") (List.filteri (fun i _ -> i < nt) rest) in
    if List.length alls <> ns || List.length nbrs <> ns || not (dm_cfg_ok (nat_of_int ns) alls nbrs) then print_endline "F CFGBAD"
    else begin
      let s = ref (dm_init (nat_of_int ns) alls nbrs (hints_create (nat_of_int ns)) progs) in
      let tbl = Hashtbl.create 64 in
      let grant t =
        if dm_done !s t then Printf.printf "g %d - | %s\n" t (dm_dump !s ns)
        else begin
          dm_walk tbl !s (nat_of_int t);
          let (s', k) = dm_run_to_sp (nat_of_int 4096) !s (nat_of_int t) in
          let what = match k with
            | Some (DKEnd r) -> "END " ^ dm_res r
            | Some k -> dm_kind k ^ " " ^ (match dm_sp_target s' (nat_of_int t) with Some i -> string_of_int (int_of_nat i) | None -> "-1")
            | None -> (match dm_pc_of s' (nat_of_int t) with
                       | PCrash w -> "CRASH" ^ string_of_int (int_of_nat w)
                       | PPushLock (_, _, _, _) | PPopLock -> if s' == !s || dm_step !s (nat_of_int t) = None then "BLOCKED" else "FUEL"
                       | _ -> "FUEL") in
          s := s';
          Printf.printf "g %d %s | %s\n" t what (dm_dump !s ns)
        end in
      String.iter (fun c -> let t = Char.code c - 48 in if t >= 0 && t < nt then grant t) sched;
      let extra = ref 0 in
      let progress = ref true in
      while !progress && !extra < cap do
        progress := false;
        for t = 0 to nt - 1 do
          if not (dm_done !s t) && !extra < cap then (grant t; incr extra; progress := true)
        done
      done;
      Printf.printf "P %s\n" (String.concat " " (List.sort compare (Hashtbl.fold (fun k () l -> k :: l) tbl [])));
      Printf.printf "F | %s\n"
        (String.concat " " (List.filter_map (fun t -> if dm_done !s t then None else Some (string_of_int t)) (List.init nt (fun i -> i))))
    end
  | _ -> print_endline "ERR"
(* ---------------- end extension H (DM) ---------------- *)

let () =
  try
    while true do
      let line = input_line stdin in
      let parts = split_bar line in
      (match parts with
       | hdr :: _ when String.length hdr >= 2 && String.sub hdr 0 2 = "LR" -> run_lr parts
       | hdr :: _ when String.length hdr >= 2 && String.sub hdr 0 2 = "DM" -> (try run_dm parts with Failure m -> print_endline ("F ERR " ^ m))     (* extension H (DM) *)
       | _ -> print_endline "ERR");
      flush stdout
    done
  with End_of_file -> ()
