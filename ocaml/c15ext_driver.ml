(* driver for the extracted C15 extension models (LfqReclaim, DqMicro): one command per line on stdin, canonical result lines on
   stdout.  Formats are documented in lib/verif/props/_c15_ext.py. *)
open C15ext_model
let rec pos_of_int n = if n = 1 then XH else if n land 1 = 0 then XO (pos_of_int (n lsr 1)) else XI (pos_of_int (n lsr 1))
let n_of_int n = if n = 0 then N0 else Npos (pos_of_int n)
let rec int_of_pos = function XH -> 1 | XO p -> 2 * int_of_pos p | XI p -> 2 * int_of_pos p + 1
let int_of_n = function N0 -> 0 | Npos p -> int_of_pos p
let rec nat_of_int n = if n <= 0 then O else S (nat_of_int (n - 1))
let rec int_of_nat = function O -> 0 | S n -> 1 + int_of_nat n

let split_bar s = List.map String.trim (String.split_on_char '|' s)
let words s = List.filter (fun w -> w <> "") (String.split_on_char ' ' s)
let suffix w = n_of_int (int_of_string (String.sub w 1 (String.length w - 1)))
let pr_list l = String.concat " " (List.map (fun x -> string_of_int (int_of_n x)) l)

(* ---------------- lfq with reclamation ---------------- *)
let lf_op w = match w.[0] with 'e' -> LEnq (suffix w) | 'd' -> LDeq | 'm' -> LEmp | _ -> failwith "op"
let lf_res = function LInt n -> "i" ^ string_of_int (int_of_n n) | LPtr v -> "p" ^ string_of_int (int_of_n v)
let lf_kind = function
  | KAlloc -> "ALLOC" | KHz0 -> "HZ0" | KHz1 -> "HZ1" | KCasTail -> "CAST" | KCasNext -> "CASN" | KCasHead -> "CASH"
  | LKMF -> "MF" | KRel -> "REL" | LKEnd r -> "END " ^ lf_res r
let lr_done s t = match List.nth_opt s.r_thr t with Some th -> th.rt_pc = RIdle && th.rt_ops = [] | None -> true
let lr_dump s =
  Printf.sprintf "%s | %s | T %d | P %d : %s | W %s" (pr_list (rchain_from_head s)) (pr_list (rcontents s))
    (int_of_n s.r_tail.pa) (int_of_n s.r_bump) (pr_list s.r_free)
    (String.concat " " (List.map (fun th -> Printf.sprintf "%d %d : %s ;" (int_of_n th.rt_hz0) (int_of_n th.rt_hz1) (pr_list th.rt_rl)) s.r_thr))
(* LR cap fmax | ops task0 | ops task1 ... | schedule ; model thread 0 is the idle worker of shepherd 0 (the controller), task t is
   model thread t + 1 (pinned on shepherd t + 1) *)
let run_lr parts =
  match parts with
  | hdr :: rest when List.length rest >= 2 ->
    let cap, fmax = (match words hdr with [_; c; f] -> int_of_string c, int_of_string f | _ -> failwith "hdr") in
    let nt = List.length rest - 1 in
    let sched = List.nth rest nt in
    let progs = List.map (fun p -> List.map lf_op (words p)) (List.filteri (fun i _ -> i < nt) rest) in
    let s = ref (rinit (nat_of_int fmax) ([] :: progs)) in
    let grant t =
      if lr_done !s (t + 1) then Printf.printf "g %d - | %s\n" t (lr_dump !s)
      else begin
        let (s', k) = rrun_to_sp (nat_of_int 4096) !s (nat_of_int (t + 1)) in
        s := s';
        Printf.printf "g %d %s | %s\n" t (match k with None -> "?" | Some k -> lf_kind k) (lr_dump !s)
      end in
    String.iter (fun c -> let t = Char.code c - 48 in if t >= 0 && t < nt then grant t) sched;
    let extra = ref 0 in
    let progress = ref true in
    while !progress && !extra < cap do
      progress := false;
      for t = 0 to nt - 1 do
        if not (lr_done !s (t + 1)) && !extra < cap then (grant t; incr extra; progress := true)
      done
    done;
    Printf.printf "F | %s\n"
      (String.concat " " (List.filter_map (fun t -> if lr_done !s (t + 1) then None else Some (string_of_int t)) (List.init nt (fun i -> i))))
  | _ -> print_endline "ERR"

let () =
  try
    while true do
      let line = input_line stdin in
      let parts = split_bar line in
      (match parts with
       | hdr :: _ when String.length hdr >= 2 && String.sub hdr 0 2 = "LR" -> run_lr parts
       | _ -> print_endline "ERR");
      flush stdout
    done
  with End_of_file -> ()
