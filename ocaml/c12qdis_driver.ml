(* driver for the extracted queue-loop completion machine with shepherd disable / enable / addworker
   (coq/theories/Loops/CompletionQDisable.v).  One scenario per line on stdin:
     T <stop> <asfirst> <start> <nw> <ns> <tok> <tok> ...
   every token is one observed event of the real code (see lib/verif/props/_c12_disable.py); it is replayed with
   dstep and must be enabled and have the observed outcome.  One result line per scenario:
     ok as=.. dc=.. so=.. ent=.. ret=.. nw=.. live=.. in=.. safe=.. returned=0|1 covered=lo:hi,...
     refused <index> <token> <reason> | as=.. ...                                                   *)
open C12qdis_model

let rec pos_of_int n = if n = 1 then XH else if n land 1 = 0 then XO (pos_of_int (n lsr 1)) else XI (pos_of_int (n lsr 1))
let z_of_int n = if n = 0 then Z0 else if n > 0 then Zpos (pos_of_int n) else Zneg (pos_of_int (-n))
let rec nat_of_int n = if n <= 0 then O else S (nat_of_int (n - 1))
let rec int_of_nat = function O -> 0 | S n -> 1 + int_of_nat n
let rec int_of_pos = function XH -> 1 | XO p -> 2 * int_of_pos p | XI p -> 2 * int_of_pos p + 1
let int_of_z = function Z0 -> 0 | Zpos p -> int_of_pos p | Zneg p -> - (int_of_pos p)
let zi = int_of_z
let zeq a b = (match Z.compare a b with Eq -> true | _ -> false)

let summary st =
  let ws = st.ds_w in
  let c f = zi (cnt f ws) in
  let ex = List.sort compare (List.map (fun (_, (lo, hi)) -> (zi lo, zi hi)) st.ds_exec) in
  (* merge the completed invocations into maximal intervals *)
  let rec merge acc = function
    | [] -> List.rev acc
    | (lo, hi) :: r -> (match acc with
        | (a, b) :: t when b = lo -> merge ((a, hi) :: t) r
        | _ -> merge ((lo, hi) :: acc) r) in
  let iv = merge [] ex in
  Printf.sprintf "as=%d dc=%d so=%d ent=%d ret=%d nw=%d live=%d in=%d safe=%d returned=%d cur=%d covered=%s"
    (zi st.ds_as) (zi st.ds_dc) (zi st.ds_signoffs) (zi st.ds_entered) (zi st.ds_returned) (List.length ws)
    (c w_live) (c w_in) (c (fun w -> w.w_safe)) (if is_ret st then 1 else 0) (zi st.ds_cur)
    (String.concat "," (List.map (fun (a, b) -> Printf.sprintf "%d:%d" a b) iv))

exception Refused of string

let pc_of st w = match nth_error st.ds_w (nat_of_int w) with Some wk -> Some wk.w_pc | None -> None
let pcs = function DGet -> "get_iters" | DFunc (a, b) -> Printf.sprintf "claimed %d:%d" (zi a) (zi b)
  | DIn (a, b) -> Printf.sprintf "inside func %d:%d" (zi a) (zi b) | DCheck -> "at shep_ok" | DDec -> "at activesheps--"
  | DExit -> "left the loop" | DGone -> "returned (gone)"
let where st w = match pc_of st w with Some p -> pcs p | None -> "no such worker"

let step cf st e why = match dstep cf st e with Some s -> s | None -> raise (Refused why)

let apply cf st tok =
  let f = String.split_on_char ':' tok in
  let i k = int_of_string (List.nth f k) in
  match List.hd f with
  | "g" ->  (* successful cursor operation of worker w: claim of n indices starting at lo *)
      let w = i 1 and n = i 2 and lo = i 3 in
      let s = step cf st (EGet (nat_of_int w, z_of_int n)) ("claim by a worker that is " ^ where st w) in
      (match pc_of s w with
       | Some (DFunc (a, _)) when zi a = lo -> s
       | Some (DFunc (a, _)) -> raise (Refused (Printf.sprintf "claim starts at %d, cursor of the model is %d" lo (zi a)))
       | _ -> raise (Refused "claim although the range is exhausted"))
  | "i" ->
      let w = i 1 and lo = i 2 and hi = i 3 in
      (match pc_of st w with
       | Some (DFunc (a, b)) when zi a = lo && zi b = hi -> step cf st (EEnter (nat_of_int w)) "enter"
       | Some (DFunc (a, b)) -> raise (Refused (Printf.sprintf "func called with %d:%d, claim of the model is %d:%d" lo hi (zi a) (zi b)))
       | _ -> raise (Refused ("func entered by a worker that is " ^ where st w)))
  | "o" -> let w = i 1 in step cf st (EReturn (nat_of_int w)) ("func return by a worker that is " ^ where st w)
  | "k" ->
      let w = i 1 and sh = i 2 and r = i 3 in
      let s = step cf st (ECheck (nat_of_int w, nat_of_int sh)) ("shep_ok by a worker that is " ^ where st w) in
      (match pc_of s w, r with
       | Some DGet, 1 | Some DDec, 0 -> s
       | _ -> raise (Refused (Printf.sprintf "qthread_shep_ok() = %d on shepherd %d disagrees with the model's active flag" r sh)))
  | "s" -> let w = i 1 in step cf st (EDec (nat_of_int w)) ("activesheps-- by a worker that is " ^ where st w)
  | "m" ->  (* "no more" seen by worker w followed by its donecount++ *)
      let w = i 1 in
      let s = step cf st (EGet (nat_of_int w, z_of_int 1)) ("donecount++ by a worker that is " ^ where st w) in
      (match pc_of s w with
       | Some DExit ->
           let s2 = step cf s (EExit (nat_of_int w)) "exit" in
           if zeq s2.ds_dc (Z.add s.ds_dc (z_of_int 1)) then s2 else raise (Refused "donecount++ by a worker with safeexit = 0")
       | _ -> raise (Refused "donecount++ by a worker although indices are left"))
  | "x" -> let sh = i 1 in step cf st (EDisable (nat_of_int sh)) "qthread_disable_shepherd succeeded on shepherd 0 / unknown shepherd"
  | "n" -> let sh = i 1 in step cf st (EEnable (nat_of_int sh)) "enable of an unknown shepherd"
  | "a" -> step cf st EAdd "addworker after the call returned"
  | "t" -> let k = i 1 in step cf st (EAddStep (nat_of_int k)) "addworker fork / undo without a matching activesheps++ or with the wrong donecount"
  | "tf" -> (* addworker k took the fork path *)
      let k = i 1 in
      let s = step cf st (EAddStep (nat_of_int k)) "addworker forked without a matching activesheps++" in
      if List.length s.ds_w = List.length st.ds_w + 1 then s else raise (Refused "addworker forked although donecount != 0")
  | "tu" -> (* addworker k took the undo path: read + decrement *)
      let k = i 1 in
      let s = step cf st (EAddStep (nat_of_int k)) "addworker undo without a matching activesheps++" in
      if List.length s.ds_w <> List.length st.ds_w then raise (Refused "addworker undid its increment although donecount == 0")
      else step cf s (EAddStep (nat_of_int k)) "addworker undo"
  | "c" ->  (* the call returned: both reads of the wait loop see the final values *)
      let s = step cf st ECaller "caller" in
      let s2 = step cf s ECaller "caller" in
      if is_ret s2 then s2 else raise (Refused "the call returned although donecount < activesheps")
  | _ -> raise (Refused "unknown token")

let () =
  try while true do
    let line = input_line stdin in
    match String.split_on_char ' ' (String.trim line) with
    | "T" :: stop :: af :: start :: nw :: ns :: toks ->
        let cf = { dc_stop = z_of_int (int_of_string stop); dc_brk = true; dc_asfirst = (af = "1") } in
        let st0 = dinit (z_of_int (int_of_string start)) (nat_of_int (int_of_string nw)) (nat_of_int (int_of_string ns)) in
        let toks = List.filter (fun t -> t <> "") toks in
        let rec go st k = function
          | [] -> Printf.printf "ok %s\n" (summary st)
          | t :: r ->
              (match (try Ok (apply cf st t) with Refused why -> Error why | Failure _ | Invalid_argument _ -> Error "malformed token") with
               | Ok s -> go s (k + 1) r
               | Error why -> Printf.printf "refused %d %s %s | %s\n" k t why (summary st)) in
        go st0 0 toks
    | _ -> print_endline "ERR"
  done with End_of_file -> ()
