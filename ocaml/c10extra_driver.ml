(* driver for the extracted lifecycle machine of the sinc (Sinc/Extra.v around Sinc/Model.v).
   S <h|c> <hd> <size> <opk> <init> <nslots> <c0>   new sinc (h: qt_sinc_create, c: qt_sinc_init on caller storage)
   T <ops>                                          program of the next participant (as c10_driver: s:<hex>:<slot> n:<slot> e:<n> w v)
   X <cops>                                         lifecycle script: r:<diff> (resize)  z:<n> (reset)  f (fini)  d (destroy)
   R <r..>                                          run under the adaptive schedule (participants 0..n-1, lifecycle thread n)
   M <hd> <wps> <size> <cacheline> <shep> <worker>  qt_sinc_tmpdata: "M <slot|-> <byte offset> <submit slot> <decoded shep> <decoded worker>"
   output per micro-step: "<tid> <Kind> <counter> <ready> <res> <slots> | <states> <ctl state> u=<uaf> f=<rvds>[ ; W<t>=<val>]"
   then "END done|deadlock <k>" *)
open C10extra_model
let rec nat_of_int n = if n <= 0 then O else S (nat_of_int (n - 1))
let rec int_of_nat = function O -> 0 | S n -> 1 + int_of_nat n
let rec pos_of_i64 (n : int64) =
  if n = 1L then XH
  else if Int64.logand n 1L = 0L then XO (pos_of_i64 (Int64.shift_right_logical n 1))
  else XI (pos_of_i64 (Int64.shift_right_logical n 1))
(* decimal string of an unsigned 64-bit number -> Z *)
let z_of_string s = let n = Int64.of_string ("0u" ^ s) in if n = 0L then Z0 else Zpos (pos_of_i64 n)
let rec i64_of_pos = function
  | XH -> 1L | XO p -> Int64.shift_left (i64_of_pos p) 1 | XI p -> Int64.logor (Int64.shift_left (i64_of_pos p) 1) 1L
let str_of_z = function Z0 -> "0" | Zpos p -> Printf.sprintf "%Lu" (i64_of_pos p) | Zneg p -> "-" ^ Printf.sprintf "%Lu" (i64_of_pos p)
let unhex h = String.init (String.length h / 2) (fun i -> Char.chr (int_of_string ("0x" ^ String.sub h (2 * i) 2)))
let hex s = String.concat "" (List.map (fun c -> Printf.sprintf "%02x" (Char.code c)) (List.init (String.length s) (String.get s)))
let bytewise f a b = String.init (String.length a) (fun i -> Char.chr ((f (Char.code a.[i]) (Char.code b.[i])) land 255))
let add64 a b =
  let get s = let r = ref 0L in for i = 7 downto 0 do r := Int64.logor (Int64.shift_left !r 8) (Int64.of_int (Char.code s.[i])) done; !r in
  let v = Int64.add (get a) (get b) in
  String.init 8 (fun i -> Char.chr (Int64.to_int (Int64.logand (Int64.shift_right_logical v (8 * i)) 255L)))
let vop_of = function
  | 0 -> bytewise ( + ) | 1 -> bytewise max | 2 -> bytewise ( lxor ) | 3 -> bytewise min | _ -> add64
let parse_op tok =
  match String.split_on_char ':' tok with
  | ["s"; h; k] -> Submit (Some (unhex h), nat_of_int (int_of_string k))
  | ["n"; k] -> Submit (None, nat_of_int (int_of_string k))
  | ["e"; n] -> Expect (nat_of_int (int_of_string n))
  | ["w"] -> Wait true
  | ["v"] -> Wait false
  | _ -> failwith ("bad op " ^ tok)
let parse_cop tok =
  match String.split_on_char ':' tok with
  | ["r"; d] -> XResize (z_of_string d)
  | ["z"; n] -> XReset (z_of_string n)
  | ["f"] -> XFini
  | ["d"] -> XDestroy
  | _ -> failwith ("bad lifecycle op " ^ tok)
let stname = function
  | PIdle -> "Idle" | PSlot _ -> "Slot" | PDec _ -> "Dec" | PC0 -> "C0" | PCol k -> "Col" ^ string_of_int (int_of_nat k)
  | PFill -> "Fill" | PAdd _ -> "Add" | PEmpty -> "Empty" | PRead _ -> "Read" | PBlk _ -> "Blk" | PCopy -> "Copy"
let kindname = function PCol _ -> "Col" | p -> stname p
let cname = function
  | CIdle -> "Idle" | CRAdd _ -> "RAdd" | CRFill -> "RFill" | CReset _ -> "Reset" | CFreeI _ -> "FreeI" | CFreeV _ -> "FreeV"
  | CFreeR _ -> "FreeR" | CFFill _ -> "FFill" | CFreeS -> "FreeS"
let b2 b = if b then "1" else "0"
let shared (b : string state) =
  Printf.sprintf "%s %d %s %s" (str_of_z b.counter) (if b.ready then 1 else 0)
    (if b.hasdata then hex b.result else "-")
    (if b.hasdata then String.concat "," (List.map hex b.slots) else "-")
let () =
  let vop = ref (vop_of 0) in
  let pend = ref None in
  let progs = ref [] in
  let script = ref [] in
  try while true do
    let line = input_line stdin in
    match List.filter (fun x -> x <> "") (String.split_on_char ' ' (String.trim line)) with
    | ["S"; st; hd; _size; opk; iv; ns; c0] ->
      vop := vop_of (int_of_string opk);
      pend := Some ((if st = "c" then Caller else Heap), hd <> "0", unhex iv, int_of_string ns, z_of_string c0);
      progs := []; script := []
    | "T" :: ops -> progs := !progs @ [List.map parse_op ops]
    | "X" :: ops -> script := !script @ List.map parse_cop ops
    | ["M"; hd; wps; size; cl; shep; worker] ->
      let n = nat_of_int in
      let i s = int_of_string s in
      let wpsn = n (i wps) and sz = n (i size) and c = n (i cl) and sh = n (i shep) and w = n (i worker) in
      let off = byte_off wpsn sz c sh w in
      let (dsh, dw) = decode_off wpsn sz c off in
      Printf.printf "M %s %d %d %d %d\n"
        (match tmpdata (hd <> "0") wpsn sh w with Some k -> string_of_int (int_of_nat k) | None -> "-")
        (int_of_nat off) (int_of_nat (submit_slot wpsn sh w)) (int_of_nat dsh) (int_of_nat dw)
    | "R" :: rs ->
      let rs = Array.of_list (List.map int_of_string rs) in
      let x0 = match !pend with
        | Some (st, hd, iv, ns, c0) -> xinit st hd iv (nat_of_int ns) c0 !progs !script
        | None -> failwith "R without S" in
      let x = ref x0 in
      Printf.printf "I %s\n" (shared x0.base);
      let k = ref 0 and fin = ref false in
      while not !fin do
        let r = if Array.length rs = 0 then 0 else rs.(!k mod Array.length rs) in
        match xpick !vop !x (nat_of_int r) with
        | None ->
          Printf.printf "END %s %d\n" (if xquiescent !x then "done" else "deadlock") !k; fin := true
        | Some i ->
          let ii = int_of_nat i in
          let np = int_of_nat (nparts !x) in
          let kind = if ii = np then cname !x.ctl_pc else kindname (List.nth !x.base.thrs ii).t_pc in
          (match xstep !vop !x i with
           | None -> Printf.printf "END modelerror %d\n" !k; fin := true
           | Some x' ->
             let before = List.map (fun t -> List.length t.t_got) !x.base.thrs in
             x := x'; incr k;
             Printf.printf "%d %s %s |" ii kind (shared x'.base);
             List.iter (fun t -> Printf.printf " %s" (stname t.t_pc)) x'.base.thrs;
             Printf.printf " %s u=%d f=%s%s%s%s" (cname x'.ctl_pc) (int_of_nat x'.uaf)
               (b2 x'.result_freed) (b2 x'.vals_freed) (b2 x'.rdata_freed) (b2 x'.struct_freed);
             List.iteri (fun j t ->
                 let b = List.nth before j in
                 List.iteri (fun q g -> if q >= b then
                                Printf.printf " ; W%d=%s" j (match g with Some v -> hex v | None -> "-")) t.t_got) x'.base.thrs;
             print_newline ();
             if !k > 200000 then (Printf.printf "END runaway %d\n" !k; fin := true))
      done;
      pend := None
    | [] -> ()
    | _ -> print_endline "ERR"
  done with End_of_file -> ()
