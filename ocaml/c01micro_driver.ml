(* exhaustive search of the micro-step FEB model (Feb/Micro.v): all interleavings of two API calls on one word.
   usage: c01micro_driver [-v] [--old]      exhaustive search; one line per (init, opA, opB) with a bad final state
          c01micro_driver --held [--old]    stdin lines "h <absent|empty> <A op> <A val> <k> <B op> <B val>": the model's outcome of the
                                            schedule "A up to its k-th stripe unlock, B as far as it gets, A to the end, B to the end"
   --old = access order before /repo eba51ae (mstep_old) *)
open C01micro_model
let rec pos_of_int n = if n = 1 then XH else if n land 1 = 0 then XO (pos_of_int (n lsr 1)) else XI (pos_of_int (n lsr 1))
let z_of_int n = if n = 0 then Z0 else Zpos (pos_of_int n)
let rec int_of_pos = function XH -> 1 | XO p -> 2 * int_of_pos p | XI p -> 2 * int_of_pos p + 1
let int_of_z = function Z0 -> 0 | Zpos p -> int_of_pos p | Zneg p -> - (int_of_pos p)
let t0 = N0 and t1 = Npos XH
let ops v = [ "readFE", OReadFE DOwn; "readFE_nb", OReadFE_nb DOwn; "readFF", OReadFF DOwn; "readFF_nb", OReadFF_nb DOwn;
              "readXX", OReadXX DOwn; "writeEF", OWriteEF (Some v); "writeEF_nb", OWriteEF_nb (Some v); "writeF", OWriteF (Some v);
              "writeFF", OWriteFF (Some v); "fill", OFill; "empty", OEmpty; "purge_to", OPurge (Some v); "status", OStatus ]
let str_res = function None -> "BLK:-" | Some (c, v) -> (match c with OK -> "0" | OPFAIL -> "-7") ^ ":" ^ (match v with None -> "-" | Some z -> string_of_int (int_of_z z))
let mstep = if Array.mem "--old" Sys.argv then mstep_old else mstep

let op_named name v = List.assoc name (ops (z_of_int v))

let held () =
  try while true do
    let line = String.trim (input_line stdin) in
    (match String.split_on_char ' ' line with
     | ["h"; init; na; va; k; nb; vb] ->
       let pe = (init = "empty") and k = int_of_string k in
       let s = ref (minit pe (z_of_int 5) (op_named na (int_of_string va)) (op_named nb (int_of_string vb))) in
       let rec run t = match mstep !s t with Some s' -> s := s'; run t | None -> () in
       (* phase 1: A until it has released the stripe lock k times (k = 0: A runs to the end) *)
       let cnt = ref 0 in
       let continue_ = ref true in
       while !continue_ && (k = 0 || !cnt < k) do
         match mstep !s t0 with
         | Some s' -> if !s.m_stripe = Some t0 && s'.m_stripe = None then incr cnt; s := s'
         | None -> continue_ := false
       done;
       let paused = if k > 0 && !cnt = k then 1 else 0 in
       run t1;
       let contended = if finished !s.m_t1 || !s.m_t1.t_blk then 0 else 1 in
       let moved = ref true in
       while !moved do
         let before = !s in run t0; run t1; moved := (before <> !s)
       done;
       let (((ra, rb), f), w) = outcome_of !s in
       Printf.printf "A=%s B=%s status=%d word=%d paused=%d contended=%d\n" (str_res ra) (str_res rb) (if f then 1 else 0) (int_of_z w) paused contended
     | _ -> print_endline "ERR");
    flush stdout
  done with End_of_file -> ()

let () =
  if Array.mem "--held" Sys.argv then held () else
  let verbose = Array.mem "-v" Sys.argv in
  let nstates = ref 0 and nfinal = ref 0 and nbad = ref 0 and npairs = ref 0 and badpairs = ref 0 in
  List.iter (fun pe ->
    List.iter (fun (na, oa) ->
      List.iter (fun (nb, ob) ->
        incr npairs;
        let seen = Hashtbl.create 1024 in
        let bad = ref [] in
        let rec dfs s path =
          if not (Hashtbl.mem seen s) then begin
            Hashtbl.add seen s (); incr nstates;
            let a = mstep s t0 and b = mstep s t1 in
            (match a, b with
             | None, None ->
               incr nfinal;
               if not (good_final pe (z_of_int 5) oa ob s) then begin incr nbad; bad := (List.rev path, s) :: !bad end
             | _ -> ());
            (match a with Some s' -> dfs s' (0 :: path) | None -> ());
            (match b with Some s' -> dfs s' (1 :: path) | None -> ())
          end in
        dfs (minit pe (z_of_int 5) oa ob) [];
        if !bad <> [] then begin
          incr badpairs;
          let shortest = List.fold_left (fun acc x -> match acc with None -> Some x | Some (p, _) -> if List.length (fst x) < List.length p then Some x else acc) None !bad in
          (match shortest with
           | Some (p, s) ->
             let (((ra, rb), f), w) = outcome_of s in
             Printf.printf "BAD init=%s A=%s B=%s finals_bad=%d schedule=%s outcome: A=%s B=%s full=%b word=%d stuck=%b\n"
               (if pe then "empty" else "absent") na nb (List.length !bad) (String.concat "" (List.map string_of_int p))
               (str_res ra) (str_res rb) f (int_of_z w)
               (not ((finished s.m_t0 || s.m_t0.t_blk) && (finished s.m_t1 || s.m_t1.t_blk)))
           | None -> ())
        end else if verbose then Printf.printf "ok  init=%s A=%s B=%s\n" (if pe then "empty" else "absent") na nb)
        (ops (z_of_int 22))) (ops (z_of_int 11))) [false; true];
  Printf.printf "# pairs=%d bad_pairs=%d states=%d finals=%d bad_finals=%d\n" !npairs !badpairs !nstates !nfinal !nbad
