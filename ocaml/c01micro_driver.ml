(* exhaustive search of the micro-step FEB model (Feb/Micro.v): all interleavings of two API calls on one word.
   A search for failing schedules (not a proof).  usage: c01micro_driver [-v]   prints one line per (init, opA, opB) with a bad final state *)
open C01micro_model
let rec pos_of_int n = if n = 1 then XH else if n land 1 = 0 then XO (pos_of_int (n lsr 1)) else XI (pos_of_int (n lsr 1))
let z_of_int n = if n = 0 then Z0 else Zpos (pos_of_int n)
let rec int_of_pos = function XH -> 1 | XO p -> 2 * int_of_pos p | XI p -> 2 * int_of_pos p + 1
let int_of_z = function Z0 -> 0 | Zpos p -> int_of_pos p | Zneg p -> - (int_of_pos p)
let t0 = N0 and t1 = Npos XH
let ops v = [ "readFE", OReadFE DOwn; "readFE_nb", OReadFE_nb DOwn; "readFF", OReadFF DOwn; "readFF_nb", OReadFF_nb DOwn;
              "readXX", OReadXX DOwn; "writeEF", OWriteEF (Some v); "writeEF_nb", OWriteEF_nb (Some v); "writeF", OWriteF (Some v);
              "writeFF", OWriteFF (Some v); "fill", OFill; "empty", OEmpty; "purge_to", OPurge (Some v); "status", OStatus ]
let str_res = function None -> "BLK" | Some (c, v) -> (match c with OK -> "0" | OPFAIL -> "-7") ^ ":" ^ (match v with None -> "-" | Some z -> string_of_int (int_of_z z))
let () =
  let verbose = Array.mem "-v" Sys.argv in
  let mstep = if Array.mem "--fixed" Sys.argv then mstep_fixed else mstep in
  let nstates = ref 0 and nfinal = ref 0 and nbad = ref 0 and npairs = ref 0 and badpairs = ref 0 in
  List.iter (fun pe ->
    List.iter (fun (na, oa) ->
      List.iter (fun (nb, ob) ->
        incr npairs;
        let seen = Hashtbl.create 1024 in
        let bad = ref [] in
        let rec dfs s path =
          if not (Hashtbl.mem seen s) then begin
            Hashtbl.add seen s (); incr nstates;
            let a = mstep s t0 and b = mstep s t1 in
            (match a, b with
             | None, None ->
               incr nfinal;
               if not (good_final pe (z_of_int 5) oa ob s) then begin incr nbad; bad := (List.rev path, s) :: !bad end
             | _ -> ());
            (match a with Some s' -> dfs s' (0 :: path) | None -> ());
            (match b with Some s' -> dfs s' (1 :: path) | None -> ())
          end in
        dfs (minit pe (z_of_int 5) oa ob) [];
        if !bad <> [] then begin
          incr badpairs;
          let shortest = List.fold_left (fun acc x -> match acc with None -> Some x | Some (p, _) -> if List.length (fst x) < List.length p then Some x else acc) None !bad in
          (match shortest with
           | Some (p, s) ->
             let (((ra, rb), f), w) = outcome_of s in
             Printf.printf "BAD init=%s A=%s B=%s finals_bad=%d schedule=%s outcome: A=%s B=%s full=%b word=%d stuck=%b\n"
               (if pe then "empty" else "absent") na nb (List.length !bad) (String.concat "" (List.map string_of_int p))
               (str_res ra) (str_res rb) f (int_of_z w)
               (not ((finished s.m_t0 || s.m_t0.t_blk) && (finished s.m_t1 || s.m_t1.t_blk)))
           | None -> ())
        end else if verbose then Printf.printf "ok  init=%s A=%s B=%s\n" (if pe then "empty" else "absent") na nb)
        (ops (z_of_int 22))) (ops (z_of_int 11))) [false; true];
  Printf.printf "# pairs=%d bad_pairs=%d states=%d finals=%d bad_finals=%d\n" !npairs !badpairs !nstates !nfinal !nbad
