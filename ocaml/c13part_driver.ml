(* driver for the extracted micro-step machine of one partition pass (Util/PartInterleave.v).
   One command per line on stdin, one result line per command; see lib/verif/props/_c13_part.py and harness/c/c13_part.c.
     pass <flav q|a|t> <cs> <nt> <B> <LEN> <bound> <pivot> <nvals> v.. <nsched> s..
     solo <flav> <cs> <nt> <B> <LEN> <bound> <pivot> <nvals> v..
   Array values and the pivot are small non-negative integers (the harness stores them as double / aligned_t).
   A schedule entry names a partition thread; it runs that thread up to its next yield point (the points at which the
   harness can switch threads: a wall step = a call of qthread_cacheline(), a CAS, the lock / unlock calls, the end). *)
open C13part_model

let nat_of_int k = let rec go acc k = if k <= 0 then acc else go (S acc) (k - 1) in go O k
let rec int_of_nat = function O -> 0 | S n -> 1 + int_of_nat n
let rec pos_of_int n = if n = 1 then XH else if n land 1 = 0 then XO (pos_of_int (n lsr 1)) else XI (pos_of_int (n lsr 1))
let n_of_int n = if n = 0 then N0 else Npos (pos_of_int n)
let rec int_of_pos = function XH -> 1 | XO p -> 2 * int_of_pos p | XI p -> 2 * int_of_pos p + 1
let m64 = Npos (let rec ones k = if k = 1 then XH else XI (ones (k - 1)) in ones 64)
let is_m64 x = (x = m64)
let int_of_n = function N0 -> 0 | Npos p -> int_of_pos p
let show_n x = if is_m64 x then "max" else string_of_int (int_of_n x)
let low32 x = if is_m64 x then 0xFFFFFFFF else (int_of_n x) land 0xFFFFFFFF

let leb (x : int) (y : int) = x <= y
let dflt = -1

let mkparams cs nt = { p_chunk = n_of_int cs; p_nthreads = (fun _ -> n_of_int nt); p_small = (fun _ -> false); p_thresh = (fun _ -> N0) }

let hstep h v = (((h lxor (v land 0xFFFFFFFF)) * 16777619) land 0xFFFFFFFF)
let hash_state st bound =
  let h = ref 2166136261 in
  for j = 0 to bound - 1 do h := hstep !h (aget dflt st.s_a (n_of_int j)) done;
  h := hstep !h (low32 st.s_w.w_fl); h := hstep !h (low32 st.s_w.w_fr); !h

let show_args gs =
  String.concat ";" (List.map (fun g -> Printf.sprintf "%d:%s:%d:%d" (int_of_n g.g_b) (show_n g.g_len) (int_of_n g.g_jump) (int_of_n g.g_off)) gs)

let is_yield lockf pc =
  match pc with
  | PDONE -> true
  | PA2 | PB2 | PL | PR | QL_CAS | QR_CAS -> not lockf
  | KLOCK | KUNLOCK -> lockf
  | _ -> false

let thr_pc st t = (List.nth st.s_thr t).t_pc

(* one scheduling unit of thread t: at least one step, then on to the next yield point *)
let run_unit stepf lockf st t =
  let st = ref (stepf !(ref st) t) in
  let fuel = ref 1000000 in
  while not (is_yield lockf (thr_pc !st t)) && !fuel > 0 do st := stepf !st t; decr fuel done;
  if !fuel = 0 then failwith "unit does not end";
  !st

(* the parent runs whenever it can (its steps only read) *)
let run_parent stepf st nt =
  let st = ref st in
  let go = ref true in
  while !go do
    let st' = stepf !st nt in
    if st'.s_par = !st.s_par then go := false else st := st'
  done; !st

let parse_common toks =
  match toks with
  | flav :: cs :: nt :: b :: len :: bound :: pivot :: nv :: rest ->
    let nv = int_of_string nv in
    let vals = List.map int_of_string (List.filteri (fun i _ -> i < nv) rest) in
    let rest = List.filteri (fun i _ -> i >= nv) rest in
    (flav, int_of_string cs, int_of_string nt, int_of_string b, int_of_string len, int_of_string bound, int_of_string pivot, vals, rest)
  | _ -> failwith "bad command"

let do_pass toks =
  let (flav, cs, nt, b, len, bound, pivot, vals, rest) = parse_common toks in
  let lockf = (flav = "t") in
  let sched = (match rest with _ :: s -> List.map int_of_string s | [] -> []) in
  let p = mkparams cs nt in
  let a0 = of_list vals in
  let gs = pass_targs p (n_of_int b) (n_of_int len) in
  let stepf st who = step leb dflt p lockf pivot gs st (nat_of_int who) in
  let st = ref (run_parent stepf (ginit dflt gs a0) nt) in
  let hs = Buffer.create 256 in
  let units = ref 0 in
  let sched = ref sched in
  let rr = ref 0 in
  let guard = ref 0 in
  while !st.s_par.p_res = None && !guard < 200000 do
    incr guard;
    let who =
      (match !sched with
       | t :: r -> sched := r; if t >= 0 && t < nt && thr_pc !st t <> PDONE then Some t else None
       | [] ->
         (* schedule exhausted: round robin over the threads that have not returned *)
         let k = ref 0 and found = ref None in
         while !found = None && !k < nt do
           let t = (!rr + !k) mod nt in
           if thr_pc !st t <> PDONE then found := Some t; incr k
         done;
         (match !found with Some t -> rr := (t + 1) mod nt | None -> ());
         !found) in
    (match who with
     | None -> ()
     | Some t ->
       st := run_unit stepf lockf !st t;
       incr units;
       Buffer.add_string hs (Printf.sprintf "%s%08x" (if !units > 1 then "," else "") (hash_state !st bound));
       st := run_parent stepf !st nt)
  done;
  let ret = (match !st.s_par.p_res with Some (l, r) -> Printf.sprintf "%s,%s" (show_n l) (show_n r) | None -> "none") in
  let arr = String.concat "," (List.init bound (fun j -> string_of_int (aget dflt !st.s_a (n_of_int j)))) in
  (* the sequential-in-index-order model on the same input (the theorem says: same result) *)
  let seq = (match partitioner leb dflt (n_of_int bound) p a0 (n_of_int b) (n_of_int len) pivot with
      | Some ((a2, l), r) ->
        let same = List.for_all (fun j -> aget dflt a2 (n_of_int j) = aget dflt !st.s_a (n_of_int j)) (List.init bound (fun j -> j)) in
        if same && ret = Printf.sprintf "%s,%s" (show_n l) (show_n r) then "seq=same" else "seq=DIFFERENT"
      | None -> "seq=none") in
  Printf.printf "p args=%s units=%d hs=%s ret=%s arr=%s %s\n" (show_args gs) !units (Buffer.contents hs) ret arr seq

let do_solo toks =
  let (flav, cs, nt, b, len, bound, pivot, vals, _) = parse_common toks in
  let lockf = (flav = "t") in
  let p = mkparams cs nt in
  let a0 = of_list vals in
  let gs = pass_targs p (n_of_int b) (n_of_int len) in
  let stepf st who = step leb dflt p lockf pivot gs st (nat_of_int who) in
  let out = Buffer.create 256 in
  for t = 0 to nt - 1 do
    let st = ref (ginit dflt gs a0) in
    let fuel = ref 2000000 in
    while thr_pc !st t <> PDONE && !fuel > 0 do st := stepf !st t; decr fuel done;
    let h = ref 2166136261 in
    for j = b to b + len - 1 do
      if ((j - b) / cs) mod nt = t then h := hstep !h (aget dflt !st.s_a (n_of_int j))
    done;
    Buffer.add_string out (Printf.sprintf " t%d=%s,%s,%08x,0,1" t (show_n !st.s_w.w_fl) (show_n !st.s_w.w_fr) !h)
  done;
  Printf.printf "s args=%s%s\n" (show_args gs) (Buffer.contents out)

let () =
  try
    while true do
      let line = input_line stdin in
      let toks = List.filter (fun s -> s <> "") (String.split_on_char ' ' (String.trim line)) in
      (match toks with
       | "pass" :: r -> (try do_pass r with Failure m -> Printf.printf "p error %s\n" m)
       | "solo" :: r -> (try do_solo r with Failure m -> Printf.printf "s error %s\n" m)
       | [] -> ()
       | _ -> Printf.printf "? unknown\n");
      flush stdout
    done
  with End_of_file -> ()
