(* C08 extension: drivers of the extracted pointer-level machine (TQueue/PtrScan.v) and of the micro-step lock machine
   (TQueue/Micro.v).
     c08micro_driver ptr     script on stdin (subset of the m1 alphabet: I E Y G S T X C), one line per command in the
                             format of `c08_tqueue m1p`: result, then per queue the counters, head, tail, the forward walk
                             (next pointers from head) and the backward walk (prev pointers from tail)
     c08micro_driver micro   one case per line (see harness/c/c08_micro.c); for every grant of the schedule the model runs
                             run_to_sp and prints the pending access kind, a result if an operation ended, and the dump *)
open C08micro_model
let rec pos_of_int n = if n = 1 then XH else if n land 1 = 0 then XO (pos_of_int (n lsr 1)) else XI (pos_of_int (n lsr 1))
let n_of_int n = if n = 0 then N0 else Npos (pos_of_int n)
let rec int_of_pos = function XH -> 1 | XO p -> 2 * int_of_pos p | XI p -> 2 * int_of_pos p + 1
let int_of_n = function N0 -> 0 | Npos p -> int_of_pos p
let z_of_int n = if n = 0 then Z0 else if n > 0 then Zpos (pos_of_int n) else Zneg (pos_of_int (-n))
let int_of_z = function Z0 -> 0 | Zpos p -> int_of_pos p | Zneg p -> - (int_of_pos p)
let rec nat_of_int n = if n <= 0 then O else S (nat_of_int (n - 1))
let rec int_of_nat = function O -> 0 | S n -> 1 + int_of_nat n
let mknode tid flags ret = { tid = n_of_int tid; stl = (flags land 1 = 0); mccoy = (flags land 2 <> 0); retv = n_of_int ret }
let words line = List.filter (fun x -> x <> "") (String.split_on_char ' ' (String.trim line))

(* ------------------------------------------------------------------ ptr *)
let ptr_main () =
  let m = ref (pm_init O Z0) and nw = ref 1 and nq = ref 0 in
  let tid_of i = int_of_n (!m.pm_h i).cval.tid in
  let dump () =
    let b = Buffer.create 256 in
    for k = 0 to !nq - 1 do
      let v = pm_getq !m (nat_of_int k) in
      let fuel = !m.pm_next in
      let h = !m.pm_h in
      let o2s = function None -> "-" | Some i -> string_of_int (tid_of i) in
      Buffer.add_string b (Printf.sprintf " q%d[%d,%d] H=%s T=%s F:" k (int_of_z v.pql) (int_of_z v.pqs) (o2s v.pq_of.phd) (o2s v.pq_of.ptl));
      List.iter (fun i -> Buffer.add_string b (Printf.sprintf " %d:%d" (tid_of i) (if (h i).cst then 1 else 0))) (walk_nx fuel h v.pq_of.phd);
      Buffer.add_string b " B:";
      List.iter (fun i -> Buffer.add_string b (Printf.sprintf " %d" (tid_of i))) (walk_pv fuel h v.pq_of.ptl)
    done;
    Buffer.contents b in
  let run tag none c =
    let h0 = !m.pm_h in
    let (m', out) = pm_step !m c in
    m := m';
    let rs = if out = [] then none else String.concat "" (List.map (fun i -> Printf.sprintf " %d" (int_of_n (h0 i).cval.tid)) out) in
    Printf.printf "%s%s |%s\n" tag rs (dump ()) in
  try while true do
    let line = input_line stdin in
    (try match words line with
    | ["I"; n; wk; c] ->
      nq := int_of_string n; nw := int_of_string wk;
      m := pm_init (nat_of_int !nq) (z_of_int (int_of_string c));
      Printf.printf "I |%s\n" (dump ())
    | ["E"; s; tid; fl; ret] -> run "E" "" (PEnq (nat_of_int (int_of_string s), mknode (int_of_string tid) (int_of_string fl) (int_of_string ret)))
    | ["Y"; s; tid; fl; ret] -> run "Y" "" (PEnqY (nat_of_int (int_of_string s), mknode (int_of_string tid) (int_of_string fl) (int_of_string ret)))
    | ["G"; s; wk; _] -> let s = int_of_string s in run "G" " NONE" (PPop (nat_of_int s, nat_of_int (s * !nw + int_of_string wk)))
    | ["S"; h; v; lk] -> run "S" "" (PSteal (nat_of_int (int_of_string h), nat_of_int (int_of_string v), lk <> "0"))
    | ["T"; s; _] -> let s = int_of_string s in run "T" " NULL" (PThief (nat_of_int s, nat_of_int ((s + 1) mod (max 1 !nq))))
    | ["X"; s; v] -> run "X" " NULL" (PSpecific (nat_of_int (int_of_string s), n_of_int (int_of_string v)))
    | ["C"; c] -> run "C" "" (PChunk (z_of_int (int_of_string c)))
    | [] -> ()
    | _ -> print_endline "ERR"
    with Failure _ | Invalid_argument _ -> print_endline "ERR");
    flush stdout
  done with End_of_file -> ()

(* ------------------------------------------------------------------ micro *)
(* MC <chunk> <dis> | <q0 nodes tid:fl ...> | <q1 nodes> | <home> <j> <op> <op> ... ; <home> <j> <op> ... | <schedule: tids> *)
let parse_node s = match String.split_on_char ':' s with
  | [t; f] -> mknode (int_of_string t) (int_of_string f) 0
  | _ -> failwith "node"
let parse_op s =
  match s.[0] with
  | 'D' -> MDeq
  | 'T' -> MSteal
  | 'E' | 'Y' ->
    (match String.split_on_char ':' (String.sub s 1 (String.length s - 1)) with
     | [k; t; f] ->
       let n = mknode (int_of_string t) (int_of_string f) 0 in
       if s.[0] = 'E' then MEnq (nat_of_int (int_of_string k), n) else MEnqY (nat_of_int (int_of_string k), n)
     | _ -> failwith "op")
  | _ -> failwith "op"
let kname = function KEnd -> "END" | KLock -> "LOCK" | KTry -> "TRY" | KUnlock -> "UNLOCK" | KCas -> "CAS" | KSpin -> "SPIN" | KPlain -> "PLAIN"
let mk_queue nodes =
  let len = List.length nodes and st = List.length (List.filter (fun n -> n.stl) nodes) in
  { items = nodes; qlen = z_of_int len; qstl = z_of_int st }

let mdump m =
  let b = Buffer.create 128 in
  for k = 0 to 1 do
    let q = qat m (nat_of_int k) in
    Buffer.add_string b (Printf.sprintf " q%d[%d,%d,%d,L%s]" k (int_of_z q.qlen) (int_of_z q.qstl) (int_of_z (stat m (nat_of_int k)))
                           (match lockat m (nat_of_int k) with None -> "-" | Some t -> string_of_int (int_of_nat t)));
    List.iter (fun nd -> Buffer.add_string b (Printf.sprintf " %d:%d" (int_of_n nd.tid) (if nd.stl then 1 else 0))) q.items
  done;
  Buffer.contents b

let micro_case line =
  match List.map String.trim (String.split_on_char '|' line) with
  | [hdr; q0s; q1s; thrs; sched] ->
    let (chunk, dis) = match words hdr with ["MC"; c; d] -> (int_of_string c, d <> "0") | _ -> failwith "hdr" in
    let q0 = mk_queue (List.map parse_node (words q0s)) and q1 = mk_queue (List.map parse_node (words q1s)) in
    let cfg = List.mapi (fun i g ->
        match words g with
        | home :: j :: ops ->
          let home = int_of_string home and j = int_of_string j in
          (nat_of_int i, ((nat_of_int home, nat_of_int (home * 2 + j)), List.map parse_op ops))
        | _ -> failwith "thr") (List.filter (fun g -> String.trim g <> "") (String.split_on_char ';' thrs)) in
    let m = ref (minit q0 q1 (z_of_int chunk) dis cfg) in
    Printf.printf "S |%s\n" (mdump !m);
    List.iter (fun ts ->
        let t = nat_of_int (int_of_string ts) in
        let before = get_thr t !m.m_thr in
        let fin th = th.t_pc = Idle && th.t_prog = [] in
        if fin before then Printf.printf "g %s - |%s\n" ts (mdump !m)
        else begin
          m := run_to_sp !m t;
          let th = get_thr t !m.m_thr in
          let res = if List.length th.t_ret > List.length before.t_ret then
              (match List.hd th.t_ret with None -> " r=NULL" | Some nd -> Printf.sprintf " r=%d" (int_of_n nd.tid)) else "" in
          Printf.printf "g %s %s%s |%s\n" ts (kname (kind_of th.t_pc)) res (mdump !m)
        end) (words sched);
    (* who has not finished *)
    let unfinished = List.filter (fun (_, th) -> not (th.t_pc = Idle && th.t_prog = [])) !m.m_thr in
    Printf.printf "F |%s\n" (String.concat "" (List.map (fun (t, _) -> Printf.sprintf " %d" (int_of_nat t)) unfinished))
  | _ -> print_endline "ERR"

let micro_main () =
  try while true do
    let line = input_line stdin in
    (if String.trim line <> "" then try micro_case line with Failure _ | Invalid_argument _ | Not_found -> print_endline "ERR");
    flush stdout
  done with End_of_file -> ()

let () =
  if Array.length Sys.argv >= 2 && Sys.argv.(1) = "ptr" then ptr_main ()
  else if Array.length Sys.argv >= 2 && Sys.argv.(1) = "micro" then micro_main ()
  else (prerr_endline "usage: c08micro_driver ptr|micro"; exit 2)
