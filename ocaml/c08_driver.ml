(* driver for the extracted sherwood threadqueue model (C08): one command per line, one result line per command.
   The same script is fed to harness/c/c08_tqueue.c; the output lines must be identical. *)
open C08_model
let rec pos_of_int n = if n = 1 then XH else if n land 1 = 0 then XO (pos_of_int (n lsr 1)) else XI (pos_of_int (n lsr 1))
let n_of_int n = if n = 0 then N0 else Npos (pos_of_int n)
let rec int_of_pos = function XH -> 1 | XO p -> 2 * int_of_pos p | XI p -> 2 * int_of_pos p + 1
let int_of_n = function N0 -> 0 | Npos p -> int_of_pos p
let z_of_int n = if n = 0 then Z0 else if n > 0 then Zpos (pos_of_int n) else Zneg (pos_of_int (-n))
let int_of_z = function Z0 -> 0 | Zpos p -> int_of_pos p | Zneg p -> - (int_of_pos p)
let rec nat_of_int n = if n <= 0 then O else S (nat_of_int (n - 1))
let rec int_of_nat = function O -> 0 | S n -> 1 + int_of_nat n

let st = ref (init_sys O Z0)
let nw = ref 1
let mknode tid flags ret = { tid = n_of_int tid; stl = (flags land 1 = 0); mccoy = (flags land 2 <> 0); retv = n_of_int ret }

let audit () =
  let b = Buffer.create 256 in
  List.iteri (fun i q ->
      Buffer.add_string b (Printf.sprintf " q%d[%d,%d,%d]" i (int_of_z q.qlen) (int_of_z q.qstl) (int_of_z (getst !st (nat_of_int i))));
      List.iter (fun nd -> Buffer.add_string b (Printf.sprintf " %d:%d" (int_of_n nd.tid) (if nd.stl then 1 else 0))) q.items)
    !st.queues;
  Buffer.contents b

let do_op tag o =
  let (s', r) = step !st o in
  st := s';
  let rs = match r with
    | RUnit -> ""
    | RNode None -> " NULL"
    | RNode (Some nd) -> Printf.sprintf " %d" (int_of_n nd.tid)
    | RList l -> String.concat "" (List.map (fun nd -> Printf.sprintf " %d" (int_of_n nd.tid)) l)
    | RSpin -> " SPIN"
    | RLive -> " LIVE" in
  Printf.printf "%s%s |%s\n" tag rs (audit ())

let parse_prog s =
  if s = "-" then [] else
    List.map (fun t ->
        match t.[0] with
        | 'y' -> AYield | 'n' -> AYieldNear | 'f' -> ASetFlag | 'w' -> AWaitFlag | 'd' -> ADrain
        | 's' -> ASpawn (n_of_int (int_of_string (String.sub t 1 (String.length t - 1))))
        | _ -> failwith "prog") (String.split_on_char ',' s)

let () =
  try while true do
    let line = String.trim (input_line stdin) in
    let w = List.filter (fun x -> x <> "") (String.split_on_char ' ' line) in
    (try match w with
    | ["I"; n; wk; c] ->
      st := init_sys (nat_of_int (int_of_string n)) (z_of_int (int_of_string c)); nw := int_of_string wk;
      Printf.printf "I |%s\n" (audit ())
    | ["E"; s; tid; fl; ret] -> do_op "E" (OEnq (nat_of_int (int_of_string s), mknode (int_of_string tid) (int_of_string fl) (int_of_string ret)))
    | ["Y"; s; tid; fl; ret] -> do_op "Y" (OEnqY (nat_of_int (int_of_string s), mknode (int_of_string tid) (int_of_string fl) (int_of_string ret)))
    | ["G"; s; wk; a] ->
      let s = int_of_string s in
      do_op "G" (OGet (nat_of_int s, nat_of_int (s * !nw + int_of_string wk), a <> "0"))
    | ["S"; h; v; lk] -> do_op "S" (ODeqSteal (nat_of_int (int_of_string h), nat_of_int (int_of_string v), lk <> "0"))
    | ["T"; s; mask] ->
      let m = if mask = "-" then [] else List.init (String.length mask) (fun i -> mask.[i] = '1') in
      do_op "T" (OSteal (nat_of_int (int_of_string s), m))
    | ["X"; s; v] -> do_op "X" (OSpecific (nat_of_int (int_of_string s), n_of_int (int_of_string v)))
    | ["Z"; s; v] -> do_op "Z" (OSetStealing (nat_of_int (int_of_string s), z_of_int (int_of_string v)))
    | ["C"; c] -> do_op "C" (OSetChunk (z_of_int (int_of_string c)))
    | ["D"; b] -> do_op "D" (OSetDisable (b <> "0"))
    | "P" :: fuel :: rest ->
      (* P fuel mainprog ; tid prog ; tid prog ... *)
      let groups = String.split_on_char ';' (String.concat " " rest) in
      let groups = List.map (fun g -> List.filter (fun x -> x <> "") (String.split_on_char ' ' g)) groups in
      (match groups with
       | [mp] :: tl ->
         let ptab = List.map (function [t; p] -> (n_of_int (int_of_string t), parse_prog p) | _ -> failwith "P") tl in
         let (log, e) = sim (nat_of_int (int_of_string fuel)) ptab { items = []; qlen = Z0; qstl = Z0 } [] false N0 (parse_prog mp) [N0] in
         Printf.printf "P%s %s\n" (String.concat "" (List.map (fun t -> Printf.sprintf " %d" (int_of_n t)) log))
           (match e with SimDone -> "DONE" | SimHang -> "HANG" | SimFuel -> "FUEL")
       | _ -> print_endline "ERR")
    | [] -> ()
    | _ -> print_endline "ERR"
    with Failure _ | Invalid_argument _ -> print_endline "ERR");
    flush stdout
  done with End_of_file -> ()
