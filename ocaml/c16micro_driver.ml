(* driver for the extracted full micro-step machine of the dictionary (Dict/MicroFull.v, extension J)
   S k so k so ...            so_regularkey of each key (as the real code computes it)
   P a r                      policy: atomic delete (0/1), recycle unlinked nodes (0/1);  "P 0 1" = the code as it is
   L so:key:val ...           initial list (the dump of the real list after the sequential set-up)
   F so:key:val:next:mark ... initial free list of the pool, head first (next = ordinal or -1)
   O t op k v start           append an operation to task t's program (op = a | g | p | x; start = ordinal of the bucket's dummy)
   B nt                       build the initial state
   X t                        task t runs to its next schedule point -> "A t kind | list | free list"  (kind 0: stuck / out of fuel)
   D                          -> "J | list | free list"
   R t                        results of task t, in program order
   E                          completed operations: "E t op k v ret inv res" one per line, then "E."
   Z                          "Z 1" when the history is linearizable w.r.t. the map the initial list stands for, else "Z 0"
   C                          branch counters of the run so far
   V fuel                     the same at the granularity of single machine steps
   Y fuel                     explore every schedule of grants from the current state: "Y 1" all linearizable / "Y 0"
   M seed n                   n random schedules of grants from the current state (not modifying it): "M bad grants..." for the
                              first non-linearizable one, else "M ok" *)
open C16micro_model

let rec pos_of_i64 (n : int64) : positive =
  if n = 1L then XH
  else if Int64.logand n 1L = 0L then XO (pos_of_i64 (Int64.shift_right_logical n 1))
  else XI (pos_of_i64 (Int64.shift_right_logical n 1))
let n_of_i64 n = if n = 0L then N0 else Npos (pos_of_i64 n)
let rec i64_of_pos = function
  | XH -> 1L
  | XO p -> Int64.shift_left (i64_of_pos p) 1
  | XI p -> Int64.logor (Int64.shift_left (i64_of_pos p) 1) 1L
let i64_of_n = function N0 -> 0L | Npos p -> i64_of_pos p
let n_of_string s = n_of_i64 (Int64.of_string ("0u" ^ s))
let str_of_n n = Printf.sprintf "%Lu" (i64_of_n n)
let rec nat_of_int i = if i <= 0 then O else S (nat_of_int (i - 1))
let rec int_of_nat = function O -> 0 | S n -> 1 + int_of_nat n

let tab : (int64, n) Hashtbl.t = Hashtbl.create 64
let sof k = match Hashtbl.find_opt tab (i64_of_n k) with Some h -> h | None -> N0
let keq a b = (i64_of_n a) = (i64_of_n b)

let pol = ref pol_code
let init_list = ref []
let init_free = ref []
let progs : (int, fop list) Hashtbl.t = Hashtbl.create 16
let st = ref (finit [] [] [])
let words l = List.filter (fun s -> s <> "") (String.split_on_char ' ' (String.trim l))
let fuel = nat_of_int 4000

(* branch counters *)
let cnt : (string, int) Hashtbl.t = Hashtbl.create 16
let bump k = Hashtbl.replace cnt k (1 + (try Hashtbl.find cnt k with Not_found -> 0))

let snapshot s =
  let b = Buffer.create 256 in
  Buffer.add_string b " |";
  List.iter (fun i -> let nd = fget s.fs_heap i in
              Buffer.add_string b (Printf.sprintf " %d:%s:%s:%s:%d" (int_of_nat i) (str_of_n nd.fn_so) (str_of_n nd.fn_key) (str_of_n nd.fn_val)
                                     (if nd.fn_mark then 1 else 0))) (flist s);
  Buffer.add_string b " |";
  List.iter (fun x -> match x with
      | None -> Buffer.add_string b " ?"
      | Some i ->
        let nd = fget s.fs_heap i in
        Buffer.add_string b (Printf.sprintf " %d:%s:%s:%s:%d:%d" (int_of_nat i) (str_of_n nd.fn_so) (str_of_n nd.fn_key) (str_of_n nd.fn_val)
                               (match nd.fn_next with Some x -> int_of_nat x | None -> -1) (if nd.fn_mark then 1 else 0))) (ffree s);
  Buffer.contents b

let pc_name = function
  | QIdle -> "idle" | QAtHash _ -> "hash" | QFindStart _ -> "start" | QFindLoop _ -> "loop" | QFindCheck _ -> "check"
  | QAtEquals _ -> "equals" | QAtHelpCas _ -> "helpcas" | QAtInsCas _ -> "inscas" | QAtMarkCas _ -> "markcas"
  | QAtUnlinkCas _ -> "unlinkcas" | QDone -> "done"

(* a grant, counting the branches taken (by looking at the pc before and after every step) *)
let grant s t =
  let rec go f s n =
    if f = 0 then (s, 0) else
      match fstep !pol sof keq s t with
      | None -> (s, 0)
      | Some s' ->
        let p = fpc_of s t and p' = fpc_of s' t in
        (match p, p' with
         | QAtInsCas _, QFindStart _ -> bump "ins_cas_failed"
         | QAtInsCas (CPut _, _, _), _ -> bump "put_cas_ok"
         | QAtInsCas _, _ -> bump "ins_cas_ok"
         | QAtHelpCas _, QFindStart _ -> bump "help_cas_failed"
         | QAtHelpCas _, _ -> bump "help_cas_ok"
         | QAtMarkCas _, QFindStart _ -> bump "mark_cas_failed"
         | QAtMarkCas _, _ -> bump "mark_cas_ok"
         | QAtUnlinkCas _, QFindStart _ -> bump "unlink_cas_failed"
         | QAtUnlinkCas _, _ -> bump "unlink_cas_ok"
         | QFindCheck _, QFindStart _ -> bump "find_restart"
         | QIdle, QAtHash (CPia _ | CPut _) -> if s.fs_free <> N0 then bump "node_recycled"
         | _ -> ());
        (match fsp_kind (fpc_of s' t) with
         | Some k -> (s', int_of_nat k)
         | None -> go (f - 1) s' (n + 1))
  in go 4000 s 0

let opchar = function FPia _ -> 'a' | FGet _ -> 'g' | FPut _ -> 'p' | FDel _ -> 'x'
let lin s = linearizable_b (amap_of !init_list) (hist_of s)

(* splitmix for the random schedules *)
let rs = ref 0L
let rnext () =
  rs := Int64.add !rs 0x9E3779B97F4A7C15L;
  let z = !rs in
  let z = Int64.mul (Int64.logxor z (Int64.shift_right_logical z 30)) 0xBF58476D1CE4E5B9L in
  let z = Int64.mul (Int64.logxor z (Int64.shift_right_logical z 27)) 0x94D049BB133111EBL in
  Int64.logxor z (Int64.shift_right_logical z 31)
let rbelow n = Int64.to_int (Int64.unsigned_rem (rnext ()) (Int64.of_int n))

let () =
  try while true do
    let line = input_line stdin in
    (match words line with
     | "S" :: rest ->
       Hashtbl.reset tab;
       let rec go = function k :: h :: t -> Hashtbl.replace tab (Int64.of_string ("0u" ^ k)) (n_of_string h); go t | _ -> () in
       go rest; print_endline "S"
     | ["P"; a; r] -> pol := { pol_atomic = (a = "1"); pol_recycle = (r = "1") }; print_endline "P"
     | "L" :: rest ->
       init_list := List.map (fun x -> match String.split_on_char ':' x with
           | [a; b; c] -> ((n_of_string a, n_of_string b), n_of_string c) | _ -> failwith "L") rest;
       init_free := []; Hashtbl.reset progs; Hashtbl.reset cnt; print_endline "L"
     | "F" :: rest ->
       init_free := List.map (fun x -> match String.split_on_char ':' x with
           | [a; b; c; d; e] -> { fn_so = n_of_string a; fn_key = n_of_string b; fn_val = n_of_string c;
                                  fn_next = (if d = "-1" then None else Some (nat_of_int (int_of_string d))); fn_mark = (e = "1") }
           | _ -> failwith "F") rest;
       print_endline "F"
     | ["O"; t; op; k; v; start] ->
       let t = int_of_string t in
       let k = n_of_string k and v = n_of_string v and s = nat_of_int (int_of_string start) in
       let o = match op with "a" -> FPia (k, v, s) | "g" -> FGet (k, s) | "p" -> FPut (k, v, s) | _ -> FDel (k, s) in
       Hashtbl.replace progs t ((try Hashtbl.find progs t with Not_found -> []) @ [o]); print_endline "O"
     | ["B"; nt] ->
       let nt = int_of_string nt in
       st := finit !init_list !init_free (List.init nt (fun t -> try Hashtbl.find progs t with Not_found -> []));
       print_endline "B"
     | ["X"; t] ->
       let ti = int_of_string t in
       let (s', k) = grant !st (nat_of_int ti) in
       st := s'; Printf.printf "A %d %d%s\n" ti k (snapshot s')
     | ["D"] -> Printf.printf "J%s\n" (snapshot !st)
     | ["R"; t] ->
       (match List.nth_opt !st.fs_thr (int_of_string t) with
        | Some th -> print_string "R"; List.iter (fun v -> Printf.printf " %s" (str_of_n v)) (List.rev th.ft_res); print_newline ()
        | None -> print_endline "R")
     | ["E"] ->
       List.iter (fun o -> Printf.printf "E %d %c %s %s %s %d %d\n" (int_of_nat o.h_t) (opchar o.h_op) (str_of_n (fop_key o.h_op))
                     (str_of_n (fop_val o.h_op)) (str_of_n o.h_ret) (int_of_nat o.h_inv) (int_of_nat o.h_res)) (hist_of !st);
       print_endline "E."
     | ["Z"] -> Printf.printf "Z %d\n" (if lin !st then 1 else 0)
     | ["C"] ->
       print_string "C"; Hashtbl.iter (fun k v -> Printf.printf " %s=%d" k v) cnt; print_newline ()
     | ["Y"; f] ->
       let r = explore_sp !pol sof keq lin (nat_of_int (int_of_string f)) !st in
       Printf.printf "Y %d\n" (if r then 1 else 0)
     | ["V"; f] ->
       let t0 = Sys.time () in
       let r = explore !pol sof keq lin (nat_of_int (int_of_string f)) !st in
       Printf.printf "V %d %.2fs\n" (if r then 1 else 0) (Sys.time () -. t0)
     | ["M"; seed; n] ->
       rs := Int64.of_string seed;
       let nt = List.length !st.fs_thr in
       let saved = Hashtbl.copy cnt in
       let found = ref None in
       let i = ref 0 in
       let n = int_of_string n in
       while !found = None && !i < n do
         incr i;
         let s = ref !st and gr = ref [] and steps = ref 0 in
         let burst = 1 + rbelow 3 in
         while not (fdone !s) && !steps < 400 do
           let t = rbelow nt in
           let k = 1 + rbelow burst in
           for _ = 1 to k do
             if (match fpc_of !s (nat_of_int t) with QDone -> false | _ -> true) then begin
               let (s', kd) = grant !s (nat_of_int t) in
               if kd <> 0 then begin s := s'; gr := t :: !gr end; incr steps end
           done
         done;
         if fdone !s && not (lin !s) then found := Some (List.rev !gr)
       done;
       Hashtbl.reset cnt; Hashtbl.iter (fun k v -> Hashtbl.replace cnt k v) saved;
       (match !found with
        | Some g -> print_string "M bad"; List.iter (fun t -> Printf.printf " %d" t) g; print_newline ()
        | None -> print_endline "M ok")
     | _ -> print_endline "ERR");
  done with End_of_file -> ()
