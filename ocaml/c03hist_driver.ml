(* driver for the extracted syncvar history acceptor (coq/theories/Syncvar/History.v): one history of one syncvar per block
     H tag fuel c0full c0val cfinfull cfinval n
     id op arg nb inv ret out          (n lines)  op: readFE readFF writeEF writeF fill empty incrF status
                                                  arg: value written / increment (decimal, up to 2^64-1) or -
                                                  ret: -1 = never returned
                                                  out: D- (done, result not observable) Dn (no result) Dv<value> Db<0|1>
                                                       F (QTHREAD_OPFAIL) O (QTHREAD_OVERFLOW)
   answer: A tag id id ..   (accepted: the linearisation found, re-checked by check_lin)
           R tag            (no linearisation exists)       U tag (fuel exhausted)       BUG tag (ill-formed input) *)
open C03hist_model
let rec pos_of_int n = if n = 1 then XH else if n land 1 = 0 then XO (pos_of_int (n lsr 1)) else XI (pos_of_int (n lsr 1))
let n_of_int n = if n = 0 then N0 else Npos (pos_of_int n)
let rec int_of_pos = function XH -> 1 | XO p -> 2 * int_of_pos p | XI p -> 2 * int_of_pos p + 1
let int_of_n = function N0 -> 0 | Npos p -> int_of_pos p
(* decimal string -> N, any size (values reach 2^64-1, beyond OCaml's 63-bit int): through Int64 as unsigned *)
let n_of_u64 (u : int64) =
  let rec pos (u : int64) = (* u <> 0, unsigned *)
    let bit = Int64.logand u 1L = 1L and rest = Int64.shift_right_logical u 1 in
    if rest = 0L then XH else if bit then XI (pos rest) else XO (pos rest) in
  if u = 0L then N0 else Npos (pos u)
let n_of_string s = n_of_u64 (Int64.of_string ("0u" ^ s))

let op_of name a =
  match name with
  | "readFE" -> SReadFE | "readFF" -> SReadFF
  | "writeEF" -> SWriteEF (n_of_string a) | "writeF" -> SWriteF (n_of_string a)
  | "fill" -> SFill | "empty" -> SEmpty | "incrF" -> SIncrF (n_of_string a) | "status" -> SStatus
  | x -> failwith ("op " ^ x)
let out_of s =
  if s = "F" then OFail
  else if s = "O" then OOver
  else if s = "D-" then ODone None
  else if s = "Dn" then ODone (Some RNone)
  else if String.length s > 2 && s.[1] = 'v' then ODone (Some (RVal (n_of_string (String.sub s 2 (String.length s - 2)))))
  else if String.length s = 3 && s.[1] = 'b' then ODone (Some (RBit (s.[2] = '1')))
  else failwith ("out " ^ s)

let split l = List.filter (fun x -> x <> "") (String.split_on_char ' ' l)

let () =
  try
    while true do
      let l = input_line stdin in
      match split l with
      | [ "H"; tag; fuel; f0; v0; f1; v1; n ] ->
        let n = int_of_string n in
        let ops = ref [] in
        for _ = 1 to n do
          match split (input_line stdin) with
          | [ id; op; a; nb; inv; ret; out ] ->
            let ret = int_of_string ret in
            ops := { h_id = n_of_int (int_of_string id); h_op = op_of op a; h_nb = (nb = "1"); h_inv = n_of_int (int_of_string inv);
                     h_ret = (if ret < 0 then None else Some (n_of_int ret)); h_out = out_of out } :: !ops
          | _ -> failwith "op line"
        done;
        let h = List.rev !ops in
        let c0 = { c_full = (f0 = "1"); c_val = n_of_string v0 } in
        let cf = { c_full = (f1 = "1"); c_val = n_of_string v1 } in
        (match decide (n_of_int (int_of_string fuel)) c0 h cf with
         | Accept w -> Printf.printf "A %s %s\n" tag (String.concat " " (List.map (fun i -> string_of_int (int_of_n i)) w))
         | Reject -> Printf.printf "R %s\n" tag
         | Unknown -> Printf.printf "U %s\n" tag
         | Bug -> Printf.printf "BUG %s\n" tag);
        flush stdout
      | [] -> ()
      | _ -> failwith ("line " ^ l)
    done
  with End_of_file -> ()
