(* driver for the extracted C15 models (Swsr, Lfq, Hazard): one command per line on stdin, canonical result lines on stdout.
   Formats are documented in lib/verif/props/c15.py. *)
open C15_model
let rec pos_of_int n = if n = 1 then XH else if n land 1 = 0 then XO (pos_of_int (n lsr 1)) else XI (pos_of_int (n lsr 1))
let n_of_int n = if n = 0 then N0 else Npos (pos_of_int n)
let rec int_of_pos = function XH -> 1 | XO p -> 2 * int_of_pos p | XI p -> 2 * int_of_pos p + 1
let int_of_n = function N0 -> 0 | Npos p -> int_of_pos p
let int_of_z = function Z0 -> 0 | Zpos p -> int_of_pos p | Zneg p -> - (int_of_pos p)
let rec nat_of_int n = if n <= 0 then O else S (nat_of_int (n - 1))
let rec int_of_nat = function O -> 0 | S n -> 1 + int_of_nat n

let split_bar s = List.map String.trim (String.split_on_char '|' s)
let words s = List.filter (fun w -> w <> "") (String.split_on_char ' ' s)
let num w = n_of_int (int_of_string w)
let suffix w = n_of_int (int_of_string (String.sub w 1 (String.length w - 1)))
let pr_list l = String.concat " " (List.map (fun x -> string_of_int (int_of_n x)) l)

(* ---------------- swsr ---------------- *)
let sw_op w = match w.[0] with
  | 'e' -> Enq (suffix w) | 'E' -> EnqB (suffix w) | 'd' -> Deq | 'D' -> DeqB | 'm' -> Emp
  | _ -> failwith "op"
let sw_res = function RInt n -> "i" ^ string_of_int (int_of_n n) | RPtr v -> "p" ^ string_of_int (int_of_n v)
let sw_kind = function KTau -> "?" | KCF -> "CF" | KMF -> "MF" | KYield -> "Y" | KEnd r -> "END " ^ sw_res r
let sw_done s t = let th = thr s t in th.t_pc = Idle && th.t_ops = []
let sw_dump s = Printf.sprintf "%d %d | %s" (int_of_n s.s_r.r_head) (int_of_n s.s_r.r_tail) (pr_list (contents s.s_r))
let run_sw hdr pops cops sched =
  match words hdr with
  | [_; elements; ovr; cap; cw; ps] ->
    let cap = int_of_string cap in
    let garbage i = n_of_int (0xDEAD0000 + int_of_n i) in
    let created = match create_size (num cw) (num ps) (num elements) with Some sz -> int_of_n sz | None -> 0 in
    let ovr = int_of_string ovr in
    let size = if ovr > 0 && ovr < created then ovr else created in
    Printf.printf "S %d\n" size;
    let s = ref (init (n_of_int size) garbage (List.map sw_op (words pops)) (List.map sw_op (words cops))) in
    let grant ti =
      let t = if ti = 0 then P else C in
      let (s', k) = run_to_sp (nat_of_int 64) !s t in
      s := s';
      Printf.printf "g %d %s | %s\n" ti (match k with None -> "-" | Some k -> sw_kind k) (sw_dump !s) in
    String.iter (fun c -> if c = '0' then grant 0 else if c = '1' then grant 1) sched;
    let extra = ref 0 in
    let progress = ref true in
    while !progress && !extra < cap do
      progress := false;
      List.iter (fun ti -> let t = if ti = 0 then P else C in
                  if not (sw_done !s t) && !extra < cap then (grant ti; incr extra; progress := true)) [0; 1]
    done;
    Printf.printf "F | %s | %s | %s\n" (pr_list (enq_seq !s)) (pr_list (deq_seq !s))
      (String.concat " " (List.filter_map (fun ti -> if sw_done !s (if ti = 0 then P else C) then None else Some (string_of_int ti)) [0; 1]))
  | _ -> print_endline "ERR"

(* ---------------- lfq ---------------- *)
let lf_op w = match w.[0] with 'e' -> LEnq (suffix w) | 'd' -> LDeq | 'm' -> LEmp | _ -> failwith "op"
let lf_res = function LInt n -> "i" ^ string_of_int (int_of_n n) | LPtr v -> "p" ^ string_of_int (int_of_n v)
let lf_kind = function
  | KAlloc -> "ALLOC" | KHz0 -> "HZ0" | KHz1 -> "HZ1" | KCasTail -> "CAST" | KCasNext -> "CASN" | KCasHead -> "CASH"
  | LKMF -> "MF" | KRel -> "REL" | LKEnd r -> "END " ^ lf_res r
let lf_done s t = match List.nth_opt s.s_thr t with Some th -> th.lt_pc = LIdle && th.lt_ops = [] | None -> true
let lf_dump s = Printf.sprintf "%s | %s" (match tail_pos s with Some p -> string_of_int (int_of_n p) | None -> "X") (pr_list (lcontents s))
let run_lf hdr progs sched =
  match words hdr with
  | [_; cap] ->
    let cap = int_of_string cap in
    let nt = List.length progs in
    let s = ref (linit (List.map (fun p -> List.map lf_op (words p)) progs)) in
    let grant t =
      let (s', k) = lrun_to_sp (nat_of_int 64) !s (nat_of_int t) in
      s := s';
      Printf.printf "g %d %s | %s\n" t (match k with None -> "-" | Some k -> lf_kind k) (lf_dump !s) in
    String.iter (fun c -> let t = Char.code c - 48 in if t >= 0 && t < nt then grant t) sched;
    let extra = ref 0 in
    let progress = ref true in
    while !progress && !extra < cap do
      progress := false;
      for t = 0 to nt - 1 do
        if not (lf_done !s t) && !extra < cap then (grant t; incr extra; progress := true)
      done
    done;
    let pr l = String.concat " " (List.map (fun (t, v) -> Printf.sprintf "%d:%d" (int_of_nat t) (int_of_n v)) l) in
    Printf.printf "F | %s | %s | %s\n" (pr !s.g_enq) (pr !s.g_deq)
      (String.concat " " (List.filter_map (fun t -> if lf_done !s t then None else Some (string_of_int t)) (List.init nt (fun i -> i))))
  | _ -> print_endline "ERR"

(* ---------------- hazard ---------------- *)
let () =
  try while true do
    let line = String.trim (input_line stdin) in
    (match split_bar line with
     | hdr :: rest when String.length hdr >= 2 && String.sub hdr 0 2 = "SW" ->
       (match rest with [p; c; sched] -> run_sw hdr p c sched | _ -> print_endline "ERR")
     | hdr :: rest when String.length hdr >= 2 && String.sub hdr 0 2 = "LF" ->
       (match List.rev rest with sched :: progs -> run_lf hdr (List.rev progs) sched | _ -> print_endline "ERR")
     | [hdr] when String.length hdr >= 2 && String.sub hdr 0 2 = "SC" ->
       (match words hdr with
        | [_; cw; ps; e] -> (match create_size (num cw) (num ps) (num e) with
            | Some sz -> Printf.printf "SC %d\n" (int_of_n sz) | None -> print_endline "SC NULL")
        | _ -> print_endline "ERR")
     | [hdr] when String.length hdr >= 2 && String.sub hdr 0 2 = "VC" ->
       (match words hdr with
        | [_; a; b] -> Printf.printf "VC %d\n" (int_of_z (void_cmp (num a) (num b)))
        | _ -> print_endline "ERR")
     | [hdr; l] when String.length hdr >= 2 && String.sub hdr 0 2 = "BS" ->
       (match words hdr with
        | [_; len; x] -> (match binary_search (List.map num (words l)) (num x) (num len) with
            | Some true -> print_endline "BS 1" | Some false -> print_endline "BS 0" | None -> print_endline "BS LOOP")
        | _ -> print_endline "ERR")
     | hdr :: rest when String.length hdr >= 2 && String.sub hdr 0 2 = "DS" ->
       (* DS me result | q0 | q1 ... : sequential qdqueue acceptor (Dq.seq_deq_ok); result 0 = NULL *)
       (match words hdr with
        | [_; me; r] ->
          let qs = List.map (fun w -> List.map num (words w)) rest in
          let r = int_of_string r in
          Printf.printf "DS %d\n" (if seq_deq_ok qs (nat_of_int (int_of_string me)) (if r = 0 then None else Some (n_of_int r)) then 1 else 0)
        | _ -> print_endline "ERR")
     | hdr :: rest when String.length hdr >= 2 && String.sub hdr 0 2 = "HS" ->
       (match words hdr, List.rev rest with
        | [_; me], fl :: slots_rev ->
          let slots = List.map (fun w -> List.map num (words w)) (List.rev slots_rev) in
          let me = nat_of_int (int_of_string me) in
          (match scan slots me (List.map num (words fl)) with
           | Some (k, f) -> Printf.printf "HS | %s | %s\n" (pr_list k) (pr_list f)
           | None -> print_endline "HS LOOP")
        | _ -> print_endline "ERR")
     | _ -> print_endline "ERR");
    flush stdout
  done with End_of_file -> ()
