(* driver for the extracted C05 model (Kernel/Ret.v): same scripts as harness/c/c05_ret.c.
   V lines: the observation list of the handshake; tree runs: for every step, per node, whether its return location MAY
   be full (member: its body returned; founder: its team automaton reached LDone). *)
open C05_model

let rec pos_of_i64 (x : int64) : positive =
  if Int64.equal x 1L then XH
  else if Int64.equal (Int64.logand x 1L) 0L then XO (pos_of_i64 (Int64.shift_right_logical x 1))
  else XI (pos_of_i64 (Int64.shift_right_logical x 1))
let z_of_u64 x = if Int64.equal x 0L then Z0 else Zpos (pos_of_i64 x)
let rec i64_of_pos = function
  | XH -> 1L
  | XO p -> Int64.shift_left (i64_of_pos p) 1
  | XI p -> Int64.logor (Int64.shift_left (i64_of_pos p) 1) 1L
let string_of_z = function
  | Z0 -> "0"
  | Zpos p -> Printf.sprintf "%Lu" (i64_of_pos p)
  | Zneg p -> "-" ^ Printf.sprintf "%Lu" (i64_of_pos p)
let z_of_string s = z_of_u64 (Int64.of_string ("0u" ^ s))

let kind_of = function "a" -> KAligned | "s" -> KSyncvar | "n" -> KSinc | _ -> KVoidSinc

type node = { id : int; parent : int; kind : char }
let nodes : node list ref = ref []

let run_tree order =
  let ns = List.sort (fun a b -> compare a.id b.id) !nodes in
  let find i = List.find (fun n -> n.id = i) ns in
  let is_founder n = n.kind <> 'm' && n.kind <> 'p' && n.kind <> 'M' in
  let rec team_of n = if is_founder n then n.id else team_of (find n.parent) in
  let teams = Hashtbl.create 16 in
  List.iter (fun n -> if is_founder n then Hashtbl.replace teams n.id (team_init (n.kind = 's'))) ns;
  let apply t e = match tstep (Hashtbl.find teams t) e with Some s -> Hashtbl.replace teams t s; true | None -> false in
  (* every body spawns its children before any gate opens, except a late member (kind 'M'): it spawns them when its own gate
     opens.  late_anc n = the nearest late ancestor of n (-1: none): n exists from the moment that ancestor's gate opens *)
  let rec late_anc n = if n.parent < 0 then -1 else let p = find n.parent in if p.kind = 'M' then p.id else late_anc p in
  let spawned = Hashtbl.create 16 in
  let spawn n = if n.parent >= 0 then begin
      let pt = team_of (find n.parent) in
      ignore (apply pt (if is_founder n then TSubteamNew else TMemberSpawn)) end;
    Hashtbl.replace spawned n.id () in
  List.iter (fun n -> if late_anc n = -1 then spawn n) ns;
  let opened = Hashtbl.create 16 in
  let reported = Hashtbl.create 16 in
  let settle () =
    let changed = ref true in
    while !changed do
      changed := false;
      List.iter (fun n -> if is_founder n then begin
          List.iter (fun e -> if apply n.id e then changed := true) [TLeaderWait1; TLeaderSubSubmit; TLeaderWait2; TLeaderExit];
          if (Hashtbl.find teams n.id).t_lph = LDone && not (Hashtbl.mem reported n.id) then begin
            Hashtbl.replace reported n.id ();
            if n.parent >= 0 then ignore (apply (team_of (find n.parent)) TSubteamDone);
            changed := true end end) ns
    done in
  List.iter (fun x ->
      Printf.printf "P %d" x;
      List.iter (fun n ->
          let may = if not (Hashtbl.mem spawned n.id) then true     (* not spawned yet: its location is an untouched word *)
            else if is_founder n then (Hashtbl.find teams n.id).t_lph = LDone else Hashtbl.mem opened n.id in
          Printf.printf " %d:%d" n.id (if may then 1 else 0)) ns;
      print_newline ();
      if x >= 0 then begin
        (* a negative token only satisfies a precondition: the member was counted from its spawn on, nothing changes *)
        Hashtbl.replace opened x ();
        let n = find x in
        if n.kind = 'M' then List.iter (fun d -> if late_anc d = n.id then spawn d) ns;   (* ids ascend: parents first *)
        if is_founder n then ignore (apply n.id TLeaderSubmit) else ignore (apply (team_of n) TMemberFinish);
        settle () end) order;
  print_string "J";
  List.iter (fun n ->
      let fin = if is_founder n then (Hashtbl.find teams n.id).t_lph = LDone else Hashtbl.mem opened n.id in
      if fin then Printf.printf " %d:%d" n.id (100 + n.id) else Printf.printf " %d:BLOCKED" n.id) ns;
  print_newline ();
  print_endline "E";
  nodes := []

let () =
  try while true do
    let line = String.trim (input_line stdin) in
    match String.split_on_char ' ' line with
    | ["V"; k; _variant; _shep; prefull; value] ->
      let kd = kind_of k in
      let v = z_of_string value in
      let s0 = { r_loc = { l_full = (prefull = "1"); l_val = z_of_u64 0xdeadL; l_subs = [] }; r_phase = PNew; r_fills = [] } in
      (match kd with
       | KAligned | KSyncvar ->
         let obs = observe kd s0 [QStatus; QStep OSpawn; QStatus; QStep OStart; QStatus; QStatus; QStatus; QStep (OReturn v);
                                  QStep OTeamFinish; QStep OFill; QReadFF; QStatus; QReadFE; QStatus; QStatus] in
         print_endline ("V 0 " ^ String.concat " " (List.map string_of_z obs))
       | _ ->
         let s = rrun kd s0 [OSpawn; OStart; OReturn v; OTeamFinish; OFill] in
         let sum = match s.r_loc.l_subs with [x] -> string_of_z x | _ -> "?" in
         Printf.printf "V 0 0 0 0 0 0 %s 0 %s 0 0\n" sum sum)
    | ["N"; id; parent; kind] -> nodes := { id = int_of_string id; parent = int_of_string parent; kind = kind.[0] } :: !nodes
    | "O" :: order -> run_tree (List.filter_map (fun s -> if s = "" then None else Some (int_of_string s)) order)
    | _ -> ()
  done with End_of_file -> ()
