(* driver for the extracted mpool model (C14): one command per line on stdin, one result line per command.
   Same script language as harness/c/c14_mpool.c (except E, which carries pagesize and the env value). *)
open C14_model
let rec pos_of_int n = if n = 1 then XH else if n land 1 = 0 then XO (pos_of_int (n lsr 1)) else XI (pos_of_int (n lsr 1))
let n_of_int n = if n = 0 then N0 else Npos (pos_of_int n)
let rec int_of_pos = function XH -> 1 | XO p -> 2 * int_of_pos p | XI p -> 2 * int_of_pos p + 1
let int_of_n = function N0 -> 0 | Npos p -> int_of_pos p
(* decimal strings up to 2^64-1 do not fit an OCaml int *)
let n_of_string s =
  let ten = n_of_int 10 in
  let r = ref N0 in
  String.iter (fun ch -> r := N.add (N.mul !r ten) (n_of_int (Char.code ch - 48))) s; !r
let pagesize = ref (n_of_int 4096)
let envmax = ref N0
let w = ref { w_max = N0; w_pools = [] }
let serials : (int, item) Hashtbl.t = Hashtbl.create 1024
let nser = ref 0
let pr_it p (s, i) = Printf.printf "%d.%d" (int_of_n s) (int_of_n i)
let pr_chain p l = List.iter (fun (x, bt) -> print_string " "; pr_it p x; print_string ":"; pr_it p bt) l
let step o = let (w', r) = world_step !pagesize !envmax !w o in w := w'; r
(* the same operation run alone on the micro-step machine (Mpool/Micro.v): its lock events, and its final pool,
   which must be the op-atomic result *)
let micro_solo p t o =
  let m0 = { m_pool = p; m_live = (match o with OFree x -> [x] | OAlloc -> []); m_rlock = None; m_plock = None;
             m_thr = [(t, { t_pc = Idle; t_prog = [o] })] } in
  let buf = Buffer.create 8 in
  let rec go m n =
    let th = get_thr t m.m_thr in
    if th.t_pc = Idle && th.t_prog = [] then Some m
    else if n = 0 then None
    else match mstep true m t with
      | None -> None
      | Some m' ->
        (match m.m_rlock, m'.m_rlock with None, Some _ -> Buffer.add_string buf "Lr" | Some _, None -> Buffer.add_string buf "Ur" | _ -> ());
        (match m.m_plock, m'.m_plock with None, Some _ -> Buffer.add_string buf "Lp" | Some _, None -> Buffer.add_string buf "Up" | _ -> ());
        go m' (n - 1) in
  match go m0 40 with
  | Some m -> ((if Buffer.length buf = 0 then "-" else Buffer.contents buf), Some m.m_pool)
  | None -> ("MICRO-STUCK", None)
let micro_check pid t o =
  (* call BEFORE the atomic step; returns a closure to call after it *)
  match get_pool pid !w.w_pools with
  | None -> (fun () -> "nopool")
  | Some p ->
    let (ev, mp) = micro_solo p t o in
    (fun () -> match get_pool pid !w.w_pools, mp with
       | Some p', Some q when p' = q -> ev
       | _ -> "MICRO<>ATOMIC")
let () =
  try while true do
    let line = input_line stdin in
    (match String.split_on_char ' ' (String.trim line) with
    | ["E"; ps; em] -> pagesize := n_of_string ps; envmax := n_of_string em; w := { w_max = N0; w_pools = [] }; print_endline "E"
    | ["C"; pid; sz; al; _api] ->
      (match step (WCreate (n_of_string pid, n_of_string sz, n_of_string al)) with
       | RStuck -> print_endline "C stuck"
       | _ -> (match get_pool (n_of_string pid) !w.w_pools with
           | Some p -> Printf.printf "C %d %d %d %d\n" (int_of_n p.p_item) (int_of_n p.p_align) (int_of_n p.p_alloc) (int_of_n p.p_ipa)
           | None -> print_endline "C stuck"))
    | ["A"; pid; tid] ->
      let tag = match get_pool (n_of_string pid) !w.w_pools with
        | Some p -> let c = get_cache (n_of_string tid) p.p_caches in
          if c.c_list <> [] then "cache" else if c.c_block <> None then "block" else if p.p_reuse <> [] then "reuse" else "newslab"
        | None -> "nopool" in
      let mc = micro_check (n_of_string pid) (n_of_string tid) OAlloc in
      (match step (WAlloc (n_of_string pid, n_of_string tid)) with
       | RItem x ->
         Hashtbl.replace serials !nser x; incr nser;
         (match get_pool (n_of_string pid) !w.w_pools with
          | Some p -> Printf.printf "A %d %d @%s %s\n" (int_of_n (fst x)) (int_of_n (offset_of p x)) tag (mc ())
          | None -> print_endline "A stuck")
       | _ -> Hashtbl.replace serials !nser (N0, N0); incr nser; print_endline "A stuck")
    | ["F"; pid; tid; k] ->
      (match Hashtbl.find_opt serials (int_of_string k) with
       | Some x ->
         let tag = match get_pool (n_of_string pid) !w.w_pools with
           | Some p -> let c = get_cache (n_of_string tid) p.p_caches in
             let cnt = int_of_n c.c_count + 1 and ipa = int_of_n p.p_ipa in
             if cnt >= 2 * ipa then "global" else if cnt = ipa + 1 then "chop" else "plain"
           | None -> "nopool" in
         let mc = micro_check (n_of_string pid) (n_of_string tid) (OFree x) in
         (match step (WFree (n_of_string pid, n_of_string tid, x)) with RUnit -> print_endline ("F ok @" ^ tag ^ " " ^ mc ()) | _ -> print_endline "F stuck")
       | None -> print_endline "F unknown-serial")
    | ["S"; pid; nt] ->
      (match get_pool (n_of_string pid) !w.w_pools with
       | Some p ->
         Printf.printf "S %d |" (int_of_n p.p_nslabs);
         pr_chain p p.p_reuse;
         for t = 0 to int_of_string nt - 1 do
           let c = get_cache (n_of_int t) p.p_caches in
           Printf.printf " | %d %s %d" (int_of_n c.c_count) (match c.c_block with Some s -> string_of_int (int_of_n s) | None -> "-") (int_of_n c.c_i);
           pr_chain p c.c_list
         done;
         print_newline ()
       | None -> print_endline "S none")
    | ["D"; pid] -> ignore (step (WDestroy (n_of_string pid))); print_endline "D"
    | ["X"] -> w := { !w with w_pools = [] }; Hashtbl.reset serials; nser := 0; print_endline "X"
    | _ -> print_endline ("ERR " ^ line))
  done with End_of_file -> ()
