(* driver for the extracted C09 extension-G models (Kernel/IdentMicro.v, Kernel/Reuse.v).
   stdin:  K <AC> <TL> | C <counter> | M <ntasks> <tid>.. | P <op>.. | N (forget the life-cycle state)
   stdout: the same lines as harness/c/c09_micro.c prints ("??" = unspecified byte) *)
open C09micro_model

let rec pos_of_i64 (x : int64) : positive =
  if Int64.equal x 1L then XH
  else if Int64.equal (Int64.logand x 1L) 0L then XO (pos_of_i64 (Int64.shift_right_logical x 1))
  else XI (pos_of_i64 (Int64.shift_right_logical x 1))
let n_of_i64 x = if Int64.equal x 0L then N0 else Npos (pos_of_i64 x)
let rec i64_of_pos = function
  | XH -> 1L
  | XO p -> Int64.shift_left (i64_of_pos p) 1
  | XI p -> Int64.logor (Int64.shift_left (i64_of_pos p) 1) 1L
let i64_of_n = function N0 -> 0L | Npos p -> i64_of_pos p
let n_of_int i = n_of_i64 (Int64.of_int i)
let int_of_n x = Int64.to_int (i64_of_n x)
let n_of_string s = n_of_i64 (Int64.of_string ("0u" ^ s))
let string_of_n x = Printf.sprintf "%Lu" (i64_of_n x)
let rec nat_of_int i = if i <= 0 then O else S (nat_of_int (i - 1))
let int_of_nat n = let rec go acc = function O -> acc | S m -> go (acc + 1) m in go 0 n

let junk_byte = n_of_int 256
let junk (_ : nat) = junk_byte
let hex bs =
  let b = Buffer.create 64 in
  List.iter (fun x -> let v = int_of_n x in if v > 255 then Buffer.add_string b "??" else Buffer.add_string b (Printf.sprintf "%02x" v)) bs;
  Buffer.contents b
let byte_tab = Array.init 256 n_of_int
let pat seed i = byte_tab.((seed * 131 + i * 7 + (i lsr 8)) land 0xff)
let argbytes slot argsz =
  List.init argsz (fun i -> if i < 4 then byte_tab.((slot lsr (8 * i)) land 0xff) else pat (7000 + slot) i)

let cfg = ref { aC = nat_of_int 1024; tL = nat_of_int 8 }
let counter = ref (n_of_int 1)
let life : rst option ref = ref None

(* ---------------- micro-step runs ---------------- *)
let micro n sched =
  let s = ref (init0 !counter) in
  let grant t =
    s := run_to_sp !s (nat_of_int t);
    let tk = !s.s_tasks0 (nat_of_int t) in
    let (k, v) = match tk.t_pc with
      | PIdle -> ("R", (match tk.t_rets with r :: _ -> string_of_n r | [] -> "?"))
      | PDraw1 | PDrawNon -> ("I", "1")
      | PDrawNull -> ("I", "2")
      | _ -> ("?", "?") in
    Printf.printf "g %d %s %s %d %s %s\n" t k v (int_of_nat tk.t_draws) (string_of_n tk.t_fld) (string_of_n !s.s_ctr) in
  List.iter (fun t -> if t >= 0 && t < n then grant t) sched;
  for k = 0 to n - 1 do
    while (match (!s.s_tasks0 (nat_of_int k)).t_pc with PIdle -> false | _ -> true) do grant k done
  done;
  counter := !s.s_ctr;
  print_endline "E"

(* ---------------- life-cycle scripts ---------------- *)
let parse_op s =
  let c = s.[0] in
  let rest = String.sub s 1 (String.length s - 1) in
  match String.split_on_char ':' rest with
  | [k] -> (c, int_of_string k, 0)
  | [k; a] -> (c, int_of_string k, int_of_string a)
  | _ -> (c, -1, 0)

let script ops =
  let st = ref (match !life with Some s -> { s with r_ctr = !counter } | None -> rinit !counter) in
  let do_op (c, k, a) =
    if k >= 0 && k < 16 then begin
      let tid = n_of_int k in
      let task () = aget !st.r_tl.s_tasks tid in
      match c with
      | 's' ->
        (match task () with
         | Some _ -> Printf.printf "s %d dup\n" k
         | None ->
           st := fst (rstep !cfg junk !st (RSpawn (tid, argbytes k a)));
           (match task (), desc_of !st tid, live_fld !st tid with
            | Some t, Some d, Some f ->
              Printf.printf "s %d %s %d %d %s %d 1\n" k (string_of_n d) (if t.t_big then 1 else 0)
                (match t.t_arg with ArgHeap (_, _) -> 1 | _ -> 0) (string_of_n f) (int_of_nat t.t_tlsz)
            | _ -> Printf.printf "s %d ?\n" k))
      | _ when task () = None -> Printf.printf "%c %d dead\n" c k
      | 'i' ->
        let (s', r) = rstep !cfg junk !st (RId tid) in
        st := s';
        Printf.printf "i %d %s %s %s\n" k (match r with Some r -> string_of_n r | None -> "?")
          (match live_fld !st tid with Some f -> string_of_n f | None -> "?") (string_of_n !st.r_ctr)
      | 'g' ->
        st := fst (rstep !cfg junk !st (RGet (tid, nat_of_int a)));
        let avail = match size_tasklocal !cfg !st.r_tl tid with Some n -> int_of_nat n | None -> -1 in
        let (tlsz, off) = match task () with Some t -> (int_of_nat t.t_tlsz, int_of_nat (tl_off !cfg t)) | None -> (-1, -1) in
        let view = match tl_view !cfg !st.r_tl tid with Some v -> v | None -> [] in
        (match tl_region !cfg !st.r_tl tid with
         | Some (RDesc (_, o, _)) -> Printf.printf "g %d D %d %d %d %s\n" k (int_of_nat o) avail tlsz (hex view)
         | Some (RBlob (_, _)) -> Printf.printf "g %d B %d %d %d %s\n" k off avail tlsz (hex view)
         | None -> Printf.printf "g %d ?\n" k)
      | 'w' ->
        st := fst (rstep !cfg junk !st (RWrite (tid, n_of_int a)));
        Printf.printf "w %d\n" k
      | 'f' ->
        (match task () with
         | Some t ->
           let blob = int_of_nat t.t_tlsz > 0 in
           Printf.printf "f %d %d %d 1 %d\n" k (if blob then 1 else 0) (match t.t_arg with ArgHeap (_, _) -> 1 | _ -> 0) (if blob then 1 else -1)
         | None -> ());
        st := fst (rstep !cfg junk !st (RFree tid))
      | _ -> Printf.printf "%c %d\n" c k
    end in
  List.iter do_op ops;
  counter := !st.r_ctr;
  life := Some !st;
  print_endline "E"

let () =
  try while true do
    let line = String.trim (input_line stdin) in
    let toks = List.filter (fun s -> s <> "") (String.split_on_char ' ' line) in
    match toks with
    | ["K"; ac; tl] -> cfg := { aC = nat_of_int (int_of_string ac); tL = nat_of_int (int_of_string tl) }
    | ["C"; c] -> counter := n_of_string c
    | "M" :: n :: sched -> micro (int_of_string n) (List.map int_of_string sched)
    | "P" :: ops -> script (List.map parse_op ops)
    | ["N"] -> life := None
    | _ -> ()
  done with End_of_file -> ()
