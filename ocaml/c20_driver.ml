(* driver for the extracted C20 model: one command per line on stdin, one result line per command.
   Integers travel in binary ("-1011", "0") because slot values use all 64 bits. *)
open C20_model
let rec nat_of_int n = if n <= 0 then O else S (nat_of_int (n - 1))
let rec int_of_nat = function O -> 0 | S n -> 1 + int_of_nat n
let pos_of_bits s =            (* s starts with '1' *)
  let p = ref XH in
  for i = 1 to String.length s - 1 do p := if s.[i] = '1' then XI !p else XO !p done; !p
let z_of_bits s =
  if s = "0" then Z0 else if s.[0] = '-' then Zneg (pos_of_bits (String.sub s 1 (String.length s - 1))) else Zpos (pos_of_bits s)
let rec bits_of_pos p = match p with XH -> "1" | XO q -> bits_of_pos q ^ "0" | XI q -> bits_of_pos q ^ "1"
let bits_of_z = function Z0 -> "0" | Zpos p -> bits_of_pos p | Zneg p -> "-" ^ bits_of_pos p
let ascii_of_char c =
  let n = Char.code c in let b i = (n lsr i) land 1 = 1 in Ascii (b 0, b 1, b 2, b 3, b 4, b 5, b 6, b 7)
let char_of_ascii (Ascii (a, b, c, d, e, f, g, h)) =
  let v x i = if x then 1 lsl i else 0 in Char.chr (v a 0 + v b 1 + v c 2 + v d 3 + v e 4 + v f 5 + v g 6 + v h 7)
let cstring s = let r = ref EmptyString in for i = String.length s - 1 downto 0 do r := String (ascii_of_char s.[i], !r) done; !r
let rec ostring = function EmptyString -> "" | String (a, r) -> String.make 1 (char_of_ascii a) ^ ostring r
let b2i b = if b then 1 else 0
let words l = List.filter (fun s -> s <> "") (String.split_on_char ' ' (String.trim l))
let () =
  try while true do
    let line = input_line stdin in
    (match words line with
     | ["T"] ->
       (* static facts of the generated tables *)
       let ws = List.map (fun w ->
           let rs = job_runs switch_body proxy_tail end_action_events w in
           Printf.sprintf "%s:%d:%d:%d:%d:%d:%d" (ostring w.w_name) (int_of_nat (op_idx w.w_op))
             (b2i (is_syscall_wrapper switch_body w)) (b2i (wrapper_ok switch_body w)) (b2i (wrapper_wf w))
             (List.length rs) (b2i (List.for_all trace_ok rs))) wrappers in
       let ds = List.map (fun o -> Printf.sprintf "%d=%s%s" (int_of_nat (op_idx o))
                             (String.concat "," (List.map (fun c -> string_of_int (int_of_nat (sys_idx (call_name c)))) (dispatch switch_body o)))
                             (if has_case switch_body o then "" else "!nocase")) all_ops in
       let nj = List.map (fun ((n, p), y) -> Printf.sprintf "%s:%d:%d" (ostring n) (b2i p) (b2i y)) nojob_wrappers in
       Printf.printf "T W %s D %s N %s E %d %d\n" (String.concat " " ws) (String.concat " " ds) (String.concat " " nj)
         (b2i (errno_carried switch_body proxy_tail wrappers)) (b2i (errno_absent proxy_tail wrappers))
     | ["R"; wname; e0; gerr; ret; err] ->
       (* caller's errno after a wrapper call, per the generated tables *)
       (match find_wrapper wrappers (cstring wname) with
        | None -> print_endline "ERR no such wrapper in the generated table"
        | Some w -> print_endline ("R " ^ bits_of_z (errno_after_wrapper proxy_tail w (z_of_bits e0) (z_of_bits gerr) (z_of_bits ret) (z_of_bits err))))
     | "C" :: wname :: gfill :: rest ->
       (* C <wrapper> <garbage 0|1> <thr> r <rets...> p <params...> *)
       (match find_wrapper wrappers (cstring wname) with
        | None -> print_endline "ERR no such wrapper in the generated table"
        | Some w ->
          let rec split acc = function "p" :: ps -> (List.rev acc, ps) | x :: t -> split (x :: acc) t | [] -> (List.rev acc, []) in
          (match rest with
           | thr :: "r" :: t ->
             let (rets, params) = split [] t in
             let g = if gfill = "1" then z_of_bits (String.make 64 '1') else Z0 in
             let (calls, r) = trace_call switch_body w (List.map z_of_bits params) [g; g; g; g; g] (List.map z_of_bits rets) (z_of_bits thr) in
             let cs = List.map (fun (f, args) -> Printf.sprintf "S %d %s" (int_of_nat (sys_idx f)) (String.concat " " (List.map bits_of_z args))) calls in
             Printf.printf "%s | R %s\n" (String.concat " | " cs) (match r with Some v -> bits_of_z v | None -> "void")
           | _ -> print_endline "ERR"))
     | "J" :: wname :: codes ->
       (match find_wrapper wrappers (cstring wname) with
        | None -> print_endline "ERR no such wrapper in the generated table"
        | Some w ->
          let obs = List.map (fun c -> nat_of_int (int_of_string c)) codes in
          print_endline (if accept_trace switch_body proxy_tail end_action_events w obs then "ok" else "reject"))
     | "X" :: wname :: [] ->
       (* the observable traces the model allows for this wrapper *)
       (match find_wrapper wrappers (cstring wname) with
        | None -> print_endline "ERR"
        | Some w ->
          let rs = job_runs switch_body proxy_tail end_action_events w in
          let show tr = String.concat "," (List.map (fun e -> string_of_int (int_of_nat (obs_code e))) (List.filter observable tr)) in
          print_endline ("X " ^ String.concat " " (List.sort_uniq compare (List.map show rs))))
     | _ -> print_endline "ERR");
    flush stdout
  done with End_of_file -> ()
