(* driver for the extracted C18 machine (Atomics/Model.v over GenShape.gen_shape).
   commands (one per line):
     K                      -> "K <shape_ok> <mcfg_ok of each machine>"
     C idx fkind            select machine idx of cfgs_of gen_shape; fkind i|f|d = integer / float32 / float64 addition
     I hex                  initial cell
     P op op ...            program of the next thread: i<hex> OIncr, l<hex> OLoop, c<hex>:<hex> OCas
     S tid tid ...          append to the schedule
     G                      run: "R <cell> <finished>", "T tid ret ret ..." per thread, "E"; then reset
     A hex  o:r o:r ...     sequential acceptor on a history (ops as above, r = returned value): "A <final>|reject" *)
open C18_model

let rec nat_of_int n = if n <= 0 then O else S (nat_of_int (n - 1))
let z_of_int n = let rec pos n = if n = 1 then XH else if n land 1 = 0 then XO (pos (n lsr 1)) else XI (pos (n lsr 1)) in
  if n = 0 then Z0 else Zpos (pos n)
let z16 = z_of_int 16
let z_of_hex s =
  let z = ref Z0 in
  String.iter (fun ch ->
      let d = match ch with '0'..'9' -> Char.code ch - 48 | 'a'..'f' -> Char.code ch - 87 | 'A'..'F' -> Char.code ch - 55 | _ -> failwith "hex" in
      z := Z.add (Z.mul !z z16) (z_of_int d)) s;
  !z
let int64_of_z z =
  let rec pos = function XH -> 1L | XO p -> Int64.shift_left (pos p) 1 | XI p -> Int64.logor (Int64.shift_left (pos p) 1) 1L in
  match z with Z0 -> 0L | Zpos p -> pos p | Zneg p -> Int64.neg (pos p)
let hex_of_z z = Printf.sprintf "%Lx" (int64_of_z z)
let z_of_int64 (x : int64) = z_of_hex (Printf.sprintf "%Lx" x)

let fadd_of kind m =
  match kind with
  | "f" -> fun a b ->
    let fa = Int32.float_of_bits (Int64.to_int32 (int64_of_z a)) and fb = Int32.float_of_bits (Int64.to_int32 (int64_of_z b)) in
    z_of_int64 (Int64.logand (Int64.of_int32 (Int32.bits_of_float (fa +. fb))) 0xFFFFFFFFL)
  | "d" -> fun a b ->
    z_of_int64 (Int64.bits_of_float (Int64.float_of_bits (int64_of_z a) +. Int64.float_of_bits (int64_of_z b)))
  | _ -> iadd m

let parse_op s =
  let body = String.sub s 1 (String.length s - 1) in
  match s.[0] with
  | 'i' -> OIncr (z_of_hex body)
  | 'l' -> OLoop (z_of_hex body)
  | 'c' -> (match String.split_on_char ':' body with [o; n] -> OCas (z_of_hex o, z_of_hex n) | _ -> failwith "cas")
  | _ -> failwith "op"

let () =
  let cfgs = Array.of_list (cfgs_of gen_shape) in
  let cfg = ref cfgs.(0) and fk = ref "i" and init = ref Z0 and progs = ref [] and sched = ref [] in
  try while true do
      let line = String.trim (input_line stdin) in
      let toks = List.filter (fun s -> s <> "") (String.split_on_char ' ' line) in
      (try match toks with
        | ["K"] ->
          Printf.printf "K %b%s\n" (shape_ok gen_shape) (String.concat "" (List.map (fun c -> Printf.sprintf " %b" (mcfg_ok c)) (Array.to_list cfgs)))
        | ["C"; idx; k] -> cfg := cfgs.(int_of_string idx); fk := k; print_endline "C"
        | ["I"; h] -> init := z_of_hex h; print_endline "I"
        | "P" :: ops -> progs := List.map parse_op ops :: !progs; print_endline "P"
        | "S" :: tids -> sched := List.rev_append (List.map (fun t -> nat_of_int (int_of_string t)) tids) !sched; print_endline "S"
        | ["G"] ->
          let fadd = fadd_of !fk (m_M !cfg) in
          let s = run fadd !cfg (init_st !init (List.rev !progs)) (List.rev !sched) in
          Printf.printf "R %s %b\n" (hex_of_z s.cell) (finished s);
          List.iteri (fun i rs -> Printf.printf "T %d%s\n" i (String.concat "" (List.map (fun r -> " " ^ hex_of_z r) rs))) (all_rets s);
          print_endline "E";
          progs := []; sched := []
        | "A" :: h :: hist ->
          let fadd = fadd_of !fk (m_M !cfg) in
          let hs = List.map (fun s -> match String.split_on_char '/' s with [o; r] -> (parse_op o, z_of_hex r) | _ -> failwith "hist") hist in
          (match seq_accept fadd (m_M !cfg) (z_of_hex h) hs with Some v -> Printf.printf "A %s\n" (hex_of_z v) | None -> print_endline "A reject")
        | [] -> ()
        | _ -> print_endline "ERR"
      with Failure m -> print_endline ("ERR " ^ m))
    done with End_of_file -> ()
