(* driver for the extracted barrier model (Barrier/Model.v).
   input : C <n> <maxb> <E> <r1> <r2> ...      one case: n participants, adaptive schedule r_k (cycled)
   output: one line per micro-step  "<tid> <kind> <in> <out> <blockers> | <pc>:<ep> ... [R <k> <mincalls>]"
           then "END done|deadlock <steps>" *)
open C11_model
let rec nat_of_int n = if n <= 0 then O else S (nat_of_int (n - 1))
let rec int_of_nat = function O -> 0 | S n -> 1 + int_of_nat n
let rec pos_of_int n = if n = 1 then XH else if n land 1 = 0 then XO (pos_of_int (n lsr 1)) else XI (pos_of_int (n lsr 1))
let z_of_int n = if n = 0 then Z0 else if n > 0 then Zpos (pos_of_int n) else Zneg (pos_of_int (-n))
let rec int_of_pos = function XH -> 1 | XO p -> 2 * int_of_pos p | XI p -> 2 * int_of_pos p + 1
let int_of_z = function Z0 -> 0 | Zpos p -> int_of_pos p | Zneg p -> - (int_of_pos p)
let pcname = function
  | PCall -> "Call" | PIn -> "In" | PInW -> "InW" | PInc -> "Inc" | PEmpIn -> "EmpIn" | PFillOut -> "FillOut"
  | POut -> "Out" | POutW -> "OutW" | PDec -> "Dec" | PEmpOut -> "EmpOut" | PFillIn -> "FillIn"
let b2i b = if b then 1 else 0
let () =
  try while true do
    let line = input_line stdin in
    match String.split_on_char ' ' (String.trim line) with
    | "C" :: n :: maxb :: e :: rs ->
      let n = int_of_string n and maxb = z_of_int (int_of_string maxb) and e = nat_of_int (int_of_string e) in
      let rs = Array.of_list (List.map int_of_string rs) in
      let s = ref (init (nat_of_int n)) in
      let k = ref 0 and fin = ref false in
      while not !fin do
        if all_done e !s then (Printf.printf "END done %d\n" !k; fin := true)
        else begin
          let r = if Array.length rs = 0 then 0 else rs.(!k mod Array.length rs) in
          match pick maxb e !s (nat_of_int r) with
          | None -> Printf.printf "END deadlock %d\n" !k; fin := true
          | Some i ->
            let ii = int_of_nat i in
            let told = List.nth !s.thrs ii in
            (match step maxb e !s i with
             | None -> Printf.printf "END modelerror %d\n" !k; fin := true
             | Some s' ->
               s := s'; incr k;
               Printf.printf "%d %s %d %d %d |" ii (pcname told.t_pc) (b2i s'.in_full) (b2i s'.out_full) (int_of_z s'.blockers);
               List.iter (fun t -> Printf.printf " %s:%d" (pcname t.t_pc) (int_of_nat t.t_ep)) s'.thrs;
               let tnew = List.nth s'.thrs ii in
               if int_of_nat tnew.t_ep > int_of_nat told.t_ep then
                 Printf.printf " R %d %d" (int_of_nat tnew.t_ep) (int_of_nat (min_calls s'));
               print_newline ())
        end
      done
    | _ -> print_endline "ERR"
  done with End_of_file -> ()
