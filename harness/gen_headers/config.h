/* include/config.h.  Generated from config.h.in by configure.  */
/* include/config.h.in.  Generated from configure.ac by autoheader.  */

/* Define if bitfields are in forward order */
/* #undef BITFIELD_ORDER_FORWARD */

/* Define if bitfields are in reverse order */
#define BITFIELD_ORDER_REVERSE 1

/* The cacheline width */
#define CACHELINE_WIDTH 64

/* Support dynamic profile of CAS steal infomation */
/* #undef CAS_STEAL_PROFILE */

/* if the compiler supports inline assembly, we can prevent reordering */
#define COMPILER_FENCE __asm__ __volatile__ ("":::"memory")

/* solaris 8 requires argc be one larger than the actual count of arguments */
/* #undef EXTRA_MAKECONTEXT_ARGC */

/* define if compiler supports __builtin_prefetch */
#define HAS_BUILTIN_PREFETCH 1

/* Define if `calloc'ing more than 16 bytes always returns a 16-byte-aligned
   address (common practice on MacOS X). */
#define HAVE_16ALIGNED_CALLOC 1

/* Define if `malloc'ing more than 16 bytes always returns a 16-byte-aligned
   address (common practice on MacOS X). */
#define HAVE_16ALIGNED_MALLOC 1

/* Define to 1 if you have the <assert.h> header file. */
#define HAVE_ASSERT_H 1

/* Define if the compiler supports GNU-style __FUNCTION__. */
/* #undef HAVE_C99_FUNC */

/* Define if the compiler supports C99 variadic macros. */
#define HAVE_C99_VAMACROS 1

/* Define to 1 if you have the declaration of `MADV_ACCESS_LWP', and to 0 if
   you don't. */
#define HAVE_DECL_MADV_ACCESS_LWP 0

/* Define to 1 if you have the declaration of `SYS_accept', and to 0 if you
   don't. */
/* #undef HAVE_DECL_SYS_ACCEPT */

/* Define to 1 if you have the declaration of `SYS_connect', and to 0 if you
   don't. */
/* #undef HAVE_DECL_SYS_CONNECT */

/* Define to 1 if you have the declaration of `SYS_nanosleep', and to 0 if you
   don't. */
/* #undef HAVE_DECL_SYS_NANOSLEEP */

/* Define to 1 if you have the declaration of `SYS_poll', and to 0 if you
   don't. */
/* #undef HAVE_DECL_SYS_POLL */

/* Define to 1 if you have the declaration of `SYS_pread', and to 0 if you
   don't. */
/* #undef HAVE_DECL_SYS_PREAD */

/* Define to 1 if you have the declaration of `SYS_pwrite', and to 0 if you
   don't. */
/* #undef HAVE_DECL_SYS_PWRITE */

/* Define to 1 if you have the declaration of `SYS_read', and to 0 if you
   don't. */
/* #undef HAVE_DECL_SYS_READ */

/* Define to 1 if you have the declaration of `SYS_select', and to 0 if you
   don't. */
/* #undef HAVE_DECL_SYS_SELECT */

/* Define to 1 if you have the declaration of `SYS_sleep', and to 0 if you
   don't. */
/* #undef HAVE_DECL_SYS_SLEEP */

/* Define to 1 if you have the declaration of `SYS_system', and to 0 if you
   don't. */
/* #undef HAVE_DECL_SYS_SYSTEM */

/* Define to 1 if you have the declaration of `SYS_usleep', and to 0 if you
   don't. */
/* #undef HAVE_DECL_SYS_USLEEP */

/* Define to 1 if you have the declaration of `SYS_wait4', and to 0 if you
   don't. */
/* #undef HAVE_DECL_SYS_WAIT4 */

/* Define to 1 if you have the declaration of `SYS_write', and to 0 if you
   don't. */
/* #undef HAVE_DECL_SYS_WRITE */

/* Define to 1 if you have the <dlfcn.h> header file. */
#define HAVE_DLFCN_H 1

/* Define to 1 if you don't have `vprintf' but do have `_doprnt.' */
/* #undef HAVE_DOPRNT */

/* Define to 1 if you have the <fcntl.h> header file. */
#define HAVE_FCNTL_H 1

/* Define to 1 if you have the `fstat64' function. */
#define HAVE_FSTAT64 1

/* Whether C compiler supports GCC style inline assembly */
#define HAVE_GCC_INLINE_ASSEMBLY 1

/* Define to 1 if you have the `getcontext' function. */
#define HAVE_GETCONTEXT 1

/* Define to 1 if you have the `getpagesize' function. */
#define HAVE_GETPAGESIZE 1

/* Define to 1 if you have the `getrlimit' function. */
/* #undef HAVE_GETRLIMIT */

/* Define if the compiler supports GNU-style __FUNCTION__. */
#define HAVE_GNU_FUNCTION 1

/* Define if the compiler supports GNU-style variadic macros. */
#define HAVE_GNU_VAMACROS 1

/* Define to 1 if you have the <hwloc.h> header file. */
#define HAVE_HWLOC_H 1

/* define if you have HW_NCPU and CTL_HW */
/* #undef HAVE_HW_NCPU */

/* Define to 1 if you have the <ia32intrin.h> header file. */
/* #undef HAVE_IA32INTRIN_H */

/* Define to 1 if you have the <ia64intrin.h> header file. */
/* #undef HAVE_IA64INTRIN_H */

/* Define to 1 if you have the <inttypes.h> header file. */
#define HAVE_INTTYPES_H 1

/* Have math library */
#define HAVE_LIBM 1

/* Define to 1 if you have the <linux/mmtimer.h> header file. */
#define HAVE_LINUX_MMTIMER_H 1

/* Define to 1 if you have the `lseek64' function. */
#define HAVE_LSEEK64 1

/* Define to 1 if you have the <mach/mach_init.h> header file. */
/* #undef HAVE_MACH_MACH_INIT_H */

/* Define to 1 if you have the <mach/mach_time.h> header file. */
/* #undef HAVE_MACH_MACH_TIME_H */

/* Define to 1 if you have the <mach/thread_policy.h> header file. */
/* #undef HAVE_MACH_THREAD_POLICY_H */

/* Define to 1 if you have the `madvise' function. */
#define HAVE_MADVISE 1

/* Define to 1 if you have the `makecontext' function. */
#define HAVE_MAKECONTEXT 1

/* Define to 1 if you have the <malloc.h> header file. */
#define HAVE_MALLOC_H 1

/* Define to 1 if you have the <math.h> header file. */
#define HAVE_MATH_H 1

/* Define to 1 if you have the `memalign' function. */
#define HAVE_MEMALIGN 1

/* Define to 1 if you have the `memcpy' function. */
#define HAVE_MEMCPY 1

/* Define to 1 if you have the `memmove' function. */
#define HAVE_MEMMOVE 1

/* Define to 1 if you have the `memset' function. */
#define HAVE_MEMSET 1

/* Define to 1 if you have the <minix/config.h> header file. */
/* #undef HAVE_MINIX_CONFIG_H */

/* Define to 1 if you have a working `mmap' system call. */
#define HAVE_MMAP 1

/* Define to 1 if you have the `munmap' function. */
#define HAVE_MUNMAP 1

/* The system provides functional native make/swap/get-context functions */
/* #undef HAVE_NATIVE_MAKECONTEXT */

/* Define to 1 if you have the `numa_bitmask_nbytes' function. */
/* #undef HAVE_NUMA_BITMASK_NBYTES */

/* Define to 1 if you have the `numa_distance' function. */
/* #undef HAVE_NUMA_DISTANCE */

/* Define to 1 if you have the <numa.h> header file. */
/* #undef HAVE_NUMA_H */

/* Define to 1 if you have the `numa_num_configured_cpus' function. */
/* #undef HAVE_NUMA_NUM_CONFIGURED_CPUS */

/* Define to 1 if you have the `numa_num_thread_cpus' function. */
/* #undef HAVE_NUMA_NUM_THREAD_CPUS */

/* Define if `malloc'ing more than one page always returns a page-aligned
   address. */
/* #undef HAVE_PAGE_ALIGNED_MALLOC */

/* Define to 1 if you have the `posix_memalign' function. */
#define HAVE_POSIX_MEMALIGN 1

/* Define to 1 if you have the `processor_bind' function. */
/* #undef HAVE_PROCESSOR_BIND */

/* have access to the PTHREAD_PROCESS_PRIVATE constant */
#define HAVE_PTHREAD_PROCESS_PRIVATE 1

/* Define to 1 if you have the `pthread_spin_init' function. */
#define HAVE_PTHREAD_SPIN_INIT 1

/* Define to 1 if you have the `pthread_yield' function. */
/* #undef HAVE_PTHREAD_YIELD */

/* Define to 1 if you have the `qsort_r' function. */
#define HAVE_QSORT_R 1

/* Define to 1 if you have the <sched.h> header file. */
#define HAVE_SCHED_H 1

/* Define to 1 if you have the `sched_yield' function. */
#define HAVE_SCHED_YIELD 1

/* Define if _SC_CLK_TCK is available. */
#define HAVE_SC_CLK_TCK 1

/* define if you have _SC_NPROCESSORS_CONF */
/* #undef HAVE_SC_NPROCESSORS_CONF */

/* Define to 1 if you have the `setrlimit' function. */
/* #undef HAVE_SETRLIMIT */

/* Define to 1 if you have the <signal.h> header file. */
#define HAVE_SIGNAL_H 1

/* Define to 1 if you have the <sn/mmtimer.h> header file. */
/* #undef HAVE_SN_MMTIMER_H */

/* Define to 1 if you have the <stdarg.h> header file. */
#define HAVE_STDARG_H 1

/* Define to 1 if you have the <stdint.h> header file. */
#define HAVE_STDINT_H 1

/* Define to 1 if you have the <stdio.h> header file. */
#define HAVE_STDIO_H 1

/* Define to 1 if you have the <stdlib.h> header file. */
#define HAVE_STDLIB_H 1

/* Define to 1 if you have the <strings.h> header file. */
#define HAVE_STRINGS_H 1

/* Define to 1 if you have the <string.h> header file. */
#define HAVE_STRING_H 1

/* Define to 1 if you have the `strtol' function. */
#define HAVE_STRTOL 1

/* Define to 1 if you have the `swapcontext' function. */
#define HAVE_SWAPCONTEXT 1

/* Define to 1 if you have the `syscall' function. */
#define HAVE_SYSCALL 1

/* Define to 1 if you have the `sysconf' function. */
#define HAVE_SYSCONF 1

/* Define to 1 if you have the `sysctl' function. */
/* #undef HAVE_SYSCTL */

/* Define to 1 if you have the <sys/inttypes.h> header file. */
/* #undef HAVE_SYS_INTTYPES_H */

/* Define to 1 if you have the <sys/ioctl.h> header file. */
#define HAVE_SYS_IOCTL_H 1

/* Define to 1 if you have the <sys/lgrp_user.h> header file. */
/* #undef HAVE_SYS_LGRP_USER_H */

/* Define to 1 if you have the <sys/mman.h> header file. */
#define HAVE_SYS_MMAN_H 1

/* Define to 1 if you have the <sys/param.h> header file. */
#define HAVE_SYS_PARAM_H 1

/* Define to 1 if you have the <sys/resource.h> header file. */
#define HAVE_SYS_RESOURCE_H 1

/* Define to 1 if you have the <sys/stat.h> header file. */
#define HAVE_SYS_STAT_H 1

/* Define to 1 if you have the <sys/syscall.h> header file. */
#define HAVE_SYS_SYSCALL_H 1

/* Define to 1 if you have the <sys/sysctl.h> header file. */
/* #undef HAVE_SYS_SYSCTL_H */

/* Define to 1 if you have the <sys/time.h> header file. */
#define HAVE_SYS_TIME_H 1

/* Define to 1 if you have the <sys/types.h> header file. */
#define HAVE_SYS_TYPES_H 1

/* Define to 1 if you have the <sys/ucontext.h> header file. */
#define HAVE_SYS_UCONTEXT_H 1

/* Define to 1 if you have the <sys/utsname.h> header file. */
#define HAVE_SYS_UTSNAME_H 1

/* Define to 1 if you have <sys/wait.h> that is POSIX.1 compatible. */
#define HAVE_SYS_WAIT_H 1

/* Define to 1 if you have the <tmc/cpus.h> header file. */
/* #undef HAVE_TMC_CPUS_H */

/* Define to 1 if you have the <ucontext.h> header file. */
#define HAVE_UCONTEXT_H 1

/* Define to 1 if you have the <unistd.h> header file. */
#define HAVE_UNISTD_H 1

/* compiler understands __attribute__((unused)) */
#define HAVE_UNUSED 1

/* Define to 1 if you have the <valgrind/memcheck.h> header file. */
/* #undef HAVE_VALGRIND_MEMCHECK_H */

/* Define to 1 if you have the `vprintf' function. */
#define HAVE_VPRINTF 1

/* Define to 1 if you have the <wchar.h> header file. */
#define HAVE_WCHAR_H 1

/* Define if `valloc'ed memory can be `free'd. */
#define HAVE_WORKING_VALLOC 1

/* make the ss_sp member of uc_stack be the high-address of the stack, rather
   than the low-address of the stack */
/* #undef INVERSE_STACK_POINTER */

/* Define to use a lock-free hash table for FEB metadata. */
/* #undef LOCK_FREE_FEBS */

/* Define to the sub-directory where libtool stores uninstalled libraries. */
#define LT_OBJDIR ".libs/"

/* if the compiler supports __sync_synchronize (fallback to COMPILER_FENCE) */
#define MACHINE_FENCE __sync_synchronize()

/* Whether the library should use get/set rlimit functions */
/* #undef NEED_RLIMIT */

/* Define to the address where bug reports for this package should be sent. */
#define PACKAGE_BUGREPORT "wg-qthread@sandia.gov"

/* Define to the full name of this package. */
#define PACKAGE_NAME "qthread"

/* Define to the full name and version of this package. */
#define PACKAGE_STRING "qthread 1.16"

/* Define to the one symbol short name of this package. */
#define PACKAGE_TARNAME "qthread"

/* Define to the home page for this package. */
#define PACKAGE_URL ""

/* Define to the version of this package. */
#define PACKAGE_VERSION "1.16"

/* this signifies that pthread_mutex_t is small enough to fit in the existing
   data structures */
#define PTHREAD_MUTEX_SMALL_ENOUGH 1

/* Allow function inlining to be toggled */
#define QINLINE inline

/* specifying data alignment is allowed */
#define QTHREAD_ALIGNEDDATA_ALLOWED 1

/* alignment of aligned_t */
#define QTHREAD_ALIGNMENT_ALIGNED_T 8

/* Support HPCToolkit stack unwinding */
/* #undef QTHREAD_ALLOW_HPCTOOLKIT_STACK_UNWINDING */

/* Architecture type of assembly to use */
#define QTHREAD_ASSEMBLY_ARCH QTHREAD_AMD64

/* if the compiler supports __sync_val_compare_and_swap */
#define QTHREAD_ATOMIC_CAS 1

/* if the compiler supports __sync_val_compare_and_swap on 32-bit ints */
#define QTHREAD_ATOMIC_CAS32 1

/* if the compiler supports __sync_val_compare_and_swap on 64-bit ints */
#define QTHREAD_ATOMIC_CAS64 1

/* if the compiler supports __sync_val_compare_and_swap on pointers */
#define QTHREAD_ATOMIC_CAS_PTR 1

/* if the compiler supports __sync_fetch_and_add */
#define QTHREAD_ATOMIC_INCR 1

/* use pthread-based condwait for lf queue */
/* #undef QTHREAD_CONDWAIT_BLOCKING_QUEUE */

/* keeps track of the number of threads */
/* #undef QTHREAD_COUNT_THREADS */

/* enables printing debugging information at runtime */
/* #undef QTHREAD_DEBUG */

/* prints out affinity debugging information at runtime */
/* #undef QTHREAD_DEBUG_AFFINITY */

/* prints out barrier debugging information at runtime */
/* #undef QTHREAD_DEBUG_BARRIER */

/* prints out core debugging information at runtime */
/* #undef QTHREAD_DEBUG_CORE */

/* prints out feb debugging information at runtime */
/* #undef QTHREAD_DEBUG_FEBS */

/* prints out futurelib debugging information at runtime */
/* #undef QTHREAD_DEBUG_FUTURELIB */

/* prints out I/O debugging information at runtime */
/* #undef QTHREAD_DEBUG_IO */

/* prints out loop debugging information at runtime */
/* #undef QTHREAD_DEBUG_LOOPS */

/* prints out memory pool debugging information at runtime */
/* #undef QTHREAD_DEBUG_MPOOL */

/* prints out multinode debugging information at runtime */
/* #undef QTHREAD_DEBUG_MULTINODE */

/* prints out qarray debugging information at runtime */
/* #undef QTHREAD_DEBUG_QARRAY */

/* prints out shepherd debugging information at runtime */
/* #undef QTHREAD_DEBUG_SHEPHERD */

/* prints out syncvar debugging information at runtime */
/* #undef QTHREAD_DEBUG_SYNCVARS */

/* prints out syscall debugging information at runtime */
/* #undef QTHREAD_DEBUG_SYSCALLS */

/* prints out team debugging information at runtime */
/* #undef QTHREAD_DEBUG_TEAM */

/* prints out threadqueue debugging information at runtime */
/* #undef QTHREAD_DEBUG_THREADQUEUES */

/* prints out thread debugging information at runtime */
/* #undef QTHREAD_DEBUG_THREADS */

/* prints out xomp debugging information at runtime */
/* #undef QTHREAD_DEBUG_XOMP */

/* What size stacks to use by default */
#define QTHREAD_DEFAULT_STACK_SIZE 4096

/* If __builtin_expect can be used */
#define QTHREAD_EXPECT_OKAY 1

/* adds code to monitor how much time is spent waiting for FEB states */
/* #undef QTHREAD_FEB_PROFILING */

/* Use guard pages to detect stack overruns */
/* #undef QTHREAD_GUARD_PAGES */

/* if I can use the hwloc topology interface */
#define QTHREAD_HAVE_HWLOC 1

/* Hwloc has distances */
/* #undef QTHREAD_HAVE_HWLOC_DISTS */

/* if the machine has a Solaris-style liblgrp topology interface */
/* #undef QTHREAD_HAVE_LGRP */

/* if libnuma is available */
/* #undef QTHREAD_HAVE_LIBNUMA */

/* if the machine has a MacOS-style Mach topology interface */
/* #undef QTHREAD_HAVE_MACHTOPO */

/* if the machine has a Tilera-style topology interface */
/* #undef QTHREAD_HAVE_TILETOPO */

/* if libnuma provides numa_allocate_nodemask */
/* #undef QTHREAD_LIBNUMA_V2 */

/* Enable multiple-dequeuer support for lifo scheduler */
/* #undef QTHREAD_LIFO_MULTI_DEQUEUER */

/* makecontext()passes args as int-size, not long-size */
/* #undef QTHREAD_MAKECONTEXT_SPLIT */

/* turns on memory scribbling */
/* #undef QTHREAD_MEMORY_SCRIBBLING */

/* Defined if multinode support desired */
/* #undef QTHREAD_MULTINODE */

/* Use mutexes instead of assembly for atomic increment */
/* #undef QTHREAD_MUTEX_INCREMENT */

/* if this header is necessary for builtin atomics */
/* #undef QTHREAD_NEEDS_IA64INTRIN */

/* Do not check the alignment of synchronization addresses */
#define QTHREAD_NOALIGNCHECK 1

/* makes sure every thread gets an id at creation time */
/* #undef QTHREAD_NONLAZY_THREADIDS */

/* removes sanity checks from most qthread functions */
#define QTHREAD_NO_ASSERTS 1

/* if libnuma's numa_distance() function works */
/* #undef QTHREAD_NUMA_DISTANCE_WORKING */

/* Enable experimental OpenMP affinity extensions. Under development */
/* #undef QTHREAD_OMP_AFFINITY */

/* call into the OS scheduler when possible */
/* #undef QTHREAD_OVERSUBSCRIPTION */

/* expensive sanity checks */
/* #undef QTHREAD_PARANOIA */

/* Defined if performance monitoring support desired */
/* #undef QTHREAD_PERFORMANCE */

/* Define to specify the PPC ABI */
/* #undef QTHREAD_PPC_ABI */

/* Constant for the AIX PPC ABI */
/* #undef QTHREAD_PPC_ABI_AIX */

/* Constant for the Darwin PPC ABI */
/* #undef QTHREAD_PPC_ABI_DARWIN */

/* Constant for the SysV PPC ABI */
/* #undef QTHREAD_PPC_ABI_SYSV */

/* Constant for an unknown PPC ABI */
/* #undef QTHREAD_PPC_ABI_UNKNOWN */

/* Precache guard pages in pooled stacks */
/* #undef QTHREAD_PRECACHE_GUARD_PAGES */

/* Define for BSD-style qsort_r */
/* #undef QTHREAD_QSORT_BSD */

/* Define for glibc-style qsort_r */
#define QTHREAD_QSORT_GLIBC 1

/* adds code to monitor how much time shepherds spend idle */
/* #undef QTHREAD_SHEPHERD_PROFILING */

/* use a shift-based gcd algorithm */
/* #undef QTHREAD_SHIFT_GCD */

/* size of aligned_t */
#define QTHREAD_SIZEOF_ALIGNED_T 8

/* How to align the stacks. */
#define QTHREAD_STACK_ALIGNMENT 16

/* If __builtin_trap can be used */
#define QTHREAD_TRAP_OKAY 1

/* the uc_stack structure in ucontext_t has an ss_flags structure that needs
   to be initialized */
/* #undef QTHREAD_UCSTACK_HAS_SSFLAGS */

/* Define to use eurekas */
/* #undef QTHREAD_USE_EUREKAS */

/* define to 1 if PLPA is available and works */
/* #undef QTHREAD_USE_PLPA */

/* Define to use worker-specific spawn cache */
/* #undef QTHREAD_USE_SPAWNCACHE */

/* Use Valgrind Macros */
/* #undef QTHREAD_USE_VALGRIND */

/* socklen_t compatible uint */
/* #undef QT_SOCKLENTYPE_T */

/* if the compiler supports __attribute__((deprecated)) */
#define Q_DEPRECATED __attribute__((deprecated))

/* if the compiler supports __attribute__((malloc)) */
#define Q_MALLOC __attribute__((malloc))

/* if the compiler supports __attribute__((NOINLINE)) */
#define Q_NOINLINE __attribute__((noinline))

/* most gcc compilers know a function __attribute__((unused)) */
#define Q_UNUSED __attribute__((unused))

/* Support dynamic profile of sincs infomation */
/* #undef SINCS_PROFILE */

/* The size of `char', as computed by sizeof. */
/* #undef SIZEOF_CHAR */

/* The size of `int', as computed by sizeof. */
#define SIZEOF_INT 4

/* The size of `long', as computed by sizeof. */
#define SIZEOF_LONG 8

/* The size of `pthread_mutex_t', as computed by sizeof. */
#define SIZEOF_PTHREAD_MUTEX_T 40

/* The size of `short', as computed by sizeof. */
/* #undef SIZEOF_SHORT */

/* The size of `socklen_t', as computed by sizeof. */
/* #undef SIZEOF_SOCKLEN_T */

/* The size of `void*', as computed by sizeof. */
#define SIZEOF_VOIDP 8

/* The size of `void *', as computed by sizeof. */
#define SIZEOF_VOID_P 8

/* Support dynamic profile of SPR infomation */
/* #undef SPR_PROFILE */

/* Define to 1 if all of the C90 standard headers exist (not just the ones
   required in a freestanding environment). This macro is provided for
   backward compatibility; new code need not use it. */
#define STDC_HEADERS 1

/* Support dynamic profile of steal infomation */
/* #undef STEAL_PROFILE */

/* Support dynamic profile of teams infomation */
/* #undef TEAM_PROFILE */

/* Define to 1 if you can safely include both <sys/time.h> and <time.h>. This
   macro is obsolete. */
#define TIME_WITH_SYS_TIME 1

/* If the compiler supports a TLS storage class define it to that here */
#define TLS __thread

/* prevents most uses of memory pools */
/* #undef UNPOOLED */

/* Define to allow blocking syscalls to be mangled into qthread-specific
   variants */
/* #undef USE_HEADER_SYSCALLS */

/* Use Porterfield spinlock */
#define USE_INTERNAL_SPINLOCK 1

/* Enable extensions on AIX 3, Interix.  */
#ifndef _ALL_SOURCE
# define _ALL_SOURCE 1
#endif
/* Enable general extensions on macOS.  */
#ifndef _DARWIN_C_SOURCE
# define _DARWIN_C_SOURCE 1
#endif
/* Enable general extensions on Solaris.  */
#ifndef __EXTENSIONS__
# define __EXTENSIONS__ 1
#endif
/* Enable GNU extensions on systems that have them.  */
#ifndef _GNU_SOURCE
# define _GNU_SOURCE 1
#endif
/* Enable X/Open compliant socket functions that do not require linking
   with -lxnet on HP-UX 11.11.  */
#ifndef _HPUX_ALT_XOPEN_SOCKET_API
# define _HPUX_ALT_XOPEN_SOCKET_API 1
#endif
/* Identify the host operating system as Minix.
   This macro does not affect the system headers' behavior.
   A future release of Autoconf may stop defining this macro.  */
#ifndef _MINIX
/* # undef _MINIX */
#endif
/* Enable general extensions on NetBSD.
   Enable NetBSD compatibility extensions on Minix.  */
#ifndef _NETBSD_SOURCE
# define _NETBSD_SOURCE 1
#endif
/* Enable OpenBSD compatibility extensions on NetBSD.
   Oddly enough, this does nothing on OpenBSD.  */
#ifndef _OPENBSD_SOURCE
# define _OPENBSD_SOURCE 1
#endif
/* Define to 1 if needed for POSIX-compatible behavior.  */
#ifndef _POSIX_SOURCE
/* # undef _POSIX_SOURCE */
#endif
/* Define to 2 if needed for POSIX-compatible behavior.  */
#ifndef _POSIX_1_SOURCE
/* # undef _POSIX_1_SOURCE */
#endif
/* Enable POSIX-compatible threading on Solaris.  */
#ifndef _POSIX_PTHREAD_SEMANTICS
# define _POSIX_PTHREAD_SEMANTICS 1
#endif
/* Enable extensions specified by ISO/IEC TS 18661-5:2014.  */
#ifndef __STDC_WANT_IEC_60559_ATTRIBS_EXT__
# define __STDC_WANT_IEC_60559_ATTRIBS_EXT__ 1
#endif
/* Enable extensions specified by ISO/IEC TS 18661-1:2014.  */
#ifndef __STDC_WANT_IEC_60559_BFP_EXT__
# define __STDC_WANT_IEC_60559_BFP_EXT__ 1
#endif
/* Enable extensions specified by ISO/IEC TS 18661-2:2015.  */
#ifndef __STDC_WANT_IEC_60559_DFP_EXT__
# define __STDC_WANT_IEC_60559_DFP_EXT__ 1
#endif
/* Enable extensions specified by ISO/IEC TS 18661-4:2015.  */
#ifndef __STDC_WANT_IEC_60559_FUNCS_EXT__
# define __STDC_WANT_IEC_60559_FUNCS_EXT__ 1
#endif
/* Enable extensions specified by ISO/IEC TS 18661-3:2015.  */
#ifndef __STDC_WANT_IEC_60559_TYPES_EXT__
# define __STDC_WANT_IEC_60559_TYPES_EXT__ 1
#endif
/* Enable extensions specified by ISO/IEC TR 24731-2:2010.  */
#ifndef __STDC_WANT_LIB_EXT2__
# define __STDC_WANT_LIB_EXT2__ 1
#endif
/* Enable extensions specified by ISO/IEC 24747:2009.  */
#ifndef __STDC_WANT_MATH_SPEC_FUNCS__
# define __STDC_WANT_MATH_SPEC_FUNCS__ 1
#endif
/* Enable extensions on HP NonStop.  */
#ifndef _TANDEM_SOURCE
# define _TANDEM_SOURCE 1
#endif
/* Enable X/Open extensions.  Define to 500 only if necessary
   to make mbstate_t available.  */
#ifndef _XOPEN_SOURCE
/* # undef _XOPEN_SOURCE */
#endif


/* Number of bits in a file offset, on hosts where this is settable. */
/* #undef _FILE_OFFSET_BITS */

/* Define for large files, on AIX-style hosts. */
/* #undef _LARGE_FILES */

/* Last resort, if no function name macros can be found */
/* #undef __FUNCTION__ */

/* force the Sun makecontext to behave correctly */
/* #undef __MAKECONTEXT_V2_SOURCE */

/* Define to empty if `const' does not conform to ANSI C. */
/* #undef const */

/* Define to `__inline__' or `__inline' if that's what the C compiler
   calls it, or to nothing if 'inline' is not supported under any name.  */
#ifndef __cplusplus
/* #undef inline */
#endif

/* Define to `long int' if <sys/types.h> does not define. */
/* #undef off_t */

/* Define as a signed integer type capable of holding a process identifier. */
/* #undef pid_t */

/* Define to the equivalent of the C99 'restrict' keyword, or to
   nothing if this is not supported.  Do not define if restrict is
   supported directly.  */
#define restrict __restrict
/* Work around a bug in Sun C++: it does not support _Restrict or
   __restrict__, even though the corresponding Sun C compiler ends up with
   "#define restrict _Restrict" or "#define restrict __restrict__" in the
   previous line.  Perhaps some future version of Sun C++ will work with
   restrict; if so, hopefully it defines __RESTRICT like Sun C does.  */
#if defined __SUNPRO_CC && !defined __RESTRICT
# define _Restrict
# define __restrict__
#endif

/* Define to `unsigned int' if <sys/types.h> does not define. */
/* #undef size_t */

/* Define to empty if the keyword `volatile' does not work. Warning: valid
   code using `volatile' can become incorrect without. Disable with care. */
/* #undef volatile */
