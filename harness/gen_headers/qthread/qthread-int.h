#ifndef _QTHREAD_INCLUDE_QTHREAD_QTHREAD_INT_H
#define _QTHREAD_INCLUDE_QTHREAD_QTHREAD_INT_H 1
#ifndef _GENERATED_STDINT_H
#define _GENERATED_STDINT_H "qthread 1.16"
/* generated using gnu compiler gcc (Debian 12.2.0-14+deb12u1) 12.2.0 */
#define _STDINT_HAVE_STDINT_H 1
#include <stdint.h>
#endif
#endif
