/* C09 extension G harness: (1) micro-step replay of qthread_id() on the REAL code (mode M3): the fetch-and-add on
 * qlib->max_thread_id (qthread_internal_incr inside the white-box copy of qthread.c) and the call boundary are the
 * schedule points; a controller (the main task) grants one task at a time one run from its schedule point to the next;
 * (2) descriptor life-cycle scripts (spawn / id / get_tasklocal / write / finish / spawn again), op by op, so that
 * descriptors are recycled through the pools (deterministic on 1 shepherd x 1 worker).
 * Interposed inside this TU only: qthread_internal_incr (schedule point), qt_free (watch blob / argument-copy release),
 * qt_mpool_free (watch descriptor release).  No busy waiting: every wait is a FEB wait.
 * stdin:
 *   C <counter>                 preset qlib->max_thread_id
 *   M <ntasks> <tid> <tid> ...  micro run: the grants in this order, then every task still inside a call is drained
 *                               (task order), then the tasks are told to return
 *   P <op> <op> ...             life-cycle script: s<k>:<argsz>  i<k>  g<k>:<size>  w<k>:<seed>  f<k>
 *   X <n> <rounds> <wrapround>  free-running race of n first calls per round (prints "X n rounds dups reserved unstable late")
 *   Q
 * stdout: "H <sheps> <workers> <AC> <TL>", then per grant "g <tid> <I|R> <amount|value> <draws> <fld> <ctr>", per op one line
 * (see below), "E" after each run. */
#ifdef HAVE_CONFIG_H
# include "config.h"       /* before any internal header, exactly as qthread.c does: the lock types depend on it */
#endif
#include "qthread/qthread.h"
#include "qt_alloc.h"
#include "qt_mpool.h"
#include "qt_atomics.h"
#ifdef QTHREAD_MUTEX_INCREMENT
# error "c09_micro.c interposes the macro form of qthread_internal_incr"
#endif
static void      verif_free(void *p);
static void      verif_mpool_free(qt_mpool pool, void *mem);
static aligned_t verif_incr(aligned_t *op, long val);
#define qt_free(p)             verif_free(p)
#define qt_mpool_free(pool, p) verif_mpool_free((pool), (p))
#undef qthread_internal_incr
#define qthread_internal_incr(op, lock, val) verif_incr((aligned_t *)(op), (long)(val))
#include "qthread.c"
#include <stdio.h>
#include <string.h>
#include <unistd.h>
#include <signal.h>

#define MAXT 16
static aligned_t ctl;                       /* the controller sleeps on this word; every participant fills it after a change */
static void ctl_wait(void) { aligned_t tmp; qthread_readFE(&tmp, &ctl); }

/* ------------------------------------------------------------------ watches */
#define MAXW 64
static struct { void *p; int count; } W[MAXW];
static volatile int wlock = 0, nwatch = 0;
static void *dfreed[256]; static volatile int ndfreed = 0;
static void wl(void) { while (__sync_lock_test_and_set(&wlock, 1)) ; }
static void wu(void) { __sync_lock_release(&wlock); }
static void verif_free(void *p)
{
    if (p) { wl(); for (int i = 0; i < nwatch; i++) if (W[i].p == p) W[i].count++; wu(); }
    (qt_free)(p);
}
static void verif_mpool_free(qt_mpool pool, void *mem)
{
    if (pool == generic_qthread_pool || pool == generic_big_qthread_pool) { wl(); if (ndfreed >= 256) ndfreed = 0; dfreed[ndfreed++] = mem; wu(); }
    (qt_mpool_free)(pool, mem);
}
static int watch_add(void *p) { wl(); int i = nwatch++; W[i].p = p; W[i].count = 0; wu(); return i; }

/* ------------------------------------------------------------------ micro mode */
typedef struct {
    qthread_t     *self;
    volatile int   arrived, quit, draws;
    volatile char  kind;          /* 'S' started, 'I' held before a fetch-and-add, 'R' returned */
    volatile long  val;
    aligned_t      go, ret;
} mt_t;
static mt_t         MT[MAXT];
static volatile int micro_on = 0, micro_n = 0;

static void hold(int k, char kind, long val)
{
    aligned_t tmp;
    MT[k].kind = kind; MT[k].val = val;
    MACHINE_FENCE;
    MT[k].arrived++;
    qthread_fill(&ctl);
    qthread_readFE(&tmp, &MT[k].go);
}
static aligned_t verif_incr(aligned_t *op, long val)
{
    if (micro_on && qlib && op == &qlib->max_thread_id) {
        qthread_t *me = qthread_internal_self();
        for (int k = 0; k < micro_n; k++) if (MT[k].self == me) {
            hold(k, 'I', val);
            aligned_t r = qthread_incr(op, val);
            MT[k].draws++;
            return r;
        }
    }
    return qthread_incr(op, val);
}
static aligned_t micro_body(void *arg)
{
    int k = (int)(intptr_t)arg;
    MT[k].self = qthread_internal_self();
    hold(k, 'S', 0);
    while (!MT[k].quit) {
        unsigned r = qthread_id();
        hold(k, 'R', (long)r);
    }
    return 7;
}
static void on_alarm(int sig) { printf("TIMEOUT\n"); fflush(stdout); _exit(3); }

static void grant(int t)
{
    int seen = MT[t].arrived;
    MACHINE_FENCE;
    qthread_fill(&MT[t].go);
    while (MT[t].arrived == seen) ctl_wait();
    MACHINE_FENCE;
    printf("g %d %c %lu %d %u %lu\n", t, MT[t].kind, (unsigned long)MT[t].val, MT[t].draws, MT[t].self->thread_id, (unsigned long)qlib->max_thread_id);
}
static void run_micro(int n, int *sched, int ns)
{
    alarm(getenv("C09_ALARM") ? atoi(getenv("C09_ALARM")) : 300);
    memset(MT, 0, sizeof MT);
    qthread_empty(&ctl);
    micro_n = n; micro_on = 1;
    unsigned nsheps = qthread_num_shepherds();
    for (int k = 0; k < n; k++) {
        qthread_empty(&MT[k].go);
        qthread_fork_to(micro_body, (void *)(intptr_t)k, &MT[k].ret, (qthread_shepherd_id_t)(k % nsheps));
    }
    for (int k = 0; k < n; k++) while (MT[k].arrived < 1) ctl_wait();
    for (int j = 0; j < ns; j++) if (sched[j] >= 0 && sched[j] < n) grant(sched[j]);
    for (int k = 0; k < n; k++) while (MT[k].kind == 'I') grant(k);
    for (int k = 0; k < n; k++) { MT[k].quit = 1; MACHINE_FENCE; qthread_fill(&MT[k].go); }
    for (int k = 0; k < n; k++) { aligned_t v = 0; qthread_readFF(&v, &MT[k].ret); if (v != 7) printf("BADRET %d\n", k); }
    micro_on = 0;
    alarm(0);
    printf("E\n"); fflush(stdout);
}

/* ------------------------------------------------------------------ life-cycle scripts */
typedef struct {
    qthread_t     *self;
    volatile int   arrived, live;
    volatile char  op; volatile long oparg;
    aligned_t      go, ret;
    size_t         argsz; unsigned char *argsrc;
    long           v[6]; unsigned char *bytes; size_t nbytes;
    void          *cur_p; size_t cur_len;
    int            wblob, warg;
    unsigned char *slotaddr;
} rt_t;
static rt_t  RT[MAXT];
#define MAXD (1 << 16)
static void *dord[MAXD]; static int ndord = 0;
static int desc_ordinal(void *p)
{
    for (int i = 0; i < ndord; i++) if (dord[i] == p) return i;
    if (ndord >= MAXD) return -1;
    dord[ndord] = p; return ndord++;
}
static inline unsigned char pat(unsigned long seed, size_t i) { return (unsigned char)((seed * 131u + i * 7u + (i >> 8)) & 0xff); }
static unsigned char argbyte(int slot, size_t i) { return i < 4 ? (unsigned char)((slot >> (8 * i)) & 0xff) : pat(7000 + slot, i); }

static void rarrive(int k) { aligned_t tmp; MACHINE_FENCE; RT[k].arrived++; qthread_fill(&ctl); qthread_readFE(&tmp, &RT[k].go); }
static aligned_t reuse_run(int k)
{
    rt_t      *r  = &RT[k];
    qthread_t *me = qthread_internal_self();
    r->self = me;
    r->v[0] = (me->flags & QTHREAD_BIG_STRUCT) ? 1 : 0;
    r->v[1] = (me->flags & QTHREAD_HAS_ARGCOPY) ? 1 : 0;
    r->v[2] = me->thread_id;
    r->v[3] = me->rdata->tasklocal_size;
    long ok = 1;
    if (r->argsz) { unsigned char *a = me->arg; for (size_t i = 0; i < r->argsz; i++) if (a[i] != argbyte(k, i)) ok = 0; }
    else ok = ((long)(intptr_t)me->arg == k);
    r->v[4] = ok;
    for (;;) {
        rarrive(k);
        char op = r->op; long a = r->oparg;
        if (op == 'i') { r->v[0] = qthread_id(); r->v[1] = me->thread_id; }
        else if (op == 'g') {
            unsigned char *p     = qthread_get_tasklocal((unsigned)a);
            unsigned       avail = qthread_size_tasklocal();
            unsigned char *data  = (unsigned char *)me->data;
            size_t so  = (me->flags & QTHREAD_BIG_STRUCT) ? qlib->qthread_argcopy_size : 0;
            size_t dsz = so + qlib->qthread_tasklocal_size + ((me->flags & QTHREAD_BIG_STRUCT) ? 0 : sizeof(void *));
            if (p >= data && p < data + dsz) { r->v[0] = 'D'; r->v[1] = p - data; }
            else { void *stored; memcpy(&stored, data + so, sizeof stored); r->v[0] = 'B'; r->v[1] = (stored == (void *)p) ? (long)so : -1; }
            r->v[2] = avail; r->v[3] = me->rdata->tasklocal_size;
            free(r->bytes); r->nbytes = avail; r->bytes = malloc(avail ? avail : 1);
            if (p) memcpy(r->bytes, p, avail);
            r->cur_p = p; r->cur_len = avail;
        } else if (op == 'w') { unsigned char *p = r->cur_p; for (size_t i = 0; i < r->cur_len; i++) p[i] = pat(a, i); }
        else if (op == 'f') {
            size_t so = (me->flags & QTHREAD_BIG_STRUCT) ? qlib->qthread_argcopy_size : 0;
            r->slotaddr = (unsigned char *)me->data + so;
            r->wblob = r->warg = -1;
            if (me->rdata->tasklocal_size > 0) { void *b; memcpy(&b, r->slotaddr, sizeof b); r->wblob = watch_add(b); }
            if (me->flags & QTHREAD_HAS_ARGCOPY) r->warg = watch_add(me->arg);
            return 1000 + k;
        }
    }
}
static aligned_t reuse_ptr(void *arg) { return reuse_run((int)(intptr_t)arg); }
static aligned_t reuse_copy(void *arg) { unsigned char *a = arg; return reuse_run(a[0] | (a[1] << 8) | (a[2] << 16) | (a[3] << 24)); }

static void rstep_wait(int k, int seen) { while (RT[k].arrived == seen) ctl_wait(); MACHINE_FENCE; }
static void run_script(char *p)
{
    alarm(getenv("C09_ALARM") ? atoi(getenv("C09_ALARM")) : 300);
    qthread_empty(&ctl);
    for (;;) {
        while (*p == ' ') p++;
        if (!*p || *p == '\n') break;
        char op = *p++; int k = (int)strtol(p, &p, 10); long a = 0;
        if (*p == ':') { p++; a = strtol(p, &p, 10); }
        if (k < 0 || k >= MAXT) continue;
        rt_t *r = &RT[k];
        if (op == 's') {
            if (r->live) { printf("s %d dup\n", k); continue; }
            memset(r, 0, sizeof *r);
            r->argsz = (size_t)a; r->live = 1;
            qthread_empty(&r->go);
            int rc;
            if (a > 0) {
                r->argsrc = malloc(a);
                for (long i = 0; i < a; i++) r->argsrc[i] = argbyte(k, i);
                rc = qthread_spawn(reuse_copy, r->argsrc, (size_t)a, &r->ret, 0, NULL, NO_SHEPHERD, 0);
                memset(r->argsrc, 0xEE, a); free(r->argsrc); r->argsrc = NULL;
            } else rc = qthread_spawn(reuse_ptr, (void *)(intptr_t)k, 0, &r->ret, 0, NULL, NO_SHEPHERD, 0);
            if (rc != QTHREAD_SUCCESS) { printf("SPAWNFAIL %d\n", rc); fflush(stdout); _exit(4); }
            rstep_wait(k, 0);
            wl(); for (int i = 0; i < 256; i++) if (dfreed[i] == (void *)r->self) dfreed[i] = NULL; wu();   /* releases of earlier owners */
            printf("s %d %d %ld %ld %ld %ld %ld\n", k, desc_ordinal(r->self), r->v[0], r->v[1], r->v[2], r->v[3], r->v[4]);
            continue;
        }
        if (!r->live) { printf("%c %d dead\n", op, k); continue; }
        int seen = r->arrived;
        r->op = op; r->oparg = a;
        MACHINE_FENCE;
        qthread_fill(&r->go);
        if (op == 'f') {
            aligned_t v = 0; qthread_readFF(&v, &r->ret);
            void *d = r->self; int freed = 0;
            for (int spin = 0; spin < 60000 && !freed; spin++) {     /* 1x1: already released when the main task runs again */
                wl(); for (int i = 0; i < ndfreed; i++) if (dfreed[i] == d) { freed++; dfreed[i] = NULL; } wu();
                if (!freed) usleep(1000);
            }
            long slotzero = -1;
            if (r->wblob >= 0) { slotzero = 1; for (int i = 0; i < 8; i++) if (r->slotaddr[i]) slotzero = 0; }
            printf("f %d %d %d %d %ld%s\n", k, r->wblob >= 0 ? W[r->wblob].count : 0, r->warg >= 0 ? W[r->warg].count : 0, freed, slotzero,
                   v == 1000 + (aligned_t)k ? "" : " BADRET");
            wl(); if (r->wblob >= 0) W[r->wblob].p = NULL; if (r->warg >= 0) W[r->warg].p = NULL; if (nwatch > MAXW - 4) nwatch = 0; wu();
            free(r->bytes); r->bytes = NULL;
            r->live = 0;
            continue;
        }
        rstep_wait(k, seen);
        if (op == 'i') printf("i %d %lu %lu %lu\n", k, (unsigned long)r->v[0], (unsigned long)r->v[1], (unsigned long)qlib->max_thread_id);
        else if (op == 'g') {
            printf("g %d %c %ld %ld %ld ", k, (char)r->v[0], r->v[1], r->v[2], r->v[3]);
            for (size_t i = 0; i < r->nbytes; i++) printf("%02x", r->bytes[i]);
            printf("\n");
        } else printf("%c %d\n", op, k);
    }
    alarm(0);
    printf("E\n"); fflush(stdout);
}

/* ------------------------------------------------------------------ free-running race on the FIRST qthread_id() call
 * n tasks, one per shepherd, meet at a spinning barrier (they occupy their workers), then all call qthread_id() at once; they
 * stay alive (second barrier) while their ids are compared.  Not a baton run: used as the search for a failing input. */
#define MAXX 64
static volatile long x_arrived, x_have;
static volatile int  x_n, x_late;
static unsigned      x_id1[MAXX], x_id2[MAXX], x_fld[MAXX];
static aligned_t     x_ret[MAXX];
static int spin_until(volatile long *v, long want)
{
    for (long i = 0; *v < want; i++) { if (i > 2000000) { x_late = 1; return 0; } if ((i & 1023) == 1023) sched_yield(); }
    return 1;
}
static aligned_t x_body(void *arg)
{
    int k = (int)(intptr_t)arg;
    __sync_fetch_and_add(&x_arrived, 1);
    spin_until(&x_arrived, x_n);
    x_id1[k] = qthread_id();
    __sync_fetch_and_add(&x_have, 1);
    spin_until(&x_have, x_n);
    x_id2[k] = qthread_id();
    x_fld[k] = qthread_internal_self()->thread_id;
    return 0;
}
static void run_race(int n, int rounds, int wrap_round)
{
    long dups = 0, reserved = 0, unstable = 0, late = 0;
    if (n > MAXX) n = MAXX;
    alarm(getenv("C09_ALARM") ? atoi(getenv("C09_ALARM")) : 300);
    unsigned nsheps = qthread_num_shepherds();
    for (int r = 0; r < rounds; r++) {
        x_arrived = 0; x_have = 0; x_n = n; x_late = 0;
        if (r == wrap_round) qlib->max_thread_id = (aligned_t)0xFFFFFFFFUL - (aligned_t)(n / 2);
        MACHINE_FENCE;
        for (long k = 0; k < n; k++) qthread_fork_to(x_body, (void *)(intptr_t)k, &x_ret[k], (qthread_shepherd_id_t)(k % nsheps));
        for (int k = 0; k < n; k++) qthread_readFF(NULL, &x_ret[k]);
        late += x_late;
        for (int k = 0; k < n; k++) {
            if (x_id1[k] == 0 || x_id1[k] == UINT_MAX) reserved++;
            if (x_id2[k] != x_id1[k] || x_fld[k] != x_id1[k]) unstable++;
            for (int j = 0; j < k; j++) if (x_id1[j] == x_id1[k]) dups++;
        }
    }
    alarm(0);
    printf("X %d %d %ld %ld %ld %ld\nE\n", n, rounds, dups, reserved, unstable, late);
    fflush(stdout);
}

int main(void)
{
    static char line[1 << 16];
    signal(SIGALRM, on_alarm);
    setvbuf(stdout, NULL, _IOLBF, 0);
    if (qthread_initialize() != 0) { printf("INITFAIL\n"); return 2; }
    printf("H %u %u %u %u\n", (unsigned)qthread_num_shepherds(), (unsigned)qthread_num_workers(),
           (unsigned)qlib->qthread_argcopy_size, (unsigned)qlib->qthread_tasklocal_size);
    fflush(stdout);
    while (fgets(line, sizeof line, stdin)) {
        if (line[0] == 'C') { unsigned long long c = 0; sscanf(line + 1, "%llu", &c); qlib->max_thread_id = (aligned_t)c; }
        else if (line[0] == 'M') {
            static int sched[8192]; int ns = 0; char *p = line + 1;
            int n = (int)strtol(p, &p, 10);
            for (;;) { char *e; long v = strtol(p, &e, 10); if (e == p) break; p = e; if (ns < 8192) sched[ns++] = (int)v; }
            if (n > MAXT) n = MAXT;
            run_micro(n, sched, ns);
        } else if (line[0] == 'P') run_script(line + 1);
        else if (line[0] == 'X') { int n = 4, rounds = 1, wr = -1; sscanf(line + 1, "%d %d %d", &n, &rounds, &wr); run_race(n, rounds, wr); }
        else if (line[0] == 'Q') break;
    }
    fflush(stdout);
    return 0;
}
