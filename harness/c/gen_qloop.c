/* gen_qloop.c -- M1 harness of the regeneration tie (lib/verif/props/_gen.py): the split loops of
 * qt_loop_balance_inner / qt_loopaccum_balance_inner of the working tree's src/qloop.c, run without a runtime.
 * qthread_spawn is replaced by a recorder that prints the startat/stopat fields of the wrapper-argument array and
 * completes the DONECOUNT handshake; qthread_num_workers() is replaced by a variable.  Only used when
 * Gen/Tie_Qloop.v no longer checks, to look for a concrete input where Loops.Model.split and the C code differ.
 *   B start stop nworkers   -> b <maxworkers> <startat>:<stopat> ...     (qt_loop_balance_inner, DONECOUNT)
 *   A start stop nworkers   -> a <maxworkers> <startat>:<stopat> ...     (qt_loopaccum_balance_inner, DONECOUNT)
 *   G flavour start stop activesheps chunksize nworkers -> g <n> <startat>:<stopat> ...
 *        one worker alone calling qqloop_get_iterations_{0 chunked,1 guided,2 factored} until it returns 0
 */
#include <stdio.h>
#include <stdlib.h>
#include <string.h>
#include <stdint.h>
#include <qthread/qthread.h>
static qthread_worker_id_t gen_nw = 1;
static int gen_spawn(qthread_f f, const void *arg, size_t arg_size, void *ret, size_t npreconds, void *preconds,
                     qthread_shepherd_id_t target_shep, unsigned int feature_flag);
#define qthread_num_workers() (gen_nw)
#define qthread_spawn gen_spawn
#include "qloop.c"
#undef qthread_spawn
#undef qthread_num_workers

static char gen_tag = 'b';
static int gen_spawn(qthread_f f, const void *arg, size_t arg_size, void *ret, size_t npreconds, void *preconds,
                     qthread_shepherd_id_t target_shep, unsigned int feature_flag)
{
    if (f == (qthread_f)qloop_wrapper) {
        struct qloop_wrapper_args *qwa = (struct qloop_wrapper_args *)arg;
        size_t n = qwa[0].spawnthreads;
        printf("%c %lu", gen_tag, (unsigned long)n);
        for (size_t i = 0; i < n; i++) { printf(" %lu:%lu", (unsigned long)qwa[i].startat, (unsigned long)qwa[i].stopat); }
        printf("\n");
        *(aligned_t *)qwa[0].sync = n;
    } else if (f == (qthread_f)qloopaccum_wrapper) {
        struct qloopaccum_wrapper_args *qwa = (struct qloopaccum_wrapper_args *)arg;
        size_t n = qwa[0].spawnthreads;
        printf("%c %lu", gen_tag, (unsigned long)n);
        for (size_t i = 0; i < n; i++) { printf(" %lu:%lu", (unsigned long)qwa[i].startat, (unsigned long)qwa[i].stopat); }
        printf("\n");
        *(aligned_t *)qwa[0].sync = n;
    } else {
        printf("? unexpected spawn\n");
    }
    return QTHREAD_SUCCESS;
}

static void gen_body(const size_t a, const size_t b, void *c) {}
static void gen_bodyr(const size_t a, const size_t b, void *c, void *r) {}
static void gen_acc(void *a, const void *b) {}

int main(void)
{
    char line[256];

    while (fgets(line, sizeof line, stdin)) {
        unsigned long s = 0, e = 0, w = 0;
        if ((line[0] == 'B' || line[0] == 'A') && sscanf(line + 1, "%lu %lu %lu", &s, &e, &w) == 3) {
            gen_nw = (qthread_worker_id_t)w;
            if (line[0] == 'B') {
                gen_tag = 'b';
                qt_loop_balance_inner(s, e, gen_body, NULL, 0, DONECOUNT);
            } else {
                long out = 0;
                gen_tag = 'a';
                qt_loopaccum_balance_inner(s, e, sizeof(long), &out, gen_bodyr, NULL, gen_acc, 0, DONECOUNT);
            }
        } else if (line[0] == 'G') {
            long fl = 0, a = 0, b = 0, sh = 1, ch = 1, nw = 1;
            if (sscanf(line + 1, "%ld %ld %ld %ld %ld %ld", &fl, &a, &b, &sh, &ch, &nw) == 6) {
                qqloop_iteration_queue_t    iq;
                struct qqloop_static_args   sa;
                struct qqloop_wrapper_range range;
                static long                 lo[20000], hi[20000];
                long                        n = 0;
                memset(&iq, 0, sizeof iq); memset(&sa, 0, sizeof sa); memset(&range, 0, sizeof range);
                iq.start = a; iq.stop = b; iq.step = 1;
                if (fl == 2) { iq.type_specific_data.phase = (a + b) / 2; }
                sa.activesheps = (qthread_shepherd_id_t)sh; sa.chunksize = ch;
                gen_nw = (qthread_worker_id_t)nw;
                while (n < 20000) {
                    int r = (fl == 0) ? qqloop_get_iterations_chunked(&iq, &sa, &range) :
                            (fl == 1) ? qqloop_get_iterations_guided(&iq, &sa, &range) :
                            qqloop_get_iterations_factored(&iq, &sa, &range);
                    if (!r) { break; }
                    lo[n] = range.startat; hi[n] = range.stopat; n++;
                }
                printf("g %ld", n);
                for (long i = 0; i < n; i++) { printf(" %ld:%ld", lo[i], hi[i]); }
                printf("\n");
            }
        } else if (line[0] == 'Q') {
            break;
        }
        fflush(stdout);
    }
    return 0;
}
