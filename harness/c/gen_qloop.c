/* gen_qloop.c -- M1 harness of the regeneration tie (lib/verif/props/_gen.py): the split loops of
 * qt_loop_balance_inner / qt_loopaccum_balance_inner of the working tree's src/qloop.c, run without a runtime.
 * qthread_spawn is replaced by a recorder that prints the startat/stopat fields of the wrapper-argument array and
 * completes the DONECOUNT handshake; qthread_num_workers() is replaced by a variable.  Only used when
 * Gen/Tie_Qloop.v no longer checks, to look for a concrete input where Loops.Model.split and the C code differ.
 *   B start stop nworkers   -> b <maxworkers> <startat>:<stopat> ...     (qt_loop_balance_inner, DONECOUNT)
 *   A start stop nworkers   -> a <maxworkers> <startat>:<stopat> ...     (qt_loopaccum_balance_inner, DONECOUNT)
 */
#include <stdio.h>
#include <stdlib.h>
#include <string.h>
#include <stdint.h>
#include <qthread/qthread.h>
static qthread_worker_id_t gen_nw = 1;
static int gen_spawn(qthread_f f, const void *arg, size_t arg_size, void *ret, size_t npreconds, void *preconds,
                     qthread_shepherd_id_t target_shep, unsigned int feature_flag);
#define qthread_num_workers() (gen_nw)
#define qthread_spawn gen_spawn
#include "qloop.c"
#undef qthread_spawn
#undef qthread_num_workers

static char gen_tag = 'b';
static int gen_spawn(qthread_f f, const void *arg, size_t arg_size, void *ret, size_t npreconds, void *preconds,
                     qthread_shepherd_id_t target_shep, unsigned int feature_flag)
{
    if (f == (qthread_f)qloop_wrapper) {
        struct qloop_wrapper_args *qwa = (struct qloop_wrapper_args *)arg;
        size_t n = qwa[0].spawnthreads;
        printf("%c %lu", gen_tag, (unsigned long)n);
        for (size_t i = 0; i < n; i++) { printf(" %lu:%lu", (unsigned long)qwa[i].startat, (unsigned long)qwa[i].stopat); }
        printf("\n");
        *(aligned_t *)qwa[0].sync = n;
    } else if (f == (qthread_f)qloopaccum_wrapper) {
        struct qloopaccum_wrapper_args *qwa = (struct qloopaccum_wrapper_args *)arg;
        size_t n = qwa[0].spawnthreads;
        printf("%c %lu", gen_tag, (unsigned long)n);
        for (size_t i = 0; i < n; i++) { printf(" %lu:%lu", (unsigned long)qwa[i].startat, (unsigned long)qwa[i].stopat); }
        printf("\n");
        *(aligned_t *)qwa[0].sync = n;
    } else {
        printf("? unexpected spawn\n");
    }
    return QTHREAD_SUCCESS;
}

static void gen_body(const size_t a, const size_t b, void *c) {}
static void gen_bodyr(const size_t a, const size_t b, void *c, void *r) {}
static void gen_acc(void *a, const void *b) {}

int main(void)
{
    char line[256];

    while (fgets(line, sizeof line, stdin)) {
        unsigned long s = 0, e = 0, w = 0;
        if ((line[0] == 'B' || line[0] == 'A') && sscanf(line + 1, "%lu %lu %lu", &s, &e, &w) == 3) {
            gen_nw = (qthread_worker_id_t)w;
            if (line[0] == 'B') {
                gen_tag = 'b';
                qt_loop_balance_inner(s, e, gen_body, NULL, 0, DONECOUNT);
            } else {
                long out = 0;
                gen_tag = 'a';
                qt_loopaccum_balance_inner(s, e, sizeof(long), &out, gen_bodyr, NULL, gen_acc, 0, DONECOUNT);
            }
        } else if (line[0] == 'Q') {
            break;
        }
        fflush(stdout);
    }
    return 0;
}
