/* C03 stand-alone reproducer of two defects since fixed in /repo (a562144, b527f88); NOT run by ./check, whose regression for
 * them is corpus/C03/06_external_callers.txt.  Original description: qthread_syncvar_fill / _empty / _writeF called from a non-qthread pthread go through
 * qthread_syncvar_nonblocker_func, which forks a task with a pointer to its own stack frame and returns at once.
 * Build: like the c03 harness (white-box include of syncvar.c not needed; links the plain library).
 * Run with QT_NUM_SHEPHERDS=1 QT_NUM_WORKERS_PER_SHEPHERD=1: the only worker is kept busy (no yield) until the external
 * caller has returned and re-used its stack, so the order "return, then the proxy task reads the dead frame" is forced.
 * Also shows the int truncation of qthread_syncvar_incrF called from a non-qthread pthread. */
#include <stdio.h>
#include <string.h>
#include <pthread.h>
#include <inttypes.h>
#include "qthread/qthread.h"

static syncvar_t     v = SYNCVAR_STATIC_EMPTY_INITIALIZER;
static syncvar_t     big = SYNCVAR_STATIC_INITIALIZE_TO(0x100000000ULL);   /* 2^32 */
static volatile int  returned = 0, rc_fill = -99, st_after_return = -1;
static volatile uint64_t incr_ret = 0;

static void __attribute__((noinline)) scribble(unsigned char pat)
{
    volatile unsigned char junk[2048];
    for (unsigned i = 0; i < sizeof junk; i++) junk[i] = pat;
}

static int __attribute__((noinline)) call_fill(void) { return qthread_syncvar_fill(&v); }

static void *external(void *arg)
{
    rc_fill         = call_fill();              /* returns while nobody has run the proxy task yet */
    st_after_return = qthread_syncvar_status(&v);
    scribble(0x7f);                             /* the frame of qthread_syncvar_nonblocker_func is now garbage */
    returned = 1;
    return NULL;
}

static void *external_incr(void *arg)
{
    incr_ret = qthread_syncvar_incrF(&big, 1);
    returned = 2;
    return NULL;
}

int main(int argc, char **argv)
{
    pthread_t th;
    qthread_initialize();
    pthread_create(&th, NULL, external, NULL);
    /* default: keep the only worker busy, the proxy task cannot run before the external call has returned (this is the
     * defect: it does return).  With an argument (use it on a tree where the call waits for its proxy): yield while waiting. */
    if (argc > 1) { while (returned != 1) qthread_yield(); } else { while (returned != 1) ; }
    printf("external qthread_syncvar_fill returned %d; status right after the return: %d (1 = full)\n", rc_fill, st_after_return);
    for (int i = 0; i < 2000; i++) qthread_yield();   /* now let the proxy task run, with its argument frame overwritten */
    pthread_join(th, NULL);
    printf("after letting the proxy task run: status %d (1 = full)\n", qthread_syncvar_status(&v));
    pthread_create(&th, NULL, external_incr, NULL);
    while (returned != 2) qthread_yield();
    pthread_join(th, NULL);
    uint64_t now; qthread_syncvar_readFF(&now, &big);
    printf("external qthread_syncvar_incrF(2^32, 1) returned %" PRIx64 "; the variable holds %" PRIx64 "\n", (uint64_t)incr_ret, now);
    return 0;
}
