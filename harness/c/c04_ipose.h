/* C04/C07 white-box interposition: object-like renames of the calls that a kernel TU makes into OTHER TUs.
 * Included at the very top of a white-box TU, before `#include "<file>.c"`; the prototypes in the repo headers are
 * renamed with the calls, the wrappers live in c04_kernel.c (compiled without these renames) and forward to the real
 * functions after logging.  No edits to /repo. */
#ifndef C04_IPOSE_H
#define C04_IPOSE_H
#ifndef C04_TU
# error "define C04_TU (0 qthread.c, 1 feb.c, 2 syncvar.c, 3 io.c) before including c04_ipose.h"
#endif
#define C04_CAT_(a, b) a##b
#define C04_CAT(a, b)  C04_CAT_(a, b)
#define qt_threadqueue_enqueue         C04_CAT(c04_enq_tail, C04_TU)
#define qt_threadqueue_enqueue_yielded C04_CAT(c04_enq_head, C04_TU)
#ifdef C04_IPOSE_QTHREAD
# define qt_scheduler_get_thread       c04_get_thread
# define qthread_find_active_shepherd  c04_fas
# define qt_blocking_subsystem_enqueue c04_io_enq
# define qt_mpool_alloc                c04_pool_alloc
# define qt_mpool_free                 c04_pool_free
#endif
#endif
