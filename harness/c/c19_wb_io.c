/* C19 white-box accessor: statics of io.c */
#include "io.c"
int  c19_proxy_exit(void) { return proxy_exit; }
long c19_io_workers(void) { return (long)io_worker_count; }
