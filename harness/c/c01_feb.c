/* C01 / C02 / C06 harness (mode M2: op-atomic schedule replay inside a live runtime).
 * White-box: includes the working tree's feb.c (resolved through -I$REPO/src) and appends read-only
 * audit accessors; the library is linked without feb.o.  No edits to /repo.
 *
 * stdin (one command per line):
 *   S ntasks next npre nwords v0 .. v(nwords-1)   start a script: tasks 0..ntasks-1 are qthreads,
 *                                                  ntasks..ntasks+next-1 external pthreads, fresh words
 *   o tid w opname a1 a2                           task tid performs one FEB call on word w
 *   p tid k variant retmode retw retval n w1..wn   task tid spawns precondition task k (id 100+k)
 *   E                                              end of script: qthread_feb_callback enumeration
 *   Q                                              quit
 * stdout: one canonical line per command (see lib/verif/props/_feb_common.py).
 */
#define _GNU_SOURCE 1
#include "feb.c"
#include <stdio.h>
#include <string.h>
#include <unistd.h>
#include <signal.h>
#include <pthread.h>
#include <sched.h>
#include <time.h>
#include <stdarg.h>

#define MAXT   8
#define MAXE   2
#define MAXW   6
#define MAXP   8
#define MAXPC  8
#define SENT   ((aligned_t)0x5e5e5e5e5e5e5e5eULL)
#define MAXBIG 4096            /* 'many words' scripts: only the touched word and a sample are printed */
#define ARENA_WORDS (1 << 21)

static aligned_t arena[ARENA_WORDS] __attribute__((aligned(64)));
static size_t    arena_next = 8;

typedef struct {
    int            id;
    volatile int   cmd_seq, done_seq, quit;
    volatile int   in_call;
    volatile int   rc;
    int            w, opc, a1;
    aligned_t      a2;
    volatile aligned_t buf;
    qthread_t     *self;
    int            is_ext;
    char          *stk_hi;            /* external pthread: an address near the top of its stack */
    pthread_t      pt;
    /* spawn command */
    int            sp_k, sp_variant;
} task_t;

typedef struct {
    int            k;
    volatile int   spawned, started, finished, runs;
    volatile long  ordinal;
    int            retmode, retw;
    aligned_t      retval;
    int            n, pcs[MAXPC];
} pre_t;

typedef struct script_s {
    int        ntasks, next, npre, nwords;
    aligned_t *W;
    task_t    *T;      /* ntasks + next */
    pre_t     *P;
    struct script_s *prev;
} script_t;

static script_t *S = NULL;
static volatile long step_no = 0;

enum { O_readFE, O_readFE_nb, O_readFF, O_readFF_nb, O_readXX, O_writeEF, O_writeEF_nb, O_writeF, O_writeFF, O_purge_to,
       O_writeEF_const, O_writeF_const, O_writeFF_const, O_purge_to_const, O_writeEF_const_nb,
       O_fill, O_empty, O_purge, O_lock, O_unlock, O_status, O_spawn, O_N };
static const char *opnames[O_N] = { "readFE", "readFE_nb", "readFF", "readFF_nb", "readXX", "writeEF", "writeEF_nb", "writeF",
                                    "writeFF", "purge_to", "writeEF_const", "writeF_const", "writeFF_const", "purge_to_const",
                                    "writeEF_const_nb", "fill", "empty", "purge", "lock", "unlock", "status", "spawn" };

static aligned_t precond_body(void *arg)
{
    pre_t *P = (pre_t *)arg;
    __sync_fetch_and_add(&P->runs, 1);
    P->ordinal = step_no;
    __sync_synchronize();
    P->started = 1;
    if (P->retmode == 2) {
        qthread_writeEF_const(&S->W[P->retw], P->retval);
    }
    __sync_synchronize();
    P->finished = 1;
    return P->retval;
}

/* qthread_fork_copyargs_precond copies the argument: the copy holds a pointer to the descriptor */
static aligned_t precond_body_ca(void *arg) { return precond_body(*(void **)arg); }

#define PCA(i) (&S->W[P->pcs[i]])
#define VARARGS_CALL(CALL)                                                         \
    switch (n) {                                                                   \
        case 1: return CALL(1, PCA(0));                                            \
        case 2: return CALL(2, PCA(0), PCA(1));                                    \
        case 3: return CALL(3, PCA(0), PCA(1), PCA(2));                            \
        case 4: return CALL(4, PCA(0), PCA(1), PCA(2), PCA(3));                    \
        case 5: return CALL(5, PCA(0), PCA(1), PCA(2), PCA(3), PCA(4));            \
        case 6: return CALL(6, PCA(0), PCA(1), PCA(2), PCA(3), PCA(4), PCA(5));    \
        default: return -98;                                                       \
    }
#define C_PRECOND(...)        qthread_fork_precond(precond_body, P, ret, __VA_ARGS__)
#define C_PRECOND_TO(...)     qthread_fork_precond_to(precond_body, P, ret, 0, __VA_ARGS__)
#define C_PRECOND_SIMPLE(...) qthread_fork_precond_simple(precond_body, P, ret, __VA_ARGS__)
#define C_PRECOND_CA(...)     qthread_fork_copyargs_precond(precond_body_ca, &P, sizeof(P), NULL, __VA_ARGS__)
static int do_spawn(task_t *T)
{
    pre_t     *P   = &S->P[T->sp_k];
    aligned_t *ret = (P->retmode == 1) ? &S->W[P->retw] : NULL;
    aligned_t *arr[MAXPC];
    int        n = P->n;
    for (int i = 0; i < n; i++) arr[i] = PCA(i);
    P->spawned = 1;
    __sync_synchronize();
    /* every entry point, in both calling conventions (positive count = varargs, negative count = array) */
    switch (T->sp_variant) {
        case 0: return qthread_fork_precond(precond_body, P, ret, -n, arr);
        case 1: return qthread_fork_precond_to(precond_body, P, ret, 0, -n, arr);
        case 2: return qthread_fork_precond_simple(precond_body, P, ret, -n, arr);
        case 3: VARARGS_CALL(C_PRECOND)
        case 4: VARARGS_CALL(C_PRECOND_TO)
        case 5: VARARGS_CALL(C_PRECOND_SIMPLE)
        case 6: VARARGS_CALL(C_PRECOND_CA)
        case 7: return qthread_fork_copyargs_precond(precond_body_ca, &P, sizeof(P), NULL, -n, arr);
        case 8: {   /* qthread_spawn with the precondition array handed over directly ([0] = count; freed by the runtime) */
            aligned_t **pc = (aligned_t **)MALLOC((n + 1) * sizeof(aligned_t *));
            pc[0] = (aligned_t *)(uintptr_t)n;
            for (int i = 0; i < n; i++) pc[i + 1] = arr[i];
            return qthread_spawn(precond_body, P, 0, ret, n, pc, NO_SHEPHERD, 0);
        }
        default: return -97;
    }
}

static void do_op(task_t *T)
{
    aligned_t *w    = &S->W[T->w];
    aligned_t *dest = (T->a1 == 0) ? (aligned_t *)&T->buf : (T->a1 == 1) ? NULL : w;       /* reads */
    aligned_t *src  = (T->a1 == 0) ? (aligned_t *)&T->buf : w;                               /* writes */
    int        rc   = -99;
    switch (T->opc) {
        case O_readFE:    T->buf = SENT; rc = qthread_readFE(dest, w); break;
        case O_readFE_nb: T->buf = SENT; rc = qthread_readFE_nb(dest, w); break;
        case O_readFF:    T->buf = SENT; rc = qthread_readFF(dest, w); break;
        case O_readFF_nb: T->buf = SENT; rc = qthread_readFF_nb(dest, w); break;
        case O_readXX:    T->buf = SENT; rc = qthread_readXX(dest, w); break;
        case O_writeEF:    T->buf = T->a2; rc = qthread_writeEF(w, src); T->buf = SENT; break;
        case O_writeEF_nb: T->buf = T->a2; rc = qthread_writeEF_nb(w, src); T->buf = SENT; break;
        case O_writeF:     T->buf = T->a2; rc = qthread_writeF(w, src); T->buf = SENT; break;
        case O_writeFF:    T->buf = T->a2; rc = qthread_writeFF(w, src); T->buf = SENT; break;
        case O_purge_to:   T->buf = T->a2; rc = qthread_purge_to(w, src); T->buf = SENT; break;
        case O_writeEF_const:    T->buf = SENT; rc = qthread_writeEF_const(w, T->a2); break;
        case O_writeF_const:     T->buf = SENT; rc = qthread_writeF_const(w, T->a2); break;
        case O_writeFF_const:    T->buf = SENT; rc = qthread_writeFF_const(w, T->a2); break;
        case O_purge_to_const:   T->buf = SENT; rc = qthread_purge_to_const(w, T->a2); break;
        case O_writeEF_const_nb: T->buf = SENT; rc = qthread_writeEF_const_nb(w, T->a2); break;
        case O_fill:   T->buf = SENT; rc = qthread_fill(w); break;
        case O_empty:  T->buf = SENT; rc = qthread_empty(w); break;
        case O_purge:  T->buf = SENT; rc = qthread_purge(w); break;
        case O_lock:   T->buf = SENT; rc = qthread_lock(w); break;
        case O_unlock: T->buf = SENT; rc = qthread_unlock(w); break;
        case O_status: T->buf = (aligned_t)qthread_feb_status(w); rc = 0; break;
        case O_spawn:  T->buf = SENT; rc = do_spawn(T); break;
    }
    T->rc = rc;
    __sync_synchronize();
    T->in_call = 0;
}

static aligned_t task_main(void *arg)
{
    task_t *T = (task_t *)arg;
    T->self = qthread_internal_self();
    for (;;) {
        while (T->cmd_seq == T->done_seq && !T->quit) qthread_yield();
        if (T->quit) break;
        do_op(T);
        T->done_seq = T->cmd_seq;
    }
    return 0;
}

static void *ext_main(void *arg)
{
    task_t *T = (task_t *)arg;
    char    marker;
    cpu_set_t all;       /* created from a pinned worker: undo the inherited affinity */
    CPU_ZERO(&all);
    for (int c = 0; c < CPU_SETSIZE; c++) CPU_SET(c, &all);
    sched_setaffinity(0, sizeof(all), &all);
    T->stk_hi = &marker;
    __sync_synchronize();
    T->self = (qthread_t *)1;
    for (;;) {
        while (T->cmd_seq == T->done_seq && !T->quit) usleep(50);
        if (T->quit) break;
        do_op(T);
        T->done_seq = T->cmd_seq;
    }
    return NULL;
}

/* ---- audit (white-box): who waits on a word ---- */
static int ident(qthread_t *waiter)
{
    if (waiter->f == task_main) {
        task_t *T = (task_t *)waiter->arg;
        if (T >= S->T && T < S->T + S->ntasks) return T->id;
        return 900;
    }
    if (waiter->f == precond_body || waiter->f == precond_body_ca) {
        pre_t *P = (waiter->f == precond_body) ? (pre_t *)waiter->arg : *(pre_t **)waiter->arg;
        if (P >= S->P && P < S->P + S->npre) return 100 + P->k;
        return 901;
    }
    if (waiter->f == qthread_feb_blocker_thread) {
        char *a = (char *)waiter->arg;
        for (int e = 0; e < S->next; e++) {
            task_t *T = &S->T[S->ntasks + e];
            if (a <= T->stk_hi && a > T->stk_hi - (1 << 20)) return T->id;
        }
        return 902;
    }
    return 903;
}

typedef struct { int present, full, n[4], ids[4][32], nascent[4][32]; } audit_t;

static void audit(const aligned_t *addr, audit_t *A)
{
    const int lockbin = QTHREAD_CHOOSE_STRIPE2(addr);
    memset(A, 0, sizeof(*A));
    A->full = 1;
    qt_hash_lock(FEBs[lockbin]);
    qthread_addrstat_t *m = (qthread_addrstat_t *)qt_hash_get_locked(FEBs[lockbin], (void *)addr);
    if (m) {
        QTHREAD_FASTLOCK_LOCK(&m->lock);
        A->present = 1;
        A->full    = m->full;
        qthread_addrres_t *q[4] = { m->EFQ, m->FEQ, m->FFQ, m->FFWQ };
        for (int i = 0; i < 4; i++) {
            for (qthread_addrres_t *x = q[i]; x && A->n[i] < 32; x = x->next) {
                A->ids[i][A->n[i]]     = ident(x->waiter);
                A->nascent[i][A->n[i]] = (x->waiter->thread_state == QTHREAD_STATE_NASCENT);
                A->n[i]++;
            }
        }
        QTHREAD_FASTLOCK_UNLOCK(&m->lock);
    }
    qt_hash_unlock(FEBs[lockbin]);
}

static int enqueued_on(int w, int id, int want_nascent)
{
    audit_t A;
    audit(&S->W[w], &A);
    for (int i = 0; i < 4; i++)
        for (int j = 0; j < A.n[i]; j++)
            if (A.ids[i][j] == id && (want_nascent < 0 || A.nascent[i][j] == want_nascent)) return 1;
    return 0;
}
/* a precondition task can only sit on one of its precondition words (nascent) or on its return word */
static int pre_enqueued(pre_t *P, int want_nascent)
{
    if (want_nascent) {
        for (int i = 0; i < P->n; i++) if (enqueued_on(P->pcs[i], 100 + P->k, 1)) return 1;
        return 0;
    }
    return P->retmode ? enqueued_on(P->retw, 100 + P->k, 0) : 0;
}

/* quiescent: every pending call is observably enqueued, every spawned-not-started task is parked */
static int quiescent(char *why)
{
    for (int i = 0; i < S->ntasks + S->next; i++) {
        task_t *T = &S->T[i];
        if (T->in_call && !(T->opc != O_spawn && enqueued_on(T->w, T->id, -1))) { sprintf(why, "task %d in a call, not enqueued", T->id); return 0; }
        if (!T->in_call && T->cmd_seq != T->done_seq) { sprintf(why, "task %d finishing", T->id); return 0; }
    }
    for (int k = 0; k < S->npre; k++) {
        pre_t *P = &S->P[k];
        if (P->spawned && !P->started && !pre_enqueued(P, 1)) { sprintf(why, "precond task %d neither parked nor started", 100 + k); return 0; }
        if (P->started && !P->finished && !pre_enqueued(P, 0)) { sprintf(why, "precond task %d running", 100 + k); return 0; }
    }
    return 1;
}

static double now(void) { struct timespec ts; clock_gettime(CLOCK_MONOTONIC, &ts); return ts.tv_sec + 1e-9 * ts.tv_nsec; }

static int wait_quiescent(void)
{
    char   why[128] = "";
    double t0 = now();
    int    stable = 0;
    for (unsigned long it = 0;; it++) {
        qthread_yield();
        if (quiescent(why)) {
            if (++stable >= 2) return 1;     /* observed twice in a row, a yield in between */
        } else {
            stable = 0;
        }
        if ((it & 63) == 63) {
            if (now() - t0 > 4.0) { printf("STUCK %s\n", why); fflush(stdout); return 0; }
            sched_yield();
        }
    }
}

static void print_list(const audit_t *A, int i)
{
    putchar('[');
    for (int j = 0; j < A->n[i]; j++) printf("%s%d%s", j ? "." : "", A->ids[i][j], A->nascent[i][j] ? "n" : "");
    putchar(']');
}

static void print_word(int w)
{
    audit_t A;
    audit(&S->W[w], &A);
    printf(" W%d=%d,%d,%d,%lld,", w, A.present, A.full, qthread_feb_status(&S->W[w]), (long long)S->W[w]);
    print_list(&A, 0); putchar(','); print_list(&A, 1); putchar(','); print_list(&A, 2); putchar(','); print_list(&A, 3);
}

static void print_words(int touched)
{
    if (S->nwords <= MAXW) {
        for (int w = 0; w < S->nwords; w++) print_word(w);
    } else {        /* many words: the touched word, its neighbour and one word chosen by the step number */
        print_word(touched);
        print_word((touched + 1) % S->nwords);
        print_word((int)((17L * touched + step_no) % S->nwords));
    }
}

static void on_alarm(int s) { printf("TIMEOUT\n"); fflush(stdout); _exit(3); }

typedef struct { int w, id; } blk_t;
static blk_t blk[256];
static int   nblk;
static void feb_cb(qt_key_t addr, qthread_f f, void *arg, void *retloc, unsigned int thread_id, void *tls, void *callarg)
{
    aligned_t *a = (aligned_t *)addr;
    if (a < S->W || a >= S->W + S->nwords || nblk >= 256) return;
    qthread_t fake; fake.f = f; fake.arg = arg;
    blk[nblk].w = (int)(a - S->W); blk[nblk].id = ident(&fake); nblk++;
}
static int blk_cmp(const void *x, const void *y)
{
    const blk_t *a = x, *b = y;
    return a->w != b->w ? a->w - b->w : a->id - b->id;
}

static int opcode(const char *s) { for (int i = 0; i < O_N; i++) if (!strcmp(s, opnames[i])) return i; return -1; }

static void print_val(aligned_t v) { if (v == SENT) printf("-"); else printf("%lld", (long long)v); }

/* run one step by task t; prints the result line */
static int run_step(task_t *T)
{
    int n = S->ntasks + S->next;
    int was[MAXT + MAXE], wasstarted[MAXP];
    for (int i = 0; i < n; i++) was[i] = S->T[i].in_call;
    for (int k = 0; k < S->npre; k++) wasstarted[k] = S->P[k].started;
    step_no++;
    T->in_call = 1;
    __sync_synchronize();
    T->cmd_seq++;
    if (!wait_quiescent()) return 0;
    printf("r %d ", T->id);
    if (T->in_call) printf("BLK -"); else { printf("%d ", T->rc); print_val(T->buf); }
    printf(" |");
    for (int i = 0; i < n; i++) {
        task_t *X = &S->T[i];
        if (X != T && was[i] && !X->in_call) { printf(" %d:%d:", X->id, X->rc); print_val(X->buf); }
    }
    printf(" |");
    for (int k = 0; k < S->npre; k++) if (!wasstarted[k] && S->P[k].started) printf(" %d", 100 + k);
    printf(" |");
    print_words(T->w);
    printf("\n");
    fflush(stdout);
    return 1;
}

/* The controller is a forked qthread, NOT the main (McCoy) task: sherwood re-queues the McCoy task at the head whenever a
 * worker other than worker 0 dequeues it, which can starve it under yield-spinning; the main task parks on a FEB word for good.
 * (A non-qthread controller is not possible either: with one worker the runtime creates its FEB hash tables without locks.) */
static aligned_t controller(void *unused)
{
    static char line[1 << 16];
    printf("H %d %d\n", (int)qthread_num_shepherds(), (int)qthread_num_workers());
    fflush(stdout);
    while (fgets(line, sizeof(line), stdin)) {
        alarm(60);
        if (line[0] == 'Q') break;
        if (line[0] == 'S') {
            int   nt, ne, np, nw, off = 0, adv;
            sscanf(line + 1, "%d %d %d %d%n", &nt, &ne, &np, &nw, &adv);
            off = 1 + adv;
            if (S) {   /* retire the previous script: unblocked tasks exit, blocked ones are abandoned */
                for (int i = 0; i < S->ntasks + S->next; i++) S->T[i].quit = 1;
            }
            if (nt > MAXT || ne > MAXE || np > MAXP || nw > MAXBIG || (nw > MAXW && np > 0) || arena_next + nw + 8 > ARENA_WORDS) { printf("ERR limits\n"); fflush(stdout); continue; }
            script_t *N = calloc(1, sizeof(script_t));
            N->ntasks = nt; N->next = ne; N->npre = np; N->nwords = nw;
            N->W = &arena[arena_next]; arena_next += (nw > MAXW ? nw : MAXW) + 2;
            N->T = calloc(nt + ne + 1, sizeof(task_t));
            N->P = calloc(np + 1, sizeof(pre_t));
            for (int w = 0; w < nw; w++) { long long v = 0; adv = 0; if (sscanf(line + off, "%lld%n", &v, &adv) == 1) off += adv; else v = 0; N->W[w] = (aligned_t)v; }   /* missing values: 0 */
            N->prev = S;
            S = N;
            step_no = 0;
            for (int i = 0; i < nt; i++) { S->T[i].id = i; S->T[i].buf = SENT; qthread_fork_to(task_main, &S->T[i], NULL, i % qthread_num_shepherds()); }
            for (int e = 0; e < ne; e++) { task_t *T = &S->T[nt + e]; T->id = nt + e; T->is_ext = 1; T->buf = SENT; pthread_create(&T->pt, NULL, ext_main, T); pthread_detach(T->pt); }
            for (int k = 0; k < np; k++) S->P[k].k = k;
            for (int i = 0; i < nt + ne; i++) while (S->T[i].self == NULL) qthread_yield();
            printf("s\n"); fflush(stdout);
            continue;
        }
        if (!S) { printf("ERR no script\n"); fflush(stdout); continue; }
        if (line[0] == 'o') {
            int tid, w, a1 = 0; long long a2 = 0; char name[64];
            if (sscanf(line + 1, "%d %d %63s %d %lld", &tid, &w, name, &a1, &a2) < 3) { printf("ERR parse\n"); fflush(stdout); continue; }
            int oc = opcode(name);
            if (oc < 0 || tid < 0 || tid >= S->ntasks + S->next || w < 0 || w >= S->nwords) { printf("ERR arg\n"); fflush(stdout); continue; }
            task_t *T = &S->T[tid];
            if (T->in_call) { printf("r %d SKIP\n", tid); fflush(stdout); continue; }
            T->w = w; T->opc = oc; T->a1 = a1; T->a2 = (aligned_t)a2;
            if (!run_step(T)) break;
            continue;
        }
        if (line[0] == 'p') {
            int tid, k, variant, retmode, retw, n, off, adv; long long retval;
            sscanf(line + 1, "%d %d %d %d %d %lld %d%n", &tid, &k, &variant, &retmode, &retw, &retval, &n, &adv);
            off = 1 + adv;
            if (tid < 0 || tid >= S->ntasks || k < 0 || k >= S->npre || n < 1 || n > MAXPC) { printf("ERR arg\n"); fflush(stdout); continue; }
            task_t *T = &S->T[tid];
            pre_t  *P = &S->P[k];
            if (T->in_call) { printf("r %d SKIP\n", tid); fflush(stdout); continue; }
            P->retmode = retmode; P->retw = retw; P->retval = (aligned_t)retval; P->n = n;
            for (int i = 0; i < n; i++) { int x = 0; sscanf(line + off, "%d%n", &x, &adv); off += adv; P->pcs[i] = x; }
            T->opc = O_spawn; T->sp_k = k; T->sp_variant = variant; T->w = 0;
            if (!run_step(T)) break;
            continue;
        }
        if (line[0] == 'E') {
            nblk = 0;
            qthread_feb_callback(feb_cb, NULL);
            qsort(blk, nblk, sizeof(blk_t), blk_cmp);
            printf("e");
            for (int i = 0; i < nblk; i++) printf(" %d:%d", blk[i].w, blk[i].id);
            printf(" ;");
            for (int k = 0; k < S->npre; k++) if (S->P[k].spawned) printf(" %d:%d:%ld", 100 + k, S->P[k].runs, S->P[k].started ? (long)S->P[k].ordinal : -1L);
            printf("\n"); fflush(stdout);
            continue;
        }
        printf("ERR cmd\n"); fflush(stdout);
    }
    fflush(stdout);
    _exit(0);
    return 0;
}

static aligned_t park_word;

int main(void)
{
    setvbuf(stdout, NULL, _IOFBF, 1 << 16);
    signal(SIGALRM, on_alarm);
    alarm(60);
    qthread_initialize();
    qthread_empty(&park_word);
    qthread_fork_to(controller, NULL, NULL, 0);
    qthread_readFF(NULL, &park_word);      /* the main task parks for good; its worker serves the script tasks */
    return 0;
}
