/* C03 micro-step probe (mode M3, targeted baton; extension B): replays on the REAL syncvar.c a schedule of the micro-step
 * model coq/theories/Syncvar/MicroAll.v:
 *     task A runs its call up to (not including) its k-th interposed shared access; task B then runs up to (not including) its
 *     j-th interposed access (j = 0: its whole call), or as far as it gets (it may have to wait for a lock A holds); A is
 *     released and runs to the end (or as far as it gets while B is held); B is released.  A third task G may already be
 *     blocked on the variable when the two calls start.
 * White-box: syncvar.c is included with its access macros / functions interposed (no edit of /repo):
 *     qthread_cas64 (the CAS of qthread_mwaitc)                                  -> "cas"
 *     MACHINE_FENCE (first half of UNLOCK_THIS_MODIFIED_SYNCVAR: publishing store) -> "fence"
 *     qt_hash_lock / qt_hash_unlock / qt_hash_get / qt_hash_put / qt_hash_get_locked -> "hlock" "hunlock" "hget" "hput" "hget_locked"
 *     QTHREAD_FASTLOCK_LOCK / UNLOCK (the record lock)                            -> "rlock" "runlock"
 * Plain loads / stores of the word (the optimistic load of readFF / status, `tmp = *addr`, `lock = 0`) cannot be interposed.
 * Run with 3 shepherds x 1 worker: the controller (main task) on 0, A (and G) on 1, B on 2.
 *
 * stdin:  m <init: full|empty|fullEF|emptyFE|emptyFF> <A op> <k> <B op> <j> <c1 0|1> <c2 0|1> <stuck_after seconds>
 *         (k / j = 0: not held; c1 = 1: the model says B will wait for a lock A holds while A is held, so B is only given a
 *          short time; c2 = 1: likewise for A while B is held)
 * stdout: A=<rc:val|BLK:-> B=.. G=.. st=<state> dat=<payload> lk=<lock bit> rec=<record present> E=[tids] FE=[tids] FF=[tids]
 *         orphan=<a blocked task is on no list of the table's record> stuck=<a task neither returned nor blocked>
 *         early=<B reached its hold point / its end while A was held> adone=<A reached its end while B was held>
 *         atA= atB=<kind of the access the task was held at> seqA= seqB=<the task's interposed accesses, run-length encoded>
 *         After a line with stuck=1 the process exits (a worker is spinning for ever); the caller restarts it.
 */
#define _GNU_SOURCE 1
#ifdef HAVE_CONFIG_H
# include "config.h"
#endif
#include <limits.h>
#include <sched.h>
#include <qthread/qthread-int.h>
#include "qthread/qthread.h"
#include "qt_syncvar.h"
#include "qt_subsystems.h"
#include "qt_hash.h"
#include "qt_asserts.h"
#include "qthread_innards.h"
#include "qt_initialized.h"
#include "qt_profiling.h"
#include "qt_blocking_structs.h"
#include "qt_addrstat.h"
#include "qt_qthread_struct.h"
#include "qt_qthread_mgmt.h"
#include "qt_threadqueues.h"
#include "qt_debug.h"
#include "qt_atomics.h"
#undef HAVE_CONFIG_H            /* config.h has no include guard: syncvar.c must not bring the original macros back */

enum { SP_CAS, SP_FENCE, SP_HLOCK, SP_HUNLOCK, SP_HGET, SP_HPUT, SP_HGETL, SP_RLOCK, SP_RUNLOCK, SP_N };
static const char *sp_name[SP_N] = { "cas", "fence", "hlock", "hunlock", "hget", "hput", "hget_locked", "rlock", "runlock" };
static void verif_sp(int kind);

static inline void verif_fastlock_lock(QTHREAD_FASTLOCK_TYPE *x) { QTHREAD_FASTLOCK_LOCK(x); }
static inline void verif_fastlock_unlock(QTHREAD_FASTLOCK_TYPE *x) { QTHREAD_FASTLOCK_UNLOCK(x); }
#undef QTHREAD_FASTLOCK_LOCK
#undef QTHREAD_FASTLOCK_UNLOCK
#define QTHREAD_FASTLOCK_LOCK(x)   do { verif_sp(SP_RLOCK); verif_fastlock_lock(x); } while (0)
#define QTHREAD_FASTLOCK_UNLOCK(x) do { verif_sp(SP_RUNLOCK); verif_fastlock_unlock(x); } while (0)
#ifndef qthread_cas64
# error "qthread_cas64 is expected to be a macro in this configuration (QTHREAD_ATOMIC_CAS)"
#endif
#undef qthread_cas64
#define qthread_cas64(A, O, N) (verif_sp(SP_CAS), __sync_val_compare_and_swap((A), (O), (N)))
#undef MACHINE_FENCE
#define MACHINE_FENCE do { verif_sp(SP_FENCE); __sync_synchronize(); } while (0)
#define qt_hash_lock(h)          (verif_sp(SP_HLOCK), qt_hash_lock(h))
#define qt_hash_unlock(h)        (verif_sp(SP_HUNLOCK), qt_hash_unlock(h))
#define qt_hash_get(h, k)        (verif_sp(SP_HGET), qt_hash_get((h), (k)))
#define qt_hash_put(h, k, v)     (verif_sp(SP_HPUT), qt_hash_put((h), (k), (v)))
#define qt_hash_get_locked(h, k) (verif_sp(SP_HGETL), qt_hash_get_locked((h), (k)))
#include "syncvar.c"
#undef qt_hash_lock
#undef qt_hash_unlock
#undef qt_hash_get
#undef qt_hash_put
#undef qt_hash_get_locked
#undef QTHREAD_FASTLOCK_LOCK
#undef QTHREAD_FASTLOCK_UNLOCK
#define QTHREAD_FASTLOCK_LOCK(x)   verif_fastlock_lock(x)
#define QTHREAD_FASTLOCK_UNLOCK(x) verif_fastlock_unlock(x)
#undef MACHINE_FENCE
#define MACHINE_FENCE __sync_synchronize()

#include <stdio.h>
#include <string.h>
#include <unistd.h>
#include <signal.h>
#include <time.h>
#include <inttypes.h>

#define SENT 0x5e5e5e5e5e5e5e5eULL
typedef struct { volatile int start, done; volatile int rc; char op[16]; uint64_t val; volatile uint64_t out; qthread_t *volatile self; syncvar_t *v; } ptask_t;

#define MAXSEQ 4096
typedef struct { qthread_t *volatile who; volatile int k, cnt, paused, go, kind; volatile int seq[MAXSEQ], n; } hold_t;
static hold_t HD[2];

static void verif_sp(int kind)
{
    qthread_t *me = NULL;
    for (int i = 0; i < 2; i++) {
        hold_t *h = &HD[i];
        if (!h->who) continue;
        if (!me) me = qthread_internal_self();
        if (me != h->who) continue;
        if (h->n < MAXSEQ) h->seq[h->n++] = kind;
        if (++h->cnt == h->k) {
            h->kind = kind;
            __sync_synchronize();
            h->paused = 1;
            while (!h->go) sched_yield();
        }
    }
}
static void show_seq(hold_t *h)
{
    for (int i = 0; i < h->n;) {
        int j = i; while (j < h->n && h->seq[j] == h->seq[i]) j++;
        printf("%s%s*%d", i ? "," : "", sp_name[h->seq[i]], j - i);
        i = j;
    }
}

static aligned_t ptask(void *arg)
{
    ptask_t  *T = (ptask_t *)arg;
    syncvar_t *v = T->v;
    uint64_t  val = T->val;
    volatile uint64_t out = SENT;
    int       rc = 0;
    T->self = qthread_internal_self();
    while (!T->start) sched_yield();
    if (!strcmp(T->op, "readFF")) rc = qthread_syncvar_readFF((uint64_t *)&out, v);
    else if (!strcmp(T->op, "readFF_nb")) rc = qthread_syncvar_readFF_nb((uint64_t *)&out, v);
    else if (!strcmp(T->op, "readFE")) rc = qthread_syncvar_readFE((uint64_t *)&out, v);
    else if (!strcmp(T->op, "readFE_nb")) rc = qthread_syncvar_readFE_nb((uint64_t *)&out, v);
    else if (!strcmp(T->op, "writeF")) rc = qthread_syncvar_writeF(v, &val);
    else if (!strcmp(T->op, "writeEF")) rc = qthread_syncvar_writeEF(v, &val);
    else if (!strcmp(T->op, "writeEF_nb")) rc = qthread_syncvar_writeEF_nb(v, &val);
    else if (!strcmp(T->op, "fill")) rc = qthread_syncvar_fill(v);
    else if (!strcmp(T->op, "empty")) rc = qthread_syncvar_empty(v);
    else if (!strcmp(T->op, "incrF")) out = qthread_syncvar_incrF(v, val);
    else if (!strcmp(T->op, "status")) out = (uint64_t)qthread_syncvar_status(v);
    else rc = -99;
    T->out = out;
    T->rc = rc;
    __sync_synchronize();
    T->done = 1;
    return 0;
}

static double now(void) { struct timespec ts; clock_gettime(CLOCK_MONOTONIC, &ts); return ts.tv_sec + 1e-9 * ts.tv_nsec; }
static int settled(ptask_t *T) { return !T || T->done || (T->self && T->self->thread_state == QTHREAD_STATE_FEB_BLOCKED); }
static int wait_settled(ptask_t *T, double secs) { double t0 = now(); while (!settled(T)) { if (now() - t0 > secs) return 0; sched_yield(); } return 1; }
static void on_alarm(int s) { printf("TIMEOUT\n"); fflush(stdout); _exit(3); }

static const char *rcname(int rc)
{
    switch (rc) { case QTHREAD_SUCCESS: return "OK"; case QTHREAD_OPFAIL: return "OPFAIL"; case QTHREAD_OVERFLOW: return "OVERFLOW"; case QTHREAD_TIMEOUT: return "TIMEOUT"; }
    return "RC?";
}
static void show(const char *name, ptask_t *T)
{
    if (!T || !T->done) { printf("%s=BLK:- ", name); return; }
    printf("%s=%s:", name, rcname(T->rc));
    if (T->out == SENT) printf("- "); else printf("%" PRIu64 " ", (uint64_t)T->out);
}

static ptask_t *PT[3];
static int tid_of(qthread_t *q) { for (int i = 0; i < 3; i++) if (PT[i] && PT[i]->self == q) return i; return 9; }
/* the table's record of v: lists as task ids; -1 when there is none */
static int audit(syncvar_t *v, char *buf, int *onlist)
{
    const int bin = QTHREAD_CHOOSE_STRIPE(v);
    qthread_addrstat_t *m;
    int present = 0;
    char *p = buf;
    static const char *nm[3] = { "E", "FE", "FF" };
    onlist[0] = onlist[1] = onlist[2] = 0;
    qt_hash_lock(syncvars[bin]);
    m = (qthread_addrstat_t *)qt_hash_get_locked(syncvars[bin], (void *)v);
    if (m) { QTHREAD_FASTLOCK_LOCK(&m->lock); present = 1; }
    qthread_addrres_t *q[3] = { m ? m->EFQ : NULL, m ? m->FEQ : NULL, m ? m->FFQ : NULL };
    for (int k = 0; k < 3; k++) {
        int n = 0;
        p += sprintf(p, "%s=[", nm[k]);
        for (qthread_addrres_t *x = q[k]; x && n < 8; x = x->next, n++) {
            int t = tid_of(x->waiter);
            if (t < 3) onlist[t] = 1;
            p += sprintf(p, n ? ",%d" : "%d", t);
        }
        p += sprintf(p, "] ");
    }
    if (m) QTHREAD_FASTLOCK_UNLOCK(&m->lock);
    qt_hash_unlock(syncvars[bin]);
    return present;
}

static syncvar_t arena[1 << 14] __attribute__((aligned(64)));
static int       next_var = 8;

int main(void)
{
    char line[256];
    signal(SIGALRM, on_alarm);
    alarm(300);
    qthread_initialize();
    printf("H %d %d\n", (int)qthread_num_shepherds(), (int)qthread_num_workers());
    fflush(stdout);
    if (qthread_num_shepherds() < 3) { printf("ERR needs 3 shepherds\n"); return 1; }
    while (fgets(line, sizeof(line), stdin)) {
        char opa[16], opb[16], init[16]; int k, j = 0, c1 = 0, c2 = 0, stuck = 0; double stuck_after = 20.0;
        if (sscanf(line, "m %15s %15s %d %15s %d %d %d %lf", init, opa, &k, opb, &j, &c1, &c2, &stuck_after) < 5) { printf("ERR parse\n"); fflush(stdout); continue; }
        alarm(300);
        syncvar_t *v = &arena[next_var]; next_var += 2;
        if (next_var > (1 << 14) - 8) { printf("ERR arena\n"); fflush(stdout); continue; }
        int empty0 = !strncmp(init, "empty", 5);
        v->u.w = ((uint64_t)5 << 4) | ((uint64_t)(empty0 ? 2 : 0) << 1);
        ptask_t *A = calloc(1, sizeof(ptask_t)), *B = calloc(1, sizeof(ptask_t)), *G = NULL;
        strcpy(A->op, opa); A->val = 11; A->v = v; A->out = SENT;
        strcpy(B->op, opb); B->val = 22; B->v = v; B->out = SENT;
        PT[0] = A; PT[1] = B; PT[2] = NULL;
        memset((void *)HD, 0, sizeof HD); HD[0].k = k; HD[1].k = j; HD[0].kind = HD[1].kind = -1;
        if (strlen(init) > 5 || !strcmp(init, "fullEF")) {
            G = calloc(1, sizeof(ptask_t)); G->v = v; G->val = 33; G->out = SENT; PT[2] = G;
            strcpy(G->op, !strcmp(init, "fullEF") ? "writeEF" : !strcmp(init, "emptyFE") ? "readFE" : "readFF");
            qthread_fork_to(ptask, G, NULL, 1);
            while (!G->self) sched_yield();
            G->start = 1;
            double t0 = now();
            for (;;) {                      /* until G sits on its list and its worker has dropped the record lock */
                char b[128]; int on[3];
                if (G->self->thread_state == QTHREAD_STATE_FEB_BLOCKED) { audit(v, b, on); if (on[2]) break; }
                if (now() - t0 > 30.0) { printf("ERR ghost did not block\n"); fflush(stdout); _exit(5); }
                sched_yield();
            }
        }
        qthread_fork_to(ptask, A, NULL, 1);
        qthread_fork_to(ptask, B, NULL, 2);
        while (!A->self || !B->self) sched_yield();
        HD[0].who = A->self; HD[1].who = B->self;
        __sync_synchronize();
        A->start = 1;
        { double t0 = now(); while (!HD[0].paused && !settled(A)) { if (now() - t0 > stuck_after) { stuck = 1; break; } sched_yield(); } }
        B->start = 1;
        { double t0 = now(), lim = c1 ? 0.03 : stuck_after;     /* c1: B is expected to wait for a lock A holds */
          while (!HD[1].paused && !settled(B)) { if (now() - t0 > lim) { if (!c1) stuck = 1; break; } sched_yield(); } }
        int b_early = HD[1].paused || settled(B);                /* B got to its hold point / its end while A was held */
        HD[0].go = 1;
        { double t0 = now(), lim = c2 ? 0.03 : stuck_after;     /* c2: A is expected to wait for a lock B holds */
          while (!settled(A) && !stuck) { if (now() - t0 > lim) { if (!c2) stuck = 1; break; } sched_yield(); } }
        int a_done3 = settled(A);                                /* A got to its end while B was held */
        HD[1].go = 1;
        for (int round = 0; round < 3 && !stuck; round++) {    /* a call that returns may release another task */
            if (!wait_settled(A, stuck_after)) stuck = 1;
            if (!wait_settled(B, stuck_after)) stuck = 1;
            if (!wait_settled(G, stuck_after)) stuck = 1;
        }
        HD[0].who = HD[1].who = NULL;
        show("A", A); show("B", B); show("G", G);
        uint64_t w = v->u.w;
        printf("st=%d dat=%" PRIu64 " lk=%d ", (int)((w >> 1) & 7), (uint64_t)(w >> 4), (int)(w & 1));
        if (stuck) printf("rec=-1 E=[] FE=[] FF=[] orphan=0 ");
        else {
            char b[128]; int on[3], orphan = 0;
            int present = audit(v, b, on);
            for (int i = 0; i < 3; i++) if (PT[i] && !PT[i]->done && !on[i]) orphan = 1;
            printf("rec=%d %sorphan=%d ", present, b, orphan);
        }
        printf("stuck=%d early=%d adone=%d atA=%s atB=%s seqA=", stuck, b_early, a_done3, HD[0].kind >= 0 ? sp_name[HD[0].kind] : "-", HD[1].kind >= 0 ? sp_name[HD[1].kind] : "-");
        show_seq(&HD[0]); printf(" seqB="); show_seq(&HD[1]);
        printf("\n");
        fflush(stdout);
        if (stuck) _exit(4);
    }
    _exit(0);
}
