/* C04 progress (extension M): white-box qthread.c as in c04_wb_qthread.c, plus fault injection at the two calls by which
 * qthread_spawn prepares the return location (step 4): qthread_empty / qthread_syncvar_empty as called FROM qthread.c go
 * through c04p_empty / c04p_syncvar_empty (harness/c/c04_progress.c), which return an error for designated locations
 * (what the real functions return when qthread_addrstat_new fails / the syncvar lock times out) and forward otherwise. */
#define qthread_empty         c04p_empty
#define qthread_syncvar_empty c04p_syncvar_empty
#include "c04_wb_qthread.c"
