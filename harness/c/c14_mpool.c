/* C14 harness: drives the real qt_mpool_* / qpool_* code (white-box include of the working-tree mpool.c).
 * K real pthreads (each one owns its own pthread-specific cache, exactly as a worker does) execute a
 * scripted total order of operations under a baton; stdin: one command per line, stdout: one result line
 * per command (see lib/verif/props/c14.py).  Addresses are printed as (slab ordinal in alloc_list order,
 * byte offset in the slab).  Every live block carries a canary over its full REQUESTED size. */
/* lock events: the two FASTLOCK macros are interposed so that every acquire / release executed by an operation is
 * logged (thread-local); the sequence must equal the one of the micro-step model (Mpool/Micro.v). */
#ifdef HAVE_CONFIG_H
# include "config.h"
#endif
#include <pthread.h>
#include <sched.h>
#include <stddef.h>
#include <stdlib.h>
#include <qthread/qthread-int.h>
#include "qt_envariables.h"
#include "qt_mpool.h"
#include "qt_atomics.h"
static inline void c14_real_lock(QTHREAD_FASTLOCK_TYPE *l) { QTHREAD_FASTLOCK_LOCK(l); }
static inline void c14_real_unlock(QTHREAD_FASTLOCK_TYPE *l) { QTHREAD_FASTLOCK_UNLOCK(l); }
static __thread struct { void *l; char k; } c14_ev[16];
static __thread int c14_nev;
static volatile int c14_ev_on = 1;
static inline void c14_log(void *l, char k)
{
    if (c14_ev_on && c14_nev < 16) { c14_ev[c14_nev].l = l; c14_ev[c14_nev].k = k; c14_nev++; }
}
#undef QTHREAD_FASTLOCK_LOCK
#undef QTHREAD_FASTLOCK_UNLOCK
/* window test (command W): one thread can be held right before it acquires a given lock, i.e. after everything it read
 * without the lock; another thread then performs a whole operation; then the held one continues */
static volatile int   c14_hold_state = 0;           /* 0 off, 1 armed, 2 held, 3 released */
static volatile int   c14_hold_tid   = -1;
static void *volatile c14_hold_lock  = NULL;
static __thread int   c14_me         = -1;
static inline void c14_hold_point(void *l)
{
    if (c14_hold_state == 1 && c14_me == c14_hold_tid && l == c14_hold_lock) {
        c14_hold_state = 2;
        while (c14_hold_state != 3) sched_yield();
    }
}
#define QTHREAD_FASTLOCK_LOCK(x)   do { c14_hold_point((void *)(x)); c14_real_lock(x); c14_log((x), 'L'); } while (0)
#define QTHREAD_FASTLOCK_UNLOCK(x) do { c14_log((x), 'U'); c14_real_unlock(x); } while (0)
#include "mpool.c"
#include "qthread/qpool.h"
#include "qthread/qthread.h"
#include <stdio.h>
#include <string.h>
#include <unistd.h>
#include <signal.h>
#include <stdint.h>
#include <pthread.h>
#include <sched.h>

#define MAXT   8
#define MAXP   8
#define MAXLIVE 200000

typedef struct { uint8_t *p; int pid; int live; } blk_t;
static blk_t   *blks;
static size_t   nblk = 0;

static qt_mpool pools[MAXP];
static size_t   req_size[MAXP], req_align[MAXP];
static int      use_qpool[MAXP];
static qt_mpool_threadlocal_cache_t *tcs[MAXP][MAXT];

/* ---------------------------------------------------------------- slabs */
static size_t slab_count(qt_mpool pool)
{
    size_t per = pagesize / sizeof(void *) - 1, n = pool->alloc_list_pos;
    void **pg = pool->alloc_list[per];
    while (pg) { n += per; pg = pg[per]; }
    return n;
}

/* ordinal (allocation order) of the slab containing p, offset in *off; -1 if none */
static long slab_of(qt_mpool pool, const uint8_t *p, size_t *off)
{
    size_t per = pagesize / sizeof(void *) - 1;
    size_t npages = 0;
    void **pg;
    for (pg = pool->alloc_list; pg; pg = pg[per]) npages++;
    size_t k = npages;
    for (pg = pool->alloc_list; pg; pg = pg[per]) {
        k--;
        size_t lim = (pg == pool->alloc_list) ? pool->alloc_list_pos : per;
        for (size_t j = 0; j < lim; j++) {
            uint8_t *b = pg[j];
            if (b && p >= b && p < b + pool->alloc_size) { *off = p - b; return (long)(k * per + j); }
        }
    }
    return -1;
}

static void pr_item(qt_mpool pool, const void *p)
{
    size_t off;
    long   s;
    if (!p) { printf("nil"); return; }
    s = slab_of(pool, p, &off);
    if (s < 0) { printf("?"); return; }
    if (off % pool->item_size) printf("%ld.+%zu", s, off); else printf("%ld.%zu", s, off / pool->item_size);
}

static void pr_chain(qt_mpool pool, qt_mpool_cache_t *c)
{
    size_t n = 0;
    while (c && n < 100000) {
        size_t off;
        printf(" ");
        pr_item(pool, c);
        printf(":");
        if (slab_of(pool, (uint8_t *)c, &off) < 0) { printf("?"); break; }
        pr_item(pool, c->block_tail);
        c = c->next;
        n++;
    }
    if (c && n >= 100000) printf(" CYCLE");
}

/* ---------------------------------------------------------------- canaries */
static void canary_write(uint8_t *p, size_t sz, uint64_t serial)
{
    size_t k, w = sz / 8;
    uint64_t *q = (uint64_t *)p;
    for (k = 0; k < w; k++) q[k] = (serial + 1) * 0x9E3779B97F4A7C15ull + k;
    for (k = w * 8; k < sz; k++) p[k] = (uint8_t)(serial * 31 + k);
}

static long canary_check(const uint8_t *p, size_t sz, uint64_t serial)
{
    size_t k, w = sz / 8;
    const uint64_t *q = (const uint64_t *)p;
    for (k = 0; k < w; k++) if (q[k] != (serial + 1) * 0x9E3779B97F4A7C15ull + k) return (long)(k * 8);
    for (k = w * 8; k < sz; k++) if (p[k] != (uint8_t)(serial * 31 + k)) return (long)k;
    return -1;
}

/* ---------------------------------------------------------------- baton */
typedef struct { int kind; int pid; void *mem; void *ret; volatile int pending; char evs[40]; } job_t;
static job_t           jobs[MAXT];
static pthread_mutex_t mu = PTHREAD_MUTEX_INITIALIZER;
static pthread_cond_t  cv = PTHREAD_COND_INITIALIZER;
static pthread_t       thr[MAXT];

static void *worker(void *arg)
{
    int me = (int)(intptr_t)arg;
    c14_me = me;
    for (;;) {
        pthread_mutex_lock(&mu);
        while (!jobs[me].pending) pthread_cond_wait(&cv, &mu);
        pthread_mutex_unlock(&mu);
        job_t *j = &jobs[me];
        c14_nev = 0;
        if (j->kind == 'A') {
            j->ret = use_qpool[j->pid] ? qpool_alloc(pools[j->pid]) : qt_mpool_alloc(pools[j->pid]);
        } else if (j->kind == 'F') {
            if (use_qpool[j->pid]) qpool_free(pools[j->pid], j->mem); else qt_mpool_free(pools[j->pid], j->mem);
        } else if (j->kind == 'Q') {
            return NULL;
        }
        tcs[j->pid][me] = pthread_getspecific(pools[j->pid]->threadlocal_cache);
        {
            int k, n = 0;
            for (k = 0; k < c14_nev; k++) {
                j->evs[n++] = c14_ev[k].k;
                j->evs[n++] = (c14_ev[k].l == (void *)&pools[j->pid]->reuse_lock) ? 'r' : (c14_ev[k].l == (void *)&pools[j->pid]->pool_lock) ? 'p' : '?';
            }
            if (n == 0) j->evs[n++] = '-';
            j->evs[n] = 0;
        }
        pthread_mutex_lock(&mu);
        j->pending = 0;
        pthread_cond_broadcast(&cv);
        pthread_mutex_unlock(&mu);
    }
}

static void run_on(int t, int kind, int pid, void *mem, void **ret)
{
    pthread_mutex_lock(&mu);
    jobs[t].kind = kind; jobs[t].pid = pid; jobs[t].mem = mem; jobs[t].pending = 1;
    pthread_cond_broadcast(&cv);
    while (jobs[t].pending) pthread_cond_wait(&cv, &mu);
    pthread_mutex_unlock(&mu);
    if (ret) *ret = jobs[t].ret;
}

/* ---------------------------------------------------------------- M4 stress (free running) */
#define NSLOT 64
typedef struct { uint8_t *p; uint64_t serial; } held_t;
static held_t *volatile slots[NSLOT];
static struct { int pid, nops, hold; uint64_t seed; } st;
static volatile uint64_t st_serial, st_allocs, st_frees, st_errs, st_xfer;
static char              st_msg[256];
static volatile int      st_go, st_rt;

static uint64_t sm64(uint64_t *s)
{
    uint64_t z = (*s += 0x9E3779B97F4A7C15ull);
    z = (z ^ (z >> 30)) * 0xBF58476D1CE4E5B9ull; z = (z ^ (z >> 27)) * 0x94D049BB133111EBull;
    return z ^ (z >> 31);
}

static void st_err(const char *what, uint64_t serial, long at)
{
    if (__sync_fetch_and_add(&st_errs, 1) == 0) snprintf(st_msg, sizeof st_msg, "%s(serial=%llu,byte=%ld)", what, (unsigned long long)serial, at);
}

static void st_release(qt_mpool pool, held_t *h)
{
    long bad = canary_check(h->p, req_size[st.pid], h->serial);
    if (bad >= 0) st_err("canary", h->serial, bad);
    if (use_qpool[st.pid]) qpool_free(pool, h->p); else qt_mpool_free(pool, h->p);
    __sync_fetch_and_add(&st_frees, 1);
    free(h);
}

static void *stress_thread(void *arg)
{
    int       me   = (int)(intptr_t)arg;
    uint64_t  rs   = st.seed * 1315423911ull + me;
    qt_mpool  pool = pools[st.pid];
    held_t  **held = calloc(st.hold, sizeof(held_t *));
    int       nh   = 0;
    while (!st_go && !st_rt) sched_yield();
    for (int op = 0; op < st.nops; op++) {
        uint64_t r = sm64(&rs);
        int      c = r % 100;
        /* phases: bias towards filling / draining so that counts cross ipa, ipa+1, 2*ipa */
        int fillbias = ((op / (st.hold * 2 + 1)) & 1) ? 70 : 30;
        if ((c < fillbias && nh < st.hold) || nh == 0) {
            uint8_t *p = use_qpool[st.pid] ? qpool_alloc(pool) : qt_mpool_alloc(pool);
            held_t  *h = malloc(sizeof *h);
            h->p = p; h->serial = __sync_fetch_and_add(&st_serial, 1);
            if (!p) { st_err("null", h->serial, 0); free(h); continue; }
            if (((uintptr_t)p) % (req_align[st.pid] ? req_align[st.pid] : 1)) st_err("misaligned", h->serial, 0);
            canary_write(p, req_size[st.pid], h->serial);
            __sync_fetch_and_add(&st_allocs, 1);
            held[nh++] = h;
        } else if (c < 85) {
            int k = (r >> 20) % nh;
            st_release(pool, held[k]);
            held[k] = held[--nh];
        } else {
            /* hand a block to whoever picks it up (cross-thread free) */
            int     k = (r >> 20) % nh, s = (r >> 32) % NSLOT;
            held_t *o = __sync_lock_test_and_set(&slots[s], held[k]);
            __sync_fetch_and_add(&st_xfer, 1);
            if (o) held[k] = o; else held[k] = held[--nh];
        }
        if (st_rt) { if ((r >> 48) % 8 == 0) qthread_yield(); }      /* tasks change worker at yields / steals */
        else if ((r >> 48) % 64 == 0) sched_yield();
    }
    while (nh) st_release(pool, held[--nh]);
    if (!st_rt) tcs[st.pid][me] = pthread_getspecific(pool->threadlocal_cache);
    free(held);
    return NULL;
}

static aligned_t stress_task(void *arg) { stress_thread(arg); return 0; }

/* end-of-run audit of the free structures: every slab item must be free exactly once */
static void audit(qt_mpool pool, int nthreads, size_t *total, size_t *dups, size_t *bad)
{
    size_t ns = slab_count(pool), ipa = pool->items_per_alloc, off;
    uint8_t *seen = calloc(ns * ipa + 1, 1);
    *total = *dups = *bad = 0;
#define MARK(ptr) do { long s_ = slab_of(pool, (uint8_t *)(ptr), &off); \
        if (s_ < 0 || off % pool->item_size || off / pool->item_size >= ipa) { (*bad)++; } \
        else { size_t id_ = s_ * ipa + off / pool->item_size; if (seen[id_]) (*dups)++; seen[id_] = 1; (*total)++; } } while (0)
    size_t guard = 0;
    for (qt_mpool_cache_t *c = pool->reuse_pool; c && guard < ns * ipa + 8; c = c->next, guard++) MARK(c);
    for (qt_mpool_threadlocal_cache_t *tc = pool->caches; tc; tc = tc->next) {
        guard = 0;
        for (qt_mpool_cache_t *c = tc->cache; c && guard < ns * ipa + 8; c = c->next, guard++) MARK(c);
        if (tc->block) for (size_t i = tc->i; i < ipa; i++) MARK(tc->block + i * pool->item_size);
    }
    free(seen);
}

/* ---------------------------------------------------------------- main loop */
static void on_alarm(int sig) { static const char m[] = "TIMEOUT\n"; write(1, m, sizeof m - 1); _exit(3); }

int main(void)
{
    char line[512];
    setvbuf(stdout, NULL, _IOFBF, 1 << 16);
    signal(SIGALRM, on_alarm);
    qt_internal_alignment_init();
    blks = calloc(MAXLIVE, sizeof(blk_t));
    for (int t = 0; t < MAXT; t++) pthread_create(&thr[t], NULL, worker, (void *)(intptr_t)t);
    printf("H %zu %zu %zu\n", (size_t)pagesize, sizeof(qt_mpool_cache_t), sizeof(void *));
    while (fgets(line, sizeof line, stdin)) {
        unsigned long a, b, c, d, e;
        alarm(60);
        if (line[0] == 'C' && sscanf(line + 1, "%lu %lu %lu %lu", &a, &b, &c, &d) == 4 && a < MAXP) {
            pools[a]     = d ? qpool_create_aligned(b, c) : qt_mpool_create_aligned(b, c);
            use_qpool[a] = (int)d; req_size[a] = b; req_align[a] = c;
            memset(tcs[a], 0, sizeof tcs[a]);
            if (!pools[a]) { printf("C null\n"); continue; }
            printf("C %zu %zu %zu %zu\n", pools[a]->item_size, pools[a]->alignment, pools[a]->alloc_size, pools[a]->items_per_alloc);
        } else if (line[0] == 'W' && sscanf(line + 1, "%lu %lu %lu", &a, &b, &c) == 3 && a < MAXP && b < MAXT && c < MAXT && b != c && pools[a] && nblk + 2 < MAXLIVE) {
            /* W pid t1 t2: t1's alloc is held right before it takes the pool's reuse_lock (after its unlocked look at the
             * shared reuse list); t2 performs a whole alloc; t1 continues.  Two A lines are printed in lock order: t2, t1. */
            void *r1 = NULL, *r2 = NULL;
            c14_hold_tid = (int)b; c14_hold_lock = (void *)&pools[a]->reuse_lock; __sync_synchronize(); c14_hold_state = 1;
            pthread_mutex_lock(&mu);
            jobs[b].kind = 'A'; jobs[b].pid = (int)a; jobs[b].mem = NULL; jobs[b].pending = 1;
            pthread_cond_broadcast(&cv);
            pthread_mutex_unlock(&mu);
            for (long spin = 0; c14_hold_state != 2 && jobs[b].pending && spin < 200000000L; spin++) sched_yield();
            int held = c14_hold_state == 2;
            run_on((int)c, 'A', (int)a, NULL, &r2);
            char ev2[40]; strcpy(ev2, jobs[c].evs);
            c14_hold_state = 3; __sync_synchronize();
            pthread_mutex_lock(&mu);
            while (jobs[b].pending) pthread_cond_wait(&cv, &mu);
            pthread_mutex_unlock(&mu);
            r1 = jobs[b].ret; c14_hold_state = 0;
            for (int which = 0; which < 2; which++) {
                uint8_t *p = which ? r1 : r2; size_t off = 0, sz = req_size[a];
                long s = p ? slab_of(pools[a], p, &off) : -1; const char *why = "ok";
                if (!p) why = "null";
                else if (s < 0) why = "outside-every-slab";
                else if (off + sz > pools[a]->alloc_size) why = "block-exceeds-slab";
                else if (req_align[a] && ((uintptr_t)p % req_align[a])) why = "misaligned";
                else for (size_t k = 0; k < nblk; k++)
                    if (blks[k].live && p < blks[k].p + req_size[blks[k].pid] && blks[k].p < p + sz) { why = "overlaps-live-block"; break; }
                blks[nblk].p = p; blks[nblk].pid = (int)a; blks[nblk].live = (p != NULL);
                if (p && s >= 0 && off + sz <= pools[a]->alloc_size) canary_write(p, sz, nblk);
                nblk++;
                printf("A %ld %zu %s %s%s\n", s, off, why, which ? jobs[b].evs : ev2, (which && !held) ? " NOTHELD" : "");
            }
        } else if (line[0] == 'A' && sscanf(line + 1, "%lu %lu", &a, &b) == 2 && a < MAXP && b < MAXT && pools[a] && nblk < MAXLIVE) {
            void  *r = NULL;
            size_t off = 0, sz = req_size[a];
            run_on((int)b, 'A', (int)a, NULL, &r);
            uint8_t *p = r;
            long     s = p ? slab_of(pools[a], p, &off) : -1;
            const char *why = "ok";
            if (!p) why = "null";
            else if (s < 0) why = "outside-every-slab";
            else if (off + sz > pools[a]->alloc_size) why = "block-exceeds-slab";
            else if (req_align[a] && ((uintptr_t)p % req_align[a])) why = "misaligned";
            else {
                for (size_t k = 0; k < nblk; k++)
                    if (blks[k].live && p < blks[k].p + req_size[blks[k].pid] && blks[k].p < p + sz) { why = "overlaps-live-block"; break; }
            }
            blks[nblk].p = p; blks[nblk].pid = (int)a; blks[nblk].live = (p != NULL);
            if (p && s >= 0 && off + sz <= pools[a]->alloc_size) canary_write(p, sz, nblk);
            nblk++;
            printf("A %ld %zu %s %s\n", s, off, why, jobs[b].evs);
        } else if (line[0] == 'F' && sscanf(line + 1, "%lu %lu %lu", &a, &b, &c) == 3 && a < MAXP && b < MAXT && pools[a] && c < nblk && blks[c].live) {
            long bad = canary_check(blks[c].p, req_size[a], c);
            blks[c].live = 0;
            run_on((int)b, 'F', (int)a, blks[c].p, NULL);
            if (bad >= 0) printf("F canary-damaged-at-byte-%ld %s\n", bad, jobs[b].evs); else printf("F ok %s\n", jobs[b].evs);
        } else if (line[0] == 'S' && sscanf(line + 1, "%lu %lu", &a, &b) == 2 && a < MAXP && pools[a]) {
            printf("S %zu |", slab_count(pools[a]));
            pr_chain(pools[a], pools[a]->reuse_pool);
            for (unsigned long t = 0; t < b && t < MAXT; t++) {
                qt_mpool_threadlocal_cache_t *tc = tcs[a][t];
                if (!tc) { printf(" | 0 - 0"); continue; }
                printf(" | %zu ", (size_t)tc->count);
                if (tc->block) { size_t off; printf("%ld", slab_of(pools[a], tc->block, &off)); } else printf("-");
                printf(" %zu", (size_t)tc->i);
                pr_chain(pools[a], tc->cache);
            }
            printf("\n");
        } else if (line[0] == 'D' && sscanf(line + 1, "%lu", &a) == 1 && a < MAXP && pools[a]) {
            for (size_t k = 0; k < nblk; k++) if (blks[k].pid == (int)a) blks[k].live = 0;
            if (use_qpool[a]) qpool_destroy(pools[a]); else qt_mpool_destroy(pools[a]);
            pools[a] = NULL;
            printf("D\n");
        } else if (line[0] == 'X') {
            for (int k = 0; k < MAXP; k++) if (pools[k]) { if (use_qpool[k]) qpool_destroy(pools[k]); else qt_mpool_destroy(pools[k]); pools[k] = NULL; }
            nblk = 0;
            printf("X\n");
        } else if (line[0] == 'M' && sscanf(line + 1, "%lu %lu %lu %lu %lu", &a, &b, &c, &d, &e) == 5 && a < MAXP && pools[a] && b >= 1 && b <= 16) {
            /* M pid nthreads nops hold seed : free-running stress with fresh pthreads */
            pthread_t th[16];
            size_t    total, dups, bad;
            alarm(120);
            c14_ev_on = 0;
            st.pid = (int)a; st.nops = (int)c; st.hold = (int)d; st.seed = e;
            st_serial = st_allocs = st_frees = st_errs = st_xfer = 0; st_go = 0; st_msg[0] = 0;
            memset((void *)slots, 0, sizeof slots);
            for (unsigned long t = 0; t < b; t++) pthread_create(&th[t], NULL, stress_thread, (void *)(intptr_t)t);
            st_go = 1;
            for (unsigned long t = 0; t < b; t++) pthread_join(th[t], NULL);
            for (int s = 0; s < NSLOT; s++) if (slots[s]) st_release(pools[a], slots[s]);   /* main thread frees the leftovers */
            audit(pools[a], (int)b, &total, &dups, &bad);
            printf("M allocs=%llu frees=%llu xfer=%llu slabs=%zu ipa=%zu free_items=%zu dups=%zu bad=%zu errs=%llu %s\n",
                   (unsigned long long)st_allocs, (unsigned long long)st_frees, (unsigned long long)st_xfer, slab_count(pools[a]),
                   pools[a]->items_per_alloc, total, dups, bad, (unsigned long long)st_errs, st_msg[0] ? st_msg : "-");
        } else if (line[0] == 'R' && sscanf(line + 1, "%lu %lu %lu %lu %lu", &a, &b, &c, &d, &e) == 5 && a < MAXP && pools[a] && b >= 1 && b <= 64) {
            /* R pid ntasks nops hold seed : the same stress from qthread tasks inside a live runtime */
            static int inited = 0;
            static aligned_t rets[64];
            size_t    total, dups, bad;
            alarm(120);
            c14_ev_on = 0;
            if (!inited) { if (qthread_initialize() != 0) { printf("R init-failed\n"); continue; } inited = 1; }
            st.pid = (int)a; st.nops = (int)c; st.hold = (int)d; st.seed = e;
            st_serial = st_allocs = st_frees = st_errs = st_xfer = 0; st_go = 1; st_rt = 1; st_msg[0] = 0;
            memset((void *)slots, 0, sizeof slots);
            for (unsigned long t = 0; t < b; t++) qthread_fork_to(stress_task, (void *)(intptr_t)t, &rets[t], t % qthread_num_shepherds());
            for (unsigned long t = 0; t < b; t++) qthread_readFF(NULL, &rets[t]);
            st_rt = 0;
            for (int s = 0; s < NSLOT; s++) if (slots[s]) st_release(pools[a], slots[s]);
            audit(pools[a], (int)b, &total, &dups, &bad);
            printf("M allocs=%llu frees=%llu xfer=%llu slabs=%zu ipa=%zu free_items=%zu dups=%zu bad=%zu errs=%llu %s\n",
                   (unsigned long long)st_allocs, (unsigned long long)st_frees, (unsigned long long)st_xfer, slab_count(pools[a]),
                   pools[a]->items_per_alloc, total, dups, bad, (unsigned long long)st_errs, st_msg[0] ? st_msg : "-");
        } else if (line[0] == 'Q') {
            break;
        } else {
            printf("ERR %s", line);
        }
        fflush(stdout);
    }
    fflush(stdout);
    _exit(0);
}
