/* C01 micro-step probe (mode M3, targeted baton): reproduces on the REAL feb.c a schedule found in the micro-step model
 * (coq/theories/Feb/Micro.v):  task A runs its call up to (and including) its k-th qt_hash_unlock, task B then runs its
 * whole call, then A is released.  White-box: feb.c's call sites of qt_hash_unlock are interposed by a macro; no edit of /repo.
 * Run with 3 shepherds x 1 worker: the controller (main task), A and B each own a worker, so A can be held inside the call.
 * Used by ./check C01 (micro tier, lib/verif/props/c01.py) and by tools/c01_micro_probe.py.
 *
 * stdin:  m <absent|empty> <A op> <A value> <k> <B op> <B value> <contended>
 *         (k = 0: A is not held, it simply runs first; contended = 1: the model says B will wait for a lock A holds while
 *          held, so B is only given a short time before A is released)
 * stdout: A=<rc|BLK>:<value|-> B=<rc|BLK>:<value|-> status=<0|1> word=<v> paused=<0|1> stuck=<0|1>
 */
#define _GNU_SOURCE 1
#ifdef HAVE_CONFIG_H
# include "config.h"
#endif
#include "qthread/qthread.h"
#include "qt_hash.h"
#include "qt_qthread_mgmt.h"
#include <sched.h>

static void verif_after_hash_unlock(void);
static inline void verif_hash_unlock(qt_hash h) { qt_hash_unlock(h); verif_after_hash_unlock(); }
#define qt_hash_unlock(h) verif_hash_unlock(h)
#include "feb.c"
#undef qt_hash_unlock

#include <stdio.h>
#include <string.h>
#include <unistd.h>
#include <signal.h>
#include <time.h>

#define SENT ((aligned_t)0x5e5e5e5e5e5e5e5eULL)
typedef struct { volatile int start, done; volatile int rc; char op[32]; aligned_t val; volatile aligned_t buf; qthread_t *volatile self; aligned_t *w; } ptask_t;

static qthread_t *volatile armed = NULL;
static volatile int armed_k = 0, armed_cnt = 0, paused = 0, go = 0;

static void verif_after_hash_unlock(void)
{
    if (armed && qthread_internal_self() == armed) {
        if (++armed_cnt == armed_k) {
            paused = 1;
            __sync_synchronize();
            while (!go) sched_yield();
        }
    }
}

static aligned_t ptask(void *arg)
{
    ptask_t   *T = (ptask_t *)arg;
    aligned_t *w = T->w;
    int        rc = -99;
    T->self = qthread_internal_self();
    while (!T->start) sched_yield();
    T->buf = SENT;
    if (!strcmp(T->op, "readFE")) rc = qthread_readFE((aligned_t *)&T->buf, w);
    else if (!strcmp(T->op, "readFE_nb")) rc = qthread_readFE_nb((aligned_t *)&T->buf, w);
    else if (!strcmp(T->op, "readFF")) rc = qthread_readFF((aligned_t *)&T->buf, w);
    else if (!strcmp(T->op, "readFF_nb")) rc = qthread_readFF_nb((aligned_t *)&T->buf, w);
    else if (!strcmp(T->op, "readXX")) rc = qthread_readXX((aligned_t *)&T->buf, w);
    else if (!strcmp(T->op, "status")) { T->buf = (aligned_t)qthread_feb_status(w); rc = 0; }
    else if (!strcmp(T->op, "fill")) rc = qthread_fill(w);
    else if (!strcmp(T->op, "empty")) rc = qthread_empty(w);
    else {
        T->buf = T->val;
        if (!strcmp(T->op, "writeEF")) rc = qthread_writeEF(w, (aligned_t *)&T->buf);
        else if (!strcmp(T->op, "writeEF_nb")) rc = qthread_writeEF_nb(w, (aligned_t *)&T->buf);
        else if (!strcmp(T->op, "writeF")) rc = qthread_writeF(w, (aligned_t *)&T->buf);
        else if (!strcmp(T->op, "writeFF")) rc = qthread_writeFF(w, (aligned_t *)&T->buf);
        else if (!strcmp(T->op, "purge_to")) rc = qthread_purge_to(w, (aligned_t *)&T->buf);
        T->buf = SENT;
    }
    T->rc = rc;
    __sync_synchronize();
    T->done = 1;
    return 0;
}

static double now(void) { struct timespec ts; clock_gettime(CLOCK_MONOTONIC, &ts); return ts.tv_sec + 1e-9 * ts.tv_nsec; }
/* definitive states of a task: its call returned, or it is blocked on the FEB word */
static int settled(ptask_t *T) { return T->done || (T->self && T->self->thread_state == QTHREAD_STATE_FEB_BLOCKED); }
static int wait_settled(ptask_t *T, double secs) { double t0 = now(); while (!settled(T)) { if (now() - t0 > secs) return 0; sched_yield(); } return 1; }
static void on_alarm(int s) { printf("TIMEOUT\n"); fflush(stdout); _exit(3); }

static aligned_t arena[1 << 14] __attribute__((aligned(64)));
static int       next_word = 16;

static void show(const char *name, ptask_t *T)
{
    if (!T->done) { printf("%s=BLK:- ", name); return; }
    printf("%s=%d:", name, T->rc);
    if (T->buf == SENT) printf("- "); else printf("%lld ", (long long)T->buf);
}

int main(void)
{
    char line[256];
    signal(SIGALRM, on_alarm);
    alarm(120);
    qthread_initialize();
    printf("H %d %d\n", (int)qthread_num_shepherds(), (int)qthread_num_workers());
    if (qthread_num_shepherds() < 3) { printf("ERR needs 3 shepherds\n"); return 1; }
    while (fgets(line, sizeof(line), stdin)) {
        char opa[32], opb[32], init[16]; long long va, vb; int k, contended = 0, stuck = 0;
        if (sscanf(line, "m %15s %31s %lld %d %31s %lld %d", init, opa, &va, &k, opb, &vb, &contended) < 6) { printf("ERR parse\n"); fflush(stdout); continue; }
        alarm(120);
        aligned_t *w = &arena[next_word]; next_word += 8;
        if (next_word > (1 << 14) - 16) { printf("ERR arena\n"); fflush(stdout); continue; }
        *w = 5;
        if (!strcmp(init, "empty")) qthread_empty(w);
        ptask_t *A = calloc(1, sizeof(ptask_t)), *B = calloc(1, sizeof(ptask_t));
        strcpy(A->op, opa); A->val = (aligned_t)va; A->w = w;
        strcpy(B->op, opb); B->val = (aligned_t)vb; B->w = w;
        armed = NULL; armed_cnt = 0; armed_k = k; paused = 0; go = 0;
        qthread_fork_to(ptask, A, NULL, 1);
        qthread_fork_to(ptask, B, NULL, 2);
        while (!A->self || !B->self) sched_yield();
        if (k > 0) armed = A->self;
        __sync_synchronize();
        A->start = 1;
        { double t0 = now(); while (!paused && !settled(A)) { if (now() - t0 > 5.0) { stuck = 1; break; } sched_yield(); } }
        int was_paused = paused;
        B->start = 1;
        if (contended) wait_settled(B, 0.03);                 /* B is expected to wait for a lock A holds */
        else if (!wait_settled(B, 5.0)) stuck = 1;
        go = 1;
        for (int round = 0; round < 3; round++) {              /* a call that returns may release the other task */
            if (!wait_settled(A, 5.0)) stuck = 1;
            if (!wait_settled(B, 5.0)) stuck = 1;
        }
        armed = NULL;
        show("A", A); show("B", B);
        printf("status=%d word=%lld paused=%d stuck=%d\n", qthread_feb_status(w), (long long)*w, was_paused, stuck);
        fflush(stdout);
    }
    _exit(0);
}
