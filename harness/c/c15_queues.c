/* C15 harness: drives the REAL qswsrqueue.c / qlfqueue.c / hazardptrs.c / qdqueue.c of the working tree.
 *
 * White-box: the three .c files are #included; for qlfqueue.c and qswsrqueue.c the fences, qthread_yield(),
 * qthread_cas_ptr(), hazardous_ptr(), hazardous_release_node(), qpool_alloc()/qpool_free() are interposed by macros
 * that first call the baton scheduler verif_sp(kind) and then perform the original operation.
 *
 * Modes (one command per line on stdin, see lib/verif/props/c15.py):
 *   SC  create size rounding (M1)                     VC/BS  void_cmp / binary_search (M1)
 *   HS  hazardous_scan on prepared worker slots (M1, needs W shepherds)
 *   SW  micro-step schedule replay of the swsr ring, 2 pthreads (M3)
 *   LF  micro-step schedule replay of the lock-free queue, K tasks pinned on K workers (M3)
 *   M4  free-running tasks on the three queues (trace acceptance by the Python oracle)
 */
#ifndef _GNU_SOURCE
# define _GNU_SOURCE
#endif
#include "config.h"
#undef HAVE_CONFIG_H
#include <stdio.h>
#include <string.h>
#include <unistd.h>
#include <signal.h>
#include <pthread.h>
#include <semaphore.h>
#include <sched.h>
#include <time.h>
#include <errno.h>
#include <sys/mman.h>
#include <sys/personality.h>

#include "hazardptrs.c"              /* real hazard pointer code, not interposed */
#include <qthread/qpool.h>
#include <qthread/qlfqueue.h>
#include <qthread/qswsrqueue.h>
#include <qthread/qdqueue.h>
#include "qt_atomics.h"
#include "qt_debug.h"

/* ------------------------------------------------------------------ baton scheduler */
enum { K_CF = 1, K_MF, K_YIELD, K_ALLOC, K_HZ0, K_HZ1, K_CAS, K_REL, K_END };
/* ---- extension H (DM): schedule-point kinds of the interposed qdqueue.c (continue the enum above) ---- */
enum { K_LFEMPTY = K_END + 1, K_LFENQ, K_LFDEQ, K_INCR, K_CASV, K_CASP, K_LOCK, K_UNLOCK };
static __thread int dm_quiet = 0;     /* > 0 while a baton task runs inside a sub-queue operation called BY qdqueue.c */
/* ---- end extension H (DM) ---- */
#define MAXT 8
static __thread int my_tid = -1;
static sem_t        sem_thr[MAXT], sem_ctl;
static volatile int sp_kind_of[MAXT];
static void *volatile sp_addr_of[MAXT];
static volatile int t_finished[MAXT];
static volatile int aborting = 0;
static volatile int perturb  = 0;     /* M4: random OS-level yields at the schedule points */
static __thread unsigned long long prng = 0;

static void on_alarm(int s) { printf("TIMEOUT\n"); fflush(stdout); _exit(3); }

static void ctl_wait(void)
{
    struct timespec ts;
    clock_gettime(CLOCK_REALTIME, &ts);
    ts.tv_sec += 20;
    while (sem_timedwait(&sem_ctl, &ts) != 0) {
        if (errno == EINTR) continue;
        printf("TIMEOUT\n"); fflush(stdout); _exit(3);
    }
}

static void verif_sp(int kind, void *addr)
{
    if (my_tid >= 0 && dm_quiet) return;          /* extension H (DM): the sub-queue operation is ONE step of DqMicro */
    if (my_tid < 0) {
        if (perturb) {
            if (!prng) prng = (unsigned long long)(uintptr_t)&kind * 0x9E3779B97F4A7C15ULL + perturb;
            prng ^= prng << 13; prng ^= prng >> 7; prng ^= prng << 17;
            if ((prng & 15) == 0) sched_yield();
            else if ((prng & 1023) == 1) usleep(50);
        }
        return;
    }
    sp_kind_of[my_tid] = kind;
    sp_addr_of[my_tid] = addr;
    sem_post(&sem_ctl);
    while (sem_wait(&sem_thr[my_tid]) != 0) ;
    if (aborting) pthread_exit(NULL);
}

/* ------------------------------------------------------------------ node arena for M3 (fixed addresses, LIFO reuse) */
static int   arena_on = 0;
static char *arena_base = NULL;
static size_t arena_used = 0;
#define ARENA_BYTES (1u << 20)
typedef struct fl_s { struct fl_s *next; } fl_t;
static fl_t *arena_free = NULL;
static long  arena_allocs = 0, arena_reuses = 0, arena_frees = 0;

static void arena_setup(int hi)
{
    /* lo: all node addresses have bit 31 clear; hi: bit 31 set (low 32 bits >= 0x80000000) */
    uintptr_t want = hi ? 0x7e0080001000ULL : 0x7e0000100000ULL;
    if (arena_base) munmap(arena_base, ARENA_BYTES);
    arena_base = mmap((void *)want, ARENA_BYTES, PROT_READ | PROT_WRITE, MAP_PRIVATE | MAP_ANONYMOUS | MAP_FIXED, -1, 0);
    if (arena_base == MAP_FAILED || (uintptr_t)arena_base != want) { printf("ARENAFAIL\n"); fflush(stdout); _exit(4); }
    arena_used = 0; arena_free = NULL; arena_allocs = arena_reuses = arena_frees = 0;
}
static void *arena_alloc(void)
{
    arena_allocs++;
    if (arena_free) { fl_t *p = arena_free; arena_free = p->next; arena_reuses++; return p; }
    void *p = arena_base + arena_used; arena_used += 16;
    if (arena_used > ARENA_BYTES) { printf("ARENAFULL\n"); fflush(stdout); _exit(4); }
    return p;
}
static void arena_release(void *p) { fl_t *f = p; arena_frees++; f->next = arena_free; arena_free = f; }

/* ------------------------------------------------------------------ interposition */
static void *verif_cas_ptr(void **addr, void *oldv, void *newv);
static void  verif_hazard(unsigned which, void *p) { verif_sp(which == 0 ? K_HZ0 : K_HZ1, NULL); (hazardous_ptr)(which, p); }
static void  verif_release(hazardous_free_f f, void *p) { verif_sp(K_REL, NULL); (hazardous_release_node)(f, p); }
static volatile int seen_hi = 0;      /* a node address with bit 31 set was handed out by the real pool */
static void *verif_alloc(qpool *pool)
{
    verif_sp(K_ALLOC, NULL);
    if (arena_on) return arena_alloc();
    void *p = (qpool_alloc)(pool);
    if (((uintptr_t)p >> 31) & 1) seen_hi = 1;
    return p;
}
static void  verif_free(qpool *pool, void *p) { if (arena_on) arena_release(p); else (qpool_free)(pool, p); }
static void  verif_yield(void)
{
    if (my_tid >= 0) verif_sp(K_YIELD, NULL);
    else { __asm__ __volatile__ ("" ::: "memory"); qthread_yield_(0); }
}

#undef COMPILER_FENCE
#define COMPILER_FENCE do { verif_sp(K_CF, NULL); __asm__ __volatile__ ("" ::: "memory"); } while (0)
#undef MACHINE_FENCE
#define MACHINE_FENCE do { verif_sp(K_MF, NULL); __sync_synchronize(); } while (0)
#undef qthread_yield
#define qthread_yield() verif_yield()
#undef qthread_cas_ptr
#define qthread_cas_ptr(A, O, N) verif_cas_ptr((void **)(A), (void *)(O), (void *)(N))
#define hazardous_ptr(W, P) verif_hazard((W), (P))
#define hazardous_release_node(F, P) verif_release((F), (P))
#define qpool_alloc(POOL) verif_alloc(POOL)
#define qpool_free(POOL, P) verif_free((POOL), (P))

#include "ds/qlfqueue.c"
#include "ds/qswsrqueue.c"

#undef hazardous_ptr
#undef hazardous_release_node
#undef qpool_alloc
#undef qpool_free

static void *verif_cas_ptr(void **addr, void *oldv, void *newv)
{
    verif_sp(K_CAS, addr);
    return (void *)__sync_val_compare_and_swap(addr, oldv, newv);
}

/* ---- extension H (DM): interposition of the shared accesses of qdqueue.c (mode DM).  Every wrapper first calls the baton and
 * then performs the original operation; with no baton thread active (my_tid < 0: modes M4, DQ, DA) verif_sp returns at once.
 * The wrapper bodies are compiled BEFORE the macros are redefined, so they use the library's own qthread_incr / qthread_cas. */
static void *volatile dm_holds[MAXT];            /* gateway_lock currently held by baton task t (NULL = none) */
static int   verif_dm_lfempty(qlfqueue_t *q) { verif_sp(K_LFEMPTY, q); dm_quiet++; int r = (qlfqueue_empty)(q); dm_quiet--; return r; }
static int   verif_dm_lfenq(qlfqueue_t *q, void *e) { verif_sp(K_LFENQ, q); dm_quiet++; int r = (qlfqueue_enqueue)(q, e); dm_quiet--; return r; }
static void *verif_dm_lfdeq(qlfqueue_t *q) { verif_sp(K_LFDEQ, q); dm_quiet++; void *r = (qlfqueue_dequeue)(q); dm_quiet--; return r; }
static aligned_t verif_dm_incr(aligned_t *a, aligned_t v) { verif_sp(K_INCR, a); return qthread_incr(a, v); }
static aligned_t verif_dm_cas(aligned_t *a, aligned_t o, aligned_t n) { verif_sp(K_CASV, a); return qthread_cas(a, o, n); }
static void *verif_dm_cas_ptr(void **a, void *o, void *n) { verif_sp(K_CASP, a); return (void *)__sync_val_compare_and_swap(a, o, n); }
static int   verif_dm_lock(const aligned_t *a)
{
    verif_sp(K_LOCK, (void *)a);
    int r = (qthread_lock)(a);
    if (my_tid >= 0) dm_holds[my_tid] = (void *)a;
    return r;
}
static int   verif_dm_unlock(const aligned_t *a)
{
    verif_sp(K_UNLOCK, (void *)a);               /* parked here the task still HOLDS the lock */
    if (my_tid >= 0) dm_holds[my_tid] = NULL;
    return (qthread_unlock)(a);
}
#pragma push_macro("qthread_incr")
#pragma push_macro("qthread_cas")
#pragma push_macro("qthread_cas_ptr")
#undef qthread_incr
#undef qthread_cas
#undef qthread_cas_ptr
#define qthread_incr(A, V) verif_dm_incr((aligned_t *)(A), (aligned_t)(V))
#define qthread_cas(A, O, N) verif_dm_cas((aligned_t *)(A), (aligned_t)(O), (aligned_t)(N))
#define qthread_cas_ptr(A, O, N) verif_dm_cas_ptr((void **)(A), (void *)(O), (void *)(N))
#define qthread_lock(A) verif_dm_lock(A)
#define qthread_unlock(A) verif_dm_unlock(A)
#define qlfqueue_empty(Q) verif_dm_lfempty(Q)
#define qlfqueue_enqueue(Q, E) verif_dm_lfenq((Q), (E))
#define qlfqueue_dequeue(Q) verif_dm_lfdeq(Q)
/* ---- end extension H (DM) (the matching #undef block follows the include) ---- */
#include "ds/qdqueue.c"               /* white-box only for the allsheps arrays (DA); not interposed on purpose */
/* ---- extension H (DM): restore, so that the rest of the harness calls the queue functions directly ---- */
#undef qlfqueue_dequeue
#undef qlfqueue_enqueue
#undef qlfqueue_empty
#undef qthread_unlock
#undef qthread_lock
#pragma pop_macro("qthread_cas_ptr")
#pragma pop_macro("qthread_cas")
#pragma pop_macro("qthread_incr")
/* ---- end extension H (DM) ---- */

/* ------------------------------------------------------------------ script parsing */
#define MAXOPS 4096
typedef struct { char k; unsigned long v; } op_t;
typedef struct { op_t ops[MAXOPS]; int n; } prog_t;
static prog_t progs[MAXT];

static char *next_bar(char **s) { char *p = *s; if (!p) return NULL; char *b = strchr(p, '|'); if (b) { *b = 0; *s = b + 1; } else *s = NULL; return p; }
static void parse_prog(prog_t *pr, char *s)
{
    pr->n = 0;
    for (char *tok = strtok(s, " \n"); tok; tok = strtok(NULL, " \n")) {
        pr->ops[pr->n].k = tok[0];
        pr->ops[pr->n].v = tok[1] ? strtoul(tok + 1, NULL, 10) : 0;
        if (pr->n < MAXOPS - 1) pr->n++;
    }
}

static const char *grant(int t, char *buf);

/* ------------------------------------------------------------------ SW: swsr ring under the baton */
static qswsrqueue_t *swq;
static char          res_buf[MAXT][64];

static void *sw_thread(void *arg)
{
    int t = (int)(intptr_t)arg;
    my_tid = t;
    while (sem_wait(&sem_thr[t]) != 0) ;
    if (aborting) return NULL;
    prog_t *pr = &progs[t];
    for (int i = 0; i < pr->n; i++) {
        op_t *o = &pr->ops[i];
        switch (o->k) {
            case 'e': { int rc = qswsrqueue_enqueue(swq, (void *)(uintptr_t)o->v); sprintf(res_buf[t], "i%d", rc < 0 ? -rc : rc); break; }
            case 'E': { int rc = qswsrqueue_enqueue_blocking(swq, (void *)(uintptr_t)o->v); sprintf(res_buf[t], "i%d", rc < 0 ? -rc : rc); break; }
            case 'd': { void *p = qswsrqueue_dequeue(swq); sprintf(res_buf[t], "p%lu", (unsigned long)(uintptr_t)p); break; }
            case 'D': { void *p = qswsrqueue_dequeue_blocking(swq); sprintf(res_buf[t], "p%lu", (unsigned long)(uintptr_t)p); break; }
            case 'm': { int e = qswsrqueue_empty(swq); sprintf(res_buf[t], "i%d", e); break; }
        }
        if (i == pr->n - 1) {
            t_finished[t] = 1; sp_kind_of[t] = K_END; my_tid = -1; sem_post(&sem_ctl); return NULL;
        }
        verif_sp(K_END, NULL);
    }
    return NULL;
}

static void sw_dump(void)
{
    printf(" | %u %u |", swq->head, swq->tail);
    uint32_t i = swq->head, n = 0;
    while (i != swq->tail && n <= swq->size) { printf(" %lu", (unsigned long)(uintptr_t)swq->elements[i]); i = (i + 1) % swq->size; n++; }
    printf("\n");
}

static const char *kname(int t)
{
    switch (sp_kind_of[t]) {
        case K_CF: return "CF"; case K_MF: return "MF"; case K_YIELD: return "Y"; case K_ALLOC: return "ALLOC";
        case K_HZ0: return "HZ0"; case K_HZ1: return "HZ1"; case K_REL: return "REL"; case K_END: return "END";
        default: return "?";
    }
}

static void run_sw(char *line)
{
    char *s = line; char *hdr = next_bar(&s), *pp = next_bar(&s), *cp = next_bar(&s), *sched = next_bar(&s);
    unsigned long elements = 0, override = 0; int cap = 0;
    sscanf(hdr, "SW %lu %lu %d", &elements, &override, &cap);
    parse_prog(&progs[0], pp); parse_prog(&progs[1], cp);
    swq = qswsrqueue_create(elements);
    uint32_t real_size = swq->size;
    for (uint32_t i = 0; i < swq->size; i++) swq->elements[i] = (void *)(uintptr_t)(0xDEAD0000u + i);
    /* small logical ring sizes (create() never returns fewer than 64 slots): white-box override of the size fields */
    if (override && override < swq->size) { swq->size = override; swq->size2 = override; }
    printf("S %u\n", swq->size);
    pthread_t th[2]; int started[2] = { 0, 0 };
    aborting = 0;
    for (int t = 0; t < 2; t++) {
        t_finished[t] = (progs[t].n == 0);
        if (progs[t].n) { pthread_create(&th[t], NULL, sw_thread, (void *)(intptr_t)t); started[t] = 1; }
    }
#define SW_GRANT(T) do { int t_ = (T); \
        if (t_finished[t_]) { printf("g %d -", t_); } \
        else { sem_post(&sem_thr[t_]); ctl_wait(); \
               if (sp_kind_of[t_] == K_END) printf("g %d END %s", t_, res_buf[t_]); else printf("g %d %s", t_, kname(t_)); } \
        sw_dump(); } while (0)
    for (char *c = sched; c && *c; c++) if (*c == '0' || *c == '1') SW_GRANT(*c - '0');
    int extra = 0, progress = 1;
    while (progress && extra < cap) {
        progress = 0;
        for (int t = 0; t < 2; t++) if (!t_finished[t] && extra < cap) { SW_GRANT(t); extra++; progress = 1; }
    }
    printf("F |");
    for (int t = 0; t < 2; t++) if (!t_finished[t]) printf(" %d", t);
    printf("\n");
    aborting = 1;
    for (int t = 0; t < 2; t++) if (started[t]) { if (!t_finished[t]) sem_post(&sem_thr[t]); pthread_join(th[t], NULL); }
    aborting = 0;
    swq->size = swq->size2 = real_size;
    qswsrqueue_destroy(swq);
}

/* ------------------------------------------------------------------ LF: lock-free queue under the baton */
static qlfqueue_t *lfq;
static sem_t       lf_done[MAXT];

static aligned_t lf_task(void *arg)
{
    int t = (int)(intptr_t)arg;
    my_tid = t;
    sp_kind_of[t] = 0;
    sem_post(&sem_ctl);                          /* started */
    while (sem_wait(&sem_thr[t]) != 0) ;
    prog_t *pr = &progs[t];
    for (int i = 0; i < pr->n; i++) {
        op_t *o = &pr->ops[i];
        switch (o->k) {
            case 'e': { int rc = qlfqueue_enqueue(lfq, (void *)(uintptr_t)o->v); sprintf(res_buf[t], "i%d", rc < 0 ? -rc : rc); break; }
            case 'd': { void *p = qlfqueue_dequeue(lfq); sprintf(res_buf[t], "p%lu", (unsigned long)(uintptr_t)p); break; }
            case 'm': { int e = qlfqueue_empty(lfq); sprintf(res_buf[t], "i%d", e); break; }
        }
        if (i == pr->n - 1) {
            t_finished[t] = 1; sp_kind_of[t] = K_END; my_tid = -1; sem_post(&sem_ctl); sem_post(&lf_done[t]); return 0;
        }
        verif_sp(K_END, NULL);
    }
    my_tid = -1; sem_post(&lf_done[t]);
    return 0;
}

/* ---- extension H (LR mode): dump with node addresses (arena ordinals), the pool and every worker's hazard state ---- */
static int lr_dump_on = 0;
static long arena_ord(void *p) { return p ? (long)(((char *)p - arena_base) / 16) + 1 : 0; }
static void lr_dump(void)
{
    qlfqueue_node_t *n = lfq->head; long i = 0;
    printf(" |");
    for (; n && i < 100000; n = n->next, i++) printf(" %ld", arena_ord(n));
    if (i >= 100000) printf(" CYCLE");
    printf(" |");
    n = lfq->head ? lfq->head->next : NULL;
    for (i = 0; n && i < 100000; n = n->next, i++) printf(" %lu", (unsigned long)(uintptr_t)n->value);
    printf(" | T %ld | P %ld :", arena_ord(lfq->tail), (long)(arena_used / 16) + 1);
    for (fl_t *f = arena_free; f; f = f->next) printf(" %ld", arena_ord(f));
    printf(" | W");
    for (qthread_shepherd_id_t s = 0; s < qthread_num_shepherds(); ++s)
        for (qthread_worker_id_t j = 0; j < qlib->nworkerspershep; ++j) {
            qthread_worker_t *w = &qlib->shepherds[s].workers[j];
            printf(" %ld %ld :", arena_ord((void *)w->hazard_ptrs[0]), arena_ord((void *)w->hazard_ptrs[1]));
            for (unsigned k = 0; k < w->hazard_free_list.count; k++) printf(" %ld", arena_ord(w->hazard_free_list.freelist[k].ptr));
            printf(" ;");
        }
    printf("\n");
}
/* ---- end extension H ---- */

static void lf_dump(void)
{
    if (lr_dump_on) { lr_dump(); return; }     /* extension H */
    /* position of tail on the chain from head, then the values behind the dummy */
    qlfqueue_node_t *n = lfq->head; long pos = -1, i = 0;
    for (; n && i < 100000; n = n->next, i++) if (n == lfq->tail) { pos = i; break; }
    if (pos < 0) printf(" | X |"); else printf(" | %ld |", pos);
    n = lfq->head ? lfq->head->next : NULL;
    for (i = 0; n && i < 100000; n = n->next, i++) printf(" %lu", (unsigned long)(uintptr_t)n->value);
    if (i >= 100000) printf(" CYCLE");
    printf("\n");
}

static void reset_hazard_slots(void)
{
    for (qthread_shepherd_id_t i = 0; i < qthread_num_shepherds(); ++i)
        for (qthread_worker_id_t j = 0; j < qlib->nworkerspershep; ++j) {
            memset(qlib->shepherds[i].workers[j].hazard_ptrs, 0, sizeof(uintptr_t) * HAZARD_PTRS_PER_SHEP);
            memset(qlib->shepherds[i].workers[j].hazard_free_list.freelist, 0, sizeof(hazard_freelist_entry_t) * freelist_max);
            qlib->shepherds[i].workers[j].hazard_free_list.count = 0;
        }
}

static void run_lf(char *line)
{
    char *s = line; char *hdr = next_bar(&s);
    char *parts[MAXT + 2]; int np = 0;
    while (s && np < MAXT + 1) parts[np++] = next_bar(&s);
    int cap = 0, hi = 0;
    sscanf(hdr + 2, "%d %d", &cap, &hi);      /* "LF" or (extension H) "LR" */
    int nt = np - 1; char *sched = parts[np - 1];
    if (nt + 1 > (int)qthread_num_shepherds()) { printf("F CONFIG\n"); return; }
    for (int t = 0; t < nt; t++) parse_prog(&progs[t], parts[t]);
    arena_setup(hi); arena_on = 1;
    reset_hazard_slots();
    lfq = qlfqueue_create();
    for (int t = 0; t < nt; t++) {
        t_finished[t] = (progs[t].n == 0);
        sem_init(&lf_done[t], 0, 0);
        if (progs[t].n) { qthread_fork_to(lf_task, (void *)(intptr_t)t, NULL, t + 1); ctl_wait(); }
    }
#define LF_GRANT(T) do { int t_ = (T); \
        if (t_finished[t_]) { printf("g %d -", t_); } \
        else { sem_post(&sem_thr[t_]); ctl_wait(); \
               if (sp_kind_of[t_] == K_END) printf("g %d END %s", t_, res_buf[t_]); \
               else if (sp_kind_of[t_] == K_CAS) printf("g %d %s", t_, sp_addr_of[t_] == (void *)&lfq->head ? "CASH" : sp_addr_of[t_] == (void *)&lfq->tail ? "CAST" : "CASN"); \
               else printf("g %d %s", t_, kname(t_)); } \
        lf_dump(); } while (0)
    for (char *c = sched; c && *c; c++) if (*c >= '0' && *c < '0' + nt) LF_GRANT(*c - '0');
    int extra = 0, progress = 1;
    while (progress && extra < cap) {
        progress = 0;
        for (int t = 0; t < nt; t++) if (!t_finished[t] && extra < cap) { LF_GRANT(t); extra++; progress = 1; }
    }
    printf("F |");
    int stuck = 0;
    for (int t = 0; t < nt; t++) if (!t_finished[t]) { printf(" %d", t); stuck = 1; }
    printf(" | allocs %ld reuses %ld frees %ld\n", arena_allocs, arena_reuses, arena_frees);
    fflush(stdout);
    if (stuck) _exit(0);                 /* tasks parked inside the queue code cannot be unwound */
    for (int t = 0; t < nt; t++) if (progs[t].n) while (sem_wait(&lf_done[t]) != 0) ;
    /* the queue is abandoned with the arena (next case maps a fresh one); retired nodes stay in the free lists */
    reset_hazard_slots();
    arena_on = 0;
}

/* ------------------------------------------------------------------ HS: hazardous_scan on prepared slots */
static uintptr_t hs_freed[256]; static int hs_nfreed;
static void hs_free(void *p) { if (hs_nfreed < 256) hs_freed[hs_nfreed++] = (uintptr_t)p; }

static void run_hs(char *line)
{
    char *s = line; char *hdr = next_bar(&s);
    char *parts[66]; int np = 0;
    while (s && np < 65) parts[np++] = next_bar(&s);
    int me = 0; sscanf(hdr, "HS %d", &me);
    int nw = np - 1;
    if (nw != (int)qthread_num_workers() || qlib->nworkerspershep != 1) { printf("HS CONFIG\n"); return; }
    reset_hazard_slots();
    for (int w = 0; w < nw; w++) {
        int k = 0;
        for (char *tok = strtok(parts[w], " \n"); tok && k < HAZARD_PTRS_PER_SHEP; tok = strtok(NULL, " \n"))
            qlib->shepherds[w].workers[0].hazard_ptrs[k++] = strtoull(tok, NULL, 10);
    }
    hazard_freelist_t *hfl = &qlib->shepherds[me].workers[0].hazard_free_list;
    unsigned k = 0;
    for (char *tok = strtok(parts[nw], " \n"); tok && k < freelist_max; tok = strtok(NULL, " \n")) {
        hfl->freelist[k].freefunc = hs_free; hfl->freelist[k].ptr = (void *)(uintptr_t)strtoull(tok, NULL, 10); k++;
    }
    hfl->count = freelist_max;
    hs_nfreed = 0;
    alarm(10);
    hazardous_scan(hfl);
    alarm(0);
    printf("HS |");
    for (unsigned i = 0; i < hfl->count; i++) printf(" %lu", (unsigned long)(uintptr_t)hfl->freelist[i].ptr);
    printf(" |");
    for (int i = 0; i < hs_nfreed; i++) printf(" %lu", (unsigned long)hs_freed[i]);
    printf("\n");
    reset_hazard_slots();
}

/* ------------------------------------------------------------------ M4: free-running tasks */
typedef struct {
    int kind;                 /* 0 swsr, 1 lfq, 2 qdqueue */
    int id, nprod, ncons, blocking;
    unsigned long per;        /* items per producer */
    unsigned long *got; unsigned long ngot, capgot;
    unsigned long nulls, empties_ok, empties_bad;
} m4_arg_t;
static qdqueue_t     *dq;
static aligned_t      m4_completed = 0, m4_delivered = 0, m4_prod_done = 0, m4_total = 0;
static volatile int   m4_go = 0;

#define VAL(p, s) ((((unsigned long)(p) + 1) << 32) | ((unsigned long)(s) + 1))

static aligned_t m4_producer(void *a_)
{
    m4_arg_t *a = a_;
    while (!m4_go) sched_yield();
    for (unsigned long s = 0; s < a->per; s++) {
        void *v = (void *)VAL(a->id, s);
        switch (a->kind) {
            case 0:
                if (a->blocking) qswsrqueue_enqueue_blocking(swq, v);
                else while (qswsrqueue_enqueue(swq, v) != QTHREAD_SUCCESS) verif_yield();
                break;
            case 1: qlfqueue_enqueue(lfq, v); break;
            case 2: qdqueue_enqueue(dq, v); break;
        }
        qthread_incr(&m4_completed, 1);
    }
    qthread_incr(&m4_prod_done, 1);
    return 0;
}

static void m4_record(m4_arg_t *a, void *p)
{
    if (a->ngot < a->capgot) a->got[a->ngot] = (unsigned long)(uintptr_t)p;
    a->ngot++;
    qthread_incr(&m4_delivered, 1);
}

static aligned_t m4_consumer(void *a_)
{
    m4_arg_t *a = a_;
    while (!m4_go) sched_yield();
    unsigned long iter = 0;
    while (1) {
        void *p = NULL;
        iter++;
        if (a->kind == 0 && (iter % 7) == 0) {
            /* emptiness soundness (single consumer: ngot is exact) */
            aligned_t c0 = m4_completed; __sync_synchronize();
            int e = qswsrqueue_empty(swq);
            if (e && a->ngot < c0) a->empties_bad++; else a->empties_ok++;
        }
        if (a->kind == 1 && a->ncons == 1 && (iter % 7) == 0) {
            aligned_t c0 = m4_completed; __sync_synchronize();
            int e = qlfqueue_empty(lfq);
            if (e && a->ngot < c0) a->empties_bad++; else a->empties_ok++;
        }
        switch (a->kind) {
            case 0:
                if (a->blocking && a->ngot < m4_total) p = qswsrqueue_dequeue_blocking(swq);
                else p = qswsrqueue_dequeue(swq);
                break;
            case 1: p = qlfqueue_dequeue(lfq); break;
            case 2: p = qdqueue_dequeue(dq); break;
        }
        if (p) { m4_record(a, p); continue; }
        a->nulls++;
        if (m4_prod_done == (aligned_t)a->nprod) {
            /* producers have finished: one more NULL after that point ends this consumer */
            void *q2 = NULL;
            switch (a->kind) {
                case 0: q2 = qswsrqueue_dequeue(swq); break;
                case 1: q2 = qlfqueue_dequeue(lfq); break;
                case 2: q2 = qdqueue_dequeue(dq); break;
            }
            if (q2) { m4_record(a, q2); continue; }
            break;
        }
        qthread_yield_(0);
    }
    return 0;
}

static void run_m4(char *line)
{
    int kind, nprod, ncons, blocking, pert; unsigned long per, ring;
    if (sscanf(line, "M4 %d %d %d %lu %d %lu %d", &kind, &nprod, &ncons, &per, &blocking, &ring, &pert) != 7) { printf("F ERR\n"); return; }
    m4_completed = m4_delivered = m4_prod_done = 0; m4_go = 0; m4_total = (unsigned long)nprod * per;
    if (kind == 0) swq = qswsrqueue_create(ring);
    if (kind == 1) lfq = qlfqueue_create();
    if (kind == 2) dq = qdqueue_create();
    int nt = nprod + ncons;
    m4_arg_t *args = calloc(nt, sizeof(m4_arg_t));
    aligned_t *rets = calloc(nt, sizeof(aligned_t));
    unsigned ns = qthread_num_shepherds();
    perturb = pert;
    alarm(120);
    for (int i = 0; i < nt; i++) {
        m4_arg_t *a = &args[i];
        a->kind = kind; a->nprod = nprod; a->ncons = ncons; a->blocking = blocking; a->per = per;
        if (i < nprod) { a->id = i; qthread_fork_to(m4_producer, a, &rets[i], i % ns); }
        else { a->id = i - nprod; a->capgot = m4_total + 16; a->got = malloc(sizeof(unsigned long) * a->capgot);
               qthread_fork_to(m4_consumer, a, &rets[i], (ns - 1 - (a->id % ns))); }
    }
    m4_go = 1;
    for (int i = 0; i < nt; i++) qthread_readFF(NULL, &rets[i]);
    perturb = 0;
    /* quiescent: the emptiness test must agree with a final drain by this task */
    int e_final = -1; unsigned long late = 0;
    void *p;
    switch (kind) {
        case 0: e_final = qswsrqueue_empty(swq); while ((p = qswsrqueue_dequeue(swq)) != NULL) late++; break;
        case 1: e_final = qlfqueue_empty(lfq); while ((p = qlfqueue_dequeue(lfq)) != NULL) late++; break;
        case 2: e_final = qdqueue_empty(dq); while ((p = qdqueue_dequeue(dq)) != NULL) late++; break;
    }
    alarm(0);
    for (int i = nprod; i < nt; i++) {
        m4_arg_t *a = &args[i];
        printf("C %d n %lu nulls %lu eok %lu ebad %lu :", a->id, a->ngot, a->nulls, a->empties_ok, a->empties_bad);
        for (unsigned long j = 0; j < a->ngot && j < a->capgot; j++) printf(" %lu.%lu", (a->got[j] >> 32) - 1, (a->got[j] & 0xffffffffUL) - 1);
        printf("\n");
        free(a->got);
    }
    printf("F | total %lu delivered %lu efinal %d late %lu hi %d\n", m4_total, (unsigned long)m4_delivered, e_final, late, seen_hi);
    switch (kind) {
        case 0: qswsrqueue_destroy(swq); break;
        case 1: qlfqueue_destroy(lfq); break;
        case 2: qdqueue_destroy(dq); break;
    }
    free(args); free(rets);
}

/* ------------------------------------------------------------------ DQ: sequential scripted qdqueue (M2 style)
 * script: tokens "<shep>e<v>" enqueue, "<shep>t<target>,<v>" enqueue_there, "<shep>d" dequeue, "<shep>m" empty; each token is
 * executed by one task forked to the named shepherd; the controller (main task) blocks on the task's return word (FEB).
 * After every operation: actual shepherd, result, and the contents of every sub-queue (white-box walk). */
typedef struct { char op; unsigned long v; unsigned target; unsigned actual; unsigned long res; } dq_op_t;
static aligned_t dq_task(void *a_)
{
    dq_op_t *a = a_;
    a->actual = qthread_shep();
    switch (a->op) {
        case 'e': a->res = (unsigned long)qdqueue_enqueue(dq, (void *)(uintptr_t)a->v); break;
        case 't': a->res = (unsigned long)qdqueue_enqueue_there(dq, (void *)(uintptr_t)a->v, a->target); break;
        case 'd': a->res = (unsigned long)(uintptr_t)qdqueue_dequeue(dq); break;
        case 'm': a->res = (unsigned long)qdqueue_empty(dq); break;
    }
    return 0;
}
static void dq_dump(void)
{
    for (unsigned i = 0; i < maxsheps; i++) {
        printf(" |");
        qlfqueue_node_t *n = dq->Qs[i].theQ->head ? dq->Qs[i].theQ->head->next : NULL;
        long k = 0;
        for (; n && k < 100000; n = n->next, k++) printf(" %lu", (unsigned long)(uintptr_t)n->value);
    }
    printf("\n");
}
static void run_dq(char *line)
{
    char *bar = strchr(line, '|');
    dq = qdqueue_create();
    printf("S %u", (unsigned)maxsheps); dq_dump();
    alarm(60);
    for (char *tok = strtok(bar ? bar + 1 : NULL, " \n"); tok; tok = strtok(NULL, " \n")) {
        dq_op_t a; memset(&a, 0, sizeof a);
        char *e; unsigned shep = (unsigned)strtoul(tok, &e, 10);
        a.op = *e++;
        if (a.op == 'e') a.v = strtoul(e, NULL, 10);
        if (a.op == 't') { a.target = (unsigned)strtoul(e, &e, 10); a.v = strtoul(e + 1, NULL, 10); }
        if (shep >= qthread_num_shepherds()) { printf("r CONFIG\n"); continue; }
        aligned_t ret = 0;
        qthread_fork_to(dq_task, &a, &ret, shep);
        qthread_readFF(NULL, &ret);
        printf("r %u %c %lu", a.actual, a.op, a.res); dq_dump();
    }
    alarm(0);
    printf("F\n");
    qdqueue_destroy(dq);
}

/* qdqueue allsheps arrays must name every other shepherd (hypothesis alls_ok of Dq.v) */
static void run_da(void)
{
    qdqueue_t *q = qdqueue_create();
    printf("DA %u", (unsigned)maxsheps);
    for (unsigned i = 0; i < maxsheps; i++) {
        printf(" |");
        for (unsigned j = 0; j + 1 < maxsheps; j++) printf(" %ld", (long)(q->Qs[i].allsheps[j] - q->Qs));
    }
    printf("\n");
    qdqueue_destroy(q);
}

/* ------------------------------------------------------------------ extension H (DM): qdqueue.c under the baton (M3)
 * DM cap ns | <shep>: ops | <shep>: ops ... | schedule(digits, optional run-until suffixes: see run_dm)
 *                                                                     ops: e<v> enqueue, t<there>,<v> enqueue_there, d dequeue
 * Task k is pinned on shepherd <shep> (1..ns-1, pairwise distinct; the controller occupies shepherd 0).  One grant runs a task to
 * its next interposed operation of qdqueue.c (or to the end of its call).  Output: the configuration line
 *   C ns | allsheps[0] ; allsheps[1] ; ... | neighbors[0] ; neighbors[1] ; ...          (indices into Qs)
 * then per grant   g <t> <KIND>[ <target sub-queue>] | <dump>      g <t> END i<rc>|p<value> | <dump>
 *                  g <t> BLOCKED | <dump>   (t stands before qthread_lock on a gateway_lock held by another parked task: NOT released)
 *                  g <t> - | <dump>         (t has finished its program)
 * dump = per shepherd:  q <values> ; lc <idx|-> ; ai <last_ad_issued> ac <last_ad_consumed> ; h <element indices from first along next>
 *                       ; e <inheap>:<generation>:<prev|->:<next|-> per heap element
 * and finally      F | <stuck task ids>                                                                                          */
typedef struct { char k; unsigned long v; unsigned there; } dm_op_t;
static dm_op_t dm_ops[MAXT][MAXOPS];
static int     dm_nops[MAXT];
static volatile unsigned dm_actual[MAXT];

static aligned_t dm_task(void *arg)
{
    int t = (int)(intptr_t)arg;
    my_tid = t;
    dm_quiet = 0;
    dm_actual[t] = qthread_shep();
    sp_kind_of[t] = 0;
    sem_post(&sem_ctl);                          /* started */
    while (sem_wait(&sem_thr[t]) != 0) ;
    for (int i = 0; i < dm_nops[t]; i++) {
        dm_op_t *o = &dm_ops[t][i];
        switch (o->k) {
            case 'e': { int rc = qdqueue_enqueue(dq, (void *)(uintptr_t)o->v); sprintf(res_buf[t], "i%d", rc < 0 ? -rc : rc); break; }
            case 't': { int rc = qdqueue_enqueue_there(dq, (void *)(uintptr_t)o->v, o->there); sprintf(res_buf[t], "i%d", rc < 0 ? -rc : rc); break; }
            case 'd': { void *p = qdqueue_dequeue(dq); sprintf(res_buf[t], "p%lu", (unsigned long)(uintptr_t)p); break; }
        }
        if (i == dm_nops[t] - 1) {
            t_finished[t] = 1; sp_kind_of[t] = K_END; my_tid = -1; sem_post(&sem_ctl); sem_post(&lf_done[t]); return 0;
        }
        verif_sp(K_END, NULL);
    }
    my_tid = -1; sem_post(&lf_done[t]);
    return 0;
}

static void dm_idx(const char *pre, void *p, void *base, size_t sz)
{
    if (p) printf("%s%ld", pre, (long)(((char *)p - (char *)base) / (long)sz)); else printf("%s-", pre);
}
static void dm_dump(void)
{
    for (unsigned i = 0; i < maxsheps; i++) {
        struct qdsubqueue_s *s = &dq->Qs[i];
        printf(" | q");
        qlfqueue_node_t *n = s->theQ->head ? s->theQ->head->next : NULL;
        long k = 0;
        for (; n && k < 100000; n = n->next, k++) printf(" %lu", (unsigned long)(uintptr_t)n->value);
        dm_idx(" ; lc ", s->last_consumed, dq->Qs, sizeof(struct qdsubqueue_s));
        printf(" ; ai %lu ac %lu ; h", (unsigned long)s->last_ad_issued, (unsigned long)s->last_ad_consumed);
        struct qdqueue_adheap_elem_s *e = s->ads.first;
        for (unsigned c = 0; e && c < maxsheps + 1; e = e->next, c++) printf(" %ld", (long)(e - s->ads.heap));
        printf(" ; e");
        for (unsigned j = 0; j < maxsheps; j++) {
            e = &s->ads.heap[j];
            printf(" %d:%lu", e->inheap, (unsigned long)e->ad.generation);
            dm_idx(":", e->prev, s->ads.heap, sizeof *e);
            dm_idx(":", e->next, s->ads.heap, sizeof *e);
        }
    }
    printf("\n");
}
static void dm_config(qdqueue_t *q)
{
    printf("C %u |", (unsigned)maxsheps);
    for (unsigned i = 0; i < maxsheps; i++) {
        if (i) printf(" ;");
        for (unsigned j = 0; j + 1 < maxsheps; j++) printf(" %ld", (long)(q->Qs[i].allsheps[j] - q->Qs));
    }
    printf(" |");
    for (unsigned i = 0; i < maxsheps; i++) {
        if (i) printf(" ;");
        for (size_t j = 0; j < q->Qs[i].nNeighbors; j++) printf(" %ld", (long)(q->Qs[i].neighbors[j] - q->Qs));
    }
    printf("\n");
}
/* index of the sub-queue the parked task's interposed operation is aimed at */
static long dm_target(int t)
{
    void *a = sp_addr_of[t];
    switch (sp_kind_of[t]) {
        case K_LFEMPTY: case K_LFENQ: case K_LFDEQ:
            for (unsigned i = 0; i < maxsheps; i++) if ((void *)dq->Qs[i].theQ == a) return i;
            return -1;
        case K_INCR: case K_CASV: case K_CASP: case K_LOCK: case K_UNLOCK:
            if ((char *)a < (char *)dq->Qs || (char *)a >= (char *)(dq->Qs + maxsheps)) return -1;
            return (long)(((char *)a - (char *)dq->Qs) / (long)sizeof(struct qdsubqueue_s));
    }
    return -1;
}
static const char *dm_kname(int k)
{
    switch (k) {
        case K_LFEMPTY: return "LFEMPTY"; case K_LFENQ: return "LFENQ"; case K_LFDEQ: return "LFDEQ"; case K_INCR: return "INCR";
        case K_CASV: return "CASV"; case K_CASP: return "CASP"; case K_LOCK: return "LOCK"; case K_UNLOCK: return "UNLOCK";
        default: return "?";
    }
}
/* a task standing before qthread_lock(a) must not be released while another parked task holds a: it would block inside the FEB
 * lock and never reach a schedule point (DqMicro: dm_step = None) */
static int dm_blocked(int t, int nt)
{
    if (sp_kind_of[t] != K_LOCK) return 0;
    for (int u = 0; u < nt; u++) if (u != t && dm_holds[u] && dm_holds[u] == sp_addr_of[t]) return 1;
    return 0;
}

static void run_dm(char *line)
{
    char *s = line; char *hdr = next_bar(&s);
    char *parts[MAXT + 2]; int np = 0;
    while (s && np < MAXT + 1) parts[np++] = next_bar(&s);
    int cap = 0, ns = 0;
    sscanf(hdr + 2, "%d %d", &cap, &ns);
    int nt = np - 1;
    unsigned sheps[MAXT]; int bad = (np < 2 || ns != (int)qthread_num_shepherds() || qlib->nworkerspershep != 1);
    char *sched = np >= 1 ? parts[np - 1] : NULL;
    for (int t = 0; t < nt && !bad; t++) {
        char *e; sheps[t] = (unsigned)strtoul(parts[t], &e, 10);
        if (*e != ':' || sheps[t] < 1 || sheps[t] >= qthread_num_shepherds()) { bad = 1; break; }
        for (int u = 0; u < t; u++) if (sheps[u] == sheps[t]) bad = 1;
        dm_nops[t] = 0;
        for (char *tok = strtok(e + 1, " \n"); tok; tok = strtok(NULL, " \n")) {
            dm_op_t *o = &dm_ops[t][dm_nops[t]];
            o->k = tok[0]; o->v = 0; o->there = 0;
            if (o->k == 'e') o->v = strtoul(tok + 1, NULL, 10);
            else if (o->k == 't') { char *c; o->there = (unsigned)strtoul(tok + 1, &c, 10); o->v = (*c == ',') ? strtoul(c + 1, NULL, 10) : 0; }
            else if (o->k != 'd') bad = 1;
            if ((o->k == 'e' || o->k == 't') && o->v == 0) bad = 1;
            if (o->k == 't' && o->there >= qthread_num_shepherds()) bad = 1;
            if (dm_nops[t] < MAXOPS - 1) dm_nops[t]++;
        }
    }
    if (bad) { printf("F CONFIG\n"); return; }
    dq = qdqueue_create();
    dm_config(dq);
    for (int t = 0; t < nt; t++) {
        t_finished[t] = (dm_nops[t] == 0);
        dm_holds[t] = NULL; sp_kind_of[t] = 0; sp_addr_of[t] = NULL; dm_actual[t] = sheps[t];
        sem_init(&lf_done[t], 0, 0);
        if (dm_nops[t]) { qthread_fork_to(dm_task, (void *)(intptr_t)t, NULL, sheps[t]); ctl_wait(); }
    }
    for (int t = 0; t < nt; t++) if (dm_actual[t] != sheps[t]) { printf("F MIGRATED %d\n", t); fflush(stdout); _exit(0); }
#define DM_GRANT(T) do { int t_ = (T); \
        if (t_finished[t_]) { printf("g %d -", t_); } \
        else if (dm_blocked(t_, nt)) { printf("g %d BLOCKED", t_); } \
        else { sem_post(&sem_thr[t_]); ctl_wait(); \
               if (sp_kind_of[t_] == K_END) printf("g %d END %s", t_, res_buf[t_]); \
               else printf("g %d %s %ld", t_, dm_kname(sp_kind_of[t_]), dm_target(t_)); } \
        dm_dump(); } while (0)
    /* schedule: a digit grants that task once; a digit followed by one of . M Q D I C P L U grants it (at least once, at most 64
     * times) until it stands at END (.) / before that kind of operation, returns from its call, finishes or is BLOCKED.  The
     * sequence of "g <t>" lines IS the resolved digit schedule (the Python side replays exactly that sequence on the model). */
    for (char *c = sched; c && *c; c++) if (*c >= '0' && *c < '0' + nt) {
        int t = *c - '0', want = 0;
        switch (c[1]) { case '.': want = K_END; break; case 'M': want = K_LFEMPTY; break; case 'Q': want = K_LFENQ; break;
                        case 'D': want = K_LFDEQ; break; case 'I': want = K_INCR; break; case 'C': want = K_CASV; break;
                        case 'P': want = K_CASP; break; case 'L': want = K_LOCK; break; case 'U': want = K_UNLOCK; break; }
        if (!want) { DM_GRANT(t); continue; }
        c++;
        for (int n = 0; n < 64; n++) {
            int fin = t_finished[t], blk = !fin && dm_blocked(t, nt);
            DM_GRANT(t);
            if (fin || blk || t_finished[t] || sp_kind_of[t] == K_END || sp_kind_of[t] == want) break;
        }
    }
    int extra = 0, progress = 1;
    while (progress && extra < cap) {
        progress = 0;
        for (int t = 0; t < nt; t++) if (!t_finished[t] && extra < cap) { DM_GRANT(t); extra++; progress = 1; }
    }
    printf("F |");
    int stuck = 0;
    for (int t = 0; t < nt; t++) if (!t_finished[t]) { printf(" %d", t); stuck = 1; }
    printf("\n");
    fflush(stdout);
    if (stuck) _exit(0);                 /* tasks parked inside the queue code cannot be unwound */
    for (int t = 0; t < nt; t++) if (dm_nops[t]) while (sem_wait(&lf_done[t]) != 0) ;
    qdqueue_destroy(dq);
}
/* DC: the configuration line of a fresh qdqueue on this shepherd count */
static void run_dc(void)
{
    qdqueue_t *q = qdqueue_create();
    dm_config(q);
    qdqueue_destroy(q);
}
/* ------------------------------------------------------------------ end extension H (DM) */

/* ------------------------------------------------------------------ extension H (XP): qlfqueue / hazard pointers called by an
 * EXTERNAL caller = a plain pthread that is not a qthread worker (qthread_internal_getworker() == NULL).  Experiment mode: NOT used
 * by ./check.  ONE XP line per harness process (every scenario ends with _exit; on a fatal signal the handler prints
 *   XP SIGNAL <signo> addr <si_addr> pc +0x<offset in the executable> tid <baton id> ext <0|1>      XP BT +0x.. +0x.. ...
 * and lets the default action kill the process, so the caller observes the signal as the exit status).
 *   XP 1 <next> <ncons> <per>   free-running, real pool: <next> pthreads enqueue <per> items each, <ncons> worker tasks dequeue;
 *                               C-side conservation oracle.   -> "XP1 | total .. delivered .. lost .. dup .. order_bad .. | hzlen .. | verdict .."
 *   XP 2 <nitems> [<ndeq>]      the controller enqueues 1..<nitems>, then ONE pthread calls qlfqueue_dequeue <ndeq> (default 1) times.
 *                               -> "XP2 | dequeued <first v> | got .. of .. attempts, out of order .. | hzlen <n> | verdict OK"   (or XP SIGNAL)
 *   XP 3 <hi> <nreg>            baton + fixed arena, needs >= 2 shepherds.  <nreg> extra pthreads only register a (zero) slot array.
 *        prefill 1..fmax by the controller; worker task W (shepherd 1) dequeues fmax-1; external pthread E starts a dequeue and is
 *        parked before its CAS on q->head (slots: X = head, Y = next); W dequeues once more (fmax-th retire: hazardous_scan), then
 *        enqueues 900 and dequeues once; E performs its CAS; the controller drains; E finishes.
 *        -> "g <t> <KIND>[ <res>] | E <slot0> <slot1> <LR dump>" per grant (arena ordinals), and the verdict lines
 *           "XP3 scan | X .. Y .. | slotE .. .. | X_freed .. | hzlen .. | verdict PROTECTION-LOST|PROTECTED"
 *           "XP3 E-CAS | succeeded <0|1> ..."      "XP3 conservation | ... | verdict OK|VIOLATED"      "XP3 F | E <res>"      */
#include <execinfo.h>
#include <dlfcn.h>
static __thread int xp_is_ext = 0;
static void xp_on_signal(int sig, siginfo_t *si, void *uc_)
{
    char buf[1024]; int n; void *bt[40]; void *pc = NULL; Dl_info di;
    memset(&di, 0, sizeof di);
    dladdr((void *)&xp_on_signal, &di);
    fflush(stdout);
    int k = backtrace(bt, 40);            /* bt[0] = this handler, bt[1] = signal trampoline, bt[2] = the faulting instruction */
    if (k > 2) pc = bt[2];
    n = snprintf(buf, sizeof buf, "XP SIGNAL %d addr %p pc +0x%lx tid %d ext %d\nXP BT", sig, si ? si->si_addr : NULL,
                 (unsigned long)((char *)pc - (char *)di.dli_fbase), my_tid, xp_is_ext);
    for (int i = 0; i < k && n < (int)sizeof buf - 32; i++) n += snprintf(buf + n, sizeof buf - n, " +0x%lx", (unsigned long)((char *)bt[i] - (char *)di.dli_fbase));
    n += snprintf(buf + n, sizeof buf - n, "\n");
    if (write(1, buf, n) < 0) { }
    signal(sig, SIG_DFL);                 /* returning re-executes the faulting instruction / abort() re-raises: default action */
}
static void xp_signals(void)
{
    struct sigaction sa; memset(&sa, 0, sizeof sa);
    sa.sa_sigaction = xp_on_signal; sa.sa_flags = SA_SIGINFO;
    sigaction(SIGSEGV, &sa, NULL); sigaction(SIGBUS, &sa, NULL); sigaction(SIGABRT, &sa, NULL);
}
#define XPRINT(...) do { printf(__VA_ARGS__); fflush(stdout); } while (0)

/* ---- XP 1 */
static void *xp1_prod_thread(void *a_) { xp_is_ext = 1; m4_producer(a_); return NULL; }
static void run_xp1(int next, int ncons, unsigned long per)
{
    m4_completed = m4_delivered = m4_prod_done = 0; m4_go = 0; m4_total = (unsigned long)next * per;
    lfq = qlfqueue_create();
    int nt = next + ncons;
    m4_arg_t *args = calloc(nt, sizeof(m4_arg_t));
    aligned_t *rets = calloc(nt, sizeof(aligned_t));
    pthread_t *th = calloc(next, sizeof(pthread_t));
    unsigned ns = qthread_num_shepherds();
    alarm(120);
    for (int i = 0; i < nt; i++) {
        m4_arg_t *a = &args[i];
        a->kind = 1; a->nprod = next; a->ncons = ncons; a->blocking = 0; a->per = per;
        if (i < next) { a->id = i; pthread_create(&th[i], NULL, xp1_prod_thread, a); }
        else { a->id = i - next; a->capgot = m4_total + 16; a->got = malloc(sizeof(unsigned long) * a->capgot);
               qthread_fork_to(m4_consumer, a, &rets[i], (ns - 1 - (a->id % ns))); }
    }
    m4_go = 1;
    for (int i = 0; i < next; i++) pthread_join(th[i], NULL);
    for (int i = next; i < nt; i++) qthread_readFF(NULL, &rets[i]);
    unsigned long late = 0; void *p;
    while ((p = qlfqueue_dequeue(lfq)) != NULL) late++;
    alarm(0);
    unsigned char *seen = calloc(m4_total + 1, 1);
    unsigned long dup = 0, lost = 0, bad = 0, order_bad = 0, delivered = 0;
    for (int i = next; i < nt; i++) {
        m4_arg_t *a = &args[i];
        unsigned long *lastseq = calloc(next, sizeof(unsigned long));
        for (unsigned long j = 0; j < a->ngot && j < a->capgot; j++) {
            unsigned long pid = (a->got[j] >> 32) - 1, sq = (a->got[j] & 0xffffffffUL) - 1;
            delivered++;
            if (pid >= (unsigned long)next || sq >= per) { bad++; continue; }
            if (seen[pid * per + sq]++) dup++;
            if (lastseq[pid] && sq + 1 <= lastseq[pid]) order_bad++;
            lastseq[pid] = sq + 1;
        }
        free(lastseq);
    }
    for (unsigned long k = 0; k < m4_total; k++) if (!seen[k]) lost++;
    XPRINT("XP1 | total %lu delivered %lu lost %lu dup %lu bad %lu order_bad %lu late %lu | hzlen %lu fmax %u | verdict %s\n",
           m4_total, delivered, lost, dup, bad, order_bad, late, (unsigned long)hzptr_list_len, freelist_max,
           (lost || dup || bad || order_bad || late) ? "VIOLATED" : "OK");
}

/* ---- XP 2 */
static void *volatile xp2_res;
static unsigned long xp2_ndeq = 1, xp2_got = 0, xp2_bad = 0;
static void *xp2_thread(void *arg)
{
    xp_is_ext = 1;
    for (unsigned long i = 0; i < xp2_ndeq; i++) {      /* FIFO check: the k-th successful dequeue must return k */
        void *p = qlfqueue_dequeue(lfq);
        if (i == 0) xp2_res = p;
        if (p) { xp2_got++; if ((unsigned long)(uintptr_t)p != xp2_got) xp2_bad++; }
    }
    return NULL;
}
static void run_xp2(unsigned long nitems, unsigned long ndeq)
{
    xp2_ndeq = ndeq ? ndeq : 1;
    pthread_t th;
    lfq = qlfqueue_create();
    for (unsigned long v = 1; v <= nitems; v++) qlfqueue_enqueue(lfq, (void *)(uintptr_t)v);
    XPRINT("XP2 start | items %lu | getworker(main) %s\n", nitems, qthread_internal_getworker() ? "non-NULL" : "NULL");
    alarm(60);
    pthread_create(&th, NULL, xp2_thread, NULL);
    pthread_join(th, NULL);
    alarm(0);
    XPRINT("XP2 | dequeued %lu | got %lu of %lu attempts, out of order %lu | hzlen %lu | verdict %s\n", (unsigned long)(uintptr_t)xp2_res, xp2_got,
           xp2_ndeq, xp2_bad, (unsigned long)hzptr_list_len, (xp2_bad || xp2_got != (xp2_ndeq < nitems ? xp2_ndeq : nitems)) ? "VIOLATED" : "OK");
}

/* ---- XP 3 */
static unsigned long xp_wres[MAXOPS]; static int xp_nwres = 0;      /* values W's dequeues returned */
static uintptr_t *xp_eslots(void) { return hzptr_list; }               /* E registers last: its array is the list head */
static void *xp3_ext_thread(void *arg) { xp_is_ext = 1; lf_task(arg); return NULL; }
static void *xp3_reg_thread(void *arg) { xp_is_ext = 1; (hazardous_ptr)(0, NULL); return NULL; }
static int xp_in_free(void *p) { for (fl_t *f = arena_free; f; f = f->next) if ((void *)f == p) return 1; return 0; }
static int xp_grant(int t)
{
    if (t_finished[t]) { XPRINT("g %d -\n", t); return -1; }
    sem_post(&sem_thr[t]); ctl_wait();
    uintptr_t *es = xp_eslots();
    if (sp_kind_of[t] == K_END) {
        printf("g %d END %s", t, res_buf[t]);
        if (t == 1 && res_buf[t][0] == 'p' && xp_nwres < MAXOPS) xp_wres[xp_nwres++] = strtoul(res_buf[t] + 1, NULL, 10);
    } else if (sp_kind_of[t] == K_CAS) printf("g %d %s", t, sp_addr_of[t] == (void *)&lfq->head ? "CASH" : sp_addr_of[t] == (void *)&lfq->tail ? "CAST" : "CASN");
    else printf("g %d %s", t, kname(t));
    if (es) printf(" | E %ld %ld", arena_ord((void *)es[0]), arena_ord((void *)es[1])); else printf(" | E - -");
    lr_dump(); fflush(stdout);
    return sp_kind_of[t];
}
static void run_xp3(int hi, int nreg)
{
    if (qthread_num_shepherds() < 2 || qlib->nworkerspershep != 1) { XPRINT("XP3 CONFIG\n"); return; }
    unsigned fmax = freelist_max;
    char pw[MAXOPS]; pw[0] = 0;
    for (unsigned i = 0; i < fmax; i++) strcat(pw, "d ");
    strcat(pw, "e900 d");
    char pe[8] = "d";
    parse_prog(&progs[1], pw); parse_prog(&progs[0], pe);
    arena_setup(hi); arena_on = 1;
    reset_hazard_slots();
    lfq = qlfqueue_create();
    for (unsigned v = 1; v <= fmax; v++) qlfqueue_enqueue(lfq, (void *)(uintptr_t)v);
    for (int i = 0; i < nreg; i++) { pthread_t r; pthread_create(&r, NULL, xp3_reg_thread, NULL); pthread_join(r, NULL); }
    pthread_t eth;
    for (int t = 0; t < 2; t++) { t_finished[t] = 0; sem_init(&lf_done[t], 0, 0); }
    qthread_fork_to(lf_task, (void *)(intptr_t)1, NULL, 1); ctl_wait();
    pthread_create(&eth, NULL, xp3_ext_thread, (void *)(intptr_t)0); ctl_wait();
    XPRINT("XP3 start | fmax %u | hzlen %lu\n", fmax, (unsigned long)hzptr_list_len);
    int n;
    /* 1: W dequeues fmax-1 elements (retired list: fmax-1 nodes, no scan yet) */
    for (n = 0; xp_nwres < (int)fmax - 1 && n < 2000; n++) xp_grant(1);
    /* 2: E runs its dequeue up to the CAS on q->head */
    for (n = 0; n < 10 && xp_grant(0) != K_CAS; n++) ;
    uintptr_t *es = xp_eslots();
    void *X = es ? (void *)es[0] : NULL, *Y = es ? (void *)es[1] : NULL;
    /* 3: W's fmax-th dequeue retires X: hazardous_scan */
    for (n = 0; xp_nwres < (int)fmax && n < 100; n++) xp_grant(1);
    int xfreed = xp_in_free(X), lost = (xfreed && es && (void *)es[0] == X);
    XPRINT("XP3 scan | X %ld Y %ld | slotE %ld %ld | X_freed %d Y_freed %d | hzlen %lu | verdict %s\n", arena_ord(X), arena_ord(Y),
           es ? arena_ord((void *)es[0]) : -1, es ? arena_ord((void *)es[1]) : -1, xfreed, xp_in_free(Y), (unsigned long)hzptr_list_len,
           lost ? "PROTECTION-LOST (node named by the external thread's hazard slot was freed)" : "PROTECTED");
    /* 4: W enqueues 900 (LIFO pool: re-uses X when it was freed) and dequeues it: q->head == X again when X was recycled */
    for (n = 0; !t_finished[1] && n < 100; n++) xp_grant(1);
    XPRINT("XP3 W done | head %ld (X %ld) | W got", arena_ord(lfq->head), arena_ord(X));
    for (int i = 0; i < xp_nwres; i++) printf(" %lu", xp_wres[i]);
    XPRINT("\n");
    /* 5: E performs its CAS(&q->head, X, Y) */
    int k = xp_grant(0);
    int cas_ok = (k == K_REL);
    XPRINT("XP3 E-CAS | succeeded %d%s\n", cas_ok, cas_ok ? " (ABA: q->head == X again because X was freed and handed out again; q->head is now the RETIRED node Y)" : " (E retries)");
    if (!cas_ok) for (n = 0; !t_finished[0] && n < 100; n++) xp_grant(0);
    /* 6: the controller (a qthread: worker 0) drains the queue */
    unsigned long drained[64]; int nd = 0; void *p;
    while (nd < 64 && (p = qlfqueue_dequeue(lfq)) != NULL) drained[nd++] = (unsigned long)(uintptr_t)p;
    /* conservation so far: enqueued 1..fmax and 900; delivered = W's results + drain (+ E's result, still pending when cas_ok) */
    int cnt[1024]; memset(cnt, 0, sizeof cnt); int dup = 0, lostc = 0;
    for (int i = 0; i < xp_nwres; i++) if (xp_wres[i] < 1024) cnt[xp_wres[i]]++;
    for (int i = 0; i < nd; i++) if (drained[i] < 1024) cnt[drained[i]]++;
    if (t_finished[0] && res_buf[0][0] == 'p') { unsigned long ev = strtoul(res_buf[0] + 1, NULL, 10); if (ev && ev < 1024) cnt[ev]++; }
    printf("XP3 conservation | drained");
    for (int i = 0; i < nd; i++) printf(" %lu", drained[i]);
    printf(" | E %s | dup", t_finished[0] ? res_buf[0] : "pending");
    for (unsigned v = 1; v <= 900; v++) if ((v <= fmax || v == 900) && cnt[v] > 1) { printf(" %u", v); dup++; }
    printf(" | lost");
    for (unsigned v = 1; v <= 900; v++) if ((v <= fmax || v == 900) && cnt[v] == 0) { printf(" %u", v); lostc++; }
    XPRINT(" | verdict %s\n", (dup || lostc) ? "VIOLATED" : "OK");
    /* 7: E finishes (unchanged code: hazardous_release_node dereferences the NULL worker) */
    for (n = 0; !t_finished[0] && n < 100; n++) xp_grant(0);
    pthread_join(eth, NULL);
    XPRINT("XP3 F | E %s | W finished %d\n", res_buf[0], t_finished[1]);
}
static void run_xp(char *line)
{
    int sc = 0; unsigned long a = 0, b = 0, c = 0;
    sscanf(line + 2, "%d %lu %lu %lu", &sc, &a, &b, &c);
    xp_signals();
    if (sc == 1) run_xp1((int)a, (int)b, c);
    else if (sc == 2) run_xp2(a, b);
    else if (sc == 3) run_xp3((int)a, (int)b);
    else XPRINT("XP ERR\n");
    fflush(stdout);
    _exit(0);
}
/* ------------------------------------------------------------------ end extension H (XP) */

/* ------------------------------------------------------------------ main */
int main(int argc, char **argv)
{
    static char line[1 << 20];
    /* reproducible addresses: re-exec once with address space randomisation off */
    if (!getenv("C15_NOASLR_DONE")) {
        setenv("C15_NOASLR_DONE", "1", 1);
        if (personality(ADDR_NO_RANDOMIZE) != -1) execv("/proc/self/exe", argv);
    }
    signal(SIGALRM, on_alarm);
    sem_init(&sem_ctl, 0, 0);
    for (int i = 0; i < MAXT; i++) sem_init(&sem_thr[i], 0, 0);
    if (qthread_initialize() != 0) { printf("INITFAIL\n"); return 2; }
    printf("H %u %u %u %d %d\n", (unsigned)qthread_num_shepherds(), (unsigned)qthread_num_workers(), freelist_max,
           (int)CACHELINE_WIDTH, (int)sizeof(void *));
    fflush(stdout);
    while (fgets(line, sizeof line, stdin)) {
        if (!strncmp(line, "SC", 2)) {
            unsigned long e; sscanf(line + 2, "%lu", &e);
            qswsrqueue_t *q = qswsrqueue_create(e);
            if (q) { printf("SC %u\n", q->size); qswsrqueue_destroy(q); } else printf("SC NULL\n");
        } else if (!strncmp(line, "VC", 2)) {
            uintptr_t a, b; sscanf(line + 2, "%lu %lu", &a, &b);
            printf("VC %d\n", void_cmp(&a, &b));
        } else if (!strncmp(line, "BS", 2)) {
            static uintptr_t l[4096]; unsigned long len, x; int n = 0;
            char *bar = strchr(line, '|'); *bar = 0;
            sscanf(line + 2, "%lu %lu", &len, &x);
            for (char *tok = strtok(bar + 1, " \n"); tok && n < 4096; tok = strtok(NULL, " \n")) l[n++] = strtoull(tok, NULL, 10);
            alarm(10);
            printf("BS %d\n", binary_search(l, x, len));
            alarm(0);
        } else if (!strncmp(line, "HS", 2)) run_hs(line);
        else if (!strncmp(line, "SW", 2)) run_sw(line);
        else if (!strncmp(line, "LF", 2)) run_lf(line);
        else if (!strncmp(line, "LR", 2)) { lr_dump_on = 1; run_lf(line); lr_dump_on = 0; }     /* extension H */
        else if (!strncmp(line, "M4", 2)) run_m4(line);
        else if (!strncmp(line, "DA", 2)) run_da();
        else if (!strncmp(line, "DQ", 2)) run_dq(line);
        else if (!strncmp(line, "DM", 2)) run_dm(line);       /* extension H (DM) */
        else if (!strncmp(line, "DC", 2)) run_dc();           /* extension H (DM) */
        else if (!strncmp(line, "XP", 2)) run_xp(line);       /* extension H (XP): experiment mode, not used by ./check */
        else if (line[0] == 'Q') break;
        fflush(stdout);
    }
    fflush(stdout);
    _exit(0);
}
