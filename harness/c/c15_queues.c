/* C15 harness: drives the REAL qswsrqueue.c / qlfqueue.c / hazardptrs.c / qdqueue.c of the working tree.
 *
 * White-box: the three .c files are #included; for qlfqueue.c and qswsrqueue.c the fences, qthread_yield(),
 * qthread_cas_ptr(), hazardous_ptr(), hazardous_release_node(), qpool_alloc()/qpool_free() are interposed by macros
 * that first call the baton scheduler verif_sp(kind) and then perform the original operation.
 *
 * Modes (one command per line on stdin, see lib/verif/props/c15.py):
 *   SC  create size rounding (M1)                     VC/BS  void_cmp / binary_search (M1)
 *   HS  hazardous_scan on prepared worker slots (M1, needs W shepherds)
 *   SW  micro-step schedule replay of the swsr ring, 2 pthreads (M3)
 *   LF  micro-step schedule replay of the lock-free queue, K tasks pinned on K workers (M3)
 *   M4  free-running tasks on the three queues (trace acceptance by the Python oracle)
 */
#ifndef _GNU_SOURCE
# define _GNU_SOURCE
#endif
#include "config.h"
#undef HAVE_CONFIG_H
#include <stdio.h>
#include <string.h>
#include <unistd.h>
#include <signal.h>
#include <pthread.h>
#include <semaphore.h>
#include <sched.h>
#include <time.h>
#include <errno.h>
#include <sys/mman.h>
#include <sys/personality.h>

#include "hazardptrs.c"              /* real hazard pointer code, not interposed */
#include <qthread/qpool.h>
#include <qthread/qlfqueue.h>
#include <qthread/qswsrqueue.h>
#include <qthread/qdqueue.h>
#include "qt_atomics.h"
#include "qt_debug.h"

/* ------------------------------------------------------------------ baton scheduler */
enum { K_CF = 1, K_MF, K_YIELD, K_ALLOC, K_HZ0, K_HZ1, K_CAS, K_REL, K_END };
#define MAXT 8
static __thread int my_tid = -1;
static sem_t        sem_thr[MAXT], sem_ctl;
static volatile int sp_kind_of[MAXT];
static void *volatile sp_addr_of[MAXT];
static volatile int t_finished[MAXT];
static volatile int aborting = 0;
static volatile int perturb  = 0;     /* M4: random OS-level yields at the schedule points */
static __thread unsigned long long prng = 0;

static void on_alarm(int s) { printf("TIMEOUT\n"); fflush(stdout); _exit(3); }

static void ctl_wait(void)
{
    struct timespec ts;
    clock_gettime(CLOCK_REALTIME, &ts);
    ts.tv_sec += 20;
    while (sem_timedwait(&sem_ctl, &ts) != 0) {
        if (errno == EINTR) continue;
        printf("TIMEOUT\n"); fflush(stdout); _exit(3);
    }
}

static void verif_sp(int kind, void *addr)
{
    if (my_tid < 0) {
        if (perturb) {
            if (!prng) prng = (unsigned long long)(uintptr_t)&kind * 0x9E3779B97F4A7C15ULL + perturb;
            prng ^= prng << 13; prng ^= prng >> 7; prng ^= prng << 17;
            if ((prng & 15) == 0) sched_yield();
            else if ((prng & 1023) == 1) usleep(50);
        }
        return;
    }
    sp_kind_of[my_tid] = kind;
    sp_addr_of[my_tid] = addr;
    sem_post(&sem_ctl);
    while (sem_wait(&sem_thr[my_tid]) != 0) ;
    if (aborting) pthread_exit(NULL);
}

/* ------------------------------------------------------------------ node arena for M3 (fixed addresses, LIFO reuse) */
static int   arena_on = 0;
static char *arena_base = NULL;
static size_t arena_used = 0;
#define ARENA_BYTES (1u << 20)
typedef struct fl_s { struct fl_s *next; } fl_t;
static fl_t *arena_free = NULL;
static long  arena_allocs = 0, arena_reuses = 0, arena_frees = 0;

static void arena_setup(int hi)
{
    /* lo: all node addresses have bit 31 clear; hi: bit 31 set (low 32 bits >= 0x80000000) */
    uintptr_t want = hi ? 0x7e0080001000ULL : 0x7e0000100000ULL;
    if (arena_base) munmap(arena_base, ARENA_BYTES);
    arena_base = mmap((void *)want, ARENA_BYTES, PROT_READ | PROT_WRITE, MAP_PRIVATE | MAP_ANONYMOUS | MAP_FIXED, -1, 0);
    if (arena_base == MAP_FAILED || (uintptr_t)arena_base != want) { printf("ARENAFAIL\n"); fflush(stdout); _exit(4); }
    arena_used = 0; arena_free = NULL; arena_allocs = arena_reuses = arena_frees = 0;
}
static void *arena_alloc(void)
{
    arena_allocs++;
    if (arena_free) { fl_t *p = arena_free; arena_free = p->next; arena_reuses++; return p; }
    void *p = arena_base + arena_used; arena_used += 16;
    if (arena_used > ARENA_BYTES) { printf("ARENAFULL\n"); fflush(stdout); _exit(4); }
    return p;
}
static void arena_release(void *p) { fl_t *f = p; arena_frees++; f->next = arena_free; arena_free = f; }

/* ------------------------------------------------------------------ interposition */
static void *verif_cas_ptr(void **addr, void *oldv, void *newv);
static void  verif_hazard(unsigned which, void *p) { verif_sp(which == 0 ? K_HZ0 : K_HZ1, NULL); (hazardous_ptr)(which, p); }
static void  verif_release(hazardous_free_f f, void *p) { verif_sp(K_REL, NULL); (hazardous_release_node)(f, p); }
static volatile int seen_hi = 0;      /* a node address with bit 31 set was handed out by the real pool */
static void *verif_alloc(qpool *pool)
{
    verif_sp(K_ALLOC, NULL);
    if (arena_on) return arena_alloc();
    void *p = (qpool_alloc)(pool);
    if (((uintptr_t)p >> 31) & 1) seen_hi = 1;
    return p;
}
static void  verif_free(qpool *pool, void *p) { if (arena_on) arena_release(p); else (qpool_free)(pool, p); }
static void  verif_yield(void)
{
    if (my_tid >= 0) verif_sp(K_YIELD, NULL);
    else { __asm__ __volatile__ ("" ::: "memory"); qthread_yield_(0); }
}

#undef COMPILER_FENCE
#define COMPILER_FENCE do { verif_sp(K_CF, NULL); __asm__ __volatile__ ("" ::: "memory"); } while (0)
#undef MACHINE_FENCE
#define MACHINE_FENCE do { verif_sp(K_MF, NULL); __sync_synchronize(); } while (0)
#undef qthread_yield
#define qthread_yield() verif_yield()
#undef qthread_cas_ptr
#define qthread_cas_ptr(A, O, N) verif_cas_ptr((void **)(A), (void *)(O), (void *)(N))
#define hazardous_ptr(W, P) verif_hazard((W), (P))
#define hazardous_release_node(F, P) verif_release((F), (P))
#define qpool_alloc(POOL) verif_alloc(POOL)
#define qpool_free(POOL, P) verif_free((POOL), (P))

#include "ds/qlfqueue.c"
#include "ds/qswsrqueue.c"

#undef hazardous_ptr
#undef hazardous_release_node
#undef qpool_alloc
#undef qpool_free

static void *verif_cas_ptr(void **addr, void *oldv, void *newv)
{
    verif_sp(K_CAS, addr);
    return (void *)__sync_val_compare_and_swap(addr, oldv, newv);
}

#include "ds/qdqueue.c"               /* white-box only for the allsheps arrays (DA); not interposed on purpose */

/* ------------------------------------------------------------------ script parsing */
#define MAXOPS 4096
typedef struct { char k; unsigned long v; } op_t;
typedef struct { op_t ops[MAXOPS]; int n; } prog_t;
static prog_t progs[MAXT];

static char *next_bar(char **s) { char *p = *s; if (!p) return NULL; char *b = strchr(p, '|'); if (b) { *b = 0; *s = b + 1; } else *s = NULL; return p; }
static void parse_prog(prog_t *pr, char *s)
{
    pr->n = 0;
    for (char *tok = strtok(s, " \n"); tok; tok = strtok(NULL, " \n")) {
        pr->ops[pr->n].k = tok[0];
        pr->ops[pr->n].v = tok[1] ? strtoul(tok + 1, NULL, 10) : 0;
        if (pr->n < MAXOPS - 1) pr->n++;
    }
}

static const char *grant(int t, char *buf);

/* ------------------------------------------------------------------ SW: swsr ring under the baton */
static qswsrqueue_t *swq;
static char          res_buf[MAXT][64];

static void *sw_thread(void *arg)
{
    int t = (int)(intptr_t)arg;
    my_tid = t;
    while (sem_wait(&sem_thr[t]) != 0) ;
    if (aborting) return NULL;
    prog_t *pr = &progs[t];
    for (int i = 0; i < pr->n; i++) {
        op_t *o = &pr->ops[i];
        switch (o->k) {
            case 'e': { int rc = qswsrqueue_enqueue(swq, (void *)(uintptr_t)o->v); sprintf(res_buf[t], "i%d", rc < 0 ? -rc : rc); break; }
            case 'E': { int rc = qswsrqueue_enqueue_blocking(swq, (void *)(uintptr_t)o->v); sprintf(res_buf[t], "i%d", rc < 0 ? -rc : rc); break; }
            case 'd': { void *p = qswsrqueue_dequeue(swq); sprintf(res_buf[t], "p%lu", (unsigned long)(uintptr_t)p); break; }
            case 'D': { void *p = qswsrqueue_dequeue_blocking(swq); sprintf(res_buf[t], "p%lu", (unsigned long)(uintptr_t)p); break; }
            case 'm': { int e = qswsrqueue_empty(swq); sprintf(res_buf[t], "i%d", e); break; }
        }
        if (i == pr->n - 1) {
            t_finished[t] = 1; sp_kind_of[t] = K_END; my_tid = -1; sem_post(&sem_ctl); return NULL;
        }
        verif_sp(K_END, NULL);
    }
    return NULL;
}

static void sw_dump(void)
{
    printf(" | %u %u |", swq->head, swq->tail);
    uint32_t i = swq->head, n = 0;
    while (i != swq->tail && n <= swq->size) { printf(" %lu", (unsigned long)(uintptr_t)swq->elements[i]); i = (i + 1) % swq->size; n++; }
    printf("\n");
}

static const char *kname(int t)
{
    switch (sp_kind_of[t]) {
        case K_CF: return "CF"; case K_MF: return "MF"; case K_YIELD: return "Y"; case K_ALLOC: return "ALLOC";
        case K_HZ0: return "HZ0"; case K_HZ1: return "HZ1"; case K_REL: return "REL"; case K_END: return "END";
        default: return "?";
    }
}

static void run_sw(char *line)
{
    char *s = line; char *hdr = next_bar(&s), *pp = next_bar(&s), *cp = next_bar(&s), *sched = next_bar(&s);
    unsigned long elements = 0, override = 0; int cap = 0;
    sscanf(hdr, "SW %lu %lu %d", &elements, &override, &cap);
    parse_prog(&progs[0], pp); parse_prog(&progs[1], cp);
    swq = qswsrqueue_create(elements);
    uint32_t real_size = swq->size;
    for (uint32_t i = 0; i < swq->size; i++) swq->elements[i] = (void *)(uintptr_t)(0xDEAD0000u + i);
    /* small logical ring sizes (create() never returns fewer than 64 slots): white-box override of the size fields */
    if (override && override < swq->size) { swq->size = override; swq->size2 = override; }
    printf("S %u\n", swq->size);
    pthread_t th[2]; int started[2] = { 0, 0 };
    aborting = 0;
    for (int t = 0; t < 2; t++) {
        t_finished[t] = (progs[t].n == 0);
        if (progs[t].n) { pthread_create(&th[t], NULL, sw_thread, (void *)(intptr_t)t); started[t] = 1; }
    }
#define SW_GRANT(T) do { int t_ = (T); \
        if (t_finished[t_]) { printf("g %d -", t_); } \
        else { sem_post(&sem_thr[t_]); ctl_wait(); \
               if (sp_kind_of[t_] == K_END) printf("g %d END %s", t_, res_buf[t_]); else printf("g %d %s", t_, kname(t_)); } \
        sw_dump(); } while (0)
    for (char *c = sched; c && *c; c++) if (*c == '0' || *c == '1') SW_GRANT(*c - '0');
    int extra = 0, progress = 1;
    while (progress && extra < cap) {
        progress = 0;
        for (int t = 0; t < 2; t++) if (!t_finished[t] && extra < cap) { SW_GRANT(t); extra++; progress = 1; }
    }
    printf("F |");
    for (int t = 0; t < 2; t++) if (!t_finished[t]) printf(" %d", t);
    printf("\n");
    aborting = 1;
    for (int t = 0; t < 2; t++) if (started[t]) { if (!t_finished[t]) sem_post(&sem_thr[t]); pthread_join(th[t], NULL); }
    aborting = 0;
    swq->size = swq->size2 = real_size;
    qswsrqueue_destroy(swq);
}

/* ------------------------------------------------------------------ LF: lock-free queue under the baton */
static qlfqueue_t *lfq;
static sem_t       lf_done[MAXT];

static aligned_t lf_task(void *arg)
{
    int t = (int)(intptr_t)arg;
    my_tid = t;
    sp_kind_of[t] = 0;
    sem_post(&sem_ctl);                          /* started */
    while (sem_wait(&sem_thr[t]) != 0) ;
    prog_t *pr = &progs[t];
    for (int i = 0; i < pr->n; i++) {
        op_t *o = &pr->ops[i];
        switch (o->k) {
            case 'e': { int rc = qlfqueue_enqueue(lfq, (void *)(uintptr_t)o->v); sprintf(res_buf[t], "i%d", rc < 0 ? -rc : rc); break; }
            case 'd': { void *p = qlfqueue_dequeue(lfq); sprintf(res_buf[t], "p%lu", (unsigned long)(uintptr_t)p); break; }
            case 'm': { int e = qlfqueue_empty(lfq); sprintf(res_buf[t], "i%d", e); break; }
        }
        if (i == pr->n - 1) {
            t_finished[t] = 1; sp_kind_of[t] = K_END; my_tid = -1; sem_post(&sem_ctl); sem_post(&lf_done[t]); return 0;
        }
        verif_sp(K_END, NULL);
    }
    my_tid = -1; sem_post(&lf_done[t]);
    return 0;
}

/* ---- extension H (LR mode): dump with node addresses (arena ordinals), the pool and every worker's hazard state ---- */
static int lr_dump_on = 0;
static long arena_ord(void *p) { return p ? (long)(((char *)p - arena_base) / 16) + 1 : 0; }
static void lr_dump(void)
{
    qlfqueue_node_t *n = lfq->head; long i = 0;
    printf(" |");
    for (; n && i < 100000; n = n->next, i++) printf(" %ld", arena_ord(n));
    if (i >= 100000) printf(" CYCLE");
    printf(" |");
    n = lfq->head ? lfq->head->next : NULL;
    for (i = 0; n && i < 100000; n = n->next, i++) printf(" %lu", (unsigned long)(uintptr_t)n->value);
    printf(" | T %ld | P %ld :", arena_ord(lfq->tail), (long)(arena_used / 16) + 1);
    for (fl_t *f = arena_free; f; f = f->next) printf(" %ld", arena_ord(f));
    printf(" | W");
    for (qthread_shepherd_id_t s = 0; s < qthread_num_shepherds(); ++s)
        for (qthread_worker_id_t j = 0; j < qlib->nworkerspershep; ++j) {
            qthread_worker_t *w = &qlib->shepherds[s].workers[j];
            printf(" %ld %ld :", arena_ord((void *)w->hazard_ptrs[0]), arena_ord((void *)w->hazard_ptrs[1]));
            for (unsigned k = 0; k < w->hazard_free_list.count; k++) printf(" %ld", arena_ord(w->hazard_free_list.freelist[k].ptr));
            printf(" ;");
        }
    printf("\n");
}
/* ---- end extension H ---- */

static void lf_dump(void)
{
    if (lr_dump_on) { lr_dump(); return; }     /* extension H */
    /* position of tail on the chain from head, then the values behind the dummy */
    qlfqueue_node_t *n = lfq->head; long pos = -1, i = 0;
    for (; n && i < 100000; n = n->next, i++) if (n == lfq->tail) { pos = i; break; }
    if (pos < 0) printf(" | X |"); else printf(" | %ld |", pos);
    n = lfq->head ? lfq->head->next : NULL;
    for (i = 0; n && i < 100000; n = n->next, i++) printf(" %lu", (unsigned long)(uintptr_t)n->value);
    if (i >= 100000) printf(" CYCLE");
    printf("\n");
}

static void reset_hazard_slots(void)
{
    for (qthread_shepherd_id_t i = 0; i < qthread_num_shepherds(); ++i)
        for (qthread_worker_id_t j = 0; j < qlib->nworkerspershep; ++j) {
            memset(qlib->shepherds[i].workers[j].hazard_ptrs, 0, sizeof(uintptr_t) * HAZARD_PTRS_PER_SHEP);
            memset(qlib->shepherds[i].workers[j].hazard_free_list.freelist, 0, sizeof(hazard_freelist_entry_t) * freelist_max);
            qlib->shepherds[i].workers[j].hazard_free_list.count = 0;
        }
}

static void run_lf(char *line)
{
    char *s = line; char *hdr = next_bar(&s);
    char *parts[MAXT + 2]; int np = 0;
    while (s && np < MAXT + 1) parts[np++] = next_bar(&s);
    int cap = 0, hi = 0;
    sscanf(hdr + 2, "%d %d", &cap, &hi);      /* "LF" or (extension H) "LR" */
    int nt = np - 1; char *sched = parts[np - 1];
    if (nt + 1 > (int)qthread_num_shepherds()) { printf("F CONFIG\n"); return; }
    for (int t = 0; t < nt; t++) parse_prog(&progs[t], parts[t]);
    arena_setup(hi); arena_on = 1;
    reset_hazard_slots();
    lfq = qlfqueue_create();
    for (int t = 0; t < nt; t++) {
        t_finished[t] = (progs[t].n == 0);
        sem_init(&lf_done[t], 0, 0);
        if (progs[t].n) { qthread_fork_to(lf_task, (void *)(intptr_t)t, NULL, t + 1); ctl_wait(); }
    }
#define LF_GRANT(T) do { int t_ = (T); \
        if (t_finished[t_]) { printf("g %d -", t_); } \
        else { sem_post(&sem_thr[t_]); ctl_wait(); \
               if (sp_kind_of[t_] == K_END) printf("g %d END %s", t_, res_buf[t_]); \
               else if (sp_kind_of[t_] == K_CAS) printf("g %d %s", t_, sp_addr_of[t_] == (void *)&lfq->head ? "CASH" : sp_addr_of[t_] == (void *)&lfq->tail ? "CAST" : "CASN"); \
               else printf("g %d %s", t_, kname(t_)); } \
        lf_dump(); } while (0)
    for (char *c = sched; c && *c; c++) if (*c >= '0' && *c < '0' + nt) LF_GRANT(*c - '0');
    int extra = 0, progress = 1;
    while (progress && extra < cap) {
        progress = 0;
        for (int t = 0; t < nt; t++) if (!t_finished[t] && extra < cap) { LF_GRANT(t); extra++; progress = 1; }
    }
    printf("F |");
    int stuck = 0;
    for (int t = 0; t < nt; t++) if (!t_finished[t]) { printf(" %d", t); stuck = 1; }
    printf(" | allocs %ld reuses %ld frees %ld\n", arena_allocs, arena_reuses, arena_frees);
    fflush(stdout);
    if (stuck) _exit(0);                 /* tasks parked inside the queue code cannot be unwound */
    for (int t = 0; t < nt; t++) if (progs[t].n) while (sem_wait(&lf_done[t]) != 0) ;
    /* the queue is abandoned with the arena (next case maps a fresh one); retired nodes stay in the free lists */
    reset_hazard_slots();
    arena_on = 0;
}

/* ------------------------------------------------------------------ HS: hazardous_scan on prepared slots */
static uintptr_t hs_freed[256]; static int hs_nfreed;
static void hs_free(void *p) { if (hs_nfreed < 256) hs_freed[hs_nfreed++] = (uintptr_t)p; }

static void run_hs(char *line)
{
    char *s = line; char *hdr = next_bar(&s);
    char *parts[66]; int np = 0;
    while (s && np < 65) parts[np++] = next_bar(&s);
    int me = 0; sscanf(hdr, "HS %d", &me);
    int nw = np - 1;
    if (nw != (int)qthread_num_workers() || qlib->nworkerspershep != 1) { printf("HS CONFIG\n"); return; }
    reset_hazard_slots();
    for (int w = 0; w < nw; w++) {
        int k = 0;
        for (char *tok = strtok(parts[w], " \n"); tok && k < HAZARD_PTRS_PER_SHEP; tok = strtok(NULL, " \n"))
            qlib->shepherds[w].workers[0].hazard_ptrs[k++] = strtoull(tok, NULL, 10);
    }
    hazard_freelist_t *hfl = &qlib->shepherds[me].workers[0].hazard_free_list;
    unsigned k = 0;
    for (char *tok = strtok(parts[nw], " \n"); tok && k < freelist_max; tok = strtok(NULL, " \n")) {
        hfl->freelist[k].freefunc = hs_free; hfl->freelist[k].ptr = (void *)(uintptr_t)strtoull(tok, NULL, 10); k++;
    }
    hfl->count = freelist_max;
    hs_nfreed = 0;
    alarm(10);
    hazardous_scan(hfl);
    alarm(0);
    printf("HS |");
    for (unsigned i = 0; i < hfl->count; i++) printf(" %lu", (unsigned long)(uintptr_t)hfl->freelist[i].ptr);
    printf(" |");
    for (int i = 0; i < hs_nfreed; i++) printf(" %lu", (unsigned long)hs_freed[i]);
    printf("\n");
    reset_hazard_slots();
}

/* ------------------------------------------------------------------ M4: free-running tasks */
typedef struct {
    int kind;                 /* 0 swsr, 1 lfq, 2 qdqueue */
    int id, nprod, ncons, blocking;
    unsigned long per;        /* items per producer */
    unsigned long *got; unsigned long ngot, capgot;
    unsigned long nulls, empties_ok, empties_bad;
} m4_arg_t;
static qdqueue_t     *dq;
static aligned_t      m4_completed = 0, m4_delivered = 0, m4_prod_done = 0, m4_total = 0;
static volatile int   m4_go = 0;

#define VAL(p, s) ((((unsigned long)(p) + 1) << 32) | ((unsigned long)(s) + 1))

static aligned_t m4_producer(void *a_)
{
    m4_arg_t *a = a_;
    while (!m4_go) sched_yield();
    for (unsigned long s = 0; s < a->per; s++) {
        void *v = (void *)VAL(a->id, s);
        switch (a->kind) {
            case 0:
                if (a->blocking) qswsrqueue_enqueue_blocking(swq, v);
                else while (qswsrqueue_enqueue(swq, v) != QTHREAD_SUCCESS) verif_yield();
                break;
            case 1: qlfqueue_enqueue(lfq, v); break;
            case 2: qdqueue_enqueue(dq, v); break;
        }
        qthread_incr(&m4_completed, 1);
    }
    qthread_incr(&m4_prod_done, 1);
    return 0;
}

static void m4_record(m4_arg_t *a, void *p)
{
    if (a->ngot < a->capgot) a->got[a->ngot] = (unsigned long)(uintptr_t)p;
    a->ngot++;
    qthread_incr(&m4_delivered, 1);
}

static aligned_t m4_consumer(void *a_)
{
    m4_arg_t *a = a_;
    while (!m4_go) sched_yield();
    unsigned long iter = 0;
    while (1) {
        void *p = NULL;
        iter++;
        if (a->kind == 0 && (iter % 7) == 0) {
            /* emptiness soundness (single consumer: ngot is exact) */
            aligned_t c0 = m4_completed; __sync_synchronize();
            int e = qswsrqueue_empty(swq);
            if (e && a->ngot < c0) a->empties_bad++; else a->empties_ok++;
        }
        if (a->kind == 1 && a->ncons == 1 && (iter % 7) == 0) {
            aligned_t c0 = m4_completed; __sync_synchronize();
            int e = qlfqueue_empty(lfq);
            if (e && a->ngot < c0) a->empties_bad++; else a->empties_ok++;
        }
        switch (a->kind) {
            case 0:
                if (a->blocking && a->ngot < m4_total) p = qswsrqueue_dequeue_blocking(swq);
                else p = qswsrqueue_dequeue(swq);
                break;
            case 1: p = qlfqueue_dequeue(lfq); break;
            case 2: p = qdqueue_dequeue(dq); break;
        }
        if (p) { m4_record(a, p); continue; }
        a->nulls++;
        if (m4_prod_done == (aligned_t)a->nprod) {
            /* producers have finished: one more NULL after that point ends this consumer */
            void *q2 = NULL;
            switch (a->kind) {
                case 0: q2 = qswsrqueue_dequeue(swq); break;
                case 1: q2 = qlfqueue_dequeue(lfq); break;
                case 2: q2 = qdqueue_dequeue(dq); break;
            }
            if (q2) { m4_record(a, q2); continue; }
            break;
        }
        qthread_yield_(0);
    }
    return 0;
}

static void run_m4(char *line)
{
    int kind, nprod, ncons, blocking, pert; unsigned long per, ring;
    if (sscanf(line, "M4 %d %d %d %lu %d %lu %d", &kind, &nprod, &ncons, &per, &blocking, &ring, &pert) != 7) { printf("F ERR\n"); return; }
    m4_completed = m4_delivered = m4_prod_done = 0; m4_go = 0; m4_total = (unsigned long)nprod * per;
    if (kind == 0) swq = qswsrqueue_create(ring);
    if (kind == 1) lfq = qlfqueue_create();
    if (kind == 2) dq = qdqueue_create();
    int nt = nprod + ncons;
    m4_arg_t *args = calloc(nt, sizeof(m4_arg_t));
    aligned_t *rets = calloc(nt, sizeof(aligned_t));
    unsigned ns = qthread_num_shepherds();
    perturb = pert;
    alarm(120);
    for (int i = 0; i < nt; i++) {
        m4_arg_t *a = &args[i];
        a->kind = kind; a->nprod = nprod; a->ncons = ncons; a->blocking = blocking; a->per = per;
        if (i < nprod) { a->id = i; qthread_fork_to(m4_producer, a, &rets[i], i % ns); }
        else { a->id = i - nprod; a->capgot = m4_total + 16; a->got = malloc(sizeof(unsigned long) * a->capgot);
               qthread_fork_to(m4_consumer, a, &rets[i], (ns - 1 - (a->id % ns))); }
    }
    m4_go = 1;
    for (int i = 0; i < nt; i++) qthread_readFF(NULL, &rets[i]);
    perturb = 0;
    /* quiescent: the emptiness test must agree with a final drain by this task */
    int e_final = -1; unsigned long late = 0;
    void *p;
    switch (kind) {
        case 0: e_final = qswsrqueue_empty(swq); while ((p = qswsrqueue_dequeue(swq)) != NULL) late++; break;
        case 1: e_final = qlfqueue_empty(lfq); while ((p = qlfqueue_dequeue(lfq)) != NULL) late++; break;
        case 2: e_final = qdqueue_empty(dq); while ((p = qdqueue_dequeue(dq)) != NULL) late++; break;
    }
    alarm(0);
    for (int i = nprod; i < nt; i++) {
        m4_arg_t *a = &args[i];
        printf("C %d n %lu nulls %lu eok %lu ebad %lu :", a->id, a->ngot, a->nulls, a->empties_ok, a->empties_bad);
        for (unsigned long j = 0; j < a->ngot && j < a->capgot; j++) printf(" %lu.%lu", (a->got[j] >> 32) - 1, (a->got[j] & 0xffffffffUL) - 1);
        printf("\n");
        free(a->got);
    }
    printf("F | total %lu delivered %lu efinal %d late %lu hi %d\n", m4_total, (unsigned long)m4_delivered, e_final, late, seen_hi);
    switch (kind) {
        case 0: qswsrqueue_destroy(swq); break;
        case 1: qlfqueue_destroy(lfq); break;
        case 2: qdqueue_destroy(dq); break;
    }
    free(args); free(rets);
}

/* ------------------------------------------------------------------ DQ: sequential scripted qdqueue (M2 style)
 * script: tokens "<shep>e<v>" enqueue, "<shep>t<target>,<v>" enqueue_there, "<shep>d" dequeue, "<shep>m" empty; each token is
 * executed by one task forked to the named shepherd; the controller (main task) blocks on the task's return word (FEB).
 * After every operation: actual shepherd, result, and the contents of every sub-queue (white-box walk). */
typedef struct { char op; unsigned long v; unsigned target; unsigned actual; unsigned long res; } dq_op_t;
static aligned_t dq_task(void *a_)
{
    dq_op_t *a = a_;
    a->actual = qthread_shep();
    switch (a->op) {
        case 'e': a->res = (unsigned long)qdqueue_enqueue(dq, (void *)(uintptr_t)a->v); break;
        case 't': a->res = (unsigned long)qdqueue_enqueue_there(dq, (void *)(uintptr_t)a->v, a->target); break;
        case 'd': a->res = (unsigned long)(uintptr_t)qdqueue_dequeue(dq); break;
        case 'm': a->res = (unsigned long)qdqueue_empty(dq); break;
    }
    return 0;
}
static void dq_dump(void)
{
    for (unsigned i = 0; i < maxsheps; i++) {
        printf(" |");
        qlfqueue_node_t *n = dq->Qs[i].theQ->head ? dq->Qs[i].theQ->head->next : NULL;
        long k = 0;
        for (; n && k < 100000; n = n->next, k++) printf(" %lu", (unsigned long)(uintptr_t)n->value);
    }
    printf("\n");
}
static void run_dq(char *line)
{
    char *bar = strchr(line, '|');
    dq = qdqueue_create();
    printf("S %u", (unsigned)maxsheps); dq_dump();
    alarm(60);
    for (char *tok = strtok(bar ? bar + 1 : NULL, " \n"); tok; tok = strtok(NULL, " \n")) {
        dq_op_t a; memset(&a, 0, sizeof a);
        char *e; unsigned shep = (unsigned)strtoul(tok, &e, 10);
        a.op = *e++;
        if (a.op == 'e') a.v = strtoul(e, NULL, 10);
        if (a.op == 't') { a.target = (unsigned)strtoul(e, &e, 10); a.v = strtoul(e + 1, NULL, 10); }
        if (shep >= qthread_num_shepherds()) { printf("r CONFIG\n"); continue; }
        aligned_t ret = 0;
        qthread_fork_to(dq_task, &a, &ret, shep);
        qthread_readFF(NULL, &ret);
        printf("r %u %c %lu", a.actual, a.op, a.res); dq_dump();
    }
    alarm(0);
    printf("F\n");
    qdqueue_destroy(dq);
}

/* qdqueue allsheps arrays must name every other shepherd (hypothesis alls_ok of Dq.v) */
static void run_da(void)
{
    qdqueue_t *q = qdqueue_create();
    printf("DA %u", (unsigned)maxsheps);
    for (unsigned i = 0; i < maxsheps; i++) {
        printf(" |");
        for (unsigned j = 0; j + 1 < maxsheps; j++) printf(" %ld", (long)(q->Qs[i].allsheps[j] - q->Qs));
    }
    printf("\n");
    qdqueue_destroy(q);
}

/* ------------------------------------------------------------------ main */
int main(int argc, char **argv)
{
    static char line[1 << 20];
    /* reproducible addresses: re-exec once with address space randomisation off */
    if (!getenv("C15_NOASLR_DONE")) {
        setenv("C15_NOASLR_DONE", "1", 1);
        if (personality(ADDR_NO_RANDOMIZE) != -1) execv("/proc/self/exe", argv);
    }
    signal(SIGALRM, on_alarm);
    sem_init(&sem_ctl, 0, 0);
    for (int i = 0; i < MAXT; i++) sem_init(&sem_thr[i], 0, 0);
    if (qthread_initialize() != 0) { printf("INITFAIL\n"); return 2; }
    printf("H %u %u %u %d %d\n", (unsigned)qthread_num_shepherds(), (unsigned)qthread_num_workers(), freelist_max,
           (int)CACHELINE_WIDTH, (int)sizeof(void *));
    fflush(stdout);
    while (fgets(line, sizeof line, stdin)) {
        if (!strncmp(line, "SC", 2)) {
            unsigned long e; sscanf(line + 2, "%lu", &e);
            qswsrqueue_t *q = qswsrqueue_create(e);
            if (q) { printf("SC %u\n", q->size); qswsrqueue_destroy(q); } else printf("SC NULL\n");
        } else if (!strncmp(line, "VC", 2)) {
            uintptr_t a, b; sscanf(line + 2, "%lu %lu", &a, &b);
            printf("VC %d\n", void_cmp(&a, &b));
        } else if (!strncmp(line, "BS", 2)) {
            static uintptr_t l[4096]; unsigned long len, x; int n = 0;
            char *bar = strchr(line, '|'); *bar = 0;
            sscanf(line + 2, "%lu %lu", &len, &x);
            for (char *tok = strtok(bar + 1, " \n"); tok && n < 4096; tok = strtok(NULL, " \n")) l[n++] = strtoull(tok, NULL, 10);
            alarm(10);
            printf("BS %d\n", binary_search(l, x, len));
            alarm(0);
        } else if (!strncmp(line, "HS", 2)) run_hs(line);
        else if (!strncmp(line, "SW", 2)) run_sw(line);
        else if (!strncmp(line, "LF", 2)) run_lf(line);
        else if (!strncmp(line, "LR", 2)) { lr_dump_on = 1; run_lf(line); lr_dump_on = 0; }     /* extension H */
        else if (!strncmp(line, "M4", 2)) run_m4(line);
        else if (!strncmp(line, "DA", 2)) run_da();
        else if (!strncmp(line, "DQ", 2)) run_dq(line);
        else if (line[0] == 'Q') break;
        fflush(stdout);
    }
    fflush(stdout);
    _exit(0);
}
