/* C06 micro-step probe with a NASCENT (precondition) waiter as the third party (mode M3, two-hold baton; extension K part 2): replays on
 * the REAL feb.c a schedule of the micro-step model coq/theories/Feb/Micro3Pre.v.  As harness/c/c01_micro3.c, except that the third
 * party is a task N spawned by the controller with qthread_fork_precond(gate, ..., 1, w) or (..., 2, u, w) while w is empty: its walk
 * (qthread_check_feb_preconds, which examines the LAST listed word first) parks it on the FFQ of w as a nascent waiter.  The gate body
 * only counts how often it was started.  u is a second real word on another stripe; flip = 1: the controller flips u (qthread_fill /
 * qthread_empty) after B's turn, while A is still held.
 * Interposed accesses: as c01_micro3.c (the hand-over in qthread_precond_launch is a qt_threadqueue_enqueue too: "sched" / "scheddone").
 * Run with 4 shepherds x 1 worker: the controller (main task) on 0, A on 1, B on 2; N runs wherever it is enqueued or stolen to.
 *
 * stdin:  m <init: pre1|pre2F|pre2E> <A op> <k> <B op> <j> <flip 0|1> <c1 0|1> <c2 0|1> <stuck_after seconds>
 * stdout: A=<rc:val|BLK:-> B=.. full=<status of w> word=<v> rec=<record present> EF=[tids] FE=[tids] FF=[tids] FFW=[tids] (2 = the nascent N)
 *         launched=<times the gate body started> parkedU=<N is on the FFQ of u> ufull=<status of u> nstate=<N still NASCENT>
 *         mfull= orphan= stuck= early= adone= atA= atB= seqA= seqB=   (as c01_micro3.c)
 */
#define _GNU_SOURCE 1
#ifdef HAVE_CONFIG_H
# include "config.h"
#endif
#include <limits.h>
#include <sched.h>
#include <qthread/performance.h>
#include "qthread/qthread.h"
#include <qthread/hash.h>
#include "qt_feb.h"
#include "qt_subsystems.h"
#include "qt_hash.h"
#include "qt_alloc.h"
#include "qt_asserts.h"
#include "qthread_innards.h"
#include "qt_initialized.h"
#include "qt_profiling.h"
#include "qt_qthread_struct.h"
#include "qt_qthread_mgmt.h"
#include "qt_blocking_structs.h"
#include "qt_addrstat.h"
#include "qt_threadqueues.h"
#include "qt_debug.h"
#include "qt_output_macros.h"
#include "qt_atomics.h"
#undef HAVE_CONFIG_H            /* config.h has no include guard: feb.c must not bring the original macros back */

enum { SP_HLOCK, SP_HUNLOCK, SP_HGETL, SP_HPUTL, SP_HREML, SP_RLOCK, SP_RUNLOCK, SP_FENCE, SP_SCHED, SP_SCHEDDONE, SP_FREE, SP_N };
static const char *sp_name[SP_N] = { "hlock", "hunlock", "hget_locked", "hput_locked", "hremove_locked", "rlock", "runlock", "fence", "sched", "scheddone", "free" };
static void verif_sp(int kind);

static inline void verif_fastlock_lock(QTHREAD_FASTLOCK_TYPE *x) { QTHREAD_FASTLOCK_LOCK(x); }
static inline void verif_fastlock_unlock(QTHREAD_FASTLOCK_TYPE *x) { QTHREAD_FASTLOCK_UNLOCK(x); }
#undef QTHREAD_FASTLOCK_LOCK
#undef QTHREAD_FASTLOCK_UNLOCK
#define QTHREAD_FASTLOCK_LOCK(x)   do { verif_sp(SP_RLOCK); verif_fastlock_lock(x); } while (0)
#define QTHREAD_FASTLOCK_UNLOCK(x) do { verif_sp(SP_RUNLOCK); verif_fastlock_unlock(x); } while (0)
#undef MACHINE_FENCE
#define MACHINE_FENCE do { verif_sp(SP_FENCE); __sync_synchronize(); } while (0)
#define qt_hash_lock(h)               (verif_sp(SP_HLOCK), qt_hash_lock(h))
#define qt_hash_unlock(h)             (verif_sp(SP_HUNLOCK), qt_hash_unlock(h))
#define qt_hash_get_locked(h, k)      (verif_sp(SP_HGETL), qt_hash_get_locked((h), (k)))
#define qt_hash_put_locked(h, k, v)   (verif_sp(SP_HPUTL), qt_hash_put_locked((h), (k), (v)))
#define qt_hash_remove_locked(h, k)   (verif_sp(SP_HREML), qt_hash_remove_locked((h), (k)))
#define qt_threadqueue_enqueue(q, t)  do { verif_sp(SP_SCHED); qt_threadqueue_enqueue((q), (t)); verif_sp(SP_SCHEDDONE); } while (0)
#define qthread_addrstat_delete(m)    do { verif_sp(SP_FREE); qthread_addrstat_delete(m); } while (0)
#include "feb.c"
#undef qt_hash_lock
#undef qt_hash_unlock
#undef qt_hash_get_locked
#undef qt_hash_put_locked
#undef qt_hash_remove_locked
#undef qt_threadqueue_enqueue
#undef qthread_addrstat_delete
#undef QTHREAD_FASTLOCK_LOCK
#undef QTHREAD_FASTLOCK_UNLOCK
#define QTHREAD_FASTLOCK_LOCK(x)   verif_fastlock_lock(x)
#define QTHREAD_FASTLOCK_UNLOCK(x) verif_fastlock_unlock(x)
#undef MACHINE_FENCE
#define MACHINE_FENCE __sync_synchronize()

#include <stdio.h>
#include <string.h>
#include <unistd.h>
#include <signal.h>
#include <time.h>
#include <inttypes.h>

#define SENT ((aligned_t)0x5e5e5e5e5e5e5e5eULL)
typedef struct { volatile int start, done; volatile int rc; char op[16]; aligned_t val; volatile aligned_t out; qthread_t *volatile self; aligned_t *w; } ptask_t;

#define MAXSEQ 4096
typedef struct { qthread_t *volatile who; volatile int k, cnt, paused, go, kind; volatile int seq[MAXSEQ], n; } hold_t;
static hold_t HD[2];

static void verif_sp(int kind)
{
    qthread_t *me = NULL;
    for (int i = 0; i < 2; i++) {
        hold_t *h = &HD[i];
        if (!h->who) continue;
        if (!me) me = qthread_internal_self();
        if (me != h->who) continue;
        if (++h->cnt == h->k) {
            h->kind = kind;
            __sync_synchronize();
            h->paused = 1;
            while (!h->go) sched_yield();
        }
        if (h->n < MAXSEQ) h->seq[h->n++] = kind;
    }
}
static void show_seq(hold_t *h)
{
    for (int i = 0; i < h->n;) {
        int j = i; while (j < h->n && h->seq[j] == h->seq[i]) j++;
        printf("%s%s*%d", i ? "," : "", sp_name[h->seq[i]], j - i);
        i = j;
    }
}

static aligned_t ptask(void *arg)
{
    ptask_t   *T = (ptask_t *)arg;
    aligned_t *w = T->w;
    volatile aligned_t buf = SENT;
    int        rc = -99;
    T->self = qthread_internal_self();
    while (!T->start) sched_yield();
    if (!strcmp(T->op, "readFE")) rc = qthread_readFE((aligned_t *)&buf, w);
    else if (!strcmp(T->op, "readFE_nb")) rc = qthread_readFE_nb((aligned_t *)&buf, w);
    else if (!strcmp(T->op, "readFF")) rc = qthread_readFF((aligned_t *)&buf, w);
    else if (!strcmp(T->op, "readFF_nb")) rc = qthread_readFF_nb((aligned_t *)&buf, w);
    else if (!strcmp(T->op, "readXX")) rc = qthread_readXX((aligned_t *)&buf, w);
    else if (!strcmp(T->op, "status")) { buf = (aligned_t)qthread_feb_status(w); rc = 0; }
    else if (!strcmp(T->op, "fill")) rc = qthread_fill(w);
    else if (!strcmp(T->op, "empty")) rc = qthread_empty(w);
    else {
        buf = T->val;
        if (!strcmp(T->op, "writeEF")) rc = qthread_writeEF(w, (aligned_t *)&buf);
        else if (!strcmp(T->op, "writeEF_nb")) rc = qthread_writeEF_nb(w, (aligned_t *)&buf);
        else if (!strcmp(T->op, "writeF")) rc = qthread_writeF(w, (aligned_t *)&buf);
        else if (!strcmp(T->op, "writeFF")) rc = qthread_writeFF(w, (aligned_t *)&buf);
        else if (!strcmp(T->op, "purge_to")) rc = qthread_purge_to(w, (aligned_t *)&buf);
        buf = SENT;
    }
    T->out = buf;                 /* what the caller finds in its buffer at the moment the call returns */
    T->rc = rc;
    __sync_synchronize();
    T->done = 1;
    return 0;
}

static double now(void) { struct timespec ts; clock_gettime(CLOCK_MONOTONIC, &ts); return ts.tv_sec + 1e-9 * ts.tv_nsec; }
static int settled(ptask_t *T) { return !T || T->done || (T->self && T->self->thread_state == QTHREAD_STATE_FEB_BLOCKED); }
static int wait_settled(ptask_t *T, double secs) { double t0 = now(); while (!settled(T)) { if (now() - t0 > secs) return 0; sched_yield(); } return 1; }
static void on_alarm(int s) { printf("TIMEOUT\n"); fflush(stdout); _exit(3); }

static const char *rcname(int rc)
{
    switch (rc) { case QTHREAD_SUCCESS: return "OK"; case QTHREAD_OPFAIL: return "OPFAIL"; }
    return "RC?";
}
static void show(const char *name, ptask_t *T)
{
    if (!T || !T->done) { printf("%s=BLK:- ", name); return; }
    printf("%s=%s:", name, rcname(T->rc));
    if (T->out == SENT) printf("- "); else printf("%lld ", (long long)T->out);
}

static ptask_t *PT[3];
static int tid_of(qthread_t *q) { for (int i = 0; i < 2; i++) if (PT[i] && PT[i]->self == q) return i; return (q->thread_state == QTHREAD_STATE_NASCENT) ? 2 : 9; }
static qthread_t *volatile last_nascent = NULL;      /* the nascent waiter the last audit saw */
static volatile int launched = 0;
static aligned_t gate(void *arg) { __sync_fetch_and_add((volatile int *)arg, 1); return 0; }
/* the table's record of w: lists as task ids; returns present, *mfull = m->full (-1 when there is none) */
static int audit(aligned_t *w, char *buf, int *onlist, int *mfull)
{
    const int bin = QTHREAD_CHOOSE_STRIPE2(w);
    qthread_addrstat_t *m;
    int present = 0;
    char *p = buf;
    static const char *nm[4] = { "EF", "FE", "FF", "FFW" };
    onlist[0] = onlist[1] = onlist[2] = 0;
    *mfull = -1;
    qt_hash_lock(FEBs[bin]);
    m = (qthread_addrstat_t *)qt_hash_get_locked(FEBs[bin], (void *)w);
    if (m) { QTHREAD_FASTLOCK_LOCK(&m->lock); present = 1; *mfull = (int)m->full; }
    qthread_addrres_t *q[4] = { m ? m->EFQ : NULL, m ? m->FEQ : NULL, m ? m->FFQ : NULL, m ? m->FFWQ : NULL };
    for (int k = 0; k < 4; k++) {
        int n = 0;
        p += sprintf(p, "%s=[", nm[k]);
        for (qthread_addrres_t *x = q[k]; x && n < 8; x = x->next, n++) {
            int t = tid_of(x->waiter);
            if (t == 2) last_nascent = x->waiter;
            if (t < 3) onlist[t] = 1;
            p += sprintf(p, n ? ",%d" : "%d", t);
        }
        p += sprintf(p, "] ");
    }
    if (m) QTHREAD_FASTLOCK_UNLOCK(&m->lock);
    qt_hash_unlock(FEBs[bin]);
    return present;
}

static aligned_t arena[1 << 16] __attribute__((aligned(64)));
static int       next_word = 16;

int main(void)
{
    char line[256];
    signal(SIGALRM, on_alarm);
    alarm(300);
    qthread_initialize();
    printf("H %d %d\n", (int)qthread_num_shepherds(), (int)qthread_num_workers());
    fflush(stdout);
    if (qthread_num_shepherds() < 4) { printf("ERR needs 4 shepherds\n"); return 1; }
    while (fgets(line, sizeof(line), stdin)) {
        char opa[16], opb[16], init[16]; int k, j = 0, c1 = 0, c2 = 0, flip = 0, stuck = 0; double stuck_after = 20.0;
        if (sscanf(line, "m %15s %15s %d %15s %d %d %d %d %lf", init, opa, &k, opb, &j, &flip, &c1, &c2, &stuck_after) < 5) { printf("ERR parse\n"); fflush(stdout); continue; }
        alarm(300);
        double t_probe = now();
        aligned_t *w = &arena[next_word]; next_word += 8;
        if (next_word > (1 << 16) - 16) { printf("ERR arena\n"); fflush(stdout); continue; }
        aligned_t *u = &arena[next_word]; next_word += 8;
        while (QTHREAD_CHOOSE_STRIPE2(u) == QTHREAD_CHOOSE_STRIPE2(w)) { u = &arena[next_word]; next_word += 8; }   /* u on another stripe */
        if (next_word > (1 << 16) - 16) { printf("ERR arena\n"); fflush(stdout); continue; }
        *w = 5; *u = 7;
        qthread_empty(w);
        int two = strcmp(init, "pre1") != 0;
        if (!strcmp(init, "pre2E")) qthread_empty(u);
        ptask_t *A = calloc(1, sizeof(ptask_t)), *B = calloc(1, sizeof(ptask_t));
        strcpy(A->op, opa); A->val = 11; A->w = w; A->out = SENT;
        strcpy(B->op, opb); B->val = 22; B->w = w; B->out = SENT;
        PT[0] = A; PT[1] = B; PT[2] = NULL;
        memset((void *)HD, 0, sizeof HD); HD[0].k = k; HD[1].k = j; HD[0].kind = HD[1].kind = -1;
        volatile int *cnt = calloc(1, sizeof(int));
        last_nascent = NULL;
        if (two) qthread_fork_precond(gate, (void *)cnt, NULL, 2, u, w);     /* the walk examines w first, then u */
        else qthread_fork_precond(gate, (void *)cnt, NULL, 1, w);
        { char b[160]; int on[3], mf; audit(w, b, on, &mf);
          if (!on[2] || !last_nascent) {                 /* not where the model has it: go on, the comparison / the oracle will speak */
              last_nascent = NULL; audit(u, b, on, &mf);
              if (!last_nascent) { printf("ERR the precondition task is parked on none of its words\n"); fflush(stdout); _exit(5); }
          } }
        qthread_t *Nq = last_nascent;
        qthread_fork_to(ptask, A, NULL, 1);
        qthread_fork_to(ptask, B, NULL, 2);
        while (!A->self || !B->self) sched_yield();
        HD[0].who = A->self; HD[1].who = B->self;
        __sync_synchronize();
        A->start = 1;
        { double t0 = now(); while (!HD[0].paused && !settled(A)) { if (now() - t0 > stuck_after) { stuck = 1; break; } sched_yield(); } }
        B->start = 1;
        { double t0 = now(), lim = c1 ? 0.03 : stuck_after;     /* c1: B is expected to wait for a lock A holds */
          while (!HD[1].paused && !settled(B)) { if (now() - t0 > lim) { if (!c1) stuck = 1; break; } sched_yield(); } }
        int b_early = HD[1].paused || settled(B);                /* B got to its hold point / its end while A was held */
        if (flip && two) { if (qthread_feb_status(u)) qthread_empty(u); else qthread_fill(u); }     /* the environment flips u while A is held */
        HD[0].go = 1;
        { double t0 = now(), lim = c2 ? 0.03 : stuck_after;     /* c2: A is expected to wait for a lock B holds */
          while (!settled(A) && !stuck) { if (now() - t0 > lim) { if (!c2) stuck = 1; break; } sched_yield(); } }
        int a_done3 = settled(A);                                /* A got to its end while B was held */
        HD[1].go = 1;
        for (int round = 0; round < 3 && !stuck; round++) {    /* a call that returns may release another task */
            if (!wait_settled(A, stuck_after)) stuck = 1;
            if (!wait_settled(B, stuck_after)) stuck = 1;
        }
        HD[0].who = HD[1].who = NULL;
        /* if N was enqueued, let it start (its state leaves NASCENT before it is enqueued; the body counts before the task can end) */
        { double t0 = now();
          while (!stuck && *cnt == 0 && Nq->thread_state != QTHREAD_STATE_NASCENT) { if (now() - t0 > stuck_after) { stuck = 1; break; } qthread_yield(); } }
        int nstate = (*cnt == 0 && Nq->thread_state == QTHREAD_STATE_NASCENT);
        show("A", A); show("B", B);
        if (stuck) printf("full=-1 word=%lld rec=-1 EF=[] FE=[] FF=[] FFW=[] launched=%d parkedU=0 ufull=-1 nstate=%d mfull=-1 orphan=0 ", (long long)*w, *cnt, nstate);
        else {
            char b[160]; int on[3], orphan = 0, mf;
            int present = audit(w, b, on, &mf);
            for (int i = 0; i < 2; i++) if (PT[i] && !PT[i]->done && !on[i]) orphan = 1;
            char bu[160]; int onu[3], mfu;
            audit(u, bu, onu, &mfu);
            printf("full=%d word=%lld rec=%d %slaunched=%d parkedU=%d ufull=%d nstate=%d mfull=%d orphan=%d ", qthread_feb_status(w), (long long)*w, present, b,
                   *cnt, onu[2], qthread_feb_status(u), nstate, mf, orphan);
        }
        printf("stuck=%d early=%d adone=%d atA=%s atB=%s seqA=", stuck, b_early, a_done3, HD[0].kind >= 0 ? sp_name[HD[0].kind] : "-", HD[1].kind >= 0 ? sp_name[HD[1].kind] : "-");
        show_seq(&HD[0]); printf(" seqB="); show_seq(&HD[1]);
        printf(" ms=%d\n", (int)((now() - t_probe) * 1000.0));
        fflush(stdout);
        if (stuck) _exit(4);
    }
    _exit(0);
}
