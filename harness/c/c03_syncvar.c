/* C03 harness (mode M2, DESIGN.md section 4): op-atomic schedule replay of syncvar operations inside a live runtime.
 * White-box include of the working-tree syncvar.c (resolved through -I$REPO/src) + a read-only audit accessor over the
 * syncvars[] hash.  One qthread per script task; the controller task releases one task for one API call at a
 * time and waits until every in-flight call has either returned or is observed enqueued on a waiter list.
 *
 * stdin (one command per line)                      stdout (one line per command)
 *   N <ntasks> <nvars>                              N <ntasks> <nvars>
 *   I <var> <kind 0..3> <hexvalue>                  I | <var dumps>
 *   O <task> <var> <op> <hexvalue> <has_dest>       S B<t> R<t>:<rc>:<val> ... | <var dumps>     (or BUSY <t>)
 *   M <var> <op> <hexvalue> <has_dest>              same; the call is made by the controller task itself, task id = ntasks
 *   X <var> <op> <hexvalue> <has_dest>              same; the call is made by a real non-qthread pthread (reported as task id ntasks);
 *                                                   only calls that are enabled, i.e. do not have to wait (generator)
 *   Y <var> <op> <hexvalue> <has_dest>              like X, but the controller first keeps its worker busy (no yield) for up to 200 ms
 *                                                   or until the external call has returned and re-used its stack: a proxy that returns
 *                                                   before its forked task ran (the defect fixed by /repo a562144) is then seen to lose
 *                                                   the operation.  With a sound proxy the call simply completes after the busy wait.
 *   D                                               D R<t>:<rc>:<val> ... | <var dumps>   (drain: empty/fill until no waiters)
 *   Q
 * var dump:  V<i> w=<hex u.w, lock bit masked> s=<qthread_syncvar_status> r=<record present> E=[tids] FE=[tids] FF=[tids]
 * ops: 0 readFF 1 readFF_nb 2 readFE 3 readFE_nb 4 writeF 5 writeEF 6 writeEF_nb 7 fill 8 empty 9 incrF 10 status
 */
#include "syncvar.c"
#include <stdio.h>
#include <string.h>
#include <unistd.h>
#include <time.h>
#include <inttypes.h>
#include <pthread.h>
#include <semaphore.h>

#define MAXT 16
#define MAXV 8
#define SENTINEL 0xDEADBEEFCAFEF00DULL

typedef struct {
    volatile int      cmd_seq, done_seq, quit, started, exited;
    int               op, var, has_dest;
    uint64_t          val;
    volatile int      rc;
    volatile uint64_t out;
    volatile int      has_out;
    qthread_t        *self;
    aligned_t         ret;
    aligned_t         go;       /* FEB word: the task sleeps in qthread_readFE(&go) until the controller hands it a call */
} task_t;

static task_t    *T[MAXT + 1];
static int        ntasks = 0, nvars = 0;
static syncvar_t *V[MAXV];
static double     stuck_after = 10.0;

static const char *rcname(int rc)
{
    static char buf[32];
    switch (rc) {
        case QTHREAD_SUCCESS: return "OK";
        case QTHREAD_OPFAIL: return "OPFAIL";
        case QTHREAD_OVERFLOW: return "OVERFLOW";
        case QTHREAD_TIMEOUT: return "TIMEOUT";
        case QTHREAD_MALLOC_ERROR: return "NOMEM";
    }
    snprintf(buf, sizeof buf, "rc%d", rc);
    return buf;
}

static void do_op(task_t *t)
{
    syncvar_t *v   = V[t->var];
    volatile uint64_t out = SENTINEL;
    uint64_t  *d   = t->has_dest ? (uint64_t *)&out : NULL;
    uint64_t   val = t->val;       /* lives in this task's frame while the task is blocked (writeEF keeps the pointer) */
    int        rc  = 0, has_out = 0;

    switch (t->op) {
        /* delivered value = whatever the call stored through dest (the sentinel means nothing was stored) */
        case 0: rc = qthread_syncvar_readFF(d, v); has_out = (out != SENTINEL); break;
        case 1: rc = qthread_syncvar_readFF_nb(d, v); has_out = (out != SENTINEL); break;
        case 2: rc = qthread_syncvar_readFE(d, v); has_out = (out != SENTINEL); break;
        case 3: rc = qthread_syncvar_readFE_nb(d, v); has_out = (out != SENTINEL); break;
        case 4: rc = qthread_syncvar_writeF(v, &val); break;
        case 5: rc = qthread_syncvar_writeEF(v, &val); break;
        case 6: rc = qthread_syncvar_writeEF_nb(v, &val); break;
        case 7: rc = qthread_syncvar_fill(v); break;
        case 8: rc = qthread_syncvar_empty(v); break;
        case 9: out = qthread_syncvar_incrF(v, val); has_out = 1; break;
        case 10: out = (uint64_t)qthread_syncvar_status(v); has_out = 1; break;
        default: rc = -99;
    }
    t->rc      = rc;
    t->out     = out;
    t->has_out = has_out;
}

static aligned_t task_fn(void *arg)
{
    task_t *t    = (task_t *)arg;
    int     seen = 0;

    t->self    = qthread_internal_self();
    t->started = 1;
    for (;;) {
        aligned_t c;
        qthread_readFE(&c, &t->go);     /* idle tasks are blocked (FEB subsystem), not spinning: keeps the ready queues short */
        if (t->quit) break;
        seen = t->cmd_seq;
        do_op(t);
        MACHINE_FENCE;
        t->done_seq = seen;
    }
    t->exited = 1;
    return 0;
}

static double now(void)
{
    struct timespec ts;
    clock_gettime(CLOCK_MONOTONIC, &ts);
    return ts.tv_sec + 1e-9 * ts.tv_nsec;
}

/* ---- hang watchdog: a real pthread; if the controller stays inside one command for longer than any legitimate wait
 * (e.g. it spins on a waiter-record lock that the code under test never released) report STUCK and exit ---- */
static volatile unsigned long heartbeat = 0;
static volatile int           in_cmd    = 0;
static void *hang_watchdog(void *unused)
{
    unsigned long last = 0;
    double        since = now();
    for (;;) {
        usleep(200000);
        if (!in_cmd || heartbeat != last) { last = heartbeat; since = now(); continue; }
        if (now() - since > 2 * stuck_after + 5) {
            printf("STUCK 99 | the controller is stuck inside a command (lock never released?)\n");
            fflush(stdout);
            _exit(3);
        }
    }
    return NULL;
}

/* ---- external (non-qthread) caller: one server pthread executing one call at a time ---- */
static sem_t         xsem;
static volatile int  xdone = 0;
static task_t       *volatile xtask = NULL;
static void __attribute__((noinline)) scribble(unsigned char pat)
{
    volatile unsigned char junk[4096];
    for (unsigned i = 0; i < sizeof junk; i++) junk[i] = pat;
}

static void *external_caller(void *unused)
{
    for (;;) {
        while (sem_wait(&xsem) != 0) ;
        do_op(xtask);
        scribble(0x7f);     /* whatever frame the library call left behind is garbage now */
        MACHINE_FENCE;
        xdone = 1;
    }
    return NULL;
}

/* ---- audit accessor (read-only) over the waiter record of one syncvar ---- */
typedef struct { int present; int n[3]; int who[3][MAXT + 2]; } audit_t;

static int task_of(qthread_t *q)
{
    for (int i = 0; i < ntasks; i++) if (T[i] && T[i]->self == q) return i;
    return 99;
}

static void audit(syncvar_t *v, audit_t *a)
{
    const int           bin = QTHREAD_CHOOSE_STRIPE(v);
    qthread_addrstat_t *m;

    memset(a, 0, sizeof *a);
    qt_hash_lock(syncvars[bin]);
    m = (qthread_addrstat_t *)qt_hash_get_locked(syncvars[bin], (void *)v);
    if (m) {
        QTHREAD_FASTLOCK_LOCK(&m->lock);
        a->present = 1;
        qthread_addrres_t *q[3] = { m->EFQ, m->FEQ, m->FFQ };
        for (int k = 0; k < 3; k++)
            for (qthread_addrres_t *x = q[k]; x && a->n[k] < MAXT + 1; x = x->next) a->who[k][a->n[k]++] = task_of(x->waiter);
        QTHREAD_FASTLOCK_UNLOCK(&m->lock);
    }
    qt_hash_unlock(syncvars[bin]);
}

static int enqueued(int t)
{
    audit_t a;
    for (int i = 0; i < nvars; i++) {
        audit(V[i], &a);
        for (int k = 0; k < 3; k++)
            for (int j = 0; j < a.n[k]; j++) if (a.who[k][j] == t) return 1;
    }
    return 0;
}


/* wait until every in-flight call has returned or is enqueued; 0 = quiescent, else a bit set of tasks that are neither */
static unsigned wait_quiescent(void)
{
    double   t0    = now();
    unsigned spins = 0;

    for (;;) {
        unsigned bad = 0, inflight = 0;
        /* snapshot first: the tasks whose call has not returned yet; only then audit the waiter lists.  (A call that
         * was still running at the snapshot is in the set and cannot be on a list unless it blocked, which releases
         * nobody; a call that had returned has finished all its releases, so the tasks it took off the lists are seen
         * as neither enqueued nor returned until they do return.) */
        MACHINE_FENCE;
        for (int i = 0; i < ntasks; i++)
            if (T[i]->cmd_seq != T[i]->done_seq) inflight |= 1u << i;
        MACHINE_FENCE;
        for (int i = 0; i < ntasks; i++)
            if ((inflight & (1u << i)) && !enqueued(i)) bad |= 1u << i;
        if (!bad) return 0;
        qthread_yield();
        ++spins;
        if ((spins & 0x3f) == 0) {
            if (now() - t0 > stuck_after) return bad;
            if (spins > 2000) usleep(100);
        }
    }
}

static void dump_vars(void)
{
    for (int i = 0; i < nvars; i++) {
        audit_t  a;
        uint64_t w = V[i]->u.w;
        static const char *nm[3] = { "E", "FE", "FF" };
        int      st = qthread_syncvar_status(V[i]);
        audit(V[i], &a);
        printf(" V%d w=%" PRIx64 " s=%d r=%d", i, w & ~(uint64_t)1, st, a.present);
        for (int k = 0; k < 3; k++) {
            printf(" %s=[", nm[k]);
            for (int j = 0; j < a.n[k]; j++) printf(j ? ",%d" : "%d", a.who[k][j]);
            printf("]");
        }
    }
}

static void print_returned(const int *before, int ctl_returned, int ctl_rc, int ctl_has_out, uint64_t ctl_out)
{
    for (int i = 0; i < ntasks; i++) {
        if (T[i]->done_seq != before[i]) {
            printf(" R%d:%s:", i, rcname(T[i]->rc));
            if (T[i]->has_out) printf("%" PRIx64, (uint64_t)T[i]->out); else printf("-");
        }
    }
    if (ctl_returned) {
        printf(" R%d:%s:", ntasks, rcname(ctl_rc));
        if (ctl_has_out) printf("%" PRIx64, ctl_out); else printf("-");
    }
}

static void stuck(unsigned bad)
{
    printf("STUCK");
    for (int i = 0; i < ntasks; i++) if (bad & (1u << i)) printf(" %d", i);
    printf(" |");
    dump_vars();
    printf("\n");
    fflush(stdout);
    _exit(3);
}

static void end_script(void)
{
    for (int i = 0; i < ntasks; i++) {
        T[i]->quit = 1;
        if (T[i]->cmd_seq == T[i]->done_seq) qthread_writeF_const(&T[i]->go, 1);
    }
    double t0 = now();
    for (;;) {
        int all = 1;
        for (int i = 0; i < ntasks; i++) if (!T[i]->exited && T[i]->cmd_seq == T[i]->done_seq) all = 0;
        if (all) break;
        qthread_yield();
        if (now() - t0 > stuck_after) break;
    }
    /* task records and syncvars of a finished script are leaked on purpose (blocked leftovers may still point at them) */
    ntasks = 0; nvars = 0;
}

/* The controller is an ordinary qthread (not the main task: sherwood only runs the main task on worker 0 of its
 * shepherd, which makes a constantly yielding main task a scheduler test of its own; that is C08's business). */
static aligned_t controller(void *unused)
{
    char line[4096];
    pthread_t xth, wth;

    sem_init(&xsem, 0, 0);
    pthread_create(&xth, NULL, external_caller, NULL);
    pthread_create(&wth, NULL, hang_watchdog, NULL);
    while (in_cmd = 0, fgets(line, sizeof line, stdin)) {
        heartbeat++; in_cmd = 1;
        if (line[0] == 'N') {
            int nt, nv;
            if (ntasks) end_script();
            sscanf(line + 1, "%d %d", &nt, &nv);
            if (nt > MAXT) nt = MAXT;
            if (nv > MAXV) nv = MAXV;
            for (int i = 0; i < nv; i++) {
                void *p = NULL;
                posix_memalign(&p, 64, 64);
                V[i]  = (syncvar_t *)p;
                *V[i] = SYNCVAR_INITIALIZER;
            }
            nvars = nv;
            for (int i = 0; i <= nt; i++) { T[i] = calloc(1, sizeof(task_t)); qthread_empty(&T[i]->go); }
            ntasks = nt;
            for (int i = 0; i < nt; i++) qthread_fork_to(task_fn, T[i], &T[i]->ret, i % qthread_num_shepherds());
            double t0 = now();
            for (;;) {
                int all = 1;
                for (int i = 0; i < nt; i++) if (!T[i]->started) all = 0;
                if (all) break;
                qthread_yield();
                if (now() - t0 > stuck_after) { printf("STARTFAIL\n"); fflush(stdout); _exit(4); }
            }
            printf("N %d %d\n", nt, nv);
        } else if (line[0] == 'I') {
            int v, kind; uint64_t val;
            sscanf(line + 1, "%d %d %" SCNx64, &v, &kind, &val);
            switch (kind) {
                case 0: *V[v] = SYNCVAR_INITIALIZER; break;
                case 1: *V[v] = SYNCVAR_EMPTY_INITIALIZER; break;
                case 2: *V[v] = SYNCVAR_INITIALIZE_TO(val); break;
                default: *V[v] = SYNCVAR_EMPTY_INITIALIZE_TO(val); break;
            }
            printf("I |"); dump_vars(); printf("\n");
        } else if (line[0] == 'O' || line[0] == 'M' || line[0] == 'X' || line[0] == 'Y') {
            int t, v, op, hd; uint64_t val;
            int before[MAXT + 1];
            int ctl = line[0] != 'O';
            if (ctl) { sscanf(line + 1, "%d %d %" SCNx64 " %d", &v, &op, &val, &hd); t = ntasks; }
            else sscanf(line + 1, "%d %d %d %" SCNx64 " %d", &t, &v, &op, &val, &hd);
            if (!ctl && T[t]->cmd_seq != T[t]->done_seq) { printf("BUSY %d\n", t); fflush(stdout); continue; }
            for (int i = 0; i < ntasks; i++) before[i] = T[i]->done_seq;
            T[t]->op = op; T[t]->var = v; T[t]->val = val; T[t]->has_dest = hd;
            if (line[0] == 'X' || line[0] == 'Y') {
                /* a real non-qthread pthread makes the call (proxied by the library through a forked task) */
                double t0 = now();
                unsigned spins = 0;
                xtask = T[t]; xdone = 0;
                MACHINE_FENCE;
                sem_post(&xsem);
                if (line[0] == 'Y') { while (!xdone && now() - t0 < 0.2) ; }   /* busy, no yield: the proxy task cannot run here */
                while (!xdone) {
                    qthread_yield();
                    if ((++spins & 0x3f) == 0) {
                        if (now() - t0 > stuck_after) { printf("STUCK %d | external call did not return\n", t); fflush(stdout); _exit(3); }
                        if (spins > 2000) usleep(100);
                    }
                }
            } else if (ctl) {
                /* the controller may only issue calls that cannot block (the generator guarantees it) */
                do_op(T[t]);
            } else {
                T[t]->cmd_seq++;
                MACHINE_FENCE;
                qthread_writeF_const(&T[t]->go, 1);
            }
            unsigned bad = wait_quiescent();
            if (bad) stuck(bad);
            printf("S");
            if (!ctl && T[t]->cmd_seq != T[t]->done_seq) printf(" B%d", t);
            print_returned(before, ctl, T[t]->rc, T[t]->has_out, T[t]->out);
            printf(" |"); dump_vars(); printf("\n");
        } else if (line[0] == 'D') {
            int before[MAXT + 1];
            for (int i = 0; i < ntasks; i++) before[i] = T[i]->done_seq;
            for (int v = 0; v < nvars; v++) {
                for (int guard = 0; guard < 4 * MAXT; guard++) {
                    audit_t a;
                    audit(V[v], &a);
                    if (a.n[0] > 0) qthread_syncvar_empty(V[v]);
                    else if (a.n[1] + a.n[2] > 0) qthread_syncvar_fill(V[v]);
                    else break;
                    unsigned bad = wait_quiescent();
                    if (bad) stuck(bad);
                }
            }
            printf("D");
            print_returned(before, 0, 0, 0, 0);
            printf(" |"); dump_vars(); printf("\n");
            end_script();
        } else if (line[0] == 'Q') {
            break;
        }
        fflush(stdout);
    }
    fflush(stdout);
    _exit(0);
    return 0;
}

int main(int argc, char **argv)
{
    aligned_t ret;

    if (argc > 1) stuck_after = atof(argv[1]);
    if (qthread_initialize() != 0) { printf("INITFAIL\n"); return 2; }
    printf("H %u %u\n", (unsigned)qthread_num_shepherds(), (unsigned)qthread_num_workers());
    fflush(stdout);
    qthread_fork_to(controller, NULL, &ret, 0);
    qthread_readFF(NULL, &ret);
    return 0;
}
