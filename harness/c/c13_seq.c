/* C13 extension W: drives the REAL static functions drf_qsort_dbl / drf_qsort_algt of the working tree's src/qutil.c
 * (white-box include, no edit of /repo) on explicit arrays and prints the final allocation plus what the assert probe saw:
 * the capacity MAX of the explicit stack, the largest stack index i at the loop head and the number of loop-head visits.
 * The extracted model (ocaml/bin/c13seq_driver, Util/SeqSort.v) prints the same line.
 *
 *   seq <d|u> <pre> <n> <post> w_0 .. w_{pre+n+post-1}      (16-digit hex words; the call sorts [pre, pre+n))
 *   -> q cap=<MAX> depth=<max i> it=<visits> arr=<w,..>|h=<fnv> | sorted=<0|1> mset=<0|1> guard=<0|1>
 *      (cap/depth/it are "-" when the probe did not fire, e.g. after a renaming of the locals: arrays only)
 *      q overflow i=<i> cap=<MAX> ...   the loop head was reached with i >= MAX (the explicit stack is overrun)
 *      q TIMEOUT                        CPU-time watchdog (the process exits; the caller restarts it) */
#ifndef _GNU_SOURCE
# define _GNU_SOURCE
#endif
#include "config.h"
#include <stdio.h>
#include <stdlib.h>
#include <string.h>
#include <stdint.h>
#include <unistd.h>
#include <signal.h>
#include <setjmp.h>
#include <sys/time.h>

/* file-scope stand-ins for the names the probe macro mentions (shadowed by the locals of the drf_* functions) */
static const long MAX = -1;
static const long i   = -1;

static long       p_cnt, p_maxi, p_cap, p_badi;
static int        p_seen, p_bad;
static sigjmp_buf p_jmp;

static void c13s_probe(long idx, long cap, int holds)
{
    if (cap < 0) return;                     /* not inside one of the drf_* loops */
    p_seen = 1;
    p_cnt++;
    p_cap = cap;
    if (idx > p_maxi) p_maxi = idx;
    if (!holds || idx >= cap) {              /* the next access beg[i] / end[i] is outside the arrays: leave */
        p_bad = 1; p_badi = idx;
        siglongjmp(p_jmp, 1);
    }
}

#define C13SEQ_PROBE 1
#include "qutil.c"
#undef C13SEQ_PROBE

static void on_alarm(int s) { (void)s; static const char m[] = "q TIMEOUT\n"; if (write(1, m, sizeof m - 1)) {} _exit(3); }

/* CPU-time watchdog (single-threaded process): a loaded machine only slows the wall clock */
static void watchdog(int seconds)
{
    struct itimerval it;
    memset(&it, 0, sizeof it);
    it.it_value.tv_sec = seconds;
    setitimer(ITIMER_VIRTUAL, &it, NULL);
    alarm(seconds > 0 ? 1800 : 0);
}

static double bitsd(uint64_t b) { double d; memcpy(&d, &b, 8); return d; }
static int cmp_u64(const void *a, const void *b)
{
    uint64_t x = *(const uint64_t *)a, y = *(const uint64_t *)b; return x < y ? -1 : x > y;
}

int main(void)
{
    char *line = NULL; size_t lcap = 0;
    signal(SIGALRM, on_alarm);
    signal(SIGVTALRM, on_alarm);
    setvbuf(stdout, NULL, _IOFBF, 1 << 16);
    while (getline(&line, &lcap, stdin) > 0) {
        char cmd[16] = "", tys[4] = ""; size_t pre = 0, n = 0, post = 0; int off = 0;
        if (sscanf(line, "%15s", cmd) != 1) continue;
        if (!strcmp(cmd, "Q")) break;
        if (strcmp(cmd, "seq") || sscanf(line, "%*s %3s %zu %zu %zu%n", tys, &pre, &n, &post, &off) < 4) { printf("ERR\n"); fflush(stdout); continue; }
        size_t    tot = pre + n + post;
        uint64_t *a = malloc((tot + 1) * 8), *orig = malloc((tot + 1) * 8);
        char     *p = line + off;
        size_t    got = 0;
        while (got < tot) { char *e; unsigned long long v = strtoull(p, &e, 16); if (e == p) break; p = e; a[got++] = v; }
        if (got != tot) { printf("ERR short\n"); fflush(stdout); free(a); free(orig); continue; }
        memcpy(orig, a, tot * 8);
        p_cnt = 0; p_maxi = -1; p_cap = -1; p_seen = 0; p_bad = 0; p_badi = -1;
        watchdog(10);                        /* CPU seconds; the slowest generated case needs well under one */
        if (sigsetjmp(p_jmp, 1) == 0) {
            if (tys[0] == 'd') drf_qsort_dbl((double *)(a + pre), n);
            else drf_qsort_algt((aligned_t *)(a + pre), n);
        }
        watchdog(0);
        int guard = 1, sorted = 1, mset;
        for (size_t k = 0; k < pre; k++) if (a[k] != orig[k]) guard = 0;
        for (size_t k = pre + n; k < tot; k++) if (a[k] != orig[k]) guard = 0;
        for (size_t k = 1; k < n; k++) {
            if (tys[0] == 'd' ? !(bitsd(a[pre + k - 1]) <= bitsd(a[pre + k])) : !(a[pre + k - 1] <= a[pre + k])) { sorted = 0; break; }
        }
        uint64_t *c = malloc((n + 1) * 8);
        memcpy(c, a + pre, n * 8); qsort(c, n, 8, cmp_u64); qsort(orig + pre, n, 8, cmp_u64);
        mset = !memcmp(c, orig + pre, n * 8);
        if (p_bad) printf("q overflow i=%ld cap=%ld", p_badi, p_cap);
        else if (p_seen) printf("q cap=%ld depth=%ld it=%ld", p_cap, p_maxi, p_cnt);
        else printf("q cap=- depth=- it=-");
        if (tot <= 600) {
            printf(" arr=");
            for (size_t k = 0; k < tot; k++) printf(k ? ",%016llx" : "%016llx", (unsigned long long)a[k]);
        } else {
            uint64_t h = 0xcbf29ce484222325ULL;
            for (size_t k = 0; k < tot; k++) h = (h ^ a[k]) * 0x100000001b3ULL;
            printf(" h=%016llx", (unsigned long long)h);
        }
        printf(" | sorted=%d mset=%d guard=%d\n", sorted, mset, guard);
        fflush(stdout);
        free(a); free(orig); free(c);
    }
    fflush(stdout);
    return 0;
}
