/* C18 harness: contention runs on the REAL atomic primitives of include/qthread/qthread.h (as configured in the
 * working tree).  stdin: one run per line; stdout: per run the final cell and every returned value of every thread.
 *
 *   RUN id mode kind nthr nops yield init  inc-pattern-per-thread...
 *     mode  P = pthreads (start barrier, CAS rounds separated by barriers), Q = qthreads (tasks of the live runtime, never
 *           spinning or yielding; a CAS round is one fork/join of nthr tasks)
 *     kind  i32 i64   qthread_incr (macro) on uint32_t / uint64_t
 *           x32 x64   qthread_incr32 / qthread_incr64 (functions)
 *           f d       qthread_fincr / qthread_dincr  (init / incs / results are bit patterns of float / double)
 *           m32 m64   even threads qthread_incr, odd threads a CAS loop built from qthread_cas (same cell)
 *           md        even threads qthread_dincr, odd threads a CAS loop built from qthread_cas64 on the same 8 bytes
 *           c32 c64 cp  CAS rounds with qthread_cas32 / qthread_cas (64) / qthread_cas_ptr: nops = rounds
 *     inc pattern of thread t: comma separated hex values, used cyclically  (CAS rounds: none)
 *   output:  R id final ; T tid v v v ... ; E
 */
#include <qthread/qthread.h>
#include <stdio.h>
#include <stdlib.h>
#include <string.h>
#include <stdint.h>
#include <pthread.h>
#include <unistd.h>
#include <signal.h>
#include <sched.h>

#define MAXT 64
typedef struct {
    int       tid, nthr, nops, yield_every, qmode, kind, round;
    uint64_t *incs; int nincs;
    uint64_t *rets;
} targ_t;

enum { K_I32, K_I64, K_X32, K_X64, K_F, K_D, K_M32, K_M64, K_MD, K_C32, K_C64, K_CP };

static union { volatile uint32_t u32; volatile uint64_t u64; volatile float f; volatile double d; void *volatile p; } cell __attribute__((aligned(64)));
static volatile aligned_t arrived __attribute__((aligned(64)));
static volatile aligned_t phase __attribute__((aligned(64)));
static volatile aligned_t done_cnt;
static volatile uint64_t expect_now;       /* CAS rounds: value every thread expects in this round */


/* counting barrier of OS threads / of tasks that each own a worker: spins, then gives the CPU to the OS */
static void barrier(int n, int qmode)
{
    (void)qmode;
    aligned_t my = phase;
    if (__sync_add_and_fetch(&arrived, 1) == (aligned_t)n) {
        arrived = 0;
        __sync_synchronize();
        __sync_fetch_and_add(&phase, 1);
    } else {
        unsigned spins = 0;
        while (phase == my) { if (++spins > 2000) sched_yield(); }
    }
}

static uint64_t cas_new(int round, int tid) { return (((uint64_t)round + 1) << 8) | (uint64_t)(tid + 1); }
static int stale(int round, int tid) { return tid != 0 && ((round * 7 + tid) % 5) == 0; }

static void body(targ_t *a)
{
    int k;
    if (!a->qmode) barrier(a->nthr, 0);      /* tasks never spin: they may share a worker */
    if (a->kind >= K_C32) {
        /* pthreads: all rounds in one thread, two barriers per round.  qthreads: one task per (round, thread), see main */
        int from = a->qmode ? a->round : 0, to = a->qmode ? a->round + 1 : a->nops;
        for (k = from; k < to; k++) {
            uint64_t e = expect_now, n = cas_new(k, a->tid), r;
            if (stale(k, a->tid)) e ^= (1u << 30);
            switch (a->kind) {
                case K_C32: r = qthread_cas32(&cell.u32, (uint32_t)e, (uint32_t)n); break;
                case K_C64: r = qthread_cas(&cell.u64, e, n); break;
                default:    r = (uint64_t)(uintptr_t)qthread_cas_ptr(&cell.p, (void *)(uintptr_t)e, (void *)(uintptr_t)n); break;
            }
            a->rets[k] = r;
            if (a->qmode) break;
            barrier(a->nthr, 0);
            if (a->tid == 0) expect_now = (a->kind == K_C32) ? cell.u32 : cell.u64;
            barrier(a->nthr, 0);
        }
        return;
    }
    for (k = 0; k < a->nops; k++) {
        uint64_t inc = a->incs[k % a->nincs], r = 0;
        switch (a->kind) {
            case K_I32: r = qthread_incr(&cell.u32, (uint32_t)inc); break;
            case K_I64: r = qthread_incr(&cell.u64, inc); break;
            case K_X32: r = qthread_incr32((uint32_t *)&cell.u32, (uint32_t)inc); break;
            case K_X64: r = qthread_incr64((uint64_t *)&cell.u64, inc); break;
            case K_F: { uint32_t b = (uint32_t)inc; float fi, fr; memcpy(&fi, &b, 4); fr = qthread_fincr((float *)&cell.f, fi); memcpy(&b, &fr, 4); r = b; break; }
            case K_D: { double di, dr; memcpy(&di, &inc, 8); dr = qthread_dincr((double *)&cell.d, di); memcpy(&r, &dr, 8); break; }
            case K_M32:
                if (a->tid & 1) { uint32_t o, g; do { o = cell.u32; g = qthread_cas32(&cell.u32, o, o + (uint32_t)inc); } while (g != o); r = o; }
                else r = qthread_incr(&cell.u32, (uint32_t)inc);
                break;
            case K_M64:
                if (a->tid & 1) { uint64_t o, g; do { o = cell.u64; g = qthread_cas(&cell.u64, o, o + inc); } while (g != o); r = o; }
                else r = qthread_incr(&cell.u64, inc);
                break;
            case K_MD: {
                double di; memcpy(&di, &inc, 8);
                if (a->tid & 1) {
                    uint64_t o, n, g; double od, nd;
                    do { o = cell.u64; memcpy(&od, &o, 8); nd = od + di; memcpy(&n, &nd, 8); g = qthread_cas64(&cell.u64, o, n); } while (g != o);
                    r = o;
                } else { double dr = qthread_dincr((double *)&cell.d, di); memcpy(&r, &dr, 8); }
                break;
            }
        }
        a->rets[k] = r;
        if (a->yield_every && (k % a->yield_every) == a->yield_every - 1) { if (!a->qmode) sched_yield(); }   /* no qthread_yield: starves on multi-worker shepherds */
    }
}

static void *pth_main(void *p) { body((targ_t *)p); return NULL; }
static aligned_t task_main(void *p) { body((targ_t *)p); __sync_fetch_and_add(&done_cnt, 1); return 0; }

static int kind_of(const char *s)
{
    static const char *names[] = { "i32", "i64", "x32", "x64", "f", "d", "m32", "m64", "md", "c32", "c64", "cp" };
    for (int i = 0; i < 12; i++) if (!strcmp(s, names[i])) return i;
    return -1;
}

static void on_alarm(int s) { (void)s; printf("TIMEOUT\n"); fflush(stdout); _exit(3); }

int main(void)
{
    static char line[1 << 16];
    int         qinit = 0;
    signal(SIGALRM, on_alarm);
    while (fgets(line, sizeof line, stdin)) {
        char *save, *tok = strtok_r(line, " \n", &save);
        if (!tok) continue;
        if (!strcmp(tok, "Q")) break;
        if (strcmp(tok, "RUN")) { printf("ERR\n"); continue; }
        long  id    = atol(strtok_r(NULL, " \n", &save));
        char  mode  = strtok_r(NULL, " \n", &save)[0];
        int   kind  = kind_of(strtok_r(NULL, " \n", &save));
        int   nthr  = atoi(strtok_r(NULL, " \n", &save));
        int   nops  = atoi(strtok_r(NULL, " \n", &save));
        int   yld   = atoi(strtok_r(NULL, " \n", &save));
        uint64_t init = strtoull(strtok_r(NULL, " \n", &save), NULL, 16);
        if (kind < 0 || nthr < 1 || nthr > MAXT || nops < 1) { printf("ERR\n"); continue; }
        targ_t *ta = calloc(nthr, sizeof *ta);
        for (int t = 0; t < nthr; t++) {
            ta[t].tid = t; ta[t].nthr = nthr; ta[t].nops = nops; ta[t].yield_every = yld; ta[t].qmode = (mode == 'Q'); ta[t].kind = kind;
            ta[t].rets = calloc(nops, sizeof(uint64_t));
            ta[t].incs = calloc(64, sizeof(uint64_t)); ta[t].nincs = 0;
            if (kind < K_C32) {
                char *pat = strtok_r(NULL, " \n", &save), *s2, *v;
                if (!pat) { printf("ERR\n"); goto next; }
                for (v = strtok_r(pat, ",", &s2); v && ta[t].nincs < 64; v = strtok_r(NULL, ",", &s2)) ta[t].incs[ta[t].nincs++] = strtoull(v, NULL, 16);
                if (!ta[t].nincs) { printf("ERR\n"); goto next; }
            }
        }
        cell.u64 = 0;
        if (kind == K_I32 || kind == K_X32 || kind == K_F || kind == K_M32 || kind == K_C32) cell.u32 = (uint32_t)init; else cell.u64 = init;
        expect_now = init; arrived = 0; done_cnt = 0;
        __sync_synchronize();
        alarm(120);
        if (mode == 'Q') {
            if (!qinit) { if (qthread_initialize() != QTHREAD_SUCCESS) { printf("ERR init\n"); return 2; } qinit = 1; }
            unsigned  ns = qthread_num_shepherds();
            aligned_t rv[MAXT];
            int       rounds = (kind >= K_C32) ? nops : 1;
            for (int rd = 0; rd < rounds; rd++) {         /* CAS rounds: one fork/join of nthr tasks per round */
                for (int t = 0; t < nthr; t++) { ta[t].round = rd; qthread_fork_to(task_main, &ta[t], &rv[t], (t + rd) % ns); }
                for (int t = 0; t < nthr; t++) qthread_readFF(NULL, &rv[t]);      /* main blocks: its worker runs tasks */
                if (kind >= K_C32) expect_now = (kind == K_C32) ? cell.u32 : cell.u64;
            }
        } else {
            pthread_t th[MAXT];
            for (int t = 0; t < nthr; t++) pthread_create(&th[t], NULL, pth_main, &ta[t]);
            for (int t = 0; t < nthr; t++) pthread_join(th[t], NULL);
        }
        alarm(0);
        {
            uint64_t fin = (kind == K_I32 || kind == K_X32 || kind == K_F || kind == K_M32 || kind == K_C32) ? cell.u32 : cell.u64;
            printf("R %ld %llx\n", id, (unsigned long long)fin);
            for (int t = 0; t < nthr; t++) {
                printf("T %d", t);
                for (int k = 0; k < nops; k++) printf(" %llx", (unsigned long long)ta[t].rets[k]);
                printf("\n");
            }
            printf("E\n");
            fflush(stdout);
        }
next:
        for (int t = 0; t < nthr; t++) { free(ta[t].rets); free(ta[t].incs); }
        free(ta);
    }
    if (qinit) qthread_finalize();
    return 0;
}
