/* gen_gcd.c -- M1 harness of the regeneration tie (lib/verif/props/_gen.py): qt_gcd / qt_lcm of the working tree's
 * include/qt_gcd.h.  Only used when Gen/Tie_Gcd.v no longer checks.
 *   G a b -> g <qt_gcd(a,b)> <qt_lcm(a,b)>
 */
#include <stdio.h>
#include <stdlib.h>
#include <stdint.h>
#include "qt_gcd.h"

int main(void)
{
    char line[256];

    while (fgets(line, sizeof line, stdin)) {
        unsigned long a = 0, b = 0;
        if (line[0] == 'G' && sscanf(line + 1, "%lu %lu", &a, &b) == 2) {
            printf("g %lu %lu\n", (unsigned long)qt_gcd(a, b), (unsigned long)qt_lcm(a, b));
        } else if (line[0] == 'Q') {
            break;
        }
        fflush(stdout);
    }
    return 0;
}
