/* C03 harness, mode M4: free-running syncvar programs on the real runtime, no controller between the calls.
 * White-box: includes the working tree's syncvar.c (-I$REPO/src) and appends a read-only audit over the syncvars[] hash;
 * the library is linked without syncvar.o.  No edits to /repo.  (Template: harness/c/c02_free.c.)
 *
 * stdin:
 *   R runid ntasks nvars                   a run; tasks 0..ntasks-1 are forked at once and released together
 *   V v full val                           initial state of syncvar v (val < 2^60, decimal)
 *   T tid shep nops                        program of a task (shep -1 = qthread_fork), then nops lines
 *   o name v dm val                        one call: dm reads 0 own buffer / 1 NULL destination; writes 0 pointer API / 3 _const API;
 *                                          val = value written / increment (decimal, up to 2^64-1)
 *                                          name_nbf = the _nb call, and when it reports QTHREAD_OPFAIL the blocking call
 *   G                                      go: run it, print the log
 *   Q                                      quit
 * stdout:
 *   H nsheps nworkers OPFAIL OVERFLOW      once
 * per run:
 *   B runid
 *   o task k name v dm wval inv ret rc rval      one executed API call; inv/ret = tickets of one global __sync_fetch_and_add
 *                                                taken just before the call / just after it returned (ret -1: never returned)
 *   v v word lock state data status present nEFQ nFEQ nFFQ    audit at quiescence (only when every task returned); word = raw u.w
 *   m v word                                      (hang only) the raw word as read without any lock
 *   E ok|HANG stuck|HANG slow
 * No task ever busy-waits: tasks block on syncvars (the code under test) and on two FEB words (gate, done) only.
 */
#define _GNU_SOURCE 1
#include "syncvar.c"
#include <stdio.h>
#include <string.h>
#include <unistd.h>
#include <signal.h>
#include <inttypes.h>

#define MAXTASK 96
#define MAXOPS  48
#define MAXV    8
#define SENT    0x5e5e5e5e5e5e5e5eULL      /* >= 2^60: never a payload */
#define ARENA_VARS (1 << 17)

enum { O_readFE, O_readFE_nb, O_readFF, O_readFF_nb, O_writeEF, O_writeEF_nb, O_writeF, O_fill, O_empty, O_incrF, O_status,
       O_readFE_nbf, O_readFF_nbf, O_writeEF_nbf, O_N };
static const char *opnames[O_N] = { "readFE", "readFE_nb", "readFF", "readFF_nb", "writeEF", "writeEF_nb", "writeF", "fill", "empty",
                                    "incrF", "status", "readFE_nbf", "readFF_nbf", "writeEF_nbf" };

typedef struct { int opc, v, dm; uint64_t val; } pop_t;
typedef struct { int opc, v, dm, rc, has_rval; uint64_t wval, rval; volatile long inv, ret; } rec_t;
typedef struct {
    int        id, shep, nops;
    pop_t      prog[MAXOPS];
    volatile int nrec;
    rec_t      rec[2 * MAXOPS];
    volatile uint64_t rbuf, wbuf;
} task_t;

static syncvar_t arena[ARENA_VARS] __attribute__((aligned(64)));
static size_t    arena_next = 8;
static task_t   *T;
static int       runid, ntasks, nvars;
static syncvar_t *V;
static aligned_t gate, done_word;
static volatile long nticket, ndone;

static inline long ticket(void) { return __sync_fetch_and_add(&nticket, 1); }

/* one API call with its two tickets */
static int one_call(task_t *t, int opc, int vi, int dm, uint64_t val)
{
    rec_t     *r = &t->rec[t->nrec];
    syncvar_t *v = &V[vi];
    uint64_t  *dest = (dm == 0) ? (uint64_t *)&t->rbuf : NULL;
    int        rc = -99, isread = 0;
    r->opc = opc; r->v = vi; r->dm = dm; r->wval = val; r->has_rval = 0; r->rc = -99; r->ret = -1;
    t->rbuf = SENT;
    t->wbuf = val;       /* stays valid while the task is blocked in writeEF (the library keeps the pointer) */
    r->inv = ticket();
    __sync_synchronize();
    t->nrec++;
    switch (opc) {
        case O_readFE:    isread = 1; rc = qthread_syncvar_readFE(dest, v); break;
        case O_readFE_nb: isread = 1; rc = qthread_syncvar_readFE_nb(dest, v); break;
        case O_readFF:    isread = 1; rc = qthread_syncvar_readFF(dest, v); break;
        case O_readFF_nb: isread = 1; rc = qthread_syncvar_readFF_nb(dest, v); break;
        case O_writeEF:    rc = (dm == 3) ? qthread_syncvar_writeEF_const(v, val) : qthread_syncvar_writeEF(v, (const uint64_t *)&t->wbuf); break;
        case O_writeEF_nb: rc = (dm == 3) ? qthread_syncvar_writeEF_const_nb(v, val) : qthread_syncvar_writeEF_nb(v, (const uint64_t *)&t->wbuf); break;
        case O_writeF:     rc = (dm == 3) ? qthread_syncvar_writeF_const(v, val) : qthread_syncvar_writeF(v, (const uint64_t *)&t->wbuf); break;
        case O_fill:   rc = qthread_syncvar_fill(v); break;
        case O_empty:  rc = qthread_syncvar_empty(v); break;
        case O_incrF:  r->rval = qthread_syncvar_incrF(v, val); r->has_rval = 1; rc = 0; break;
        case O_status: r->rval = (uint64_t)qthread_syncvar_status(v); r->has_rval = 1; rc = 0; break;
    }
    if (isread && dm == 0 && rc == 0) { r->rval = t->rbuf; r->has_rval = 1; }
    r->rc = rc;
    __sync_synchronize();
    r->ret = ticket();
    return rc;
}

static aligned_t task_main(void *arg)
{
    task_t *t = (task_t *)arg;
    qthread_readFF(NULL, &gate);
    for (int i = 0; i < t->nops; i++) {
        pop_t *p = &t->prog[i];
        switch (p->opc) {
            case O_readFE_nbf:
                if (one_call(t, O_readFE_nb, p->v, p->dm, 0) == QTHREAD_OPFAIL) one_call(t, O_readFE, p->v, p->dm, 0);
                break;
            case O_readFF_nbf:
                if (one_call(t, O_readFF_nb, p->v, p->dm, 0) == QTHREAD_OPFAIL) one_call(t, O_readFF, p->v, p->dm, 0);
                break;
            case O_writeEF_nbf:
                if (one_call(t, O_writeEF_nb, p->v, p->dm, p->val) == QTHREAD_OPFAIL) one_call(t, O_writeEF, p->v, p->dm, p->val);
                break;
            default: one_call(t, p->opc, p->v, p->dm, p->val); break;
        }
    }
    if (__sync_add_and_fetch(&ndone, 1) == ntasks) qthread_fill(&done_word);
    return 0;
}

static void print_log(void)
{
    for (int i = 0; i < ntasks; i++) {
        task_t *t = &T[i];
        for (int k = 0; k < t->nrec; k++) {
            rec_t *r = &t->rec[k];
            long   ret = r->ret;
            printf("o %d %d %s %d %d %" PRIu64 " %ld %ld %d ", t->id, k, opnames[r->opc], r->v, r->dm, r->wval, (long)r->inv, ret, ret < 0 ? -99 : r->rc);
            if (ret >= 0 && r->has_rval) printf("%" PRIu64 "\n", r->rval); else printf("-\n");
        }
    }
}

/* watchdog: first alarm after 40 s; the run is reported as hung only when no ticket was drawn (no call was invoked and none
 * returned) during a further 20 s; a run that is merely slow gets up to 10 more minutes */
static volatile long wd_ticket = -1;
static volatile int  wd_rounds;
static int           wd_first = 40, wd_next = 20;     /* C03_FREE_WD=<s> shortens both (mutation experiments only) */
static void on_alarm(int s)
{
    long now = nticket + ndone;
    if (wd_ticket != now && wd_rounds < 30) { wd_ticket = now; wd_rounds++; alarm(wd_next); return; }
    printf("B %d\n", runid);
    print_log();
    for (int v = 0; v < nvars; v++) printf("m %d %" PRIu64 "\n", v, (uint64_t)V[v].u.w);     /* plain reads: no lock can be taken here */
    printf("E HANG %s\n", wd_ticket == now ? "stuck" : "slow");
    fflush(stdout);
    _exit(3);
}

/* ---- audit (white-box, read-only; called when every task has returned) ---- */
static void audit_var(int vi)
{
    syncvar_t *addr = &V[vi];
    const int  lockbin = QTHREAD_CHOOSE_STRIPE(addr);
    int        present = 0, n[3] = { 0, 0, 0 };
    qt_hash_lock(syncvars[lockbin]);
    qthread_addrstat_t *m = (qthread_addrstat_t *)qt_hash_get_locked(syncvars[lockbin], (void *)addr);
    if (m) {
        QTHREAD_FASTLOCK_LOCK(&m->lock);
        present = 1;
        qthread_addrres_t *q[3] = { m->EFQ, m->FEQ, m->FFQ };
        for (int i = 0; i < 3; i++) for (qthread_addrres_t *x = q[i]; x && n[i] < 1000; x = x->next) n[i]++;
        QTHREAD_FASTLOCK_UNLOCK(&m->lock);
    }
    qt_hash_unlock(syncvars[lockbin]);
    uint64_t w = addr->u.w;
    int      st = (w & 1) ? -1 : qthread_syncvar_status(addr);       /* a word left locked would make status spin for ever */
    printf("v %d %" PRIu64 " %d %d %" PRIu64 " %d %d %d %d %d\n", vi, w, (int)(w & 1), (int)((w >> 1) & 7), w >> 4, st, present, n[0], n[1], n[2]);
}

static int opcode(const char *s) { for (int i = 0; i < O_N; i++) if (!strcmp(s, opnames[i])) return i; return -1; }

static int read_prog(task_t *t, char *line, size_t cap)
{
    for (int i = 0; i < t->nops; i++) {
        char name[32]; int v, dm; unsigned long long val;
        if (!fgets(line, cap, stdin) || sscanf(line, "o %31s %d %d %llu", name, &v, &dm, &val) != 4) return 0;
        int oc = opcode(name);
        if (oc < 0 || v < 0 || v >= nvars) return 0;
        t->prog[i].opc = oc; t->prog[i].v = v; t->prog[i].dm = dm; t->prog[i].val = (uint64_t)val;
    }
    return 1;
}

int main(void)
{
    static char line[1 << 12];
    setvbuf(stdout, NULL, _IOFBF, 1 << 20);
    signal(SIGALRM, on_alarm);
    runid = -1;
    if (getenv("C03_FREE_WD") && atoi(getenv("C03_FREE_WD")) > 0) { wd_first = atoi(getenv("C03_FREE_WD")); wd_next = (wd_first + 1) / 2; }
    alarm(60);
    qthread_initialize();
    alarm(0);
    printf("H %d %d %d %d\n", (int)qthread_num_shepherds(), (int)qthread_num_workers(), (int)QTHREAD_OPFAIL, (int)QTHREAD_OVERFLOW);
    fflush(stdout);
    T = calloc(MAXTASK, sizeof(task_t));
    while (fgets(line, sizeof(line), stdin)) {
        if (line[0] == 'Q') break;
        if (line[0] == 'R') {
            if (sscanf(line + 1, "%d %d %d", &runid, &ntasks, &nvars) != 3 || ntasks > MAXTASK || ntasks < 1 ||
                nvars > MAXV || nvars < 1 || arena_next + 64 > ARENA_VARS) { printf("ERR limits\n"); fflush(stdout); return 2; }
            memset(T, 0, sizeof(task_t) * MAXTASK);
            for (int i = 0; i < ntasks; i++) T[i].id = i;
            /* fresh addresses every run; consecutive 8-byte variables: V[0]/V[1] share a stripe (and a table lock), V[2]/V[3] the next */
            V = &arena[arena_next]; arena_next += 16;
            nticket = 0; ndone = 0;
            continue;
        }
        if (line[0] == 'V') {
            int v, full; unsigned long long val;
            if (sscanf(line + 1, "%d %d %llu", &v, &full, &val) != 3 || v < 0 || v >= nvars) { printf("ERR V\n"); fflush(stdout); return 2; }
            if (full) V[v] = SYNCVAR_INITIALIZE_TO(val); else V[v] = SYNCVAR_EMPTY_INITIALIZE_TO(val);
            continue;
        }
        if (line[0] == 'T') {
            int tid, shep, nops;
            if (sscanf(line + 1, "%d %d %d", &tid, &shep, &nops) != 3 || tid < 0 || tid >= ntasks || nops > MAXOPS || nops < 0) { printf("ERR T\n"); fflush(stdout); return 2; }
            T[tid].shep = shep; T[tid].nops = nops;
            if (!read_prog(&T[tid], line, sizeof(line))) { printf("ERR prog\n"); fflush(stdout); return 2; }
            continue;
        }
        if (line[0] == 'G') {
            wd_ticket = -1; wd_rounds = 0;
            alarm(wd_first);                      /* watchdog of this run only (generous: a run takes milliseconds) */
            qthread_empty(&gate);
            qthread_empty(&done_word);
            for (int i = 0; i < ntasks; i++) {
                if (T[i].shep < 0) qthread_fork(task_main, &T[i], NULL);
                else qthread_fork_to(task_main, &T[i], NULL, (qthread_shepherd_id_t)(T[i].shep % qthread_num_shepherds()));
            }
            qthread_fill(&gate);                  /* all tasks wait on the gate: released together */
            qthread_readFF(NULL, &done_word);     /* the main task parks on a FEB word until the last task has returned */
            alarm(0);
            printf("B %d\n", runid);
            print_log();
            for (int v = 0; v < nvars; v++) audit_var(v);
            printf("E ok\n");
            fflush(stdout);
            continue;
        }
        printf("ERR cmd\n"); fflush(stdout); return 2;
    }
    fflush(stdout);
    _exit(0);
}
