/* C05 extension T: white-box interposition for the team-finish tie.  Object-like renames of the calls that teams.c /
 * qthread.c / sincs/donecount.c make (or define) so that every operation on a team sinc, the team structure, the
 * watcher words and the return location is logged (global ticket) before it is forwarded to the real function.
 * Included at the very top of a white-box TU, before `#include "<file>.c"`; the wrappers live in c05_team.c (compiled
 * without these renames).  No edits to /repo. */
#ifndef C05_TEAM_IPOSE_H
#define C05_TEAM_IPOSE_H
#if C05T_TU == 0      /* qthread.c */
# define qt_threadqueue_enqueue  c05t_enq
# define qt_internal_team_new    c05t_team_new
# define qthread_writeEF_const   c05t_retfill
#elif C05T_TU == 1    /* teams.c: the definitions keep their names, the calls out of the TU are renamed */
# define qt_mpool_free           c05t_pool_free
# define qthread_writeEF_const   c05t_signal
# define qthread_readFF          c05t_readFF
# define qthread_empty           c05t_empty
# define qthread_fill            c05t_fill
#elif C05T_TU == 2    /* sincs/donecount.c: the five operations are DEFINED under other names, c05_team.c defines the public ones */
# define qt_sinc_expect          c05t_real_sinc_expect
# define qt_sinc_submit          c05t_real_sinc_submit
# define qt_sinc_wait            c05t_real_sinc_wait
# define qt_sinc_reset           c05t_real_sinc_reset
# define qt_sinc_destroy         c05t_real_sinc_destroy
#else
# error "define C05T_TU (0 qthread.c, 1 teams.c, 2 sincs/donecount.c) before including c05_team_ipose.h"
#endif
#endif
