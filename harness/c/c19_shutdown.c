/* C19 extension U harness: the worker start-up / shutdown protocol of qthread_initialize / qthread_finalize on the REAL
 * runtime, logged as an event sequence that the extracted Lifecycle/Shutdown machine must accept.
 *
 * White-box include of the working tree's qthread.c with macro interposition (no edits to /repo):
 *   QTHREAD_CASLOCK_READ_UI / QT_CAS   reads of shepherd / worker `active` flags, the re-enabling CAS
 *   qt_threadqueue_enqueue             the terminator enqueue (which shepherd's queue, stealable?) and task re-routing
 *   qt_scheduler_get_thread            what a worker got from the scheduler (terminator / ordinary task)
 *   pthread_create / pthread_join      worker thread creation (trampoline logging the thread's exit), the join loop
 * plus one marker function pushed on each of the three cleanup lists (when each stage starts, with the number of worker
 * threads that have not yet returned from qthread_master).  Events are ordered by one global lock (operation + log entry are
 * one critical section for the flag reads / CAS; "enqueue" is logged before, "got" / "join" after the blocking call), the
 * runtime is otherwise free-running.  Consecutive identical "flag reads 0" of one spinning worker are logged once.
 *
 * stdin, one line per incarnation:  C <op> <op> ...   ops: sp (spawn workload, waited), dw<id> ew<id> (qthread_disable_/
 * enable_worker), ds<i> es<i> (disable/enable shepherd), lt<n> / ls<n> (fork n tiny / ~30 us tasks and do NOT wait: finalize
 * finds the workers busy and the queues non-empty), sl<ms> (sleep), fd<us> (the finalizer pauses <us> before each
 * terminator enqueue: widens the window in which workers dequeue ordinary tasks during finalize)
 * cd<id> (a qthread_disable_worker(id) lands right after the finalizer's test of that worker's flag), al<s> (watchdog seconds)
 * stdout:  Y (start-up facts)  I (flags at the entry of finalize)  E <events>  Z (after finalize); TIMEOUT + E on a hang. */
#ifdef HAVE_CONFIG_H
# include "config.h"
#endif
#include <stdio.h>
#include <stdlib.h>
#include <string.h>
#include <stdint.h>
#include <unistd.h>
#include <signal.h>
#include <sched.h>
#include <pthread.h>
#include "qthread/qthread.h"
#include "qt_atomics.h"
#include "qt_threadstate.h"
#include "qt_qthread_struct.h"
#include "qt_shepherd_innards.h"
#include "qthread_innards.h"
#include "qt_threadqueues.h"
#include "qt_threadqueue_scheduler.h"
#include "qt_subsystems.h"

/* ------------------------------------------------------------------------------------------------ event log */
enum { EV_FE = 1, EV_FR, EV_FC, EV_WR, EV_WG, EV_WQ, EV_WX, EV_FJ, EV_FS, EV_FD, EV_Fj, EV_XR, EV_XC, EV_XD };
struct c19s_ev { int kind, a, b, c, d, e; };
#define C19S_MAXEV 20000
static struct c19s_ev c19s_evs[C19S_MAXEV];
static volatile int   c19s_evn, c19s_on, c19s_overflow;
static volatile int   c19s_lockw;
static volatile int   c19s_alive, c19s_created;
static __thread int   c19s_me = -1;              /* -1: not a worker thread (the main thread = the finalizer) */
static __thread int   c19s_last_r0;              /* this worker's previous logged event was "own flag reads 0" */

static void c19s_lock(void) { while (__sync_lock_test_and_set(&c19s_lockw, 1)) sched_yield(); }
static void c19s_unlock(void) { __sync_lock_release(&c19s_lockw); }
static void c19s_log(int kind, int a, int b, int c, int d, int e)
{   /* caller holds the lock */
    if (c19s_evn < C19S_MAXEV) { struct c19s_ev v = { kind, a, b, c, d, e }; c19s_evs[c19s_evn++] = v; } else { c19s_overflow = 1; }
}
/* which flag is this?  1: worker (i,j)   2: shepherd i   0: something else */
static int c19s_ident(void *p, int *i, int *j)
{
    if (qlib == NULL) return 0;
    for (int a = 0; a < (int)qlib->nshepherds; a++) {
        if (p == (void *)&qlib->shepherds[a].active) { *i = a; *j = -1; return 2; }
        qthread_worker_t *w = qlib->shepherds[a].workers;
        if (w && (char *)p >= (char *)w && (char *)p < (char *)(w + qlib->nworkerspershep)) {
            for (int b = 0; b < (int)qlib->nworkerspershep; b++) if (p == (void *)&w[b].active) { *i = a; *j = b; return 1; }
        }
    }
    return 0;
}
static int c19s_shep_of_queue(qt_threadqueue_t *q)
{
    if (qlib) for (int a = 0; a < (int)qlib->nshepherds; a++) if (qlib->shepherds[a].ready == q) return a;
    return -1;
}
static uintptr_t c19s_load(void *p, size_t sz) { return sz == 1 ? (uintptr_t)*(volatile uint8_t *)p : *(volatile uintptr_t *)p; }

static volatile int c19s_cd_target, c19s_alarm_s = 60;
static uintptr_t c19s_read(void *p, size_t sz)
{
    if (!c19s_on) return c19s_load(p, sz);
    int i = -1, j = -1, k;
    c19s_lock();
    uintptr_t v = c19s_load(p, sz);
    if (c19s_on && (k = c19s_ident(p, &i, &j))) {
        if (c19s_me < 0) {
            c19s_log(EV_FR, k, i, j, (int)v, 0);
            if (k == 1 && c19s_cd_target > 0 && c19s_cd_target == j * (int)qlib->nshepherds + i) {
                /* op cd<id>: a qthread_disable_worker(id) of some other thread lands right after the finalizer's test of that flag */
                c19s_log(EV_XD, i * (int)qlib->nworkerspershep + j, 0, 0, 0, 0);
                c19s_cd_target = 0;
                qthread_disable_worker((qthread_worker_id_t)(j * (int)qlib->nshepherds + i));
            }
        }
        else if (k == 1 && c19s_me == i * (int)qlib->nworkerspershep + j) {
            if (!(v == 0 && c19s_last_r0)) c19s_log(EV_WR, i, j, (int)v, 0, 0);
            c19s_last_r0 = (v == 0);
        } else if (k == 1) { c19s_log(EV_XR, c19s_me, i, j, (int)v, 0); }      /* a worker reading ANOTHER worker's flag */
    }
    c19s_unlock();
    return v;
}
static void *c19s_cas(void **p, void *o, void *n, size_t sz)
{
    int i = -1, j = -1, k;
    c19s_lock();
    void *r = (sz == 1) ? (void *)(uintptr_t)__sync_val_compare_and_swap((uint8_t *)p, (uint8_t)(uintptr_t)o, (uint8_t)(uintptr_t)n)
                        : __sync_val_compare_and_swap(p, o, n);
    if (c19s_on && (k = c19s_ident(p, &i, &j))) {
        c19s_log(c19s_me < 0 ? EV_FC : EV_XC, k, i, j, (int)(uintptr_t)o * 2 + (int)(uintptr_t)n, (int)(uintptr_t)r);
    }
    c19s_unlock();
    return r;
}
static volatile int c19s_fin_delay_us;      /* op fd<us>: the finalizer pauses before every terminator enqueue (schedule perturbation) */
static void c19s_enq(qt_threadqueue_t *restrict q, qthread_t *restrict t)
{
    if (c19s_on && c19s_me < 0 && c19s_fin_delay_us > 0 && t->thread_state == QTHREAD_STATE_TERM_SHEP) usleep(c19s_fin_delay_us);
    if (c19s_on) {
        c19s_lock();
        if (c19s_on) {
            int term = t->thread_state == QTHREAD_STATE_TERM_SHEP;
            if (c19s_me < 0) { if (term) c19s_log(EV_FE, c19s_shep_of_queue(q), (t->flags & QTHREAD_UNSTEALABLE) ? 0 : 1, 0, 0, 0); }
            else { c19s_log(EV_WQ, c19s_me, c19s_shep_of_queue(q), term, 0, 0); c19s_last_r0 = 0; }
        }
        c19s_unlock();
    }
    qt_threadqueue_enqueue(q, t);
}
static qthread_t *c19s_get(qt_threadqueue_t *q, qt_threadqueue_private_t *qc, uint_fast8_t active)
{
    qthread_t *t = qt_scheduler_get_thread(q, qc, active);
    if (c19s_on && c19s_me >= 0) {
        c19s_lock();
        if (c19s_on) { c19s_log(EV_WG, c19s_me, t->thread_state == QTHREAD_STATE_TERM_SHEP, (int)active, 0, 0); c19s_last_r0 = 0; }
        c19s_unlock();
    }
    return t;
}
struct c19s_tramp { void *(*f)(void *); void *arg; int me; };
static __thread int c19s_exited;
static void c19s_mark_exit(void)
{   /* the worker thread leaves qthread_master (pthread_exit at its end, or a plain return) */
    if (c19s_me < 0 || c19s_exited) return;
    c19s_exited = 1;
    c19s_lock();
    c19s_alive--;
    if (c19s_on) c19s_log(EV_WX, c19s_me, 0, 0, 0, 0);
    c19s_unlock();
}
static void c19s_exit(void *r) { c19s_mark_exit(); pthread_exit(r); }
static void *c19s_thread(void *a)
{
    struct c19s_tramp t = *(struct c19s_tramp *)a;
    free(a);
    c19s_me = t.me;
    void *r = t.f(t.arg);
    c19s_mark_exit();
    return r;
}
static int c19s_create(pthread_t *th, const pthread_attr_t *attr, void *(*f)(void *), void *arg)
{
    struct c19s_tramp *t = malloc(sizeof *t);
    qthread_worker_t *w = arg;
    int i = (int)(w->shepherd - qlib->shepherds), j = (int)(w - w->shepherd->workers);
    t->f = f; t->arg = arg; t->me = i * (int)qlib->nworkerspershep + j;
    c19s_lock(); c19s_alive++; c19s_created++; c19s_unlock();
    return pthread_create(th, attr, c19s_thread, t);
}
static int c19s_join(pthread_t th, void **ret)
{
    int me = -1;
    if (qlib) for (int a = 0; a < (int)qlib->nshepherds; a++) for (int b = 0; b < (int)qlib->nworkerspershep; b++)
        if ((a || b) && pthread_equal(qlib->shepherds[a].workers[b].worker, th)) me = a * (int)qlib->nworkerspershep + b;
    c19s_lock(); if (c19s_on) c19s_log(EV_Fj, me, 0, 0, 0, 0); c19s_unlock();
    int r = pthread_join(th, ret);
    c19s_lock(); if (c19s_on) c19s_log(EV_FJ, me, r, 0, 0, 0); c19s_unlock();
    return r;
}
static void c19s_stage(int st) { c19s_lock(); if (c19s_on) c19s_log(EV_FS, st, c19s_alive, 0, 0, 0); c19s_unlock(); }
static void c19s_stage_early(void) { c19s_stage(0); }
static void c19s_stage_normal(void) { c19s_stage(1); }
static void c19s_stage_late(void) { c19s_stage(2); }

#undef QTHREAD_CASLOCK_READ_UI
#define QTHREAD_CASLOCK_READ_UI(var) c19s_read((void *)&(var), sizeof(var))
#undef QT_CAS
#define QT_CAS(var, o, n) c19s_cas((void **)&(var), (void *)(uintptr_t)(o), (void *)(uintptr_t)(n), sizeof(var))
#define qt_threadqueue_enqueue  c19s_enq
#define qt_scheduler_get_thread c19s_get
#define pthread_create          c19s_create
#define pthread_join            c19s_join
#define pthread_exit            c19s_exit
#include "qthread.c"
#undef pthread_exit
#undef qt_threadqueue_enqueue
#undef qt_scheduler_get_thread
#undef pthread_create
#undef pthread_join

/* ------------------------------------------------------------------------------------------------ driver */
static void dump_events(void)
{
    static const char *nm[] = { "?", "FE", "FR", "FC", "WR", "WG", "WQ", "WX", "FJ", "FS", "FD", "Fj", "XR", "XC", "XD" };
    int n = c19s_evn;
    printf("E n=%d overflow=%d ev=", n, c19s_overflow);
    for (int i = 0; i < n; i++) {
        struct c19s_ev *e = &c19s_evs[i];
        printf("%s,%d,%d,%d,%d,%d;", nm[e->kind], e->a, e->b, e->c, e->d, e->e);
    }
    printf("\n");
}
static const char *phase = "start";
static void on_alarm(int s)
{
    c19s_on = 0;
    printf("TIMEOUT in %s alive=%d\n", phase, c19s_alive);
    dump_events();
    fflush(stdout);
    _exit(3);
}
static aligned_t counter;
static aligned_t t_incr(void *a) { qthread_incr(&counter, (aligned_t)(uintptr_t)a); return (aligned_t)(uintptr_t)a + 1; }
static int wl_spawn(void)
{
    enum { N = 40 }; aligned_t rets[N]; aligned_t sum = 0;
    counter = 0;
    for (long i = 0; i < N; i++) qthread_fork(t_incr, (void *)(i + 1), &rets[i]);
    for (long i = 0; i < N; i++) { aligned_t v; qthread_readFF(&v, &rets[i]); if (v != (aligned_t)i + 2) return 0; sum += i + 1; }
    return counter == sum;
}
static aligned_t lt_count;
static aligned_t t_tiny(void *a) { qthread_incr(&lt_count, 1); return 0; }
static aligned_t t_slow(void *a) { for (volatile int i = 0; i < 30000; i++) ; qthread_incr(&lt_count, 1); return 0; }

int main(void)
{
    static char line[4096];
    int cyc = 0;
    signal(SIGALRM, on_alarm);
    while (fgets(line, sizeof line, stdin)) {
        char *save, *tok = strtok_r(line, " \n", &save);
        if (!tok || strcmp(tok, "C")) continue;
        cyc++;
        alarm(c19s_alarm_s);
        phase = "initialize";
        c19s_created = 0; c19s_evn = 0; c19s_overflow = 0; c19s_fin_delay_us = 0; c19s_cd_target = 0; c19s_alarm_s = 60;
        if (qthread_initialize() != QTHREAD_SUCCESS) { printf("ERR initialize\n"); return 2; }
        int S = (int)qlib->nshepherds, W = (int)qlib->nworkerspershep;
        printf("Y cycle=%d S=%d W=%d created=%d nw=%d ns=%d flags=", cyc, S, W, c19s_created, (int)qthread_num_workers(), (int)qthread_num_shepherds());
        for (int i = 0; i < S; i++) for (int j = 0; j < W; j++) if (i || j) printf("%d", (int)qlib->shepherds[i].workers[j].active);
        printf("\n");
        int ok = 1, lt = 0;
        phase = "ops";
        while ((tok = strtok_r(NULL, " \n", &save))) {
            int v = atoi(tok + 2);
            if (!strcmp(tok, "sp")) { if (!wl_spawn()) ok = 0; }
            else if (!strncmp(tok, "dw", 2)) qthread_disable_worker((qthread_worker_id_t)v);
            else if (!strncmp(tok, "ew", 2)) qthread_enable_worker((qthread_worker_id_t)v);
            else if (!strncmp(tok, "ds", 2)) qthread_disable_shepherd((qthread_shepherd_id_t)v);
            else if (!strncmp(tok, "es", 2)) qthread_enable_shepherd((qthread_shepherd_id_t)v);
            else if (!strncmp(tok, "sl", 2)) usleep(1000 * v);
            else if (!strncmp(tok, "fd", 2)) c19s_fin_delay_us = v;
            else if (!strncmp(tok, "cd", 2)) c19s_cd_target = v;
            else if (!strncmp(tok, "al", 2)) { c19s_alarm_s = v; alarm(v); }
            else if (!strncmp(tok, "lt", 2)) { lt_count = 0; lt = v; for (int i = 0; i < v; i++) qthread_fork(t_tiny, NULL, NULL); }
            else if (!strncmp(tok, "ls", 2)) { lt_count = 0; lt = v; for (int i = 0; i < v; i++) qthread_fork(t_slow, NULL, NULL); }
        }
        phase = "finalize";
        qthread_internal_cleanup_early(c19s_stage_early);
        qthread_internal_cleanup(c19s_stage_normal);
        qthread_internal_cleanup_late(c19s_stage_late);
        c19s_lock();
        printf("I cycle=%d ok=%d sact=", cyc, ok);
        for (int i = 0; i < S; i++) printf("%d", (int)qlib->shepherds[i].active);
        printf(" wact=");
        for (int i = 0; i < S; i++) for (int j = 0; j < W; j++) if (i || j) printf("%d", (int)qlib->shepherds[i].workers[j].active);
        printf(" qlen=");
        for (int i = 0; i < S; i++) printf("%ld,", (long)qt_threadqueue_advisory_queuelen(qlib->shepherds[i].ready));
        printf(" alive=%d\n", c19s_alive);
        fflush(stdout);
        c19s_on = 1;
        c19s_unlock();
        qthread_finalize();
        c19s_lock(); c19s_log(EV_FD, qlib == NULL, c19s_alive, 0, 0, 0); c19s_on = 0; c19s_unlock();
        alarm(0);
        dump_events();
        printf("Z cycle=%d alive=%d qlib_null=%d lt=%d lt_ran=%d\n", cyc, c19s_alive, qlib == NULL, lt, (int)lt_count);
        fflush(stdout);
    }
    printf("END\n");
    return 0;
}
