/* gen_hash.c -- M1 harness of the regeneration tie (lib/verif/props/_gen.py): qt_hash64 (src/ds/dictionary/hash.c) and the
 * size arithmetic of src/hashmap.c (encompassing_power_of_two, qt_hash_internal_create: num_entries, mask), white-box.
 *   H key                    -> h <qt_hash64(key)>
 *   P k                      -> p <encompassing_power_of_two(k)>
 *   C entries pagesize bs    -> c <num_entries> <mask>     (bucket size bs: bucketmask = bs - 1)
 */
#include <stdio.h>
#include <stdlib.h>
#include <string.h>
#include <stdint.h>
#include "hashmap.c"

int main(void)
{
    char line[256];

    linesize = 64;
    while (fgets(line, sizeof line, stdin)) {
        unsigned long a = 0, b = 0, c = 0;
        if (line[0] == 'H' && sscanf(line + 1, "%lu", &a) == 1) {
            printf("h %lu\n", (unsigned long)qt_hash64(a));
        } else if (line[0] == 'P' && sscanf(line + 1, "%lu", &a) == 1) {
            printf("p %lu\n", (unsigned long)encompassing_power_of_two(a));
        } else if (line[0] == 'C' && sscanf(line + 1, "%lu %lu %lu", &a, &b, &c) == 3) {
            struct qt_hash_s t;
            memset(&t, 0, sizeof t);
            _pagesize = b; bucketsize = (uint_fast8_t)c; bucketmask = c - 1;
            qt_hash_internal_create(&t, a);
            printf("c %lu %lu\n", (unsigned long)t.num_entries, (unsigned long)t.mask);
            if (t.entries) { qt_internal_aligned_free(t.entries, linesize); }
        } else if (line[0] == 'Q') {
            break;
        }
        fflush(stdout);
    }
    return 0;
}
