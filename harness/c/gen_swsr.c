/* gen_swsr.c -- M1 harness of the regeneration tie (lib/verif/props/_gen.py): qswsrqueue_create's size rounding and the
 * index arithmetic of enqueue / dequeue of the working tree's src/ds/qswsrqueue.c (white-box include), single-threaded.
 * Only used when Gen/Tie_Swsr.v no longer checks.
 *   C elements        -> c <q->size | NULL>
 *   X elements n k    -> x <size> then, after n enqueues and k dequeues on a fresh queue: <tail> <head> <empty> <last enqueue failed>
 */
#include <stdio.h>
#include <stdlib.h>
#include <string.h>
#include <stdint.h>
#include "ds/qswsrqueue.c"

int main(void)
{
    char line[256];

    while (fgets(line, sizeof line, stdin)) {
        unsigned long e = 0, n = 0, k = 0;
        if (line[0] == 'C' && sscanf(line + 1, "%lu", &e) == 1) {
            if (e > (1UL << 22) && e <= 0xffffffffUL) { printf("c skipped\n"); } else {
                qswsrqueue_t *q = qswsrqueue_create(e);
                if (q == NULL) { printf("c NULL\n"); } else { printf("c %u\n", (unsigned)q->size); qswsrqueue_destroy(q); }
            }
        } else if (line[0] == 'X' && sscanf(line + 1, "%lu %lu %lu", &e, &n, &k) == 3) {
            qswsrqueue_t *q = qswsrqueue_create(e);
            int           rc = 0;
            for (unsigned long i = 0; i < n; i++) { rc = (i & 1) ? qswsrqueue_enqueue(q, (void *)(i + 1)) : qswsrqueue_enqueue(q, (void *)(i + 1)); }
            for (unsigned long i = 0; i < k; i++) { (void)qswsrqueue_dequeue(q); }
            printf("x %u %u %u %d %d\n", (unsigned)q->size, (unsigned)q->tail, (unsigned)q->head, qswsrqueue_empty(q), rc != 0);
            qswsrqueue_destroy(q);
        } else if (line[0] == 'Q') {
            break;
        }
        fflush(stdout);
    }
    return 0;
}
