/* C16 harness: drives the real dictionary code (white-box include of the working-tree dictionary_shavit.c).
 * stdin: one command per line; stdout: one result line per command (see lib/verif/props/c16.py).
 * Schedule points (used only by the concurrent search, command G): the CAS macros are interposed and the user
 * callbacks (hash, equals) are schedule points too. */
#include <qthread/qthread.h>
#include <stdio.h>
#include <string.h>
#include <unistd.h>
#include <signal.h>
#include <sched.h>

static void c16_sp(int kind);
/* extension J (MicroFull): the function a CAS sits in, and the pool calls of the dictionary, are recorded */
static const char *volatile c16_fn = "";
struct qt_mpool_s;
static void *jx_alloc(struct qt_mpool_s *pool);
static void  jx_free(struct qt_mpool_s *pool, void *mem);
#undef qthread_cas
#undef qthread_cas_ptr
#define qthread_cas(ADDR, OLDV, NEWV)     (c16_fn = __func__, c16_sp(1), __sync_val_compare_and_swap((ADDR), (OLDV), (NEWV)))
#define qthread_cas_ptr(ADDR, OLDV, NEWV) (c16_fn = __func__, c16_sp(2), (void *)__sync_val_compare_and_swap((ADDR), (OLDV), (NEWV)))
#include <qthread/qpool.h>
#define qpool_alloc(P)   jx_alloc(P)
#define qpool_free(P, M) jx_free((P), (M))

#include "ds/dictionary/dictionary_shavit.c"
#undef qpool_alloc
#undef qpool_free
#include <qthread/hash.h>

/* ---------------- schedule points ---------------- */
static volatile int      sp_on   = 0;   /* only while a concurrent run is in progress */
static int               sp_prob = 0;   /* /256 */
static int               sp_spin = 0;   /* also spin/sched_yield (multi-worker configurations) */
static uint64_t          sp_seed = 0;
static volatile uint64_t sp_ctr  = 0;
static volatile uint64_t sp_taken = 0;

static inline uint64_t mix64(uint64_t z)
{
    z += 0x9E3779B97F4A7C15ULL;
    z  = (z ^ (z >> 30)) * 0xBF58476D1CE4E5B9ULL;
    z  = (z ^ (z >> 27)) * 0x94D049BB133111EBULL;
    return z ^ (z >> 31);
}

/* schedule log (meaningful on 1 shepherd x 1 worker only: tasks switch only at schedule points):
 * one entry per ARRIVAL of a task at a schedule point, in execution order */
#define MAXLOG (1 << 16)
static volatile int      cur_t = -1;
static unsigned char     splog_t[MAXLOG], splog_k[MAXLOG];
static volatile uint64_t splog_n = 0;
static inline void sp_log(int t, int kind)
{
    uint64_t i = __sync_fetch_and_add(&splog_n, 1);
    if (i < MAXLOG) { splog_t[i] = (unsigned char)t; splog_k[i] = (unsigned char)kind; }
}

static int  jx_on = 0;
static void jx_arrive(int me, int kind);

static void c16_sp(int kind)
{
    if (!sp_on) { return; }
    int me = cur_t;
    sp_log(me, kind);
    if (jx_on) { jx_arrive(me, kind); return; }
    uint64_t c = __sync_fetch_and_add(&sp_ctr, 1);
    uint64_t r = mix64(sp_seed + c * 0x100000001B3ULL);
    if ((int)(r & 255) < sp_prob) {
        __sync_fetch_and_add(&sp_taken, 1);
        if (sp_spin && ((r >> 8) & 3) == 0) {
            sched_yield();
        } else if (sp_spin && ((r >> 8) & 3) == 1) {
            for (volatile unsigned i = 0; i < ((r >> 12) & 1023); i++) ;
        } else {
            qthread_yield();
            cur_t = me;
        }
    }
}

/* ---------------- user operators ---------------- */
#define MAXTAB 8192
static int  hkind = 0;
static int  htab[MAXTAB];

static int my_hash(void *key)
{
    uintptr_t k = (uintptr_t)key;
    c16_sp(3);
    switch (hkind) {
        case 0: return (int)k;
        case 1: return 5;
        case 2: return (int)(k & 3);
        case 3: return -(int)k;
        case 4: return (int)((uint32_t)k * 2654435761u);
        case 5: return (int)qt_hash64((uint64_t)k);
        case 6: return htab[k % MAXTAB];
        case 7: return (int)((uint32_t)k << 20);
        case 8: return (int)(0x80000000u | (uint32_t)k);
        default: return (int)(k % 7);
    }
}

static int my_equals(void *a, void *b)
{
    c16_sp(4);
    return a == b;
}

static qt_dictionary *D = NULL;
static size_t         default_cap = 0;
qt_dictionary *jx_D(void) { return D; }

static void on_alarm(int s) { printf("TIMEOUT\n"); fflush(stdout); _exit(3); }

#define FNV_INIT 14695981039346656037ULL
static inline uint64_t fnv(uint64_t h, uint64_t x)
{
    for (int i = 0; i < 8; i++) { h ^= (x >> (8 * i)) & 0xff; h *= 1099511628211ULL; }
    return h;
}

static void dump(int full)
{
    size_t       n = 0, nb = 0;
    uint64_t     h = FNV_INIT, hb = FNV_INIT;
    marked_ptr_t c = D->B[0];
    if (full) { printf("D %zu %zu |", D->size, D->count); }
    while (PTR_OF(c) != NULL) {
        hash_entry *e = PTR_OF(c);
        if (full) { printf(" %llu:%lu:%lu%s", (unsigned long long)e->hashed_key, (unsigned long)(uintptr_t)e->key, (unsigned long)(uintptr_t)e->value, MARK_OF((marked_ptr_t)e->next) ? "!" : ""); }
        h = fnv(fnv(fnv(h, e->hashed_key), (uintptr_t)e->key), (uintptr_t)e->value);
        n++;
        c = (marked_ptr_t)e->next;
        if (n > 50000000) { break; }
    }
    if (full) { printf(" | B"); }
    for (size_t b = 0; b < hard_max_buckets; b++) {
        if (D->B[b] != UNINITIALIZED) {
            nb++;
            hb = fnv(hb, b);
            hb = fnv(hb, PTR_OF(D->B[b])->hashed_key);   /* the node the slot points at */
            if (full) { printf(" %zu", b); }
        }
    }
    if (full) { printf("\n"); } else { printf("d %zu %zu %zu %llu %zu %llu\n", D->size, D->count, n, (unsigned long long)h, nb, (unsigned long long)hb); }
}

static void iterate(void)
{
    qt_dictionary_iterator *it  = qt_dictionary_iterator_create(D);
    qt_dictionary_iterator *end = qt_dictionary_end(D);
    list_entry             *g0  = qt_dictionary_iterator_get(it);
    int                     ok_get = 1;
    size_t                  n = 0;
    printf("I %d %lu |", qt_dictionary_iterator_equals(it, end), g0 ? (unsigned long)(uintptr_t)g0->key : 0UL);
    for (;;) {
        list_entry *e = qt_dictionary_iterator_next(it);
        if ((e == NULL) || (e == ERROR)) { break; }
        if (qt_dictionary_iterator_get(it) != e) { ok_get = 0; }
        printf(" %lu:%lu", (unsigned long)(uintptr_t)e->key, (unsigned long)(uintptr_t)e->value);
        if (++n > 50000000) { break; }
    }
    qt_dictionary_iterator *cp = qt_dictionary_iterator_copy(it);
    list_entry             *g1 = qt_dictionary_iterator_get(it);
    list_entry             *e2 = qt_dictionary_iterator_next(it); /* stays at the end */
    printf(" | %d %d %d %d %d\n", qt_dictionary_iterator_equals(it, end), qt_dictionary_iterator_equals(cp, end), g1 == NULL, e2 == NULL, ok_get);
    qt_dictionary_iterator_destroy(it);
    qt_dictionary_iterator_destroy(end);
    qt_dictionary_iterator_destroy(cp);
}

/* ---------------- concurrent histories ---------------- */
#define MAXT   16
#define MAXOPS 4096
typedef struct { char op; unsigned long k, v, ret; uint64_t inv, res; } cop_t;
static cop_t             tops[MAXT][MAXOPS];
static int               ntops[MAXT];
static volatile uint64_t stamp = 0;
static volatile int      go    = 0;
static aligned_t         trets[MAXT];

/* ---------------- extension J: directed schedules, state snapshots at every schedule point ---------------- */
#define JX_PBASE 1152921504606846976ULL
#define JX_MAXN  4096
#define JX_MAXS  8192
static void    *jx_node[JX_MAXN];   /* ordinal -> address */
static int      jx_nn = 0;
static void    *jx_head = NULL;     /* mirror of the worker's free-list head (tc->cache of qt_mpool): set by every free, advanced by every alloc
                                     * that returns it, reading the same word (first word of the node) the pool reads */
static int      jx_poolbad = 0;
static int      jx_sched[JX_MAXS];
static int      jx_ns = 0;
static volatile int jx_g = 0;
static volatile int jx_done[16];
static char     jx_buf[1 << 22];
static size_t   jx_len = 0;

static int jx_ord(void *p)
{
    for (int i = 0; i < jx_nn; i++) if (jx_node[i] == p) { return i; }
    return -1;
}
static int jx_ord_add(void *p)
{
    int o = jx_ord(p);
    if (o < 0 && jx_nn < JX_MAXN) { o = jx_nn; jx_node[jx_nn++] = p; }
    return o;
}
static unsigned long long jx_canon(uintptr_t w)
{
    int o = w ? jx_ord((void *)w) : -1;
    return (o >= 0) ? (JX_PBASE + (unsigned long long)o) : (unsigned long long)w;
}
static void *jx_alloc(struct qt_mpool_s *pool)
{
    void *nxt = jx_head ? *(void **)jx_head : NULL;   /* cache->next, before the pool hands the node out */
    void *p   = (qpool_alloc)(pool);
    if (jx_head != NULL) {
        if (jx_head == p) { jx_head = nxt; } else { jx_poolbad++; }
    }
    if (jx_on) { jx_ord_add(p); }
    return p;
}
static void jx_free(struct qt_mpool_s *pool, void *mem)
{
    (qpool_free)(pool, mem);
    jx_head = mem;
}
#define JX_P(...) do { if (jx_len + 512 < sizeof jx_buf) { jx_len += (size_t)snprintf(jx_buf + jx_len, 512, __VA_ARGS__); } } while (0)
/* " | ord:so:key:val:mark ... | ord:so:key:val:next:mark ..." : the list from B[0] (at most 64 nodes), then the pool's free
 * list read from the nodes' own memory (first word = next free node), starting at the node freed last */
static void jx_snap(void)
{
    extern qt_dictionary *jx_D(void);
    qt_dictionary *d = jx_D();
    marked_ptr_t   c = d->B[0];
    int            n = 0;
    JX_P(" |");
    while (PTR_OF(c) != NULL && n < 64) {
        hash_entry *e = PTR_OF(c);
        JX_P(" %d:%llu:%llu:%llu:%d", jx_ord(e), (unsigned long long)e->hashed_key, jx_canon((uintptr_t)e->key), jx_canon((uintptr_t)e->value), (int)MARK_OF((marked_ptr_t)e->next));
        c = (marked_ptr_t)e->next;
        n++;
    }
    JX_P(" |");
    void *f = jx_head;
    n = 0;
    while (f != NULL && n < 64) {
        hash_entry *e = (hash_entry *)f;
        int         o = jx_ord(e);
        if (o < 0) { JX_P(" ?"); break; }
        JX_P(" %d:%llu:%llu:%llu:%d:%d", o, (unsigned long long)e->hashed_key, jx_canon((uintptr_t)e->key), jx_canon((uintptr_t)e->value),
             PTR_OF((marked_ptr_t)e->next) ? jx_ord(PTR_OF((marked_ptr_t)e->next)) : -1, (int)MARK_OF((marked_ptr_t)e->next));
        f = e->value;                /* qt_mpool_cache_t.next lives in the first word */
        n++;
    }
    if (jx_poolbad) { JX_P(" POOL-NOT-LIFO"); }
    JX_P("\n");
}
static void jx_wait(int me)
{
    for (;;) {
        while (jx_g < jx_ns && (jx_sched[jx_g] < 0 || jx_sched[jx_g] >= 16 || jx_done[jx_sched[jx_g]])) { jx_g++; } /* grants of finished tasks are void */
        if (jx_g >= jx_ns || jx_sched[jx_g] == me) { return; }
        qthread_yield();
    }
}
static void jx_arrive(int me, int kind)
{
    int k = kind;
    if (kind == 1) {
        const char *f = c16_fn;
        k = !strcmp(f, "qt_lf_list_insert") ? 11 : !strcmp(f, "qt_lf_force_list_insert") ? 12 : !strcmp(f, "qt_lf_list_find") ? 13 : !strcmp(f, "qt_lf_list_delete") ? 14 : 19;
    }
    JX_P("A %d %d", me, k);
    jx_snap();
    jx_g++;
    if (kind == 9) { jx_done[me] = 1; return; }
    jx_wait(me);
    cur_t = me;
}

static aligned_t task_body(void *arg)
{
    int t = (int)(intptr_t)arg;
    while (!go) { qthread_yield(); }
    if (jx_on) { jx_wait(t); }
    cur_t = t;
    for (int i = 0; i < ntops[t]; i++) {
        cop_t *o = &tops[t][i];
        void  *r = NULL;
        o->inv = __sync_fetch_and_add(&stamp, 1);
        switch (o->op) {
            case 'p': r = qt_dictionary_put(D, (void *)o->k, (void *)o->v); break;
            case 'a': r = qt_dictionary_put_if_absent(D, (void *)o->k, (void *)o->v); break;
            case 'g': r = qt_dictionary_get(D, (void *)o->k); break;
            case 'x': r = qt_dictionary_delete(D, (void *)o->k); break;
        }
        o->ret = (unsigned long)(uintptr_t)r;
        o->res = __sync_fetch_and_add(&stamp, 1);
    }
    sp_log(t, 9);
    if (jx_on) { jx_arrive(t, 9); }
    return 0;
}

int main(void)
{
    static char line[1 << 20];
    signal(SIGALRM, on_alarm);
    if (qthread_initialize() != 0) { printf("INITFAIL\n"); return 2; }
    default_cap = hard_max_buckets;
    printf("H %u %u %zu\n", (unsigned)qthread_num_shepherds(), (unsigned)qthread_num_workers(), (size_t)hard_max_buckets);
    fflush(stdout);
    while (fgets(line, sizeof line, stdin)) {
        alarm(60);
        if (line[0] == 'T') {              /* T k h k h ... : table-driven hash */
            char *p = line + 1;
            for (;;) { char *e; unsigned long k = strtoul(p, &e, 10); if (e == p) break; p = e; long h = strtol(p, &e, 10); p = e; htab[k % MAXTAB] = (int)h; }
            printf("T\n");
        } else if (line[0] == 'N') {       /* N cap hashkind */
            size_t cap; int k;
            sscanf(line + 1, "%zu %d", &cap, &k);
            if (D) { qt_dictionary_destroy(D); D = NULL; }
            hard_max_buckets = cap ? cap : default_cap;
            hkind = k;
            D = qt_dictionary_create(my_equals, my_hash, NULL);
            printf("N %zu %zu %zu\n", D->size, D->count, (size_t)hard_max_buckets);
        } else if (line[0] == 'h') {       /* hash values as the dictionary sees them */
            char *p = line + 1; printf("h");
            for (;;) { char *e; unsigned long k = strtoul(p, &e, 10); if (e == p) break; p = e; printf(" %llu", (unsigned long long)(uint64_t)(uintptr_t)my_hash((void *)k)); }
            printf("\n");
        } else if (line[0] == 'p' || line[0] == 'a') {
            unsigned long k, v;
            sscanf(line + 1, "%lu %lu", &k, &v);
            void *r = (line[0] == 'p') ? qt_dictionary_put(D, (void *)k, (void *)v) : qt_dictionary_put_if_absent(D, (void *)k, (void *)v);
            printf("%c %lu %zu %zu\n", line[0], (unsigned long)(uintptr_t)r, D->size, D->count);
        } else if (line[0] == 'g') {
            unsigned long k;
            sscanf(line + 1, "%lu", &k);
            printf("g %lu\n", (unsigned long)(uintptr_t)qt_dictionary_get(D, (void *)k));
        } else if (line[0] == 'x') {
            unsigned long k;
            sscanf(line + 1, "%lu", &k);
            void *r = qt_dictionary_delete(D, (void *)k);
            printf("x %lu %zu %zu\n", (unsigned long)(uintptr_t)r, D->size, D->count);
        } else if (line[0] == 'R') {       /* R n op k v kstep : n times op(k + i*kstep, v + i) */
            unsigned long n, k, v, ks; char op; void *r = NULL;
            sscanf(line + 1, "%lu %c %lu %lu %lu", &n, &op, &k, &v, &ks);
            for (unsigned long i = 0; i < n; i++) {
                r = (op == 'p') ? qt_dictionary_put(D, (void *)(k + i * ks), (void *)(v + i)) : qt_dictionary_put_if_absent(D, (void *)(k + i * ks), (void *)(v + i));
            }
            printf("R %lu %zu %zu\n", (unsigned long)(uintptr_t)r, D->size, D->count);
        } else if (line[0] == 'D') {
            dump(1);
        } else if (line[0] == 'd') {
            dump(0);
        } else if (line[0] == 'I') {
            iterate();
        } else if (line[0] == 'Z') {       /* Z x ... : qt_hash64 */
            char *p = line + 1; printf("Z");
            for (;;) { char *e; unsigned long long k = strtoull(p, &e, 10); if (e == p) break; p = e; printf(" %llu", (unsigned long long)qt_hash64(k)); }
            printf("\n");
        } else if (line[0] == 'c') {       /* c : clear the concurrent op lists */
            memset(ntops, 0, sizeof ntops); printf("c\n");
        } else if (line[0] == 't') {       /* t task op k v */
            int t; char op; unsigned long k, v;
            sscanf(line + 1, "%d %c %lu %lu", &t, &op, &k, &v);
            if (t >= 0 && t < MAXT && ntops[t] < MAXOPS) { cop_t *o = &tops[t][ntops[t]++]; o->op = op; o->k = k; o->v = v; }
            printf("t\n");
        } else if (line[0] == 'G') {       /* G prob spin seed : run the op lists concurrently */
            unsigned long long sd; int nt = 0;
            sscanf(line + 1, "%d %d %llu", &sp_prob, &sp_spin, &sd);
            sp_seed = sd; sp_ctr = 0; sp_taken = 0; stamp = 0; go = 0; splog_n = 0; cur_t = -1;
            alarm(60);
            for (int t = 0; t < MAXT; t++) if (ntops[t]) { nt = t + 1; }
            for (int t = 0; t < nt; t++) { qthread_fork(task_body, (void *)(intptr_t)t, &trets[t]); }
            sp_on = 1; go = 1;
            for (int t = 0; t < nt; t++) { qthread_readFF(NULL, &trets[t]); }
            sp_on = 0;
            for (int t = 0; t < nt; t++) {
                for (int i = 0; i < ntops[t]; i++) {
                    cop_t *o = &tops[t][i];
                    printf("E %d %d %c %lu %lu %lu %llu %llu\n", t, i, o->op, o->k, o->v, o->ret, (unsigned long long)o->inv, (unsigned long long)o->res);
                }
            }
            if (!sp_spin) {
                printf("S");
                for (uint64_t i = 0; i < splog_n && i < MAXLOG; i++) { printf(" %d:%d", (int)splog_t[i], (int)splog_k[i]); }
                printf("\n");
            }
            printf("G %llu %llu\n", (unsigned long long)sp_ctr, (unsigned long long)sp_taken);
        } else if (line[0] == 'J') {       /* J nt g g g ... : run the op lists of tasks 0..nt-1 under the directed schedule of grants (extension J) */
            int nt = 0; char *p = line + 1, *e;
            nt = (int)strtol(p, &e, 10); p = e;
            jx_ns = 0;
            for (;;) { long g = strtol(p, &e, 10); if (e == p) break; p = e; if (jx_ns < JX_MAXS) { jx_sched[jx_ns++] = (int)g; } }
            if (nt > 16) { nt = 16; }
            jx_nn = 0; jx_len = 0; jx_g = 0; jx_poolbad = 0;
            memset((void *)jx_done, 0, sizeof jx_done);
            for (int t = nt; t < 16; t++) { jx_done[t] = 1; }
            {   /* ordinals: the list in list order, then the free list from the node freed last */
                marked_ptr_t c = D->B[0]; int n = 0;
                while (PTR_OF(c) != NULL && n++ < 1000) { jx_ord_add(PTR_OF(c)); c = (marked_ptr_t)PTR_OF(c)->next; }
                void *f = jx_head; n = 0;
                while (f != NULL && n++ < 1000 && jx_ord(f) < 0) { jx_ord_add(f); f = *(void **)f; }
            }
            sp_prob = 0; sp_spin = 0; sp_ctr = 0; sp_taken = 0; stamp = 0; go = 0; splog_n = 0; cur_t = -1;
            JX_P("J0");
            jx_snap();
            alarm(30);
            for (int t = 0; t < nt; t++) { qthread_fork(task_body, (void *)(intptr_t)t, &trets[t]); }
            jx_on = 1; sp_on = 1; go = 1;
            for (int t = 0; t < nt; t++) { qthread_readFF(NULL, &trets[t]); }
            sp_on = 0; jx_on = 0;
            fputs(jx_buf, stdout);
            for (int t = 0; t < nt; t++) {
                for (int i = 0; i < ntops[t]; i++) {
                    cop_t *o = &tops[t][i];
                    printf("E %d %d %c %lu %lu %llu %llu %llu\n", t, i, o->op, o->k, o->v, jx_canon((uintptr_t)o->ret), (unsigned long long)o->inv, (unsigned long long)o->res);
                }
            }
            jx_len = 0; JX_P("J9"); jx_snap(); fputs(jx_buf, stdout);
        } else if (line[0] == 'Q') {
            break;
        } else {
            printf("ERR\n");
        }
        alarm(0);
        fflush(stdout);
    }
    fflush(stdout);
    return 0;
}
