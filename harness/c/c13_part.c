/* C13 extension F: the REAL partition threads of one parallel partition pass, scheduled step by step.
 * White-box include of the working tree's src/qutil.c and src/qloop.c (no edit of /repo).  Interposed by macro:
 *   qthread_cacheline()   -> the yield point of the array phase: MT_CHUNKSIZE = qthread_cacheline()/sizeof(double) is
 *                            evaluated once per wall step of qutil_qsort_partition / qutil_aligned_qsort_partition; it also
 *                            sets the chunk size (cs * 8)
 *   MT_LOOP_CHUNK         -> a variable (the number of partition threads of the qutil flavours is ceil(length/MT_LOOP_CHUNK))
 *   qthread_num_shepherds -> the number of partition threads of qt_qsort_inner_partitioner
 *   qthread_fork / qthread_fork_syncvar, qthread_readFF / qthread_syncvar_readFF
 *                         -> each forked partition thread is a pthread under a baton; the parent's wait drives the schedule
 *   qthread_cas           -> yield point before every CAS of the wall merge of qutil.c
 *   qthread_lock / qthread_unlock -> yield points (try-loop under the baton) of the wall merge of qloop.c
 * A schedule entry names a thread; it runs up to its next yield point.  After every unit the controller prints a hash of the
 * whole allocation (array + guard elements) and the two wall words.  The extracted machine (ocaml/bin/c13part_driver)
 * executes the same schedule; the lines must be identical.
 *
 *   pass <flav q|a|t> <cs> <nt> <B> <LEN> <bound> <pivot> <nvals> v.. <nsched> s..
 *   solo <flav> <cs> <nt> <B> <LEN> <bound> <pivot> <nvals> v..
 * solo: every thread's function is called directly, alone, on (1) a copy of the array, (2)+(3) copies in which everything
 * outside the thread's slice {j : ((j-B)/cs) mod nt == t} is replaced by a small / a huge value: the thread must behave in
 * the same way on its slice and must not write outside it. */
#ifndef _GNU_SOURCE
# define _GNU_SOURCE
#endif
#include "config.h"
#include <stdio.h>
#include <stdlib.h>
#include <string.h>
#include <unistd.h>
#include <signal.h>
#include <pthread.h>
#include <semaphore.h>
#include "qthread/qthread.h"
#include "qthread/cacheline.h"
#include "qthread/qutil.h"
#include "qthread/qloop.h"

#define MAXT 64
static __thread int c13p_tid = -1;         /* partition thread number of this pthread; -1: the parent */
static size_t       c13p_cs = 8, c13p_loop_chunk = 10000, c13p_nsheps = 1;
static int          c13p_baton = 0;        /* 1: pass mode (threads are pthreads under the baton) */
static sem_t        sem_thr[MAXT], sem_ctl;
static volatile int t_done[MAXT], t_started[MAXT];
static int          n_forked = 0;
static struct { qthread_f f; void *arg; void *ret; int sv; pthread_t th; } forked[MAXT];
static volatile int lock_held = 0;
static volatile int aborting = 0;
static void       (*c13p_on_fork)(int t) = NULL;

static void c13p_yield(void)
{
    if (!c13p_baton || c13p_tid < 0 || aborting) return;
    sem_post(&sem_ctl);
    sem_wait(&sem_thr[c13p_tid]);
}

__attribute__((noinline)) int c13p_hook(void)
{
    c13p_yield();
    return (int)(c13p_cs * sizeof(double));
}

static aligned_t c13p_cas(aligned_t *addr, aligned_t oldv, aligned_t newv)
{
    c13p_yield();
    return __sync_val_compare_and_swap(addr, oldv, newv);
}

static int c13p_lock(const aligned_t *a)
{
    (void)a;
    for (;;) {
        c13p_yield();                       /* one attempt per grant */
        if (!c13p_baton || aborting) { lock_held = 1; return 0; }
        if (!lock_held) { lock_held = 1; return 0; }
    }
}

static int c13p_unlock(const aligned_t *a)
{
    (void)a;
    c13p_yield();
    lock_held = 0;
    return 0;
}

static void *c13p_thread(void *x)
{
    int t = (int)(intptr_t)x;

    c13p_tid = t;
    sem_wait(&sem_thr[t]);
    t_started[t] = 1;
    forked[t].f(forked[t].arg);
    /* the runtime fills the return word */
    t_done[t] = 1;
    if (!aborting) sem_post(&sem_ctl);
    return NULL;
}

static int c13p_fork(qthread_f f, const void *arg, void *ret, int sv)
{
    int t = n_forked++;

    if (t >= MAXT) { printf("p error too-many-threads\n"); fflush(stdout); _exit(3); }
    forked[t].f = f; forked[t].arg = (void *)arg; forked[t].ret = ret; forked[t].sv = sv;
    t_done[t] = 0; t_started[t] = 0;
    if (c13p_on_fork) c13p_on_fork(t);
    if (c13p_baton) {
        sem_init(&sem_thr[t], 0, 0);
        pthread_create(&forked[t].th, NULL, c13p_thread, (void *)(intptr_t)t);
    }
    return 0;
}

/* ---- the schedule, consumed by the parent's wait ---- */
static int     *sched = NULL, nsched = 0, sched_pos = 0, rr = 0, units = 0;
static uint32_t hs[200000];
static void   (*snapshot)(void) = NULL;

static void run_unit(int t)
{
    sem_post(&sem_thr[t]);
    sem_wait(&sem_ctl);
    if (snapshot) snapshot();
}

static void c13p_wait(void *ret)
{
    int i = -1, k;

    for (k = 0; k < n_forked; k++) if (forked[k].ret == ret) i = k;
    if (i < 0 || !c13p_baton) return;
    while (!t_done[i]) {
        int who = -1;
        if (sched_pos < nsched) {
            int t = sched[sched_pos++];
            if (t >= 0 && t < n_forked && !t_done[t]) who = t;
        } else {
            for (k = 0; k < n_forked && who < 0; k++) {
                int t = (rr + k) % n_forked;
                if (!t_done[t]) who = t;
            }
            if (who >= 0) rr = (who + 1) % n_forked;
        }
        if (who >= 0) run_unit(who);
    }
}
static int c13p_readFF(aligned_t *d, const aligned_t *s) { (void)d; c13p_wait((void *)s); return 0; }
static int c13p_sv_readFF(uint64_t *d, syncvar_t *s) { (void)d; c13p_wait((void *)s); return 0; }

#define qthread_cacheline() c13p_hook()
#define MT_LOOP_CHUNK (c13p_loop_chunk)
#define qthread_num_shepherds() ((qthread_shepherd_id_t)c13p_nsheps)
#define qthread_fork(f, a, r) c13p_fork((qthread_f)(f), (a), (void *)(r), 0)
#define qthread_fork_syncvar(f, a, r) c13p_fork((qthread_f)(f), (a), (void *)(r), 1)
#define qthread_readFF(d, s) c13p_readFF((aligned_t *)(d), (const aligned_t *)(s))
#define qthread_syncvar_readFF(d, s) c13p_sv_readFF((uint64_t *)(d), (syncvar_t *)(s))
#define qthread_lock(a) c13p_lock((const aligned_t *)(a))
#define qthread_unlock(a) c13p_unlock((const aligned_t *)(a))
#undef qthread_cas
#define qthread_cas(A, O, N) c13p_cas((aligned_t *)(A), (aligned_t)(O), (aligned_t)(N))

#include "qutil.c"
#undef SWAP
#include "qloop.c"

/* ---------------------------------------------------------------------------------------------------------- */
static char    flav;
static long    cs, nt, B, LEN, bound, pivot, nvals;
static long   *vals;
static double *ad;          /* the allocation, flavours q and t */
static aligned_t *aa;       /* the allocation, flavour a */
static aligned_t *cur_fl, *cur_fr;

static long elem(long j) { return flav == 'a' ? (long)aa[j] : (long)ad[j]; }
static void setelem(long j, long v) { if (flav == 'a') aa[j] = (aligned_t)v; else ad[j] = (double)v; }
static uint32_t hstep(uint32_t h, uint32_t v) { return (h ^ v) * 16777619u; }

static void snap(void)
{
    uint32_t h = 2166136261u;
    long     j;

    for (j = 0; j < bound; j++) h = hstep(h, (uint32_t)elem(j));
    h = hstep(h, cur_fl ? (uint32_t)*cur_fl : 0xFFFFFFFFu);
    h = hstep(h, cur_fr ? (uint32_t)*cur_fr : 0u);
    if (units < 200000) hs[units] = h;
    units++;
}

static void show_wall(aligned_t w) { if (w == (aligned_t)-1) printf("max"); else printf("%lu", (unsigned long)w); }

static void wall_ptrs(int t)
{
    if (flav == 'q') { struct qutil_qsort_args *x = forked[t].arg; cur_fl = x->furthest_leftwall; cur_fr = x->furthest_rightwall; }
    else if (flav == 'a') { struct qutil_aligned_qsort_args *x = forked[t].arg; cur_fl = x->furthest_leftwall; cur_fr = x->furthest_rightwall; }
    else { struct qt_qsort_args *x = forked[t].arg; cur_fl = x->furthest_leftwall; cur_fr = x->furthest_rightwall; }
}

static void show_args(char *buf, size_t cap)
{
    int    t;
    size_t o = 0;

    for (t = 0; t < n_forked && o + 100 < cap; t++) {
        long b, len, jump, off;
        if (flav == 'q') { struct qutil_qsort_args *x = forked[t].arg; b = x->array - ad; len = x->length; jump = x->jump; off = x->offset; }
        else if (flav == 'a') { struct qutil_aligned_qsort_args *x = forked[t].arg; b = x->array - aa; len = x->length; jump = x->jump; off = x->offset; }
        else { struct qt_qsort_args *x = forked[t].arg; b = x->array - ad; len = x->length; jump = x->jump; off = x->offset; }
        o += snprintf(buf + o, cap - o, "%s%ld:%ld:%ld:%ld", t ? ";" : "", b, len, jump, off);
    }
    buf[o] = 0;
}

static int parse(char *line, int want_sched)
{
    char *tok, *save = NULL;
    long  k;
#define NEXT() do { tok = strtok_r(NULL, " \n", &save); if (!tok) return -1; } while (0)
    tok = strtok_r(line, " \n", &save);            /* the command word */
    NEXT(); flav = tok[0];
    NEXT(); cs = atol(tok); NEXT(); nt = atol(tok); NEXT(); B = atol(tok); NEXT(); LEN = atol(tok);
    NEXT(); bound = atol(tok); NEXT(); pivot = atol(tok); NEXT(); nvals = atol(tok);
    if (nvals != bound || nt < 1 || nt > MAXT || cs < 1 || B + LEN > bound) return -1;
    vals = realloc(vals, sizeof(long) * (nvals + 1));
    for (k = 0; k < nvals; k++) { NEXT(); vals[k] = atol(tok); }
    nsched = 0; sched_pos = 0;
    if (want_sched) {
        NEXT(); nsched = atoi(tok);
        sched = realloc(sched, sizeof(int) * (nsched + 1));
        for (k = 0; k < nsched; k++) { NEXT(); sched[k] = atoi(tok); }
    }
    return 0;
}

static void fresh_array(void)
{
    long j;
    free(ad); free(aa); ad = NULL; aa = NULL;
    if (flav == 'a') aa = malloc(sizeof(aligned_t) * (bound + 1)); else ad = malloc(sizeof(double) * (bound + 1));
    for (j = 0; j < bound; j++) setelem(j, vals[j]);
}

static void configure(void)
{
    c13p_cs = cs;
    if (flav == 't') { c13p_nsheps = nt; }
    else {      /* ceil(LEN / chunk) == nt : chunk = ceil(LEN / nt) works whenever some chunk does */
        c13p_loop_chunk = (LEN + nt - 1) / nt;
        if (c13p_loop_chunk == 0) c13p_loop_chunk = 1;
    }
}

/* args are captured when the first unit runs (the args array is freed by the partitioner before it returns) */
static char abuf_g[8192];
static void snap_with_args(void)
{
    if (units == 0) { wall_ptrs(0); show_args(abuf_g, sizeof(abuf_g)); }
    snap();
}

static void do_pass2(void)
{
    qutil_qsort_iprets_t r1; qt_qsort_iprets_t r2;
    aligned_t            rl, rr_;
    long                 j;
    int                  t, stray = 0;

    fresh_array(); configure();
    n_forked = 0; units = 0; rr = 0; lock_held = 0; aborting = 0; cur_fl = cur_fr = NULL; abuf_g[0] = 0;
    c13p_baton = 1; snapshot = snap_with_args;
    sem_init(&sem_ctl, 0, 0);
    if (flav == 'q') { r1 = qutil_qsort_inner_partitioner(ad + B, LEN, (double)pivot); rl = r1.leftwall; rr_ = r1.rightwall; }
    else if (flav == 'a') { r1 = qutil_aligned_qsort_inner_partitioner(aa + B, LEN, (aligned_t)pivot); rl = r1.leftwall; rr_ = r1.rightwall; }
    else { r2 = qt_qsort_inner_partitioner(ad + B, LEN, (double)pivot); rl = r2.leftwall; rr_ = r2.rightwall; }
    printf("p args=%s units=%d hs=", abuf_g, units);
    for (j = 0; j < units && j < 200000; j++) printf("%s%08x", j ? "," : "", hs[j]);
    printf(" ret="); show_wall(rl); printf(","); show_wall(rr_);
    printf(" arr=");
    for (j = 0; j < bound; j++) printf("%s%ld", j ? "," : "", elem(j));
    for (t = 0; t < n_forked; t++) if (!t_done[t]) stray++;
    if (stray) printf(" STRAY=%d", stray);
    printf("\n");
    fflush(stdout);
    /* let threads the parent did not wait for run to their end (their args and the wall words are gone by now) */
    cur_fl = cur_fr = NULL;
    aborting = 1;
    for (t = 0; t < n_forked; t++) if (!t_done[t]) sem_post(&sem_thr[t]);
    for (t = 0; t < n_forked; t++) pthread_join(forked[t].th, NULL);
    c13p_baton = 0; snapshot = NULL;
}

/* solo: the spawning loop runs with the forks recorded only (each argument record is copied at fork time: the
 * partitioner frees them), then each thread's function is called directly, alone */
static union { struct qutil_qsort_args q; struct qutil_aligned_qsort_args a; struct qt_qsort_args t; } argcopy[MAXT];
static void solo_copy(int t)
{
    if (flav == 'q') argcopy[t].q = *(struct qutil_qsort_args *)forked[t].arg;
    else if (flav == 'a') argcopy[t].a = *(struct qutil_aligned_qsort_args *)forked[t].arg;
    else argcopy[t].t = *(struct qt_qsort_args *)forked[t].arg;
    forked[t].arg = &argcopy[t];
}

static void do_solo(void)
{
    static char abuf[8192];
    int         t, v;
    long        j;

    fresh_array(); configure();
    n_forked = 0; c13p_baton = 0; snapshot = NULL; lock_held = 0; aborting = 0;
    c13p_on_fork = solo_copy;
    if (flav == 'q') (void)qutil_qsort_inner_partitioner(ad + B, LEN, (double)pivot);
    else if (flav == 'a') (void)qutil_aligned_qsort_inner_partitioner(aa + B, LEN, (aligned_t)pivot);
    else (void)qt_qsort_inner_partitioner(ad + B, LEN, (double)pivot);
    c13p_on_fork = NULL;
    show_args(abuf, sizeof(abuf));
    printf("s args=%s", abuf);
    for (t = 0; t < n_forked; t++) {
        aligned_t fl0 = 0, fr0 = 0;
        uint32_t  h0 = 0;
        int       out = 0, agree = 1;
        for (v = 0; v < 3; v++) {
            aligned_t fl = (aligned_t)-1, fr = 0;
            uint32_t  h = 2166136261u;
            long      poison = (v == 1) ? 0 : 1000000;
            for (j = 0; j < bound; j++) {
                int mine = (j >= B && j < B + LEN && ((j - B) / cs) % nt == t);
                setelem(j, (v == 0 || mine) ? vals[j] : poison);
            }
            if (flav == 'q') { argcopy[t].q.furthest_leftwall = &fl; argcopy[t].q.furthest_rightwall = &fr; qutil_qsort_partition(&argcopy[t].q); }
            else if (flav == 'a') { argcopy[t].a.furthest_leftwall = &fl; argcopy[t].a.furthest_rightwall = &fr; qutil_aligned_qsort_partition(&argcopy[t].a); }
            else { argcopy[t].t.furthest_leftwall = &fl; argcopy[t].t.furthest_rightwall = &fr; qt_qsort_partition(&argcopy[t].t); }
            lock_held = 0;
            for (j = 0; j < bound; j++) {
                int mine = (j >= B && j < B + LEN && ((j - B) / cs) % nt == t);
                if (mine) h = hstep(h, (uint32_t)elem(j));
                else if (elem(j) != (v == 0 ? vals[j] : poison)) out = 1;
            }
            if (v == 0) { fl0 = fl; fr0 = fr; h0 = h; }
            else if (fl != fl0 || fr != fr0 || h != h0) agree = 0;
        }
        printf(" t%d=", t); show_wall(fl0); printf(","); show_wall(fr0); printf(",%08x,%d,%d", h0, out, agree);
    }
    printf("\n");
}

int main(void)
{
    static char line[4 * 1024 * 1024];

    setvbuf(stdout, NULL, _IOLBF, 0);
    while (fgets(line, sizeof(line), stdin)) {
        if (line[0] == 'Q') break;
        alarm(90);          /* per command: a partition thread that never reaches its next yield point */
        if (!strncmp(line, "pass", 4)) {
            if (parse(line, 1)) { printf("p error parse\n"); continue; }
            do_pass2();
        } else if (!strncmp(line, "solo", 4)) {
            if (parse(line, 0)) { printf("s error parse\n"); continue; }
            do_solo();
        } else if (line[0] != '\n') {
            printf("? unknown\n");
        }
        fflush(stdout);
    }
    return 0;
}
