/* C20 extension P harness: the REAL job queue / proxy code of the working tree's src/io.c under a baton.
 * White-box: includes io.c with the pthread primitives it uses on theQueue interposed by macros (no edits to /repo):
 *   QTHREAD_LOCK / QTHREAD_UNLOCK / QTHREAD_COND_SIGNAL, pthread_cond_timedwait, pthread_create / pthread_exit of proxies,
 *   qthread_incr on io_worker_count, COMPILER_FENCE (the proxy's loop test), MACHINE_FENCE / SPINLOCK_BODY (the spin of
 *   the shutdown function), the proxied read() and the hand-back qt_threadqueue_enqueue.
 * Every interposed call is a schedule point: the thread parks BEFORE the operation and performs it when the controller
 * grants it the baton.  Mutex and condition variable are simulated (owner word, waiter marks), so nothing ever really
 * blocks: a thread that asks for a lock which is taken is simply not enabled, and the outcome of the timed wait
 * (ETIMEDOUT / woken) is CHOSEN by the schedule.  The workers are pthreads calling qt_blocking_subsystem_enqueue on job
 * records, the proxies are the pthreads the real code creates, the finalizer runs qt_blocking_subsystem_internal_stopwork.
 * stdin:  case <max> <fin> <W> {<n> j1 .. jn}*W <S> {t c}*S        (one case per line, each in a forked child)
 * stdout: R ; obs ; obs ... ; end <quiet|fix|cap>   (S+1 observations, then the fair completion) -- identical to ocaml/c20queue_driver.ml when code and machine agree. */
#ifdef HAVE_CONFIG_H
# include "config.h"
#endif
#define _GNU_SOURCE 1
#include <qthread/qthread-int.h>
#include <stdio.h>
#include <stdlib.h>
#include <string.h>
#include <errno.h>
#include <signal.h>
#include <pthread.h>
#include <unistd.h>
#include <sys/time.h>
#include <sys/syscall.h>
#include <sys/socket.h>
#include <sys/types.h>
#include <time.h>
#include <poll.h>
#include <sys/uio.h>
#include <sys/select.h>
#include <sys/resource.h>
#include <sys/wait.h>

#include <qthread/qthread.h>
#include "qt_io.h"
#include "qt_macros.h"
#include "qt_asserts.h"
#include "qt_atomics.h"
#include "qthread_innards.h"
#include "qt_threadqueues.h"
#include "qt_debug.h"
#include "qt_envariables.h"
#include "qt_subsystems.h"

#define MAXT 24
#define MAXJ 64
enum { K_NONE, K_LOCK, K_UNLOCK, K_SPAWN, K_INCR, K_SIGNAL, K_TEST, K_WAIT0, K_WAITING, K_REACQT, K_REACQ0, K_CALL,
       K_REQUEUE, K_EXIT, K_FSET, K_FREAD, K_DONE };
enum { R_WORKER, R_FIN, R_PROXY };
typedef struct {
    pthread_t    th;
    int          id, role;
    volatile int kind, arg, choice, ready;
    int          njobs, jobs[MAXJ];
    void *(*fn)(void *);
} thr_t;
static thr_t           T[MAXT];
static volatile int    nthr = 0;
static pthread_mutex_t bm   = PTHREAD_MUTEX_INITIALIZER;
static pthread_cond_t  bc   = PTHREAD_COND_INITIALIZER;
static volatile int    turn = -1;       /* who holds the baton; -1 = the controller */
static __thread thr_t *me;
static volatile int    lock_owner = -1; /* simulated theQueue.lock */
static char            flagbuf[512];
static int             njobs_total = 0;
static int             called[4 * MAXJ], ncalled = 0, back[4 * MAXJ], nback = 0;

static void addflag(const char *f, int a)
{
    char t[64];
    snprintf(t, sizeof t, "%s:%d", f, a);
    if (strstr(flagbuf, t) == NULL && strlen(flagbuf) + strlen(t) + 2 < sizeof flagbuf) {
        if (flagbuf[0]) { strcat(flagbuf, ","); }
        strcat(flagbuf, t);
    }
}

/* stop before the operation `kind`; returns when the controller grants the baton */
static void park(int kind, int arg)
{
    pthread_mutex_lock(&bm);
    me->kind = kind; me->arg = arg; me->ready = 1;
    if (turn == me->id) { turn = -1; }
    pthread_cond_broadcast(&bc);
    while (turn != me->id) { pthread_cond_wait(&bc, &bm); }
    pthread_mutex_unlock(&bm);
}

static void finish(int kind)
{
    if (lock_owner == me->id) { addflag("finished-holding-lock", me->id); }
    pthread_mutex_lock(&bm);
    me->kind = kind; me->ready = 1;
    if (turn == me->id) { turn = -1; }
    pthread_cond_broadcast(&bc);
    pthread_mutex_unlock(&bm);
}

static void c20q_lock(void)
{
    park(K_LOCK, 0);
    if (lock_owner != -1) { addflag("lock-granted-while-held", me->id); }
    lock_owner = me->id;
}

static void c20q_unlock(void)
{
    park(K_UNLOCK, 0);
    if (lock_owner != me->id) { addflag("unlock-by-non-owner", me->id); }
    lock_owner = -1;
}

static void c20q_signal(void)
{
    int w[MAXT], n = 0;
    park(K_SIGNAL, 0);
    for (int i = 0; i < nthr; i++) { if (T[i].kind == K_WAITING) { w[n++] = i; } }
    if (n > 0) { T[w[me->choice % n]].kind = K_REACQ0; }
}

static int c20q_timedwait(pthread_cond_t *c, pthread_mutex_t *m, const struct timespec *ts)
{
    park(K_WAIT0, 0);
    if (lock_owner != me->id) { addflag("wait-without-lock", me->id); } else { lock_owner = -1; }
    park(K_WAITING, 0);
    if (me->kind == K_WAITING) {          /* granted while waiting: the schedule chooses time-out or spurious wake-up */
        park(me->choice == 0 ? K_REACQT : K_REACQ0, 0);
    }                                     /* else: a signal moved us to K_REACQ0 and the grant is the re-acquisition */
    if (lock_owner != -1) { addflag("lock-granted-while-held", me->id); }
    lock_owner = me->id;
    return me->kind == K_REACQT ? ETIMEDOUT : 0;
}

static void c20q_fence(void)
{
    if (lock_owner == me->id) { return; }   /* the fence inside the wait loop (lock held): not a schedule point */
    if (me->role == R_PROXY) { park(K_TEST, 0); }
}

static void c20q_spin(void) { park(K_FREAD, 0); }

static void *tramp(void *a)
{
    me = a;
    if (me->role == R_PROXY) {
        park(K_TEST, 0);
        me->fn(NULL);
        finish(K_EXIT);
    } else if (me->role == R_FIN) {
        park(K_FSET, 0);
        me->fn(NULL);
        finish(K_DONE);
    } else {
        me->fn(NULL);
        finish(K_DONE);
    }
    return NULL;
}

static void start_thread(int id)
{
    T[id].id = id; T[id].ready = 0; T[id].kind = K_NONE;
    if (pthread_create(&T[id].th, NULL, tramp, &T[id])) { perror("pthread_create"); _exit(4); }
    pthread_mutex_lock(&bm);
    while (!T[id].ready) { pthread_cond_wait(&bc, &bm); }
    pthread_mutex_unlock(&bm);
}

static int c20q_create(pthread_t *thr, const pthread_attr_t *attr, void *(*fn)(void *), void *arg)
{
    park(K_SPAWN, 0);
    int id = nthr;
    if (id >= MAXT) { addflag("too-many-threads", id); return EAGAIN; }
    T[id].role = R_PROXY; T[id].fn = fn;
    nthr = id + 1;
    start_thread(id);
    *thr = T[id].th;
    return 0;
}

static void c20q_exit(void)
{
    finish(K_EXIT);
    pthread_exit(NULL);
}

static saligned_t c20q_incr(saligned_t *p, saligned_t v)
{
    park(K_INCR, (int)v);
    return __sync_fetch_and_add(p, v);
}

static char fakethr[MAXJ][16];
static ssize_t c20q_read(int fd, void *b, size_t n)
{
    park(K_CALL, fd);
    if (ncalled < 4 * MAXJ) { called[ncalled++] = fd; }
    errno = 0;
    return (ssize_t)fd * 7 + 1;
}

static void c20q_requeue(qthread_t *t);

#undef QTHREAD_LOCK
#undef QTHREAD_UNLOCK
#undef QTHREAD_COND_SIGNAL
#undef COMPILER_FENCE
#undef MACHINE_FENCE
#undef SPINLOCK_BODY
#undef qthread_incr
#define QTHREAD_LOCK(l)                 c20q_lock()
#define QTHREAD_UNLOCK(l)               c20q_unlock()
#define QTHREAD_COND_SIGNAL(c)          c20q_signal()
#define COMPILER_FENCE                  c20q_fence()
#define MACHINE_FENCE                   c20q_spin()
#define SPINLOCK_BODY()                 c20q_spin()
#define qthread_incr(p, v)              c20q_incr((saligned_t *)(p), (v))
#define pthread_cond_timedwait(c, m, t) c20q_timedwait((c), (m), (t))
#define pthread_create(a, b, c, d)      c20q_create((a), (b), (c), (d))
#define pthread_detach(t)               0
#define pthread_exit(x)                 c20q_exit()
#define read(a, b, c)                   c20q_read((a), (b), (c))
#define qt_threadqueue_enqueue(q, t)    c20q_requeue(t)
#undef HAVE_CONFIG_H          /* config.h has no include guard and would re-define the fences */
#include "io.c"
#undef QTHREAD_LOCK
#undef QTHREAD_UNLOCK
#undef QTHREAD_COND_SIGNAL
#undef COMPILER_FENCE
#undef MACHINE_FENCE
#undef SPINLOCK_BODY
#undef qthread_incr
#undef pthread_cond_timedwait
#undef pthread_create
#undef pthread_detach
#undef pthread_exit
#undef read
#undef qt_threadqueue_enqueue

static qt_blocking_queue_node_t J[MAXJ];

static void c20q_requeue(qthread_t *t)
{
    int id = (int)(((char *)t - &fakethr[0][0]) / (long)sizeof fakethr[0]);
    park(K_REQUEUE, id);
    if (id < 0 || id >= MAXJ) { addflag("requeue-of-unknown-task", id); return; }
    if (J[id].ret != (ssize_t)id * 7 + 1) { addflag("ret-not-stored", id); }
    if (J[id].next != NULL) { addflag("next-not-cleared", id); }
    if (nback < 4 * MAXJ) { back[nback++] = id; }
}

static void *worker_fn(void *a)
{
    for (int i = 0; i < me->njobs; i++) {
        qt_blocking_queue_node_t *j = &J[me->jobs[i]];
        qt_blocking_subsystem_enqueue(j);
    }
    return NULL;
}

static void *fin_fn(void *a)
{
    qt_blocking_subsystem_internal_stopwork();
    return NULL;
}

/* ------------------------------------------------------------------ controller */
static const char *kname(thr_t *t, char *buf)
{
    switch (t->kind) {
        case K_LOCK: return "L";
        case K_UNLOCK: return "U";
        case K_SPAWN: return "S";
        case K_INCR: return t->arg > 0 ? "I+" : "I-";
        case K_SIGNAL: return "G";
        case K_TEST: return "T";
        case K_WAIT0: return "W";
        case K_WAITING: return "Z";
        case K_REACQT: return "RT";
        case K_REACQ0: return "R0";
        case K_CALL: sprintf(buf, "C%d", t->arg); return buf;
        case K_REQUEUE: sprintf(buf, "Q%d", t->arg); return buf;
        case K_EXIT: return "X";
        case K_FSET: return "F";
        case K_FREAD: return "M";
        case K_DONE: return "D";
    }
    return "?";
}

static char  *out;
static size_t outn = 0, outcap = 0;
static void emit(const char *s)
{
    size_t n = strlen(s);
    if (outn + n + 1 > outcap) { outcap = (outcap + n + 1) * 2; out = realloc(out, outcap); }
    memcpy(out + outn, s, n + 1); outn += n;
}

static void idlist(char *o, size_t on, int *v, int n)
{
    size_t k = 0;
    if (n == 0) { snprintf(o, on, "-"); return; }
    o[0] = 0;
    for (int i = 0; i < n && k + 12 < on; i++) { k += snprintf(o + k, on - k, "%s%d", i ? "." : "", v[i]); }
}

static void fmt_state(char *b, size_t bn)
{
    char kb[16], q[600], ca[1200], bk[1200], tl[16];
    size_t k = 0;
    int qv[MAXJ + 4], qn = 0;
    k += snprintf(b + k, bn - k, "k=");
    for (int i = 0; i < nthr; i++) {
        k += snprintf(b + k, bn - k, "%s%s", i ? "," : "", kname(&T[i], kb));
        if ((T[i].kind == K_LOCK || T[i].kind == K_REACQT || T[i].kind == K_REACQ0) && lock_owner == i) { addflag("self-deadlock", i); }
    }
    for (qt_blocking_queue_node_t *p = theQueue.head; p != NULL && qn < njobs_total + 2; p = p->next) {
        if (p < J || p >= J + MAXJ) { addflag("queue-node-outside-jobs", qn); break; }
        qv[qn++] = (int)(p - J);
    }
    idlist(q, sizeof q, qv, qn);
    if (theQueue.tail == NULL) { snprintf(tl, sizeof tl, "-"); } else if (theQueue.tail < J || theQueue.tail >= J + MAXJ) { snprintf(tl, sizeof tl, "BAD"); } else { snprintf(tl, sizeof tl, "%d", (int)(theQueue.tail - J)); }
    idlist(ca, sizeof ca, called, ncalled);
    idlist(bk, sizeof bk, back, nback);
    if (lock_owner < 0) { k += snprintf(b + k, bn - k, " own=-"); } else { k += snprintf(b + k, bn - k, " own=%d", lock_owner); }
    snprintf(b + k, bn - k, " q=%s tl=%s len=%ld cnt=%ld pe=%d ca=%s bk=%s fl=%s", q, tl, (long)theQueue.length, (long)io_worker_count,
             proxy_exit, ca, bk, flagbuf[0] ? flagbuf : "-");
}

static void obs(const char *tag)
{
    char b[4200];
    emit(tag); emit(" ");
    fmt_state(b, sizeof b);
    emit(b);
}

static int enabled(int t)
{
    if (t < 0 || t >= nthr) { return 0; }
    switch (T[t].kind) {
        case K_LOCK: case K_REACQT: case K_REACQ0: return lock_owner == -1;
        case K_FSET: return nback == njobs_total;
        case K_EXIT: case K_DONE: case K_NONE: return 0;
        default: return 1;
    }
}

static void grant(int t, int c)
{
    pthread_mutex_lock(&bm);
    T[t].choice = c;
    turn = t;
    pthread_cond_broadcast(&bc);
    while (turn != -1) { pthread_cond_wait(&bc, &bm); }
    pthread_mutex_unlock(&bm);
}

static void on_alarm(int s) { const char m[] = "TIMEOUT\n"; (void)!write(1, m, sizeof m - 1); _exit(3); }

static int run_case(char *line)
{
    long v[4096]; int n = 0;
    char *p = line + 4, *e;
    for (;;) { long x = strtol(p, &e, 10); if (e == p) break; if (n < 4096) v[n++] = x; p = e; }
    int pos = 0;
#define NEXT() (pos < n ? v[pos++] : (bad = 1, 0))
    int bad = 0;
    long mx = NEXT(); int fin = (int)NEXT(), W = (int)NEXT();
    if (W < 0 || W + 1 >= MAXT) { return 1; }
    njobs_total = 0;
    for (int w = 0; w < W; w++) {
        int nj = (int)NEXT();
        if (nj < 0 || nj > MAXJ) { return 1; }
        T[w].role = R_WORKER; T[w].fn = worker_fn; T[w].njobs = nj;
        for (int i = 0; i < nj; i++) { int j = (int)NEXT(); if (j < 0 || j >= MAXJ) { return 1; } T[w].jobs[i] = j; njobs_total++; }
    }
    int S = (int)NEXT();
    if (bad || S < 0 || pos + 2 * S > n) { return 1; }
    /* the state qt_blocking_subsystem_init establishes (white-box; the runtime itself is not started) */
    for (int i = 0; i < MAXJ; i++) {
        memset(&J[i], 0, sizeof J[i]);
        J[i].next = NULL; J[i].thread = (qthread_t *)fakethr[i]; J[i].op = READ; J[i].ret = -77;
        memcpy(&J[i].args[0], &i, sizeof(int));
    }
    theQueue.head = NULL; theQueue.tail = NULL; theQueue.length = 0;
    proxy_exit = 0; io_worker_count = 0; io_worker_max = mx;
    nthr = W + (fin ? 1 : 0);
    if (fin) { T[W].role = R_FIN; T[W].fn = fin_fn; }
    for (int i = 0; i < nthr; i++) { start_thread(i); }
    emit("R ; ");
    obs("i");
    for (int s = 0; s < S; s++) {
        int t = (int)v[pos++], c = (int)v[pos++];
        emit(" ; ");
        if (enabled(t)) { grant(t, c < 0 ? 0 : c); obs("g"); } else { obs("s"); }
    }
    /* fair completion: round-robin over the existing threads, every timed wait times out; ends when a whole round
     * grants nothing (everybody finished or blocked) or leaves the state unchanged (the deterministic tail has reached a
     * fixpoint: stuck for ever) */
    {
        static char before[4200], after[4200];
        int round;
        for (round = 0; round < 300; round++) {
            int granted = 0;
            fmt_state(before, sizeof before);
            for (int t = 0; t < nthr; t++) {
                if (enabled(t)) { char tag[16]; grant(t, 0); granted++; snprintf(tag, sizeof tag, "t%d", t); emit(" ; "); obs(tag); }
            }
            if (!granted) { emit(" ; end quiet"); break; }
            fmt_state(after, sizeof after);
            if (strcmp(before, after) == 0) { emit(" ; end fix"); break; }
        }
        if (round == 300) { emit(" ; end cap"); }
    }
    return 0;
}

int main(int argc, char **argv)
{
    static char line[65536];
    signal(SIGPIPE, SIG_IGN);
    while (fgets(line, sizeof line, stdin)) {
        if (line[0] == 'Q') { break; }
        if (strncmp(line, "case", 4) != 0) { printf("ERR\n"); fflush(stdout); continue; }
        fflush(stdout);
        pid_t ch = fork();
        if (ch == 0) {
            signal(SIGALRM, on_alarm);
            alarm(120);
            if (run_case(line)) { printf("ERR bad case\n"); } else { printf("%s\n", out); }
            fflush(stdout);
            _exit(0);
        }
        int st = 0;
        if (ch < 0 || waitpid(ch, &st, 0) < 0) { printf("CRASH fork\n"); }
        else if (WIFSIGNALED(st)) { printf("CRASH signal=%d\n", WTERMSIG(st)); }
        else if (WEXITSTATUS(st) != 0) { if (WEXITSTATUS(st) != 3) { printf("CRASH rc=%d\n", WEXITSTATUS(st)); } }
        fflush(stdout);
    }
    return 0;
}
