/* C07 M1 harness: qthread_find_active_shepherd of the working tree (white-box include of shepherds.c) on scripted
 * activity vectors, sorted lists, distance tables, queue lengths and coin flips; no runtime is started.
 * stdin lines:  n | l0,l1,.. | d0,d1,.. | a0,a1,.. | q0,q1,.. | c0,c1,.. | usel
 *   l: sorted_sheplist (n-1 entries), d: shep_dists by shepherd id, a: active flags, q: advisory queue lengths,
 *   c: outcomes of (random() % 2 == 0) in consumption order, usel: 0 -> l == NULL branch
 * stdout: "fas <id|NULL> coins=<used>" */
#define qt_threadqueue_advisory_queuelen c07_qlen
#define random                           c07_random
#include "shepherds.c"
#include <stdio.h>
#include <string.h>

static long qlens[256];
static int  coins[1024], ncoins, coinpos;

ssize_t c07_qlen(qt_threadqueue_t *q) { return (ssize_t)qlens[((uintptr_t)q) - 1]; }
long c07_random(void)
{
    int c = (coinpos < ncoins) ? coins[coinpos] : 0;
    coinpos++;
    return c ? 0 : 1;             /* the code tests random() % 2 == 0 */
}

static int parse_list(char *s, long *out, int max)
{
    int n = 0;
    for (char *tok = strtok(s, ", \n"); tok && n < max; tok = strtok(NULL, ", \n")) out[n++] = atol(tok);
    return n;
}

int main(void)
{
    char line[8192];
    static struct qlib_s fake;
    while (fgets(line, sizeof line, stdin)) {
        char *parts[7]; int np = 0;
        for (char *p = line; np < 7; ) { parts[np++] = p; p = strchr(p, '|'); if (!p) break; *p++ = 0; }
        if (np != 7) { printf("ERR\n"); continue; }
        long n = atol(parts[0]), tmp[1024];
        qthread_shepherd_id_t l[256]; unsigned int d[256];
        memset(&fake, 0, sizeof fake);
        fake.nshepherds = (unsigned)n;
        fake.shepherds  = calloc((size_t)n + 1, sizeof(qthread_shepherd_t));
        int k = parse_list(parts[1], tmp, 255); for (int i = 0; i < k; i++) l[i] = (qthread_shepherd_id_t)tmp[i];
        k = parse_list(parts[2], tmp, 255); for (int i = 0; i < 256; i++) d[i] = 0; for (int i = 0; i < k; i++) d[i] = (unsigned)tmp[i];
        k = parse_list(parts[3], tmp, 255); for (int i = 0; i < n; i++) { fake.shepherds[i].active = (i < k) ? (uintptr_t)tmp[i] : 0; fake.shepherds[i].shepherd_id = i; fake.shepherds[i].ready = (qt_threadqueue_t *)(uintptr_t)(i + 1); }
        k = parse_list(parts[4], tmp, 255); for (int i = 0; i < 256; i++) qlens[i] = (i < k) ? tmp[i] : 0;
        ncoins = parse_list(parts[5], tmp, 1023); for (int i = 0; i < ncoins; i++) coins[i] = (int)tmp[i];
        coinpos = 0;
        int usel = atoi(parts[6]);
        qlib = &fake;
        qthread_shepherd_t *r = qthread_find_active_shepherd(usel ? l : NULL, usel ? d : NULL);
        if (r) printf("fas %u coins=%d\n", (unsigned)r->shepherd_id, coinpos); else printf("fas NULL coins=%d\n", coinpos);
        free(fake.shepherds);
    }
    return 0;
}
