/* C02 / C01 harness, mode M4: free-running FEB programs on the real runtime, no controller between the calls.
 * White-box: includes the working tree's feb.c (-I$REPO/src) and appends a read-only audit; the library is linked
 * without feb.o.  No edits to /repo.
 *
 * stdin:
 *   R runid ntasks nchildren nwords        a run; tasks 0..ntasks-1 are forked at once, ntasks.. are precondition tasks
 *   W w full val                           initial state of word w
 *   T tid shep nops                        program of a top-level task (shep -1 = qthread_fork), then nops lines
 *   K tid variant shep n w1..wn nops       a precondition task (spawned by a 'spawn' op of another task), then nops lines
 *   o name w dm val                        one call: dm reads 0 own buffer / 1 NULL destination; writes 0 pointer API / 3 _const API
 *   G                                      go: run it, print the log
 *   Q                                      quit
 * stdout per run:
 *   B runid
 *   o task k name w dm wval inv ret rc rval      one executed API call; inv/ret = tickets of one global __sync_fetch_and_add
 *                                                taken just before the call / just after it returned (ret -1: never returned)
 *   s task ticket                                 a precondition task started (ticket -1: never)
 *   w w present full status mem nEFQ nFEQ nFFQ nFFWQ   audit at quiescence (only when every task returned)
 *   c n                                           waiters enumerated by qthread_feb_callback on the run's words
 *   m w mem                                       (hang only) the word as read without any lock
 *   E ok|HANG stuck|HANG slow
 */
#define _GNU_SOURCE 1
#include "feb.c"
#include <stdio.h>
#include <string.h>
#include <unistd.h>
#include <signal.h>

#define MAXTASK 128
#define MAXOPS  48
#define MAXW    8
#define MAXPC   4
#define SENT    ((aligned_t)0x5e5e5e5e5e5e5e5eULL)
#define ARENA_WORDS (1 << 16)

enum { O_readFE, O_readFE_nb, O_readFF, O_readFF_nb, O_readXX, O_writeEF, O_writeEF_nb, O_writeF, O_writeFF, O_purge_to,
       O_fill, O_empty, O_purge, O_lock, O_unlock, O_status, O_readFE_nbf, O_writeEF_nbf, O_spawn, O_yield, O_N };
static const char *opnames[O_N] = { "readFE", "readFE_nb", "readFF", "readFF_nb", "readXX", "writeEF", "writeEF_nb", "writeF",
                                    "writeFF", "purge_to", "fill", "empty", "purge", "lock", "unlock", "status",
                                    "readFE_nbf", "writeEF_nbf", "spawn", "yield" };

typedef struct { int opc, w, dm; long long val; } pop_t;
typedef struct { int opc, w, dm, rc, has_rval; long long wval, rval; volatile long inv, ret; } rec_t;
typedef struct {
    int        id, shep, nops, is_child, variant, npc, pcs[MAXPC];
    pop_t      prog[MAXOPS];
    volatile int nrec;
    rec_t      rec[2 * MAXOPS];
    volatile long start_ticket;
    volatile aligned_t buf;
} task_t;

static aligned_t arena[ARENA_WORDS] __attribute__((aligned(64)));
static size_t    arena_next = 8;
static task_t   *T;                 /* tasks of the current run */
static int       runid, ntasks, nchildren, nwords, ntotal;
static aligned_t *W;
static aligned_t gate, done_word;
static volatile long nticket, ndone;

static inline long ticket(void) { return __sync_fetch_and_add(&nticket, 1); }

static aligned_t task_main(void *arg);

static int do_spawn(task_t *C)
{
    aligned_t *arr[MAXPC];
    for (int i = 0; i < C->npc; i++) arr[i] = &W[C->pcs[i]];
    if (C->variant == 1) return qthread_fork_precond_to(task_main, C, NULL, (qthread_shepherd_id_t)(C->shep % qthread_num_shepherds()), -C->npc, arr);
    return qthread_fork_precond(task_main, C, NULL, -C->npc, arr);
}

/* one API call with its two tickets */
static int one_call(task_t *t, int opc, int wi, int dm, long long val)
{
    rec_t     *r = &t->rec[t->nrec];
    aligned_t *w = (opc == O_spawn) ? NULL : &W[wi];
    aligned_t *dest = (dm == 0) ? (aligned_t *)&t->buf : NULL;
    int        rc = -99, isread = 0;
    r->opc = opc; r->w = wi; r->dm = dm; r->wval = val; r->has_rval = 0; r->rc = -99; r->ret = -1;
    t->buf = SENT;
    switch (opc) {
        case O_writeEF: case O_writeEF_nb: case O_writeF: case O_writeFF: case O_purge_to: t->buf = (aligned_t)val; break;
        default: break;
    }
    r->inv = ticket();
    __sync_synchronize();
    t->nrec++;
    switch (opc) {
        case O_readFE:    isread = 1; rc = qthread_readFE(dest, w); break;
        case O_readFE_nb: isread = 1; rc = qthread_readFE_nb(dest, w); break;
        case O_readFF:    isread = 1; rc = qthread_readFF(dest, w); break;
        case O_readFF_nb: isread = 1; rc = qthread_readFF_nb(dest, w); break;
        case O_readXX:    isread = 1; rc = qthread_readXX(dest, w); break;
        case O_writeEF:    rc = (dm == 3) ? qthread_writeEF_const(w, (aligned_t)val) : qthread_writeEF(w, (aligned_t *)&t->buf); break;
        case O_writeEF_nb: rc = (dm == 3) ? qthread_writeEF_const_nb(w, (aligned_t)val) : qthread_writeEF_nb(w, (aligned_t *)&t->buf); break;
        case O_writeF:     rc = (dm == 3) ? qthread_writeF_const(w, (aligned_t)val) : qthread_writeF(w, (aligned_t *)&t->buf); break;
        case O_writeFF:    rc = (dm == 3) ? qthread_writeFF_const(w, (aligned_t)val) : qthread_writeFF(w, (aligned_t *)&t->buf); break;
        case O_purge_to:   rc = (dm == 3) ? qthread_purge_to_const(w, (aligned_t)val) : qthread_purge_to(w, (aligned_t *)&t->buf); break;
        case O_fill:   rc = qthread_fill(w); break;
        case O_empty:  rc = qthread_empty(w); break;
        case O_purge:  rc = qthread_purge(w); break;
        case O_lock:   rc = qthread_lock(w); break;
        case O_unlock: rc = qthread_unlock(w); break;
        case O_status: r->rval = qthread_feb_status(w); r->has_rval = 1; rc = 0; break;
        case O_spawn:  rc = do_spawn(&T[wi]); break;
    }
    if (isread && dm == 0 && rc == 0) { r->rval = (long long)t->buf; r->has_rval = 1; }
    r->rc = rc;
    __sync_synchronize();
    r->ret = ticket();
    return rc;
}

static aligned_t task_main(void *arg)
{
    task_t *t = (task_t *)arg;
    if (t->is_child) t->start_ticket = ticket();
    else qthread_readFF(NULL, &gate);
    for (int i = 0; i < t->nops; i++) {
        pop_t *p = &t->prog[i];
        switch (p->opc) {
            case O_yield: qthread_yield(); break;
            case O_readFE_nbf:
                if (one_call(t, O_readFE_nb, p->w, p->dm, 0) == QTHREAD_OPFAIL) one_call(t, O_readFE, p->w, p->dm, 0);
                break;
            case O_writeEF_nbf:
                if (one_call(t, O_writeEF_nb, p->w, p->dm, p->val) == QTHREAD_OPFAIL) one_call(t, O_writeEF, p->w, p->dm, p->val);
                break;
            default: one_call(t, p->opc, p->w, p->dm, p->val); break;
        }
    }
    if (__sync_add_and_fetch(&ndone, 1) == ntotal) qthread_fill(&done_word);
    return 0;
}

static void print_log(void)
{
    for (int i = 0; i < ntotal; i++) {
        task_t *t = &T[i];
        for (int k = 0; k < t->nrec; k++) {
            rec_t *r = &t->rec[k];
            long   ret = r->ret;
            printf("o %d %d %s %d %d %lld %ld %ld %d ", t->id, k, opnames[r->opc], r->w, r->dm, r->wval, (long)r->inv, ret, ret < 0 ? -99 : r->rc);
            if (ret >= 0 && r->has_rval) printf("%lld\n", r->rval); else printf("-\n");
        }
        if (t->is_child) printf("s %d %ld\n", t->id, (long)t->start_ticket);
    }
}

/* watchdog: first alarm after 40 s; the run is reported as hung only when no ticket was drawn (no call was invoked and none
 * returned) during a further 20 s; a run that is merely slow gets up to 10 more minutes */
static volatile long wd_ticket = -1;
static volatile int  wd_rounds;
static void on_alarm(int s)
{
    long now = nticket + ndone;
    if (wd_ticket != now && wd_rounds < 30) { wd_ticket = now; wd_rounds++; alarm(20); return; }
    printf("B %d\n", runid);
    print_log();
    for (int w = 0; w < nwords; w++) printf("m %d %lld\n", w, (long long)W[w]);     /* plain reads: no lock can be taken here */
    printf("E HANG %s\n", wd_ticket == now ? "stuck" : "slow");
    fflush(stdout);
    _exit(3);
}

/* ---- audit (white-box) ---- */
static void audit_word(int wi)
{
    const aligned_t *addr = &W[wi];
    const int lockbin = QTHREAD_CHOOSE_STRIPE2(addr);
    int present = 0, full = 1, n[4] = { 0, 0, 0, 0 };
    qt_hash_lock(FEBs[lockbin]);
    qthread_addrstat_t *m = (qthread_addrstat_t *)qt_hash_get_locked(FEBs[lockbin], (void *)addr);
    if (m) {
        QTHREAD_FASTLOCK_LOCK(&m->lock);
        present = 1;
        full    = m->full;
        qthread_addrres_t *q[4] = { m->EFQ, m->FEQ, m->FFQ, m->FFWQ };
        for (int i = 0; i < 4; i++) for (qthread_addrres_t *x = q[i]; x && n[i] < 1000; x = x->next) n[i]++;
        QTHREAD_FASTLOCK_UNLOCK(&m->lock);
    }
    qt_hash_unlock(FEBs[lockbin]);
    printf("w %d %d %d %d %lld %d %d %d %d\n", wi, present, full, qthread_feb_status(addr), (long long)W[wi], n[0], n[1], n[2], n[3]);
}

static int ncb;
static void feb_cb(qt_key_t addr, qthread_f f, void *arg, void *retloc, unsigned int thread_id, void *tls, void *callarg)
{
    aligned_t *a = (aligned_t *)addr;
    if (a >= W && a < W + nwords) ncb++;
}

static int opcode(const char *s) { for (int i = 0; i < O_N; i++) if (!strcmp(s, opnames[i])) return i; return -1; }

static int read_prog(task_t *t, char *line, size_t cap)
{
    for (int i = 0; i < t->nops; i++) {
        char name[32]; int w, dm; long long val;
        if (!fgets(line, cap, stdin) || sscanf(line, "o %31s %d %d %lld", name, &w, &dm, &val) != 4) return 0;
        int oc = opcode(name);
        if (oc < 0 || w < 0 || (oc == O_spawn ? w >= ntotal : w >= nwords)) return 0;
        t->prog[i].opc = oc; t->prog[i].w = w; t->prog[i].dm = dm; t->prog[i].val = val;
    }
    return 1;
}

int main(void)
{
    static char line[1 << 12];
    setvbuf(stdout, NULL, _IOFBF, 1 << 20);
    signal(SIGALRM, on_alarm);
    runid = -1;
    alarm(60);
    qthread_initialize();
    alarm(0);
    printf("H %d %d\n", (int)qthread_num_shepherds(), (int)qthread_num_workers());
    fflush(stdout);
    T = calloc(MAXTASK, sizeof(task_t));
    while (fgets(line, sizeof(line), stdin)) {
        if (line[0] == 'Q') break;
        if (line[0] == 'R') {
            if (sscanf(line + 1, "%d %d %d %d", &runid, &ntasks, &nchildren, &nwords) != 4 || ntasks + nchildren > MAXTASK ||
                nwords > MAXW || arena_next + 64 > ARENA_WORDS) { printf("ERR limits\n"); fflush(stdout); return 2; }
            ntotal = ntasks + nchildren;
            memset(T, 0, sizeof(task_t) * MAXTASK);
            for (int i = 0; i < ntotal; i++) { T[i].id = i; T[i].start_ticket = -1; T[i].is_child = (i >= ntasks); }
            W = &arena[arena_next]; arena_next += 16;
            nticket = 0; ndone = 0;
            continue;
        }
        if (line[0] == 'W') {
            int w, full; long long v;
            if (sscanf(line + 1, "%d %d %lld", &w, &full, &v) != 3 || w < 0 || w >= nwords) { printf("ERR W\n"); fflush(stdout); return 2; }
            W[w] = (aligned_t)v;
            if (!full) qthread_empty(&W[w]);
            continue;
        }
        if (line[0] == 'T') {
            int tid, shep, nops;
            if (sscanf(line + 1, "%d %d %d", &tid, &shep, &nops) != 3 || tid < 0 || tid >= ntasks || nops > MAXOPS) { printf("ERR T\n"); fflush(stdout); return 2; }
            T[tid].shep = shep; T[tid].nops = nops;
            if (!read_prog(&T[tid], line, sizeof(line))) { printf("ERR prog\n"); fflush(stdout); return 2; }
            continue;
        }
        if (line[0] == 'K') {
            int tid, variant, shep, n, off, adv;
            if (sscanf(line + 1, "%d %d %d %d%n", &tid, &variant, &shep, &n, &adv) != 4 || tid < ntasks || tid >= ntotal || n < 1 || n > MAXPC) { printf("ERR K\n"); fflush(stdout); return 2; }
            off = 1 + adv;
            task_t *C = &T[tid];
            C->variant = variant; C->shep = shep < 0 ? 0 : shep; C->npc = n;
            for (int i = 0; i < n; i++) { int x = 0; sscanf(line + off, "%d%n", &x, &adv); off += adv; C->pcs[i] = x; }
            if (sscanf(line + off, "%d", &C->nops) != 1 || C->nops > MAXOPS) { printf("ERR K nops\n"); fflush(stdout); return 2; }
            if (!read_prog(C, line, sizeof(line))) { printf("ERR prog\n"); fflush(stdout); return 2; }
            continue;
        }
        if (line[0] == 'G') {
            wd_ticket = -1; wd_rounds = 0;
            alarm(40);                            /* watchdog of this run only (generous: a run takes milliseconds) */
            qthread_empty(&gate);
            qthread_empty(&done_word);
            for (int i = 0; i < ntasks; i++) {
                if (T[i].shep < 0) qthread_fork(task_main, &T[i], NULL);
                else qthread_fork_to(task_main, &T[i], NULL, (qthread_shepherd_id_t)(T[i].shep % qthread_num_shepherds()));
            }
            qthread_fill(&gate);                  /* all top-level tasks wait on the gate: released together */
            qthread_readFF(NULL, &done_word);     /* the main task parks on a FEB word until the last task has returned */
            alarm(0);
            printf("B %d\n", runid);
            print_log();
            for (int w = 0; w < nwords; w++) audit_word(w);
            ncb = 0;
            qthread_feb_callback(feb_cb, NULL);
            printf("c %d\n", ncb);
            printf("E ok\n");
            fflush(stdout);
            for (int w = 0; w < nwords; w++) qthread_fill(&W[w]);    /* leave no record behind */
            continue;
        }
        printf("ERR cmd\n"); fflush(stdout); return 2;
    }
    fflush(stdout);
    _exit(0);
}
