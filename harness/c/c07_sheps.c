/* C07 extension N harness: the shepherd API of src/shepherds.c, the worker switches of src/workers.c and sort_sheps /
 * shuffle_sheps of src/affinity/shufflesheps.h from the working tree (white-box includes), driven by a script on stdin.
 *
 *   c07_sheps fab          fabricated qlib (no runtime): tables, flags and counters are set by the script
 *   c07_sheps live <seed>  qthread_initialize() (configuration from the environment); rand() is interposed for the whole
 *                          process (logged, values < 997), so that the sorted lists the runtime built can be recomputed
 *
 * Every command prints exactly one line.  Commands (ids decimal):
 *   T n nwps | A a,.. | W w,.. | C nsa nwa | R s d,..|- | L s l,..          (fab only: build the table)   -> "."
 *   next c | prev c | nextl c | prevl c        qthread_shep_next/_prev/_next_local/_prev_local            -> "next r"
 *   dist a b                                   qthread_distance                                           -> "dist v"
 *   sremote s                                  qthread_sorted_sheps_remote                                -> "sremote NULL|-|a,b"
 *   ok me | self me | ssorted me               qthread_shep_ok / qthread_shep / qthread_sorted_sheps as seen by a thread of
 *                                              shepherd me (me = -1: a pthread that is not a worker); fab: faked TLS;
 *                                              live: me must be 0 (the main task) or -1 (a fresh pthread)
 *   sort n | d,.. | l,.. | r,..                sort_sheps(d, l, n) with the scripted rand() values        -> "sort a,b used=k"
 *   ds s | es s | dw w | ew w                  qthread_disable/enable_shepherd/worker                     -> "ds rc A=.. W=.. nsa= nwa= nums= numw="
 *   fas me | q,.. | c,..                       qthread_find_active_shepherd(sheps[me].sorted_sheplist, sheps[me].shep_dists)
 *                                              on the current flags, scripted queue lengths and coins     -> "fas r|NULL"
 *   task s                                     (live) qthread_fork_to(s) a task that samples qthread_shep(), qthread_shep_ok(),
 *                                              qthread_sorted_sheps(), qthread_worker()                   -> "task ran= ok= ownlist= wshep= act="
 * live prints first: "K .." constants, "live n nwps nwa nsa", "rands ..", "row s ..", "list s ..", "state A=.. W=.. .."  */
#define qt_threadqueue_advisory_queuelen c07s_qlen
#define random                           c07s_random
#include "shepherds.c"
#undef random
#include "workers.c"
#include "affinity/shufflesheps.h"
#include <stdio.h>
#include <string.h>
#include <unistd.h>
#include <pthread.h>
#include <limits.h>

#define MAXS 64
static long qlens[MAXS];
static int  coins[1024], ncoins, coinpos;
static long randscript[4096]; static int nrandscript, randpos;
static long randlog[65536];   static int nrandlog;
static int  live;
static unsigned long lcg = 12345;

ssize_t c07s_qlen(qt_threadqueue_t *q)
{
    for (unsigned i = 0; i < qlib->nshepherds && i < MAXS; i++) if (qlib->shepherds[i].ready == q) return (ssize_t)qlens[i];
    return 0;
}
long c07s_random(void)
{
    int c = (coinpos < ncoins) ? coins[coinpos] : 0;
    coinpos++;
    return c ? 0 : 1;             /* the code tests random() % 2 == 0 */
}
/* rand() for the whole process: scripted values first, then a small LCG; every value is logged */
int rand(void)
{
    long v;
    if (randpos < nrandscript) v = randscript[randpos];
    else if (!live) v = 0;
    else { lcg = lcg * 6364136223846793005UL + 1442695040888963407UL; v = (long)((lcg >> 33) % 997); }
    randpos++;
    if (nrandlog < 65536) randlog[nrandlog++] = v;
    return (int)v;
}

static int parse_list(char *s, long *out, int max)
{
    int n = 0;
    if (!s) return 0;
    for (char *tok = strtok(s, ", \n"); tok && n < max; tok = strtok(NULL, ", \n")) { if (tok[0] == '-' && !tok[1]) continue; out[n++] = atol(tok); }
    return n;
}
static void print_ids(const qthread_shepherd_id_t *l, int k)
{
    if (k == 0) { printf("-"); return; }
    for (int i = 0; i < k; i++) printf("%s%u", i ? "," : "", (unsigned)l[i]);
}
static const char *rcname(int rc)
{
    return rc == QTHREAD_SUCCESS ? "SUCCESS" : rc == QTHREAD_BADARGS ? "BADARGS" : rc == QTHREAD_NOT_ALLOWED ? "NOT_ALLOWED" : "OTHER";
}
static void dump_state(void)
{
    unsigned n = qlib->nshepherds, w = qlib->nworkerspershep;
    printf("A=");
    for (unsigned i = 0; i < n; i++) printf("%s%d", i ? "," : "", (int)(QTHREAD_CASLOCK_READ_UI(qlib->shepherds[i].active) != 0));
    printf(" W=");
    for (unsigned i = 0; i < n; i++) for (unsigned j = 0; j < w; j++)
        printf("%s%d", (i || j) ? "," : "", (int)(QTHREAD_CASLOCK_READ_UI(qlib->shepherds[i].workers[j].active) != 0));
    printf(" nsa=%lld nwa=%lld nums=%u numw=%u", (long long)qlib->nshepherds_active, (long long)qlib->nworkers_active,
           (unsigned)qthread_num_shepherds(), (unsigned)qthread_num_workers());
}

/* ---- fabricated table */
static struct qlib_s fake;
static qthread_worker_t fakeworker;
static struct qthread_runtime_data_s fakerd;
static qthread_t faketask;
static void fab_table(unsigned n, unsigned w)
{
    memset(&fake, 0, sizeof fake);
    fake.nshepherds = n; fake.nworkerspershep = w;
    fake.shepherds  = calloc(n + 1, sizeof(qthread_shepherd_t));
    for (unsigned i = 0; i < n; i++) {
        fake.shepherds[i].shepherd_id = i;
        fake.shepherds[i].ready       = (qt_threadqueue_t *)(uintptr_t)(i + 1);
        fake.shepherds[i].workers     = calloc(w + 1, sizeof(qthread_worker_t));
        QTHREAD_CASLOCK_INIT(fake.shepherds[i].active, 1);
        for (unsigned j = 0; j < w; j++) { QTHREAD_CASLOCK_INIT(fake.shepherds[i].workers[j].active, 1); fake.shepherds[i].workers[j].shepherd = &fake.shepherds[i]; }
        fake.shepherds[i].sorted_sheplist = calloc(n + 1, sizeof(qthread_shepherd_id_t));
        fake.shepherds[i].shep_dists      = NULL;
    }
    fake.nshepherds_active = n; fake.nworkers_active = n * w;
#ifdef QTHREAD_MUTEX_INCREMENT
    QTHREAD_FASTLOCK_INIT(fake.nshepherds_active_lock);
    QTHREAD_FASTLOCK_INIT(fake.nworkers_active_lock);
#endif
    qlib = &fake;
}

/* ---- threads of a given identity */
struct who { int what; int res; const qthread_shepherd_id_t *lst; };
static void *outsider(void *p)
{
    struct who *w = p;
    if (w->what == 0) w->res = qthread_shep_ok();
    else if (w->what == 1) w->res = qthread_shep();
    else w->lst = qthread_sorted_sheps();
    return NULL;
}
static void as_thread(int me, struct who *w)
{
    if (live) {
        if (me < 0) { pthread_t t; pthread_create(&t, NULL, outsider, w); pthread_join(t, NULL); }
        else outsider(w);
        return;
    }
    if (me < 0) { TLS_SET(shepherd_structs, NULL); }
    else {
        memset(&fakeworker, 0, sizeof fakeworker); memset(&faketask, 0, sizeof faketask); memset(&fakerd, 0, sizeof fakerd);
        fakeworker.shepherd = &qlib->shepherds[me]; fakeworker.current = &faketask; faketask.rdata = &fakerd; fakerd.shepherd_ptr = &qlib->shepherds[me];
        TLS_SET(shepherd_structs, (void *)&fakeworker);
    }
    outsider(w);
    TLS_SET(shepherd_structs, NULL);
}

/* ---- live task */
struct sample { int ran, ok, ownlist, wshep, act; };
static aligned_t sampler(void *arg)
{
    struct sample *s = arg;
    qthread_shepherd_id_t sid = NO_SHEPHERD;
    s->ran     = qthread_shep();
    s->ok      = qthread_shep_ok();
    (void)qthread_worker(&sid);
    s->wshep   = sid;
    s->ownlist = (s->ran >= 0 && s->ran < (int)qlib->nshepherds) ? (qthread_sorted_sheps() == qlib->shepherds[s->ran].sorted_sheplist) : 0;
    s->act     = (s->ran >= 0 && s->ran < (int)qlib->nshepherds) ? (int)(QTHREAD_CASLOCK_READ_UI(qlib->shepherds[s->ran].active) != 0) : -1;
    return 0;
}

int main(int argc, char **argv)
{
    static char line[65536];
    static long tmp[4096];
    live = (argc > 1 && !strcmp(argv[1], "live"));
    if (argc > 2) lcg = strtoul(argv[2], NULL, 10) * 2654435761UL + 1;
    setvbuf(stdout, NULL, _IOLBF, 0);
    alarm(live ? 60 : 300);            /* watchdog: a live run takes well under a second */
    printf("K %d %d %d %d %u\n", QTHREAD_SUCCESS, QTHREAD_BADARGS, QTHREAD_NOT_ALLOWED, QTHREAD_PTHREAD_ERROR, (unsigned)NO_SHEPHERD);
    if (live) {
        if (qthread_initialize() != QTHREAD_SUCCESS) { printf("INITFAIL\n"); return 2; }
        unsigned n = qlib->nshepherds;
        printf("live %u %u %lld %lld\n", n, (unsigned)qlib->nworkerspershep, (long long)qlib->nworkers_active, (long long)qlib->nshepherds_active);
        printf("rands");
        for (int i = 0; i < nrandlog; i++) printf("%s%ld", i ? "," : " ", randlog[i]);
        if (!nrandlog) printf(" -");
        printf("\n");
        for (unsigned i = 0; i < n; i++) {
            printf("row %u ", i);
            if (!qlib->shepherds[i].shep_dists) printf("-");
            else for (unsigned j = 0; j < n; j++) printf("%s%u", j ? "," : "", qlib->shepherds[i].shep_dists[j]);
            printf("\n");
        }
        for (unsigned i = 0; i < n; i++) {
            printf("list %u ", i);
            if (!qlib->shepherds[i].sorted_sheplist) printf("NULL"); else print_ids(qlib->shepherds[i].sorted_sheplist, (int)n - 1);
            printf("\n");
        }
        printf("state "); dump_state(); printf("\n");
    }
    while (fgets(line, sizeof line, stdin)) {
        char *parts[6]; int np = 0;
        for (char *p = line; np < 6; ) { parts[np++] = p; p = strchr(p, '|'); if (!p) break; *p++ = 0; }
        char cmd[32]; long a = 0, b = 0;
        cmd[0] = 0;
        int na = sscanf(parts[0], "%31s %ld %ld", cmd, &a, &b);
        if (na < 1) { printf("ERR\n"); continue; }
        if (!strcmp(cmd, "T")) { fab_table((unsigned)a, (unsigned)b); printf(".\n"); }
        else if (!strcmp(cmd, "A")) {
            char *s = strchr(parts[0], 'A') + 1; int k = parse_list(s, tmp, 4096);
            for (int i = 0; i < k && i < (int)qlib->nshepherds; i++) qlib->shepherds[i].active = (uintptr_t)tmp[i];
            printf(".\n");
        } else if (!strcmp(cmd, "W")) {
            char *s = strchr(parts[0], 'W') + 1; int k = parse_list(s, tmp, 4096); unsigned w = qlib->nworkerspershep;
            for (int i = 0; i < k && i < (int)(qlib->nshepherds * w); i++) qlib->shepherds[i / w].workers[i % w].active = (uint_fast8_t)tmp[i];
            printf(".\n");
        } else if (!strcmp(cmd, "C")) { qlib->nshepherds_active = (aligned_t)a; qlib->nworkers_active = (aligned_t)b; printf(".\n"); }
        else if (!strcmp(cmd, "R")) {
            char *s = parts[0]; while (*s == ' ') s++; s = strchr(s, ' ') + 1; s = strchr(s, ' ');   /* after "R s" */
            int k = (s && !strchr(s, '-')) ? parse_list(s, tmp, 4096) : -1;
            if (k < 0) qlib->shepherds[a].shep_dists = NULL;
            else { qlib->shepherds[a].shep_dists = calloc(qlib->nshepherds + 1, sizeof(unsigned)); for (int i = 0; i < k && i < (int)qlib->nshepherds; i++) qlib->shepherds[a].shep_dists[i] = (unsigned)tmp[i]; }
            printf(".\n");
        } else if (!strcmp(cmd, "L")) {
            char *s = parts[0]; while (*s == ' ') s++; s = strchr(s, ' ') + 1; s = strchr(s, ' ');
            int k = parse_list(s, tmp, 4096);
            for (int i = 0; i < k && i < (int)qlib->nshepherds; i++) qlib->shepherds[a].sorted_sheplist[i] = (qthread_shepherd_id_t)tmp[i];
            printf(".\n");
        } else if (!strcmp(cmd, "next") || !strcmp(cmd, "prev") || !strcmp(cmd, "nextl") || !strcmp(cmd, "prevl")) {
            qthread_shepherd_id_t c = (qthread_shepherd_id_t)a;
            if (!strcmp(cmd, "next")) qthread_shep_next(&c); else if (!strcmp(cmd, "prev")) qthread_shep_prev(&c);
            else if (!strcmp(cmd, "nextl")) qthread_shep_next_local(&c); else qthread_shep_prev_local(&c);
            printf("%s %u\n", cmd[0] == 'n' ? "next" : "prev", (unsigned)c);
        } else if (!strcmp(cmd, "dist")) {
            printf("dist %d\n", qthread_distance((qthread_shepherd_id_t)a, (qthread_shepherd_id_t)b));
        } else if (!strcmp(cmd, "sremote")) {
            const qthread_shepherd_id_t *l = qthread_sorted_sheps_remote((qthread_shepherd_id_t)a);
            printf("sremote "); if (!l) printf("NULL"); else print_ids(l, (int)qlib->nshepherds - 1); printf("\n");
        } else if (!strcmp(cmd, "ok") || !strcmp(cmd, "self") || !strcmp(cmd, "ssorted")) {
            struct who w = { !strcmp(cmd, "ok") ? 0 : !strcmp(cmd, "self") ? 1 : 2, 0, NULL };
            as_thread((int)a, &w);
            if (w.what < 2) printf("%s %d\n", cmd, w.res);
            else { printf("ssorted "); if (!w.lst) printf("NULL"); else print_ids(w.lst, (int)qlib->nshepherds - 1); printf("\n"); }
        } else if (!strcmp(cmd, "sort")) {
            if (np < 4) { printf("ERR\n"); continue; }
            static unsigned d[MAXS * 4]; static qthread_shepherd_id_t l[MAXS * 4];
            int kd = parse_list(parts[1], tmp, 255); for (int i = 0; i < kd; i++) d[i] = (unsigned)tmp[i];
            int kl = parse_list(parts[2], tmp, 255); for (int i = 0; i < kl; i++) l[i] = (qthread_shepherd_id_t)tmp[i];
            nrandscript = parse_list(parts[3], randscript, 4096); randpos = 0;
            sort_sheps(d, l, (size_t)a);
            printf("sort "); print_ids(l, (int)a - 1); printf(" used=%d\n", randpos);
            nrandscript = 0; randpos = 0;
        } else if (!strcmp(cmd, "ds") || !strcmp(cmd, "dw")) {
            int rc = (cmd[1] == 's') ? qthread_disable_shepherd((qthread_shepherd_id_t)a) : qthread_disable_worker((qthread_worker_id_t)a);
            printf("%s %s ", cmd, rcname(rc)); dump_state(); printf("\n");
        } else if (!strcmp(cmd, "es") || !strcmp(cmd, "ew")) {
            if (cmd[1] == 's') qthread_enable_shepherd((qthread_shepherd_id_t)a); else qthread_enable_worker((qthread_worker_id_t)a);
            printf("%s VOID ", cmd); dump_state(); printf("\n");
        } else if (!strcmp(cmd, "fas")) {
            if (np < 3) { printf("ERR\n"); continue; }
            int k = parse_list(parts[1], tmp, MAXS); for (int i = 0; i < MAXS; i++) qlens[i] = (i < k) ? tmp[i] : 0;
            ncoins = parse_list(parts[2], tmp, 1023); for (int i = 0; i < ncoins; i++) coins[i] = (int)tmp[i];
            coinpos = 0;
            qthread_shepherd_t *r = qthread_find_active_shepherd(qlib->shepherds[a].sorted_sheplist, qlib->shepherds[a].shep_dists);
            if (r) printf("fas %u\n", (unsigned)r->shepherd_id); else printf("fas NULL\n");
        } else if (!strcmp(cmd, "task")) {
            if (!live) { printf("ERR\n"); continue; }
            struct sample s = { -1, -1, -1, -1, -1 }; aligned_t ret = 0;
            qthread_fork_to(sampler, &s, &ret, (qthread_shepherd_id_t)a);
            qthread_readFF(NULL, &ret);
            printf("task ran=%d ok=%d ownlist=%d wshep=%d act=%d\n", s.ran, s.ok, s.ownlist, s.wshep, s.act);
        } else printf("ERR\n");
    }
    fflush(stdout);
    _exit(0);
}
