/* C04 progress (extension M) harness = harness/c/c04_kernel.c (included unchanged) with three hooks at its end of run:
 *   - before the log is cut, wait (bounded; the main task yields while it waits) until every descriptor handed out by the
 *     two qthread pools has been handed back (events A / F of the log): "freed" becomes a schedule-independent observable;
 *   - then print one line per shepherd with the private fields of its ready queue, read white-box under the queue lock:
 *       "Z <shep> <qlength> <qlength_stealable> <nodes found walking head->next> <head==NULL&&tail==NULL>"
 *     and "Y <descriptors allocated> <descriptors freed> <waited_ms>";
 *   - fault injection for qthread_spawn's return-location preparation (see c04_progress_wb_qthread.c): the tags listed in
 *     the environment variable C04P_FAIL (comma separated) fail with QTHREAD_MALLOC_ERROR; a failed spawn's tag is taken
 *     off the completion count of the scripted tree.
 * c04.py's reader ignores Z / Y lines. */
#ifdef HAVE_CONFIG_H
# include "config.h"
#endif
#include <stdio.h>
#include <stdlib.h>
#include <string.h>
#include <stdint.h>
#include <unistd.h>
#include <signal.h>
#include <fcntl.h>
#include <pthread.h>
#include <sched.h>
#include <time.h>

static int          c04p_usleep(unsigned us);
static unsigned int c04p_alarm(unsigned int s);
#define usleep(x) c04p_usleep(x)
#define alarm(x)  c04p_alarm(x)
#include "c04_kernel.c"
#undef usleep
#undef alarm

void c04p_queue_obs(qt_threadqueue_t *q, long *ql, long *qs, long *walk, int *nohead);

static long c04p_allocs, c04p_frees, c04p_waited_ms;

static void c04p_count(void)
{
    uint64_t n = evn < LOGCAP ? evn : LOGCAP;
    long a = 0, f = 0;
    for (uint64_t i = 0; i < n; i++) { if (evlog[i].kind == 'A') a++; else if (evlog[i].kind == 'F') f++; }
    c04p_allocs = a; c04p_frees = f;
}

/* the one usleep of c04_kernel.c's main: "let the last descriptors be released by their workers before the log is cut" */
static int c04p_usleep(unsigned us)
{
    struct timespec t0, t1;
    clock_gettime(CLOCK_MONOTONIC, &t0);
    for (;;) {
        __sync_synchronize();
        c04p_count();
        clock_gettime(CLOCK_MONOTONIC, &t1);
        c04p_waited_ms = (t1.tv_sec - t0.tv_sec) * 1000 + (t1.tv_nsec - t0.tv_nsec) / 1000000;
        if (c04p_allocs == c04p_frees || c04p_waited_ms > 12000) break;
        /* the main task gives worker 0.0 back while it waits: a team leader whose body has returned still has to pass
         * qt_internal_teamfinish, and it may be queued (pinned) on shepherd 0 - the completion count of c04_kernel.c is
         * taken at the end of the BODY.  The yield is announced like every yield of a scripted body. */
        {
            uint64_t sh, pw;
            LOG('p', 0, 'y', 0, 998, 0, 0);
            qthread_yield();
            where(&sh, &pw);
            LOG('r', 0, sh, pw, 998, 0, 0);
        }
        usleep(200);
    }
    return usleep(us);
}

/* alarm(0) is called once, after logging has been switched off and before the log is dumped */
static unsigned int c04p_alarm(unsigned int s)
{
    if (s == 0 && qlib != NULL) {
        c04p_count();
        for (unsigned i = 0; i < qlib->nshepherds; i++) {
            long ql = -1, qs = -1, walk = -1; int nohead = -1;
            c04p_queue_obs(qlib->shepherds[i].ready, &ql, &qs, &walk, &nohead);
            printf("Z %u %ld %ld %ld %d\n", i, ql, qs, walk, nohead);
        }
        printf("Y %ld %ld %ld\n", c04p_allocs, c04p_frees, c04p_waited_ms);
    }
    return alarm(s);
}

/* ---- fault injection for qthread_spawn step 4 */
static int c04p_fail_tag(const void *addr, int syncvar)
{
    static int parsed = 0, ntags = 0, tags[64];
    if (!parsed) {
        const char *e = getenv("C04P_FAIL");
        parsed = 1;
        while (e && *e && ntags < 64) { tags[ntags++] = atoi(e); e = strchr(e, ','); if (e) e++; }
    }
    for (int i = 0; i < ntags; i++) {
        int k = tags[i];
        if (k <= 0 || k >= MAXT) continue;
        /* (qthread_fork_copyargs_to takes a syncvar_t location: the harness passes &ret there) */
        if (addr == (const void *)&T[k].ret || addr == (const void *)&T[k].sret) return k;
    }
    return 0;
}

static void c04p_failed(int tag)
{
    (void)tag;
    /* one scripted task less will ever finish */
    if ((aligned_t)__sync_sub_and_fetch(&ntasks, 1) == donecount) qthread_writeF_const(&alldone, 1);
}

int c04p_empty(const aligned_t *dest)
{
    int k = c04p_fail_tag(dest, 0);
    if (k) { c04p_failed(k); return QTHREAD_MALLOC_ERROR; }
    return qthread_empty(dest);
}

int c04p_syncvar_empty(syncvar_t *dest)
{
    int k = c04p_fail_tag(dest, 1);
    if (k) { c04p_failed(k); return QTHREAD_MALLOC_ERROR; }
    return qthread_syncvar_empty(dest);
}
