/* C12 extension O harness: REAL queue loops (qt_loop_queue_run / _run_there / _addworker of the working tree's qloop.c,
 * white-box include) while shepherds are disabled and re-enabled from inside the user function.
 * Interposed (macros, no edit of /repo): qthread_incr, qthread_cas (cursor claims, activesheps / donecount updates),
 * qthread_shep_ok, qthread_fork_to, FREE (the handle is not released during a scenario so that a worker that outlives
 * the call does not touch freed memory).  Every interposed operation and its log entry are one critical section of a
 * spin lock, so the log order IS the order of the operations.
 *
 * One scenario per process.  stdin:
 *   Q <type> <start> <stop> <incr> <chunk> <mode> <barrier>      mode 0 = run, k>0 = run_there(k-1)
 *   on <shep> <ord> <op> <op> ...                                 ops of the ord-th invocation that starts on shepherd shep
 *        Sn set flag n | Wn wait flag n (set-up wait) | Hn hold until flag n or 2 s | Tn hold until flag n or 0.15 s | Zn / Cn wait until n sign-offs / n donecount increments were seen (5 s)
 *        Ds disable shepherd s | Es enable s | As qt_loop_queue_addworker(h, s) | Y qthread_yield | Bn block on FEB gate n
 *        Gn fill FEB gate n
 *   go
 * flag 15 is set by the harness when the loop call has returned.  stdout: the event log and a result line. */
#ifdef HAVE_CONFIG_H
# include "config.h"
#endif
#include <stdlib.h>
#include <stdio.h>
#include <string.h>
#include <unistd.h>
#include <signal.h>
#include <sched.h>
#include <time.h>
#include <qthread/qthread.h>
#include <qthread/qloop.h>
#include <qthread/qtimer.h>
#include "qt_initialized.h"
#include "qloop_innards.h"
#include "qt_expect.h"
#include "qt_asserts.h"
#include "qt_debug.h"
#include "qt_alloc.h"

static int64_t c12d_cas(volatile int64_t *addr, int64_t oldv, int64_t newv);
static int64_t c12d_incr(volatile int64_t *addr, int64_t inc);
static int     c12d_shep_ok(void);
static int     c12d_fork_to(qthread_f f, const void *arg, aligned_t *ret, qthread_shepherd_id_t shep);
static void    c12d_free(void *p);

#undef qthread_cas
#define qthread_cas(A, O, N) c12d_cas((volatile int64_t *)(A), (int64_t)(O), (int64_t)(N))
#undef qthread_incr
#define qthread_incr(A, I) c12d_incr((volatile int64_t *)(A), (int64_t)(I))
#define qthread_shep_ok() c12d_shep_ok()
#define qthread_fork_to(f, a, r, s) c12d_fork_to((f), (a), (r), (s))
#undef FREE
#define FREE(p, sz) c12d_free((void *)(p))

#include "qloop.c"

/* ------------------------------------------------------------------ log */
typedef struct { char k; unsigned tid; long a, b, c, d; } ev_t;
#define MAXEV (1 << 16)
static ev_t             evs[MAXEV];
static volatile long    nev;
static volatile int     LL;
static qqloop_handle_t *H;
static volatile long    entered, returned, signoffs, dones;
static long             snap_as = -1, snap_dc = -1;
static long             rstart, rstop;
static unsigned char   *visits;
static volatile long    oob;

static void lk(void) { while (__sync_lock_test_and_set(&LL, 1)) { while (LL) sched_yield(); } }
static void ul(void) { __sync_lock_release(&LL); }
static void lg(char k, long a, long b, long c, long d)
{
    long n = nev;
    if (n < MAXEV) { evs[n].k = k; evs[n].tid = qthread_id(); evs[n].a = a; evs[n].b = b; evs[n].c = c; evs[n].d = d; nev = n + 1; }
}

static __thread int in_add = -1;
static volatile int nadds;

static int64_t c12d_cas(volatile int64_t *addr, int64_t oldv, int64_t newv)
{
    if (!H) return __sync_val_compare_and_swap(addr, oldv, newv);
    lk();
    int64_t r = __sync_val_compare_and_swap(addr, oldv, newv);
    if (((void *)addr == (void *)&H->stat.iq->start) && (r == oldv) && (oldv < H->stat.iq->stop)) lg('C', (long)oldv, (long)newv, 0, 0);
    ul();
    return r;
}

static int64_t c12d_incr(volatile int64_t *addr, int64_t inc)
{
    if (!H) return __sync_fetch_and_add(addr, inc);
    lk();
    int64_t r = __sync_fetch_and_add(addr, inc);
    if ((void *)addr == (void *)&H->stat.iq->start) {
        if (r < H->stat.iq->stop) lg('C', (long)r, (long)(r + inc), 0, 0);
    } else if ((void *)addr == (void *)&H->stat.activesheps) {
        if (in_add >= 0) lg((inc > 0) ? 'A' : 'U', in_add, (long)inc, 0, 0);
        else if (inc < 0) { lg('S', (long)inc, 0, 0, 0); signoffs++; }
        else lg('P', (long)inc, 0, 0, 0);
    } else if ((void *)addr == (void *)&H->stat.donecount) {
        lg('D', (long)inc, 0, 0, 0); dones++;
    }
    ul();
    return r;
}

static int c12d_shep_ok(void)
{
    lk();
    int r = (qthread_shep_ok)();
    lg('K', (long)qthread_shep(), r, 0, 0);
    ul();
    return r;
}

static int c12d_fork_to(qthread_f f, const void *arg, aligned_t *ret, qthread_shepherd_id_t shep)
{
    lk();
    lg((in_add >= 0) ? 'F' : 'f', (in_add >= 0) ? in_add : (long)shep, (long)shep, 0, 0);
    ul();
    return (qthread_fork_to)(f, arg, ret, shep);
}

static void c12d_free(void *p)
{
    if (H && (p == (void *)H)) { snap_as = (long)H->stat.activesheps; snap_dc = (long)H->stat.donecount; }
    /* nothing is released during a scenario (one scenario per process) */
}

/* ------------------------------------------------------------------ script */
#define MAXR 64
#define MAXOP 16
typedef struct { int shep, ord, nops; char op[MAXOP]; int arg[MAXOP]; } rule_t;
static rule_t           rules[MAXR];
static int              nrules;
static volatile int     flags[16];
static volatile long    ordc[64];
static aligned_t        gates[16];
static int              use_barrier;
static volatile long    started;
static long             expected;
static volatile int     inconclusive;
static unsigned         wd_secs = 60, setup_secs = 15;
#define MAXTID 4096
static volatile unsigned seen_tid[MAXTID];
static volatile int      nseen;

static double now(void) { struct timespec ts; clock_gettime(CLOCK_MONOTONIC, &ts); return ts.tv_sec + ts.tv_nsec * 1e-9; }

/* OS-level wait: the task stays on its worker thread (a qthread-level yield would let the runtime migrate it) */
static int os_wait(volatile int *flag, volatile long *ctr, long need, double secs)
{
    double t0 = now();
    unsigned spins = 0;
    for (;;) {
        if (flag && *flag) return 1;
        if (ctr && (*ctr >= need)) return 1;
        if ((++spins & 63) == 0) { if (now() - t0 > secs) return 0; struct timespec ts = { 0, 200000 }; nanosleep(&ts, NULL); }
        else sched_yield();
    }
}

static int first_time(unsigned tid)
{
    lk();
    for (int i = 0; i < nseen; i++) if (seen_tid[i] == tid) { ul(); return 0; }
    if (nseen < MAXTID) seen_tid[nseen++] = tid;
    ul();
    return 1;
}

static void cb(const size_t lo, const size_t hi, void *arg)
{
    unsigned tid  = qthread_id();
    int      shep = (int)qthread_shep();
    long     ord  = __sync_fetch_and_add(&ordc[shep & 63], 1);
    lk();
    lg('I', (long)lo, (long)hi, shep, ord);
    entered++;
    ul();
    for (size_t i = lo; i < hi; i++) {
        if (((long)i >= rstart) && ((long)i < rstop)) { unsigned char *p = &visits[i - rstart]; if (*p < 200) __sync_fetch_and_add(p, 1); }
        else __sync_fetch_and_add(&oob, 1);
    }
    if (first_time(tid)) {
        __sync_fetch_and_add(&started, 1);
        if (use_barrier && !os_wait(NULL, &started, expected, setup_secs)) inconclusive |= 1;
    }
    for (int r = 0; r < nrules; r++) {
        if ((rules[r].shep != shep) || (rules[r].ord != ord)) continue;
        for (int k = 0; k < rules[r].nops; k++) {
            int a = rules[r].arg[k];
            switch (rules[r].op[k]) {
                case 'S': __sync_synchronize(); flags[a & 15] = 1; break;
                case 'W': if (!os_wait(&flags[a & 15], NULL, 0, setup_secs)) inconclusive |= 2; break;
                case 'H': os_wait(&flags[a & 15], NULL, 0, 2.0); break;
                case 'T': os_wait(&flags[a & 15], NULL, 0, 0.15); break;
                case 'Z': if (!os_wait(NULL, &signoffs, a, 5.0)) inconclusive |= 4; break;
                case 'C': if (!os_wait(NULL, &dones, a, 5.0)) inconclusive |= 8; break;
                case 'D': { lk(); int rc = qthread_disable_shepherd((qthread_shepherd_id_t)a); lg('X', a, rc, 0, 0); ul(); break; }
                case 'E': { lk(); qthread_enable_shepherd((qthread_shepherd_id_t)a); lg('N', a, 0, 0, 0); ul(); break; }
                case 'A': { in_add = __sync_fetch_and_add(&nadds, 1); qt_loop_queue_addworker(H, (qthread_shepherd_id_t)a); in_add = -1; break; }
                case 'Y': qthread_yield(); break;
                case 'B': qthread_readFF(NULL, &gates[a & 15]); break;
                case 'G': qthread_fill(&gates[a & 15]); break;
                default: break;
            }
        }
    }
    lk();
    lg('O', 0, 0, (long)qthread_shep(), 0);
    returned++;
    ul();
}

static void dump(const char *status)
{
    long n = nev < MAXEV ? nev : MAXEV;
    for (long i = 0; i < n; i++) printf("e %c %u %ld %ld %ld %ld\n", evs[i].k, evs[i].tid, evs[i].a, evs[i].b, evs[i].c, evs[i].d);
    long bad = 0, first = -1, cnt1 = 0, twice = 0, ftw = -1;
    for (long i = 0; i < rstop - rstart; i++) {
        if (visits[i] == 1) cnt1++; else { bad++; if (first < 0) first = i; }
        if (visits[i] > 1) { twice++; if (ftw < 0) ftw = i; }
    }
    printf("V once=%ld bad=%ld first_bad=%ld first_bad_count=%d twice=%ld first_twice=%ld oob=%ld\n", cnt1, bad, (first >= 0) ? rstart + first : -1L,
           (first >= 0) ? (int)visits[first] : -1, twice, (ftw >= 0) ? rstart + ftw : -1L, (long)oob);
    printf("Z %s inconclusive=%d snap_as=%ld snap_dc=%ld log=%ld\n", status, (int)inconclusive, snap_as, snap_dc, n);
    fflush(stdout);
}

static void on_alarm(int s) { dump("TIMEOUT"); _exit(3); }
static void on_crash(int s)
{
    static volatile int once;
    if (__sync_lock_test_and_set(&once, 1)) { for (;;) pause(); }
    dump((s == SIGFPE) ? "CRASH-SIGFPE" : (s == SIGSEGV) ? "CRASH-SIGSEGV" : (s == SIGABRT) ? "CRASH-SIGABRT" : "CRASH-SIGNAL");
    _exit(4);
}

int main(void)
{
    static char line[1 << 12];
    char        ty[32] = "chunk";
    long        st = 0, sp = 0, incr = 1, chunk = 0;
    int         mode = 0;
    signal(SIGALRM, on_alarm);
    signal(SIGFPE, on_crash); signal(SIGSEGV, on_crash); signal(SIGBUS, on_crash); signal(SIGABRT, on_crash);
    if (getenv("C12_ALARM")) { wd_secs = (unsigned)atoi(getenv("C12_ALARM")); if (wd_secs < 10) wd_secs = 10; }
    if (getenv("C12_SETUP")) { setup_secs = (unsigned)atoi(getenv("C12_SETUP")); }
    if (qthread_initialize() != 0) { printf("INITFAIL\n"); return 2; }
    printf("H %u %u\n", (unsigned)qthread_num_shepherds(), (unsigned)qthread_num_workers());
    fflush(stdout);
    while (fgets(line, sizeof line, stdin)) {
        if (line[0] == 'Q') {
            sscanf(line + 1, "%31s %ld %ld %ld %ld %d %d", ty, &st, &sp, &incr, &chunk, &mode, &use_barrier);
        } else if (!strncmp(line, "on ", 3) && (nrules < MAXR)) {
            rule_t *r = &rules[nrules];
            char   *p = line + 3, *tok;
            r->shep = (int)strtol(p, &p, 10); r->ord = (int)strtol(p, &p, 10); r->nops = 0;
            for (tok = strtok(p, " \t\n"); tok && (r->nops < MAXOP); tok = strtok(NULL, " \t\n")) {
                r->op[r->nops] = tok[0]; r->arg[r->nops] = atoi(tok + 1); r->nops++;
            }
            nrules++;
        } else if (!strncmp(line, "go", 2)) {
            break;
        }
    }
    qt_loop_queue_type t = !strcmp(ty, "chunk") ? CHUNK : !strcmp(ty, "guided") ? GUIDED : !strcmp(ty, "factored") ? FACTORED : TIMED;
    rstart = st; rstop = sp;
    visits = calloc((size_t)(sp - st) + 1, 1);
    for (int i = 0; i < 16; i++) { gates[i] = 0; qthread_empty(&gates[i]); }
    expected = (mode == 0) ? (long)qthread_num_workers() : 1;
    alarm(wd_secs);
    qqloop_handle_t *h = qt_loop_queue_create(t, (size_t)st, (size_t)sp, (size_t)incr, cb, NULL);
    if (chunk && (t == CHUNK)) qt_loop_queue_setchunk(h, (size_t)chunk);
    printf("K %zu\n", h->stat.chunksize);
    H = h;
    __sync_synchronize();
    if (mode == 0) qt_loop_queue_run(h); else qt_loop_queue_run_there(h, (qthread_shepherd_id_t)(mode - 1));
    lk();
    long e = entered, r = returned;
    lg('R', e, r, 0, 0);
    ul();
    flags[15] = 1;
    alarm(0);
    dump("OK");
    _exit(0);
}
