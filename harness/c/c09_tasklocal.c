/* C09 harness: task-local storage and task identity on the REAL runtime (white-box include of the
 * working-tree qthread.c; qt_free is interposed inside that TU only to watch the release of blobs).
 * stdin (see lib/verif/props/c09.py):
 *   C <counter|-1>                      preset qlib->max_thread_id before the next run
 *   T <slot> <argsz> <shep|-1> <ops..>  declare a task; ops: g<size> w<seed> y<n> m<shep> b x i s a
 *   S <slot> <slot> ...                 stepped run: the controller releases one op at a time in this order
 *   R                                   free run: all tasks run concurrently
 *   D <ntasks> <rounds>                 id race phase: per round ntasks tasks block on one word, are released together, each
 *                                       makes its FIRST qthread_id() call, stays alive while all ids are compared, then re-checks
 *   Q
 * stdout: "H ..." once, then per run one line per op "<slot> <k> <op> <values..> [hex]", "<slot> f ..." per task, "E". */
#include "qthread/qthread.h"
#include "qt_alloc.h"
static void verif_free(void *p);
#define qt_free(p) verif_free(p)
#include "qthread.c"
#include <stdio.h>
#include <string.h>
#include <unistd.h>
#include <signal.h>

#define MAXT   32
#define MAXOPS 48
typedef struct { char k; long arg; } op_t;
typedef struct { long v[7]; unsigned char *bytes; size_t nbytes; } res_t;
typedef struct {
    int            used, nops, shep;
    size_t         argsz;
    op_t           ops[MAXOPS];
    res_t          res[MAXOPS];
    volatile int   turn, done, started, finished, wantfill, xcount;
    qthread_t     *self;
    aligned_t      ret, gate, go, xgo;
    unsigned char *argsrc;
    void          *cur_p;  size_t cur_len;
    void          *arg_p;  size_t arg_len;
    void          *blob;
    int            big, heaparg;
} slot_t;
static slot_t        S[MAXT];
static volatile int  stepped = 0;
static volatile long arrived = 0, release_gen = 0;
static aligned_t     ctl, nstarted;   /* ctl: FEB word the controller sleeps on; every participant fills it after changing state */
static long          preset = -1;

/* ---- watch list for blob release ---- */
static struct { void *p; int count; int slot; } W[MAXT];
static volatile int wlock = 0, nwatch = 0;
static void verif_free(void *p)
{
    if (p) {
        while (__sync_lock_test_and_set(&wlock, 1)) ;
        int hit = -1;
        for (int i = 0; i < nwatch; i++) if (W[i].p == p && W[i].count == 0) { hit = i; break; }
        if (hit < 0) for (int i = nwatch - 1; i >= 0; i--) if (W[i].p == p) { hit = i; break; }
        if (hit >= 0) W[hit].count++;
        __sync_lock_release(&wlock);
    }
    (qt_free)(p);
}
static void watch_add(int slot, void *p)
{
    while (__sync_lock_test_and_set(&wlock, 1)) ;
    W[nwatch].p = p; W[nwatch].count = 0; W[nwatch].slot = slot; nwatch++;
    __sync_lock_release(&wlock);
}

static inline unsigned char pat(unsigned long seed, size_t i) { return (unsigned char)((seed * 131u + i * 7u + (i >> 8)) & 0xff); }
static unsigned char argbyte(int slot, size_t i) { return i < 4 ? (unsigned char)((slot >> (8 * i)) & 0xff) : pat(7000 + slot, i); }

static void do_op(slot_t *sl, int t, int k)
{
    op_t  *o = &sl->ops[k];
    res_t *r = &sl->res[k];
    qthread_t *me = qthread_internal_self();
    switch (o->k) {
        case 'g': {
            unsigned char *p     = qthread_get_tasklocal((unsigned)o->arg);
            unsigned       avail = qthread_size_tasklocal();
            unsigned char *data  = (unsigned char *)me->data;
            size_t dsz = (me->flags & QTHREAD_BIG_STRUCT) ? qlib->qthread_argcopy_size + qlib->qthread_tasklocal_size
                                                          : sizeof(void *) + qlib->qthread_tasklocal_size;
            if (p >= data && p < data + dsz) { r->v[0] = 'D'; r->v[1] = p - data; }
            else {
                r->v[0] = 'B';
                size_t so = (me->flags & QTHREAD_BIG_STRUCT) ? qlib->qthread_argcopy_size : 0;
                void *stored; memcpy(&stored, data + so, sizeof stored);
                r->v[1] = (stored == (void *)p) ? (long)so : -1;
            }
            r->v[2] = avail; r->v[3] = me->rdata->tasklocal_size;
            r->v[4] = (me == sl->self);
            r->nbytes = avail; r->bytes = malloc(avail ? avail : 1);
            if (p) memcpy(r->bytes, p, avail);
            sl->cur_p = p; sl->cur_len = avail;
            break;
        }
        case 'w': { unsigned char *p = sl->cur_p; for (size_t i = 0; i < sl->cur_len; i++) p[i] = pat(o->arg, i); break; }
        case 'y': for (long i = 0; i < o->arg; i++) qthread_yield(); break;
        case 'm': r->v[0] = qthread_migrate_to((qthread_shepherd_id_t)o->arg); r->v[1] = qthread_shep(); break;
        case 'b': { aligned_t tmp; sl->wantfill = 1; MACHINE_FENCE; qthread_fill(&ctl); qthread_readFE(&tmp, &sl->gate); break; }
        case 'x': {
            aligned_t tmp;
            sl->xcount++;
            if (stepped) break;               /* no rendezvous in stepped mode */
            __sync_fetch_and_add(&arrived, 1);
            qthread_fill(&ctl);
            qthread_readFE(&tmp, &sl->xgo);    /* released by the controller after the audit */
            break;
        }
        case 'i': r->v[0] = qthread_id(); r->v[1] = qthread_id(); r->v[2] = me->thread_id; r->v[3] = stepped ? (long)(qlib->max_thread_id & 0x7fffffffffffffffUL) : 0;
                  r->v[4] = stepped ? (long)(qlib->max_thread_id >> 63) : 0; break;
        case 's': {
            size_t left = qthread_stackleft();
            r->v[0] = (qthread_retloc() == &sl->ret);
            r->v[1] = (qthread_shep() == me->rdata->shepherd_ptr->shepherd_id);
            r->v[2] = (left > 0 && left < qlib->qthread_stack_size);
            r->v[3] = (me == sl->self);
            break;
        }
        case 'a': {
            long ok = 1;
            if (sl->argsz) { unsigned char *a = me->arg; for (size_t i = 0; i < sl->argsz; i++) if (a[i] != argbyte(t, i)) ok = 0; }
            else ok = ((long)(intptr_t)me->arg == t);
            r->v[0] = ok;
            break;
        }
    }
}

static aligned_t run_slot(int t)
{
    slot_t *sl = &S[t];
    qthread_t *me = qthread_internal_self();
    sl->self = me;
    sl->big = (me->flags & QTHREAD_BIG_STRUCT) ? 1 : 0;
    sl->heaparg = (me->flags & QTHREAD_HAS_ARGCOPY) ? 1 : 0;
    if (sl->argsz) { sl->arg_p = me->arg; sl->arg_len = sl->argsz; }
    MACHINE_FENCE;
    sl->started = 1;
    qthread_incr(&nstarted, 1);
    qthread_fill(&ctl);
    for (int k = 0; k < sl->nops; k++) {
        if (stepped) { aligned_t tmp; qthread_readFE(&tmp, &sl->go); }   /* one grant per op; no yield-spinning anywhere */
        do_op(sl, t, k);
        MACHINE_FENCE;
        sl->done = k + 1;
        if (stepped) qthread_fill(&ctl);
    }
    if (me->rdata->tasklocal_size > 0) {
        size_t so = (me->flags & QTHREAD_BIG_STRUCT) ? qlib->qthread_argcopy_size : 0;
        memcpy(&sl->blob, (unsigned char *)me->data + so, sizeof(void *));
        watch_add(t, sl->blob);
    }
    MACHINE_FENCE;
    sl->finished = 1;
    qthread_fill(&ctl);
    return 1000 + t;
}
static aligned_t body_ptr(void *arg) { return run_slot((int)(intptr_t)arg); }
static aligned_t body_copy(void *arg) { unsigned char *a = arg; int t = a[0] | (a[1] << 8) | (a[2] << 16) | (a[3] << 24); return run_slot(t); }

typedef struct { uintptr_t lo, hi; int slot; char kind; } range_t;
/* pairwise disjointness of: task-local regions, argument copies, descriptor headers of all live tasks */
static long overlap_check(char *why, size_t whylen)
{
    range_t R[3 * MAXT]; int n = 0;
    for (int t = 0; t < MAXT; t++) {
        slot_t *sl = &S[t];
        if (!sl->used || !sl->started || sl->finished) continue;
        if (sl->cur_p && sl->cur_len) { R[n].lo = (uintptr_t)sl->cur_p; R[n].hi = R[n].lo + sl->cur_len; R[n].slot = t; R[n].kind = 'T'; n++; }
        if (sl->arg_p && sl->arg_len) { R[n].lo = (uintptr_t)sl->arg_p; R[n].hi = R[n].lo + sl->arg_len; R[n].slot = t; R[n].kind = 'A'; n++; }
        R[n].lo = (uintptr_t)sl->self; R[n].hi = R[n].lo + sizeof(qthread_t); R[n].slot = t; R[n].kind = 'H'; n++;
    }
    for (int i = 0; i < n; i++) for (int j = i + 1; j < n; j++)
        if (R[i].lo < R[j].hi && R[j].lo < R[i].hi) {
            snprintf(why, whylen, "%c%d/%c%d", R[i].kind, R[i].slot, R[j].kind, R[j].slot);
            return 0;
        }
    why[0] = 0;
    return 1;
}

static void service_blockers(void)
{
    for (int t = 0; t < MAXT; t++) {
        slot_t *sl = &S[t];
        if (sl->used && sl->wantfill) {
            sl->wantfill = 0;
            MACHINE_FENCE;
            qthread_fill(&sl->gate);
        }
    }
}
/* the controller never spins on qthread_yield(): it sleeps on ctl until some participant reports a change */
static void ctl_wait(void) { aligned_t tmp; qthread_readFE(&tmp, &ctl); }

static void on_alarm(int sig)
{
    /* diagnostics for a hung run (the run is reported as TIMEOUT) */
    fprintf(stderr, "c09 hang: stepped=%d nstarted=%lu arrived=%ld gen=%ld ctl_full=%d mccoy_state=%d\n", stepped, (unsigned long)nstarted, arrived,
            release_gen, qthread_feb_status(&ctl), (int)qlib->mccoy_thread->thread_state);
    for (int t = 0; t < MAXT; t++) if (S[t].used)
        fprintf(stderr, "  slot %d: nops=%d turn=%d done=%d started=%d finished=%d wantfill=%d state=%d go_full=%d gate_full=%d xgo_full=%d shep=%d\n", t, S[t].nops,
                S[t].turn, S[t].done, S[t].started, S[t].finished, S[t].wantfill, S[t].self ? (int)S[t].self->thread_state : -1,
                qthread_feb_status(&S[t].go), qthread_feb_status(&S[t].gate), qthread_feb_status(&S[t].xgo),
                S[t].self && S[t].self->rdata ? (int)S[t].self->rdata->shepherd_ptr->shepherd_id : -1);
    printf("TIMEOUT\n"); fflush(stdout); _exit(3);
}
static char ovwhy[MAXT * MAXOPS][24];

static void reset_case(void)
{
    for (int t = 0; t < MAXT; t++) {
        for (int k = 0; k < MAXOPS; k++) free(S[t].res[k].bytes);
        free(S[t].argsrc);
    }
    memset(S, 0, sizeof S);
    nwatch = 0; arrived = 0; release_gen = 0; nstarted = 0;
}

static void run_case(int *order, int norder)
{
    int ntasks = 0, nx = 0;
    alarm(getenv("C09_ALARM") ? atoi(getenv("C09_ALARM")) : 300);
    qthread_empty(&ctl);
    for (int t = 0; t < MAXT; t++) {
        slot_t *sl = &S[t];
        if (!sl->used) continue;
        ntasks++;
        qthread_empty(&sl->gate); qthread_empty(&sl->go); qthread_empty(&sl->xgo);
        int rc;
        if (sl->argsz) {
            sl->argsrc = malloc(sl->argsz);
            for (size_t i = 0; i < sl->argsz; i++) sl->argsrc[i] = argbyte(t, i);
            rc = qthread_spawn(body_copy, sl->argsrc, sl->argsz, &sl->ret, 0, NULL,
                               sl->shep < 0 ? NO_SHEPHERD : (qthread_shepherd_id_t)sl->shep, 0);
            memset(sl->argsrc, 0xEE, sl->argsz);      /* the copy must not depend on the source any more */
        } else {
            rc = qthread_spawn(body_ptr, (void *)(intptr_t)t, 0, &sl->ret, 0, NULL,
                               sl->shep < 0 ? NO_SHEPHERD : (qthread_shepherd_id_t)sl->shep, 0);
        }
        if (rc != QTHREAD_SUCCESS) { printf("SPAWNFAIL %d\n", rc); fflush(stdout); _exit(4); }
    }
    for (int t = 0; t < MAXT; t++) if (S[t].used) { int c = 0; for (int k = 0; k < S[t].nops; k++) c += S[t].ops[k].k == 'x'; if (c > nx) nx = c; }
    if (stepped) {
        while ((long)nstarted < ntasks) ctl_wait();
        /* the given order first, then whatever is left, task by task in slot order (the model driver does the same) */
        for (int j = 0; j < norder + MAXT * MAXOPS; j++) {
            int t = j < norder ? order[j] : (j - norder) / MAXOPS;
            slot_t *sl = &S[t];
            int k = sl->turn;
            if (!sl->used || k >= sl->nops) continue;
            sl->turn = k + 1;
            MACHINE_FENCE;
            qthread_fill(&sl->go);
            while (sl->done < k + 1) { ctl_wait(); service_blockers(); }
            if (sl->ops[k].k == 'g') sl->res[k].v[5] = overlap_check(ovwhy[t * MAXOPS + k], 24);
        }
    }
    for (;;) {
        int fin = 0;
        for (int t = 0; t < MAXT; t++) if (S[t].used && S[t].finished) fin++;
        if (fin == ntasks) break;
        if (!stepped && release_gen < nx && arrived >= (long)ntasks * (release_gen + 1)) {
            /* every task is parked at rendezvous number release_gen: all regions are live and quiescent */
            char why[24];
            long ok = overlap_check(why, sizeof why);
            printf("X %ld %ld %s\n", (long)release_gen, ok, why);
            MACHINE_FENCE;
            release_gen++;
            for (int t = 0; t < MAXT; t++) if (S[t].used) qthread_fill(&S[t].xgo);
            continue;
        }
        service_blockers();
        ctl_wait();
        service_blockers();
    }
    for (int t = 0; t < MAXT; t++) if (S[t].used) { aligned_t v = 0; qthread_readFF(&v, &S[t].ret); if (v != 1000 + (aligned_t)t) printf("BADRET %d %lu\n", t, (unsigned long)v); }
    /* wait (bounded) for the descriptors to be released by the workers */
    for (int spin = 0; spin < 500; spin++) {
        int pending = 0;
        for (int i = 0; i < nwatch; i++) if (W[i].count == 0) pending++;
        if (!pending) break;
        usleep(1000);
    }
    alarm(0);
    for (int t = 0; t < MAXT; t++) {
        slot_t *sl = &S[t];
        if (!sl->used) continue;
        for (int k = 0; k < sl->nops; k++) {
            res_t *r = &sl->res[k]; char c = sl->ops[k].k;
            printf("%d %d %c", t, k, c);
            switch (c) {
                case 'g': printf(" %c %ld %ld %ld %ld %ld%s%s ", (char)r->v[0], r->v[1], r->v[2], r->v[3], r->v[4], stepped ? r->v[5] : 1L,
                                 (stepped && !r->v[5]) ? ":" : "", (stepped && !r->v[5]) ? ovwhy[t * MAXOPS + k] : "");
                          for (size_t i = 0; i < r->nbytes; i++) printf("%02x", r->bytes[i]);
                          break;
                case 'm': printf(" %ld %ld", r->v[0], r->v[1]); break;
                case 'i': printf(" %lu %lu %lu %lu", (unsigned long)r->v[0], (unsigned long)r->v[1], (unsigned long)r->v[2],
                                 (unsigned long)r->v[3] | ((unsigned long)r->v[4] << 63)); break;
                case 's': printf(" %ld %ld %ld %ld", r->v[0], r->v[1], r->v[2], r->v[3]); break;
                case 'a': printf(" %ld", r->v[0]); break;
                default: break;
            }
            printf("\n");
        }
        int cnt = 0;
        for (int i = 0; i < nwatch; i++) if (W[i].slot == t) cnt = W[i].count;
        printf("%d f %d %d %d\n", t, cnt, sl->big, sl->heaparg);
    }
    printf("E\n");
    fflush(stdout);
}

/* ---------------- id race phase ---------------- */
#define MAXD 2048
static aligned_t     d_go, d_go2, d_waiting, d_arrived, d_ret[MAXD];
static unsigned      d_id1[MAXD], d_id2[MAXD], d_fld[MAXD];
static aligned_t d_body(void *arg)
{
    long k = (long)(intptr_t)arg;
    qthread_incr(&d_waiting, 1);
    qthread_fill(&ctl);
    qthread_readFF(NULL, &d_go);            /* everybody is released by one fill */
    d_id1[k] = qthread_id();                /* first call: the lazy allocation, concurrently on all workers */
    qthread_incr(&d_arrived, 1);
    qthread_fill(&ctl);
    qthread_readFF(NULL, &d_go2);           /* stay alive while the ids of all live tasks are compared */
    d_id2[k] = qthread_id();
    d_fld[k] = qthread_internal_self()->thread_id;
    return 0;
}
static int cmp_u(const void *a, const void *b) { unsigned x = *(const unsigned *)a, y = *(const unsigned *)b; return x < y ? -1 : x > y; }
static void run_idrace(int n, int rounds)
{
    long dups = 0, reserved = 0, unstable = 0;
    static unsigned sorted[MAXD];
    if (n > MAXD) n = MAXD;
    alarm(getenv("C09_ALARM") ? atoi(getenv("C09_ALARM")) : 300);
    for (int r = 0; r < rounds; r++) {
        qthread_empty(&ctl); qthread_empty(&d_go); qthread_empty(&d_go2); d_waiting = 0; d_arrived = 0;
        if (preset >= 0 && r == rounds / 2) qlib->max_thread_id = (aligned_t)0xFFFFFFFFUL - (aligned_t)(n / 2);   /* cross the 32-bit wrap concurrently */
        for (long k = 0; k < n; k++) qthread_fork(d_body, (void *)(intptr_t)k, &d_ret[k]);
        while ((long)d_waiting < n) ctl_wait();
        qthread_fill(&d_go);
        while ((long)d_arrived < n) ctl_wait();
        for (int k = 0; k < n; k++) { sorted[k] = d_id1[k]; if (d_id1[k] == 0 || d_id1[k] == UINT_MAX) reserved++; }
        qsort(sorted, n, sizeof(unsigned), cmp_u);
        for (int k = 1; k < n; k++) if (sorted[k] == sorted[k - 1]) dups++;
        qthread_fill(&d_go2);
        for (int k = 0; k < n; k++) { qthread_readFF(NULL, &d_ret[k]); if (d_id2[k] != d_id1[k] || d_fld[k] != d_id1[k]) unstable++; }
    }
    alarm(0);
    printf("D %d %d %ld %ld %ld\nE\n", n, rounds, dups, reserved, unstable);
    fflush(stdout);
}

int main(void)
{
    static char line[1 << 16];
    signal(SIGALRM, on_alarm);
    if (qthread_initialize() != 0) { printf("INITFAIL\n"); return 2; }
    printf("H %u %u %u %u %u %zu\n", (unsigned)qthread_num_shepherds(), (unsigned)qthread_num_workers(),
           (unsigned)qlib->qthread_argcopy_size, (unsigned)qlib->qthread_tasklocal_size, (unsigned)qlib->qthread_stack_size, sizeof(qthread_t));
    fflush(stdout);
    while (fgets(line, sizeof line, stdin)) {
        if (line[0] == 'C') {
            unsigned long long c; int neg = 0;
            if (sscanf(line + 1, " -%llu", &c) == 1) neg = 1; else sscanf(line + 1, "%llu", &c);
            if (!neg) qlib->max_thread_id = (aligned_t)c;
            preset = neg ? -1 : 1;
        } else if (line[0] == 'T') {
            char *p = line + 1; int t = strtol(p, &p, 10);
            slot_t *sl = &S[t];
            sl->used = 1; sl->argsz = strtoul(p, &p, 10); sl->shep = strtol(p, &p, 10); sl->nops = 0;
            for (;;) {
                while (*p == ' ') p++;
                if (!*p || *p == '\n') break;
                sl->ops[sl->nops].k = *p++; sl->ops[sl->nops].arg = strtol(p, &p, 10); sl->nops++;
            }
        } else if (line[0] == 'S') {
            static int order[MAXT * MAXOPS]; int n = 0; char *p = line + 1;
            for (;;) { char *e; long v = strtol(p, &e, 10); if (e == p) break; p = e; order[n++] = (int)v; }
            stepped = 1; run_case(order, n); reset_case();
        } else if (line[0] == 'R') {
            stepped = 0; run_case(NULL, 0); reset_case();
        } else if (line[0] == 'D') {
            int n = 256, rounds = 1; sscanf(line + 1, "%d %d", &n, &rounds);
            run_idrace(n, rounds);
        } else if (line[0] == 'Q') break;
    }
    fflush(stdout);
    return 0;
}
