/* gen_int60.c -- wrapper functions that just apply the macros INT64TOINT60 / INT60TOINT64 (include/qthread/qthread.h)
 * and BUILD_UNLOCKED_SYNCVAR (src/syncvar.c), so that tools/ctrans.py can translate them (clang sees the macros
 * expanded) and lib/verif/props/_gen.py can run them (with -DGEN_MAIN).  The macros come from the working tree. */
#include <stdint.h>
#include <stdio.h>
#include <qthread/qthread.h>
#include "syncvar.c"

uint64_t gen_INT64TOINT60(uint64_t x)
{
    return INT64TOINT60(x);
}

int64_t gen_INT60TOINT64(uint64_t x)
{
    return INT60TOINT64(x);
}

uint64_t gen_BUILD_UNLOCKED_SYNCVAR(uint64_t data, uint64_t state)
{
    return BUILD_UNLOCKED_SYNCVAR(data, state);
}

#ifdef GEN_MAIN
int main(void)
{
    char line[256];

    while (fgets(line, sizeof line, stdin)) {
        unsigned long a = 0, b = 0;
        if (line[0] == 'A' && sscanf(line + 1, "%lu", &a) == 1) {
            printf("a %lu\n", (unsigned long)gen_INT64TOINT60(a));
        } else if (line[0] == 'B' && sscanf(line + 1, "%lu", &a) == 1) {
            printf("b %ld\n", (long)gen_INT60TOINT64(a));
        } else if (line[0] == 'C' && sscanf(line + 1, "%lu %lu", &a, &b) == 2) {
            printf("c %lu\n", (unsigned long)gen_BUILD_UNLOCKED_SYNCVAR(a, b));
        } else if (line[0] == 'Q') {
            break;
        }
        fflush(stdout);
    }
    return 0;
}
#endif
