/* C04/C07 harness: runs one scripted task tree on the REAL runtime (white-box TUs c04_wb_*.c built from the working tree)
 * and dumps a totally ordered event log (seq = one __sync_fetch_and_add).
 *
 * stdin  : script (see lib/verif/props/c04.py); stdout: "H ..." header, one line per event, "END".
 * mode   : argv[1] == "probe": M1 probe of qthread_thread_new for the sizes on stdin.
 *
 * Log lines: "<seq> <kind> <thr> a b c d e f".   thr = shep*256+worker for a worker pthread, 100000+k for other pthreads.
 * Kernel events (from the interposed calls):
 *   A addr big                       descriptor allocated (qt_mpool_alloc on a qthread pool)
 *   F addr big                       descriptor freed
 *   Q addr shep head flags target state tu   enqueue on shep's ready queue (logged BEFORE the real enqueue); tu 0 qthread.c 1 feb 2 syncvar 3 io
 *   G addr shep worker flags target state activearg    qt_scheduler_get_thread returned (logged AFTER)
 *   R result                         qthread_find_active_shepherd returned shepherd id (or 65535 for NULL)
 *   I addr                           task handed to the blocking subsystem
 * User-level events (from task bodies / callers):
 *   S parent child variant target asize srccks    spawn call about to be made ;  s child rc   spawn returned
 *   B tag addr shep packedworker cks ptrok        body started ; r tag shep packedworker point   resumed after a suspension point
 *   p tag op arg                                  about to execute a suspension op ; E tag   body finished
 *   M tag rc shep packedworker h                  migrate_to returned
 *   d s / D s rc                                  disable about to be called / returned ; e s / f s  enable about to be called / returned
 *   W k v                                         store into user memory (scribble of spawn source k)
 */
#ifdef HAVE_CONFIG_H
# include "config.h"
#endif
#include <stdio.h>
#include <stdlib.h>
#include <string.h>
#include <stdint.h>
#include <unistd.h>
#include <signal.h>
#include <fcntl.h>
#include <pthread.h>
#include <sched.h>
#include "qthread/qthread.h"
#include "qthread/sinc.h"
#include "qthread/qt_syscalls.h"
#include "qt_visibility.h"
#include "qthread_innards.h"
#include "qt_shepherd_innards.h"
#include "qt_qthread_struct.h"
#include "qt_threadqueues.h"
#include "qt_mpool.h"
#include "qt_io.h"

extern qt_mpool generic_qthread_pool, generic_big_qthread_pool;
extern qthread_t *qthread_internal_self(void);
void c04_probe_thread_new(size_t asize, FILE *out);

/* ------------------------------------------------------------------ log */
typedef struct { uint64_t a, b, c, d, e, f; uint32_t thr; char kind; } ev_t;
#define LOGCAP (1u << 20)
static ev_t             *evlog;
static volatile uint64_t evn;
static volatile int      logging = 0;
static __thread int      ext_id  = 0;
static volatile int      ext_next = 0;

static uint32_t my_thr(void)
{
    qthread_worker_t *w = (qthread_worker_t *)TLS_GET(shepherd_structs);
    if (w) { return (uint32_t)w->shepherd->shepherd_id * 256u + (uint32_t)w->worker_id; }
    if (!ext_id) { ext_id = __sync_add_and_fetch(&ext_next, 1); }
    return 100000u + (uint32_t)ext_id;
}

static void LOG(char kind, uint64_t a, uint64_t b, uint64_t c, uint64_t d, uint64_t e, uint64_t f)
{
    if (!logging) return;
    uint64_t i = __sync_fetch_and_add(&evn, 1);
    if (i >= LOGCAP) return;
    ev_t *x = &evlog[i];
    x->a = a; x->b = b; x->c = c; x->d = d; x->e = e; x->f = f; x->thr = my_thr(); x->kind = kind;
}

static void dump(const char *status)
{
    uint64_t n = evn < LOGCAP ? evn : LOGCAP;
    __sync_synchronize();
    for (uint64_t i = 0; i < n; i++) {
        ev_t *x = &evlog[i];
        if (!x->kind) { printf("%llu ? 0 0 0 0 0 0 0\n", (unsigned long long)i); continue; }
        printf("%llu %c %u %llu %llu %llu %llu %llu %llu\n", (unsigned long long)i, x->kind, x->thr,
               (unsigned long long)x->a, (unsigned long long)x->b, (unsigned long long)x->c,
               (unsigned long long)x->d, (unsigned long long)x->e, (unsigned long long)x->f);
    }
    printf("%s %llu\n", status, (unsigned long long)evn);
    fflush(stdout);
}

/* ------------------------------------------------------------------ interposed calls (real names here) */
static unsigned shep_of_queue(qt_threadqueue_t *q)
{
    for (unsigned i = 0; i < qlib->nshepherds; i++) if (qlib->shepherds[i].ready == q) return i;
    return 65534;
}

void c04_enq_tu(qt_threadqueue_t *q, qthread_t *t, int head, int tu)
{
    LOG('Q', (uintptr_t)t, shep_of_queue(q), head, t->flags, t->target_shepherd == NO_SHEPHERD ? 65535 : t->target_shepherd,
        (uint64_t)t->thread_state + 16 * (uint64_t)tu);
    if (head) qt_threadqueue_enqueue_yielded(q, t); else qt_threadqueue_enqueue(q, t);
}
/* every white-box TU passes through its own thin symbol, so the log says which file enqueued */
#define ENQ_SYMS(n) void c04_enq_tail##n(qt_threadqueue_t *q, qthread_t *t) { c04_enq_tu(q, t, 0, n); } \
                    void c04_enq_head##n(qt_threadqueue_t *q, qthread_t *t) { c04_enq_tu(q, t, 1, n); }
ENQ_SYMS(0) ENQ_SYMS(1) ENQ_SYMS(2) ENQ_SYMS(3)

qthread_t *c04_get_thread(qt_threadqueue_t *q, qt_threadqueue_private_t *qc, uint_fast8_t active)
{
    qthread_t *t = qt_scheduler_get_thread(q, qc, active);
    if (logging && t->thread_state != QTHREAD_STATE_TERM_SHEP) {
        qthread_worker_t *w = (qthread_worker_t *)TLS_GET(shepherd_structs);
        LOG('G', (uintptr_t)t, w->shepherd->shepherd_id, w->worker_id, t->flags,
            t->target_shepherd == NO_SHEPHERD ? 65535 : t->target_shepherd, (uint64_t)t->thread_state + 16 * (uint64_t)(active ? 1 : 0));
    }
    return t;
}

qthread_shepherd_t *c04_fas(qthread_shepherd_id_t *l, unsigned int *d)
{
    qthread_shepherd_t *r = qthread_find_active_shepherd(l, d);
    LOG('R', r ? r->shepherd_id : 65535, 0, 0, 0, 0, 0);
    return r;
}

void c04_io_enq(qt_blocking_queue_node_t *job)
{
    LOG('I', (uintptr_t)job->thread, 0, 0, 0, 0, 0);
    qt_blocking_subsystem_enqueue(job);
}

int c04_last_pool = -1;      /* 0 small descriptor pool, 1 big descriptor pool: read by the thread_new probe */
void *c04_pool_alloc(qt_mpool pool)
{
    void *p = qt_mpool_alloc(pool);
    if (pool == generic_qthread_pool) c04_last_pool = 0; else if (pool == generic_big_qthread_pool) c04_last_pool = 1;
    if (pool == generic_qthread_pool) LOG('A', (uintptr_t)p, 0, 0, 0, 0, 0);
    else if (pool == generic_big_qthread_pool) LOG('A', (uintptr_t)p, 1, 0, 0, 0, 0);
    return p;
}

void c04_pool_free(qt_mpool pool, void *mem)
{
    if (pool == generic_qthread_pool) LOG('F', (uintptr_t)mem, 0, 0, 0, 0, 0);
    else if (pool == generic_big_qthread_pool) LOG('F', (uintptr_t)mem, 1, 0, 0, 0, 0);
    qt_mpool_free(pool, mem);
}

/* ------------------------------------------------------------------ script */
#define MAXT 512
#define MAXOPS 48
#define MAXG 256
typedef struct { char op; int arg; } op_t;
typedef struct {
    uint32_t  tag;          /* first field: the pointer handed to arg_size==0 variants points here */
    uint32_t  size;
    int       variant, target, asize, retkind, pre, nops, defined;
    op_t      ops[MAXOPS];
    unsigned char *src;
    uint64_t  srccks;
    aligned_t ret;
    syncvar_t sret;
    qt_sinc_t *sinc;
    aligned_t sincval;
} task_t;
static task_t    T[MAXT];
static int       ntasks = 0;          /* number of spawned tasks (tags 1..) */
static aligned_t gate[MAXG];
static syncvar_t sgate[MAXG];
static aligned_t alldone, donecount;
static int       fdzero = -1;
static int       disabled[256];
static volatile int holdflag[16];
static volatile int started[MAXT];

static uint64_t fnv(const unsigned char *p, size_t n)
{
    uint64_t h = 1469598103934665603ULL;
    for (size_t i = 0; i < n; i++) { h ^= p[i]; h *= 1099511628211ULL; }
    return h & 0xffffffffffffULL;     /* 48 bits: fits every consumer */
}

static aligned_t body(void *arg);
static void run_prog(task_t *t);
static void sinc_add(void *tgt, const void *src);

static void where(uint64_t *shep, uint64_t *pw)
{
    *shep = qthread_shep();
    *pw   = qthread_worker(NULL);
}

enum { V_FORK, V_FORK_TO, V_COPYARGS, V_COPYARGS_TO, V_SYNCVAR, V_SYNCVAR_TO, V_SYNCVAR_COPYARGS, V_SYNCVAR_COPYARGS_SIMPLE,
       V_PRECOND, V_PRECOND_TO, V_PRECOND_SIMPLE, V_COPYARGS_PRECOND, V_NEW_TEAM, V_NEW_SUBTEAM, V_NEW_TEAM_TO,
       V_SYNCVAR_NEW_TEAM, V_SYNCVAR_NEW_SUBTEAM, V_COPYARGS_NEW_TEAM, V_COPYARGS_NEW_SUBTEAM, V_SYNCVAR_COPYARGS_TO,
       V_NET, V_SPAWN_SINC, V_SPAWN_SINC_VOID, V_COUNT };

static int do_spawn(int parent, int child)
{
    task_t *c = &T[child];
    void *arg; size_t asz = (size_t)c->asize;
    if (asz) {
        c->src = malloc(asz);
        for (size_t i = 0; i < asz; i++) c->src[i] = (unsigned char)((i * 2654435761u + child * 97u) >> 3);
        uint32_t hdr[2] = { (uint32_t)child, (uint32_t)asz };
        memcpy(c->src, hdr, asz < 8 ? asz : 8);
        c->srccks = fnv(c->src, asz);
        arg = c->src;
    } else {
        c->srccks = 0;
        arg = &c->tag;
    }
    qthread_shepherd_id_t tgt = (c->target < 0) ? NO_SHEPHERD : (qthread_shepherd_id_t)c->target;
    aligned_t *r  = (c->retkind == 1) ? &c->ret : NULL;
    syncvar_t *sr = (c->retkind == 2) ? &c->sret : NULL;
    aligned_t *pg = (c->pre >= 0) ? &gate[c->pre] : NULL;
    int rc = -99;
    LOG('S', parent, child, c->variant, c->target < 0 ? 65535 : c->target, asz, c->srccks);
    switch (c->variant) {
        case V_FORK:                     rc = qthread_fork(body, arg, r); break;
        case V_FORK_TO:                  rc = qthread_fork_to(body, arg, r, tgt); break;
        case V_COPYARGS:                 rc = qthread_fork_copyargs(body, arg, asz, r); break;
        case V_COPYARGS_TO:              rc = qthread_fork_copyargs_to(body, arg, asz, (syncvar_t *)r, tgt); break; /* a syncvar location since /repo f9ee21a (the ret kind used for joining comes from the generated table) */
        case V_SYNCVAR:                  rc = qthread_fork_syncvar(body, arg, sr); break;
        case V_SYNCVAR_TO:               rc = qthread_fork_syncvar_to(body, arg, sr, tgt); break;
        case V_SYNCVAR_COPYARGS:         rc = qthread_fork_syncvar_copyargs(body, arg, asz, sr); break;
        case V_SYNCVAR_COPYARGS_SIMPLE:  rc = qthread_fork_syncvar_copyargs_simple(body, arg, asz, sr); break;
        case V_PRECOND:                  rc = pg ? qthread_fork_precond(body, arg, r, 1, pg) : qthread_fork_precond(body, arg, r, 0); break;
        case V_PRECOND_TO:               rc = pg ? qthread_fork_precond_to(body, arg, r, tgt, 1, pg) : qthread_fork_precond_to(body, arg, r, tgt, 0); break;
        case V_PRECOND_SIMPLE:           rc = pg ? qthread_fork_precond_simple(body, arg, r, 1, pg) : qthread_fork_precond_simple(body, arg, r, 0); break;
        case V_COPYARGS_PRECOND:         rc = pg ? qthread_fork_copyargs_precond(body, arg, asz, sr, 1, pg) : qthread_fork_copyargs_precond(body, arg, asz, sr, 0); break;
        case V_NEW_TEAM:                 rc = qthread_fork_new_team(body, arg, r); break;
        case V_NEW_SUBTEAM:              rc = qthread_fork_new_subteam(body, arg, r); break;
        case V_NEW_TEAM_TO:              rc = qthread_fork_new_team_to(body, arg, r, tgt); break;
        case V_SYNCVAR_NEW_TEAM:         rc = qthread_fork_syncvar_new_team(body, arg, sr); break;
        case V_SYNCVAR_NEW_SUBTEAM:      rc = qthread_fork_syncvar_new_subteam(body, arg, sr); break;
        case V_COPYARGS_NEW_TEAM:        rc = qthread_fork_copyargs_new_team(body, arg, asz, r); break;
        case V_COPYARGS_NEW_SUBTEAM:     rc = qthread_fork_copyargs_new_subteam(body, arg, asz, r); break;
        case V_SYNCVAR_COPYARGS_TO:      rc = qthread_fork_syncvar_copyargs_to(body, arg, asz, sr, tgt); break;
        case V_NET:                      rc = qthread_fork_net(body, arg, r); break;
        case V_SPAWN_SINC:
            c->sincval = 0; c->sinc = qt_sinc_create(sizeof(aligned_t), &c->sincval, sinc_add, 1);
            rc = qthread_spawn(body, arg, asz, c->sinc, 0, NULL, tgt, QTHREAD_SPAWN_RET_SINC); break;
        case V_SPAWN_SINC_VOID:
            c->sinc = qt_sinc_create(0, NULL, NULL, 1);
            rc = qthread_spawn(body, arg, asz, c->sinc, 0, NULL, tgt, QTHREAD_SPAWN_RET_SINC_VOID); break;
    }
    LOG('s', child, (uint64_t)(int64_t)rc & 0xffffffffULL, 0, 0, 0, 0);
    if (asz) {                       /* the caller's buffer is dead right after the call returns */
        memset(c->src, 0xA5, asz);
        LOG('W', child, 0xA5, 0, 0, 0, 0);
    }
    return rc;
}

typedef struct { int parent, child; } xs_t;
static void *ext_spawner(void *p)
{
    xs_t *x = (xs_t *)p;
    do_spawn(x->parent, x->child);
    return NULL;
}

static void sinc_add(void *tgt, const void *src) { *(aligned_t *)tgt += *(const aligned_t *)src; }

static void wait_child(task_t *c)
{
    aligned_t v = 0; uint64_t sv = 0;
    switch (c->retkind) {
        case 1: qthread_readFF(&v, &c->ret); break;
        case 2: qthread_syncvar_readFF(&sv, &c->sret); v = sv; break;
        case 3: qt_sinc_wait(c->sinc, &v); break;
        case 4: qt_sinc_wait(c->sinc, NULL); v = c->tag + 1000; break;
        default: return;
    }
    LOG('w', c->tag, v, 0, 0, 0, 0);
}

static void run_prog(task_t *t)
{
    uint64_t sh, pw; aligned_t tmp; uint64_t stmp; char byte;
    for (int i = 0; i < t->nops; i++) {
        op_t o = t->ops[i];
        switch (o.op) {
            case 'y': LOG('p', t->tag, 'y', 0, i, 0, 0); qthread_yield(); where(&sh, &pw); LOG('r', t->tag, sh, pw, i, 0, 0); break;
            case 'n': LOG('p', t->tag, 'n', 0, i, 0, 0); qthread_yield_near(); where(&sh, &pw); LOG('r', t->tag, sh, pw, i, 0, 0); break;
            case 'b': LOG('p', t->tag, 'b', o.arg, i, 0, 0); qthread_readFF(&tmp, &gate[o.arg]); where(&sh, &pw); LOG('r', t->tag, sh, pw, i, 0, 0); break;
            case 'v': LOG('p', t->tag, 'v', o.arg, i, 0, 0); qthread_syncvar_readFF(&stmp, &sgate[o.arg]); where(&sh, &pw); LOG('r', t->tag, sh, pw, i, 0, 0); break;
            case 'f': LOG('p', t->tag, 'f', o.arg, i, 0, 0); qthread_writeF_const(&gate[o.arg], 1); break;
            case 'g': LOG('p', t->tag, 'g', o.arg, i, 0, 0); qthread_syncvar_writeF_const(&sgate[o.arg], 1); break;
            case 'm': {
                qthread_shepherd_id_t h = (o.arg < 0) ? NO_SHEPHERD : (qthread_shepherd_id_t)o.arg;
                LOG('p', t->tag, 'm', o.arg < 0 ? 65535 : o.arg, i, 0, 0);
                int rc = qthread_migrate_to(h);
                where(&sh, &pw);
                LOG('M', t->tag, (uint64_t)(int64_t)rc & 0xffffffffULL, sh, pw, o.arg < 0 ? 65535 : o.arg, 0);
                break;
            }
            case 's': LOG('p', t->tag, 's', 0, i, 0, 0); (void)qt_pread(fdzero, &byte, 1, 0); where(&sh, &pw); LOG('r', t->tag, sh, pw, i, 0, 0); break;
            case 'c': do_spawn(t->tag, o.arg); break;
            case 'x': { pthread_t th; xs_t x = { (int)t->tag, o.arg }; pthread_create(&th, NULL, ext_spawner, &x); pthread_join(th, NULL); break; }
            case 'w': LOG('p', t->tag, 'w', o.arg, i, 0, 0); wait_child(&T[o.arg]); where(&sh, &pw); LOG('r', t->tag, sh, pw, i, 0, 0); break;
            case 'D': { LOG('d', o.arg, 0, 0, 0, 0, 0); int rc = qthread_disable_shepherd(o.arg);
                        if (rc == QTHREAD_SUCCESS) disabled[o.arg & 255] = 1;
                        LOG('D', o.arg, (uint64_t)(int64_t)rc & 0xffffffffULL, 0, 0, 0, 0); break; }
            case 'E': LOG('e', o.arg, 0, 0, 0, 0, 0); qthread_enable_shepherd(o.arg); disabled[o.arg & 255] = 0; LOG('f', o.arg, 0, 0, 0, 0, 0); break;
            /* steal-layout control (no runtime calls, no events): hold a worker, release it, wait until a task has started */
            case 'h': while (!holdflag[o.arg & 15]) { __asm__ __volatile__ ("pause" ::: "memory"); } break;
            case 'r': holdflag[o.arg & 15] = 1; __sync_synchronize(); break;
            case 'a': while (!started[o.arg]) { sched_yield(); } break;
            case 'u': { volatile unsigned k = 0; for (unsigned j = 0; j < (unsigned)o.arg * 1000u; j++) k += j; break; }
        }
    }
}

static aligned_t body(void *arg)
{
    uint32_t tag;
    memcpy(&tag, arg, 4);
    uint64_t sh, pw;
    where(&sh, &pw);
    if (tag == 0 || tag >= MAXT || !T[tag].defined) {           /* argument unusable */
        LOG('B', 99999, (uintptr_t)qthread_internal_self(), sh, pw, tag, 0);
        return 0;
    }
    task_t *t = &T[tag];
    uint64_t cks = t->asize ? fnv((unsigned char *)arg, (size_t)t->asize) : 0;
    int ptrok = t->asize ? ((unsigned char *)arg != t->src) : (arg == (void *)&t->tag);
    LOG('B', tag, (uintptr_t)qthread_internal_self(), sh, pw, cks, ptrok);
    started[tag] = 1;
    run_prog(t);
    LOG('E', tag, 0, 0, 0, 0, 0);
    if (qthread_incr(&donecount, 1) + 1 == (aligned_t)ntasks) qthread_writeF_const(&alldone, 1);
    return tag + 1000;
}

static void on_alarm(int sig)
{
    dump("TIMEOUT");
    _exit(3);
}

static void parse_ops(task_t *t, char *s)
{
    t->nops = 0;
    if (!strcmp(s, "-")) return;
    for (char *tok = strtok(s, ","); tok && t->nops < MAXOPS; tok = strtok(NULL, ",")) {
        t->ops[t->nops].op  = tok[0];
        t->ops[t->nops].arg = tok[1] ? atoi(tok + 1) : 0;
        t->nops++;
    }
}

int main(int argc, char **argv)
{
    char line[4096];
    int  watchdog = 30;
    setvbuf(stdout, NULL, _IOFBF, 1 << 20);
    if (argc > 1 && !strcmp(argv[1], "probe")) {
        qthread_initialize();
        printf("H %u %u %u\n", (unsigned)qthread_num_shepherds(), (unsigned)qlib->nworkerspershep, (unsigned)qlib->qthread_argcopy_size);
        fflush(stdout);
        while (fgets(line, sizeof line, stdin)) { c04_probe_thread_new((size_t)atol(line), stdout); fflush(stdout); }
        _exit(0);
    }
    /* script: "T tag variant target asize retkind pre ops" | "K watchdog_seconds" */
    while (fgets(line, sizeof line, stdin)) {
        if (line[0] == 'K') { watchdog = atoi(line + 1); continue; }
        if (line[0] != 'T') continue;
        int tag, variant, target, asize, retkind, pre; char ops[3500];
        if (sscanf(line, "T %d %d %d %d %d %d %3499s", &tag, &variant, &target, &asize, &retkind, &pre, ops) != 7) { printf("BADSCRIPT\n"); return 2; }
        if (tag < 0 || tag >= MAXT) { printf("BADSCRIPT\n"); return 2; }
        task_t *t = &T[tag];
        t->tag = tag; t->size = asize; t->variant = variant; t->target = target; t->asize = asize; t->retkind = retkind; t->pre = pre; t->defined = 1;
        t->sret = SYNCVAR_INITIALIZER;
        parse_ops(t, ops);
        if (tag > 0) ntasks++;
    }
    evlog = calloc(LOGCAP, sizeof(ev_t));
    signal(SIGALRM, on_alarm);
    alarm(watchdog);
    qthread_initialize();
    fdzero = open("/dev/zero", O_RDONLY);
    for (int i = 0; i < MAXG; i++) { qthread_empty(&gate[i]); sgate[i] = SYNCVAR_EMPTY_INITIALIZER; }
    qthread_empty(&alldone);
    unsigned ns = qlib->nshepherds, nw = qlib->nworkerspershep;
    printf("H %u %u %u %llu\n", ns, nw, (unsigned)qlib->qthread_argcopy_size, (unsigned long long)(uintptr_t)qlib->mccoy_thread);
    for (unsigned i = 0; i < ns; i++) {
        printf("L %u", i);
        for (unsigned j = 0; j + 1 < ns; j++) printf(" %u:%u", (unsigned)qlib->shepherds[i].sorted_sheplist[j], qlib->shepherds[i].shep_dists[qlib->shepherds[i].sorted_sheplist[j]]);
        printf("\n");
    }
    fflush(stdout);              /* a crash of the real code later on must not take the header with it */
    __sync_synchronize();
    logging = 1;
    T[0].tag = 0;
    run_prog(&T[0]);
    if (ntasks > 0) {
        aligned_t v; uint64_t sh, pw;
        LOG('p', 0, 'W', 0, 999, 0, 0);
        qthread_readFF(&v, &alldone);
        where(&sh, &pw);
        LOG('r', 0, sh, pw, 999, 0, 0);
    }
    /* let the last descriptors be released by their workers before the log is cut */
    usleep(3000);    /* no yield-spinning here: the main task stays on worker 0 */
    logging = 0;
    __sync_synchronize();
    alarm(0);
    dump("END");
    _exit(0);
}
