/* C20 harness: drives the REAL blocking-call proxy code of the working tree.
 * White-box: includes io.c and the job-using wrappers of src/syscalls with
 *   - ALLOC_SYSCALLJOB / FREE_SYSCALLJOB redefined to log every alloc/free of a job record (site = proxy | wrapper),
 *   - the system calls, qthread_exec and qt_threadqueue_enqueue inside io.c redirected to logging shims,
 *   - qt_blocking_subsystem_enqueue (the worker's hand-off) wrapped.
 * No edits to /repo.  stdin: one command per line; stdout: result lines, then the event log (see lib/verif/props/c20.py). */
#ifdef HAVE_CONFIG_H
# include "config.h"
#endif
#define _GNU_SOURCE 1
#include <qthread/qthread-int.h>
#include <stdio.h>
#include <stdlib.h>
#include <string.h>
#include <errno.h>
#include <signal.h>
#include <fcntl.h>
#include <pthread.h>
#include <sys/time.h>
#include <sys/syscall.h>
#include <unistd.h>
#include <sys/socket.h>
#include <sys/un.h>
#include <sys/types.h>
#include <sys/stat.h>
#include <sys/ioctl.h>
#include <time.h>
#include <poll.h>
#include <sys/uio.h>
#include <sys/select.h>
#include <sys/resource.h>
#include <sys/wait.h>
#include <sys/mman.h>

#include <qthread/qthread.h>
#include "qt_io.h"
#include "qt_macros.h"
#include "qt_asserts.h"
#include "qthread_innards.h"
#include "qt_threadqueues.h"
#include "qt_debug.h"
#include "qt_envariables.h"
#include "qt_subsystems.h"
#include "qt_qthread_mgmt.h"
#include "qthread/qt_syscalls.h"

/* ------------------------------------------------------------------ event log */
enum { K_CALL = 1, K_ALLOC, K_HANDOFF, K_SYS, K_SYSDONE, K_REQUEUE, K_FREE, K_RET, K_ENDCALL, K_ENDRET, K_DBLFREE };
typedef struct { uint64_t kind, who, v[7]; } ev_t;
#define LOGCAP (4u << 20)
static ev_t             *evlog;
static volatile uint64_t nlog = 0;
static volatile uint64_t handoffs = 0;

static void lg(int kind, uint64_t who, uint64_t a, uint64_t b, uint64_t c, uint64_t d, uint64_t e, uint64_t f, uint64_t g)
{
    uint64_t i = __sync_fetch_and_add(&nlog, 1);
    if (i >= LOGCAP) { return; }
    ev_t *x = &evlog[i];
    x->who = who; x->v[0] = a; x->v[1] = b; x->v[2] = c; x->v[3] = d; x->v[4] = e; x->v[5] = f; x->v[6] = g;
    __sync_synchronize();
    x->kind = kind;
}
#define SELFP ((uint64_t)pthread_self())

/* shadow ledger of job records: detects a second free before it reaches (and corrupts) the real pool */
#define SHN 4096
static struct { void *p; int live; } shadow[SHN];
static volatile int shlock = 0;
static int shadow_set(void *p, int live)   /* returns previous state (-1 unknown) */
{
    int prev = -1;
    while (__sync_lock_test_and_set(&shlock, 1)) ;
    unsigned h = (unsigned)(((uintptr_t)p >> 4) * 2654435761u) % SHN;
    for (unsigned k = 0; k < SHN; k++) {
        unsigned i = (h + k) % SHN;
        if (shadow[i].p == p) { prev = shadow[i].live; shadow[i].live = live; break; }
        if (shadow[i].p == NULL) { shadow[i].p = p; shadow[i].live = live; break; }
    }
    __sync_lock_release(&shlock);
    return prev;
}

enum { SITE_WRAPPER = 0, SITE_PROXY = 1 };
static void *c20_alloc(int site)
{
    qt_blocking_queue_node_t *j = qt_mpool_alloc(syscall_job_pool);
    int prev = shadow_set(j, 1);
    /* stale contents on purpose: every bit of the record set (slots: memcpy'd ints keep garbage above them; any further
     * field such as an error code starts as garbage, -1); the wrapper sets next/thread/op itself */
    memset(j, 0xff, sizeof(*j));
    j->ret = 0x5a5a5a5a5a5a5a5aLL;
    lg(K_ALLOC, SELFP, (uint64_t)j, site, qthread_id(), prev == 1, 0, 0, 0);
    return j;
}

static void c20_free(void *p, int site)
{
    qt_blocking_queue_node_t *j = p;
    int prev = shadow_set(j, 0);
    if (prev == 0) {            /* second free of the same record: report, do not corrupt the pool */
        lg(K_DBLFREE, SELFP, (uint64_t)j, site, 0, 0, 0, 0, 0);
        return;
    }
    lg(K_FREE, SELFP, (uint64_t)j, site, 0, 0, 0, 0, 0);
    memset(j, 0x6b, sizeof(*j));     /* poison: a read of ret (or any other field) after the free is visible as a wrong result */
    qt_mpool_free(syscall_job_pool, j);
}

#undef ALLOC_SYSCALLJOB
#undef FREE_SYSCALLJOB
#define ALLOC_SYSCALLJOB() c20_alloc(C20_SITE)
#define FREE_SYSCALLJOB(j) c20_free((j), C20_SITE)

/* ------------------------------------------------------------------ shims for what the proxy executes */
#define SHIM_PRE(id, a, b, c, d, e) lg(K_SYS, SELFP, id, (uint64_t)(int64_t)(a), (uint64_t)(int64_t)(b), (uint64_t)(int64_t)(c), (uint64_t)(int64_t)(d), (uint64_t)(int64_t)(e), 0)
#define SHIM_POST(r) do { int e_ = errno; lg(K_SYSDONE, SELFP, (uint64_t)(int64_t)(r), e_, 0, 0, 0, 0, 0); errno = e_; } while (0)
static int c20_accept(int s, struct sockaddr *a, socklen_t *l) { SHIM_PRE(0, s, (intptr_t)a, (intptr_t)l, 0, 0); int r = accept(s, a, l); SHIM_POST(r); return r; }
static int c20_connect(int s, const struct sockaddr *a, socklen_t l) { SHIM_PRE(1, s, (intptr_t)a, l, 0, 0); int r = connect(s, a, l); SHIM_POST(r); return r; }
static int c20_poll(struct pollfd *f, nfds_t n, int t) { SHIM_PRE(2, (intptr_t)f, n, t, 0, 0); int r = poll(f, n, t); SHIM_POST(r); return r; }
static ssize_t c20_read(int fd, void *b, size_t n) { SHIM_PRE(3, fd, (intptr_t)b, n, 0, 0); ssize_t r = read(fd, b, n); SHIM_POST(r); return r; }
static ssize_t c20_pread(int fd, void *b, size_t n, off_t o) { SHIM_PRE(4, fd, (intptr_t)b, n, o, 0); ssize_t r = pread(fd, b, n, o); SHIM_POST(r); return r; }
static int c20_select(int n, fd_set *r_, fd_set *w, fd_set *e, struct timeval *t) { SHIM_PRE(5, n, (intptr_t)r_, (intptr_t)w, (intptr_t)e, (intptr_t)t); int r = select(n, r_, w, e, t); SHIM_POST(r); return r; }
static int c20_system(const char *c) { SHIM_PRE(6, (intptr_t)c, 0, 0, 0, 0); int r = system(c); SHIM_POST(r); return r; }
static pid_t c20_wait4(pid_t p, int *st, int o, struct rusage *ru) { SHIM_PRE(7, p, (intptr_t)st, o, (intptr_t)ru, 0); pid_t r = wait4(p, st, o, ru); SHIM_POST(r); return r; }
static ssize_t c20_write(int fd, const void *b, size_t n) { SHIM_PRE(8, fd, (intptr_t)b, n, 0, 0); ssize_t r = write(fd, b, n); SHIM_POST(r); return r; }
static ssize_t c20_pwrite(int fd, const void *b, size_t n, off_t o) { SHIM_PRE(9, fd, (intptr_t)b, n, o, 0); ssize_t r = pwrite(fd, b, n, o); SHIM_POST(r); return r; }
static void c20_exec(qthread_t *t, qt_context_t *c) { SHIM_PRE(13, (intptr_t)t, 0, 0, 0, 0); qthread_exec(t, c); lg(K_SYSDONE, SELFP, 0, 0, 0, 0, 0, 0, 0); }
static void c20_requeue(qt_threadqueue_t *q, qthread_t *t)
{
    lg(K_REQUEUE, SELFP, (uint64_t)t, (uint64_t)t->rdata->blockedon.io, 0, 0, 0, 0, 0);
    qt_threadqueue_enqueue(q, t);
}

#define accept(a, b, c)              c20_accept(a, b, c)
#define connect(a, b, c)             c20_connect(a, b, c)
#define poll(a, b, c)                c20_poll(a, b, c)
#define read(a, b, c)                c20_read(a, b, c)
#define pread(a, b, c, d)            c20_pread(a, b, c, d)
#define select(a, b, c, d, e)        c20_select(a, b, c, d, e)
#define system(a)                    c20_system(a)
#define wait4(a, b, c, d)            c20_wait4(a, b, c, d)
#define write(a, b, c)               c20_write(a, b, c)
#define pwrite(a, b, c, d)           c20_pwrite(a, b, c, d)
#define qthread_exec(t, c)           c20_exec(t, c)
#define qt_threadqueue_enqueue(q, t) c20_requeue(q, t)
#define qt_blocking_subsystem_enqueue c20_real_enqueue
#define C20_SITE SITE_PROXY
#include "io.c"
#undef C20_SITE
#undef accept
#undef connect
#undef poll
#undef read
#undef pread
#undef select
#undef system
#undef wait4
#undef write
#undef pwrite
#undef qthread_exec
#undef qt_threadqueue_enqueue
#undef qt_blocking_subsystem_enqueue

void INTERNAL qt_blocking_subsystem_enqueue(qt_blocking_queue_node_t *job)
{
    lg(K_HANDOFF, SELFP, (uint64_t)job, job->op, 0, 0, 0, 0, 0);
    __sync_fetch_and_add(&handoffs, 1);
    c20_real_enqueue(job);
}

#define C20_SITE SITE_WRAPPER
#include "syscalls/accept.c"
#include "syscalls/connect.c"
#include "syscalls/poll.c"
#include "syscalls/pread.c"
#include "syscalls/pwrite.c"
#include "syscalls/read.c"
#include "syscalls/select.c"
#include "syscalls/system.c"
#include "syscalls/user_defined.c"
#include "syscalls/wait4.c"
#include "syscalls/write.c"
#undef C20_SITE

extern unsigned int qt_sleep(unsigned int);
extern int          qt_usleep(useconds_t);
extern int          qt_nanosleep(const struct timespec *, struct timespec *);

/* errno must be re-located after every call that may park the task: it can resume on another worker pthread, and
 * __errno_location() is declared const, so the compiler would otherwise reuse the old thread's address */
static __attribute__((noinline)) int  cur_errno(void) { __asm__ volatile ("" ::: "memory"); return *__errno_location(); }
static __attribute__((noinline)) void set_errno(int v) { __asm__ volatile ("" ::: "memory"); *__errno_location() = v; }

/* ------------------------------------------------------------------ helpers */
static const char *scratch = "/var/tmp";
static int         uniq    = 0;

static volatile int stage = 0;
static void on_alarm(int s) { char m[64]; int n = snprintf(m, sizeof m, "TIMEOUT stage=%d\n", stage); (void)!syscall(SYS_write, 1, m, n); _exit(3); }

static uint64_t sm_next(uint64_t *s)
{
    uint64_t z = (*s += 0x9E3779B97F4A7C15ULL);
    z = (z ^ (z >> 30)) * 0xBF58476D1CE4E5B9ULL; z = (z ^ (z >> 27)) * 0x94D049BB133111EBULL; return z ^ (z >> 31);
}
static void fill(unsigned char *b, size_t n, uint64_t seed) { for (size_t i = 0; i < n; i++) b[i] = (unsigned char)(sm_next(&seed) >> 24); }
static uint64_t fnv(const unsigned char *b, size_t n, uint64_t h) { for (size_t i = 0; i < n; i++) { h ^= b[i]; h *= 1099511628211ULL; } return h; }
#define FNV0 1469598103934665603ULL

static int mkfile(size_t len, uint64_t seed, int flags)
{
    char p[256];
    snprintf(p, sizeof p, "%s/f%d_%d", scratch, (int)getpid(), __sync_fetch_and_add(&uniq, 1));
    int fd = open(p, O_RDWR | O_CREAT | O_TRUNC | flags, 0600);
    if (fd < 0) { perror("mkfile"); exit(4); }
    unlink(p);
    if (len) {
        unsigned char *b = malloc(len);
        fill(b, len, seed);
        if (syscall(SYS_pwrite64, fd, b, len, (off_t)0) != (ssize_t)len) { perror("mkfile write"); exit(4); }
        free(b);
    }
    return fd;
}

static void file_obs(int fd, char *o, size_t on)
{
    struct stat st; fstat(fd, &st);
    off_t    cur = lseek(fd, 0, SEEK_CUR);
    uint64_t h   = FNV0;
    /* hash at most the first and last 64 KiB (sparse files with huge offsets) */
    unsigned char buf[4096];
    off_t lim = st.st_size < 65536 ? st.st_size : 65536;
    for (off_t p = 0; p < lim; ) { ssize_t r = syscall(SYS_pread64, fd, buf, sizeof buf, p); if (r <= 0) break; h = fnv(buf, r, h); p += r; }
    if (st.st_size > 65536) { for (off_t p = st.st_size - 65536 > 65536 ? st.st_size - 65536 : 65536; p < st.st_size; ) { ssize_t r = syscall(SYS_pread64, fd, buf, sizeof buf, p); if (r <= 0) break; h = fnv(buf, r, h); p += r; } }
    snprintf(o, on, "size=%lld,off=%lld,h=%016llx", (long long)st.st_size, (long long)cur, (unsigned long long)h);
}

static void drain_obs(int fd, char *o, size_t on)   /* what is left to read on a pipe/socket end */
{
    int fl = fcntl(fd, F_GETFL); fcntl(fd, F_SETFL, fl | O_NONBLOCK);
    unsigned char buf[4096]; uint64_t h = FNV0; long n = 0;
    for (;;) { ssize_t r = syscall(SYS_read, fd, buf, sizeof buf); if (r <= 0) break; h = fnv(buf, r, h); n += r; }
    fcntl(fd, F_SETFL, fl);
    snprintf(o, on, "left=%ld,h=%016llx", n, (unsigned long long)h);
}

typedef struct { int fd; int delay_us; size_t n; uint64_t seed; } dw_t;
static void *delayed_writer(void *a)
{
    dw_t *d = a; struct timespec ts = { 0, d->delay_us * 1000L };
    syscall(SYS_nanosleep, &ts, NULL);
    unsigned char *b = malloc(d->n + 1); fill(b, d->n, d->seed);
    (void)!syscall(SYS_write, d->fd, b, d->n);
    free(b); free(d);
    return NULL;
}
static pthread_t start_writer(int fd, int delay_us, size_t n, uint64_t seed)
{
    dw_t *d = malloc(sizeof *d); d->fd = fd; d->delay_us = delay_us; d->n = n; d->seed = seed;
    pthread_t t; pthread_create(&t, NULL, delayed_writer, d); return t;
}

/* ------------------------------------------------------------------ scenarios: the same call, direct and through the wrapper */
enum { W_READ, W_PREAD, W_WRITE, W_PWRITE, W_POLL, W_SELECT, W_ACCEPT, W_CONNECT, W_WAIT4, W_SYSTEM, W_USER, W_SLEEP, W_TICKER };
typedef struct {
    int  idx, kind;
    long a[6];
    long ret[2]; int err[2]; char obs[2][400];
    int  returns;     /* how many times the code after the wrapper call ran */
} scen_t;

#define CALLLOG(wid, p0, p1, p2, p3, p4) lg(K_CALL, qthread_id(), s->idx, wid, (uint64_t)(int64_t)(p0), (uint64_t)(int64_t)(p1), (uint64_t)(int64_t)(p2), (uint64_t)(int64_t)(p3), (uint64_t)(int64_t)(p4))
#define RETLOG(r) do { int e_ = cur_errno(); lg(K_RET, qthread_id(), s->idx, (uint64_t)(int64_t)(r), e_, 0, 0, 0, 0); set_errno(e_); } while (0)

static volatile aligned_t ticker_count = 0, ticker_stop = 0, reader_done = 0;

static aligned_t ticker_task(void *a)
{
    while (!ticker_stop) { qthread_incr(&ticker_count, 1); qthread_yield(); }
    return 0;
}

/* region of a user-defined blocking action */
static int region_runs = 0;

static void one_side(scen_t *s, int w)   /* w = 0 direct, 1 wrapper */
{
    long  r = -99; int e = 0; char *o = s->obs[w]; size_t on = sizeof s->obs[w];
    unsigned char *buf = malloc(70000); memset(buf, 0xA5, 70000);
    o[0] = 0;
    switch (s->kind) {
        case W_READ: {   /* a: fdkind preload offset nbyte delayed */
            int fdk = s->a[0]; size_t m = s->a[1], n = s->a[3]; int fd = -1, other = -1, p[2]; pthread_t th; int hasth = 0;
            if (fdk == 0) { fd = mkfile(m, 11, 0); lseek(fd, s->a[2], SEEK_SET); }
            else if (fdk == 1 || fdk == 2) {
                if (fdk == 1) { if (pipe(p)) exit(4); fd = p[0]; other = p[1]; } else { if (socketpair(AF_UNIX, SOCK_STREAM, 0, p)) exit(4); fd = p[0]; other = p[1]; }
                if (s->a[4]) { th = start_writer(other, 3000, m, 12); hasth = 1; }
                else if (m) { unsigned char *d = malloc(m); fill(d, m, 12); (void)!syscall(SYS_write, other, d, m); free(d); }
                if (m == 0 && !s->a[4]) { close(other); other = -1; }   /* EOF */
            } else { fd = 987654; }
            set_errno(0);
            if (w) { CALLLOG(W_READ, fd, (intptr_t)buf, n, 0, 0); r = qt_read(fd, buf, n); RETLOG(r); } else { r = read(fd, buf, n); }
            e = cur_errno(); s->returns += w;
            if (hasth) pthread_join(th, NULL);
            size_t got = r > 0 ? ((size_t)r > n ? n : (size_t)r) : 0;   /* a wrapper that returns garbage must not crash the harness */
            uint64_t h = fnv(buf, got, FNV0); int canary = buf[got] == 0xA5;
            char t[200] = "";
            if (fdk == 0) file_obs(fd, t, sizeof t); else if (fdk != 3) drain_obs(fd, t, sizeof t);
            snprintf(o, on, "buf=%016llx,canary=%d,%s", (unsigned long long)h, canary, t);
            if (fdk != 3) close(fd);
            if (other >= 0) close(other);
            break;
        }
        case W_PREAD: {  /* a: fdkind filelen nbyte offset */
            int fdk = s->a[0]; size_t m = s->a[1], n = s->a[2]; off_t off = s->a[3]; int fd = -1, p[2] = { -1, -1 };
            if (fdk == 0) { fd = mkfile(m, 21, 0); lseek(fd, 7 % (m + 1), SEEK_SET); if (off > (1L << 31)) { (void)!syscall(SYS_pwrite64, fd, "tail-marker", 11, off); } }
            else if (fdk == 1) { if (pipe(p)) exit(4); fd = p[0]; (void)!syscall(SYS_write, p[1], "abc", 3); } else fd = 987654;
            set_errno(0);
            if (w) { CALLLOG(W_PREAD, fd, (intptr_t)buf, n, off, 0); r = qt_pread(fd, buf, n, off); RETLOG(r); } else { r = pread(fd, buf, n, off); }
            e = cur_errno(); s->returns += w;
            size_t got = r > 0 ? ((size_t)r > n ? n : (size_t)r) : 0;
            uint64_t h = fnv(buf, got, FNV0); char t[200] = "";
            if (fdk == 0) file_obs(fd, t, sizeof t); else if (fdk == 1) drain_obs(fd, t, sizeof t);
            snprintf(o, on, "buf=%016llx,canary=%d,%s", (unsigned long long)h, buf[got] == 0xA5, t);
            if (fdk != 3) close(fd);
            if (p[1] >= 0) close(p[1]);
            break;
        }
        case W_WRITE: {  /* a: fdkind filelen offset nbyte */
            int fdk = s->a[0]; size_t m = s->a[1], n = s->a[3]; int fd = -1, other = -1, p[2];
            if (fdk == 0 || fdk == 4) { fd = mkfile(m, 31, fdk == 4 ? O_APPEND : 0); lseek(fd, s->a[2], SEEK_SET); }
            else if (fdk == 1) { if (pipe(p)) exit(4); fd = p[1]; other = p[0]; }
            else if (fdk == 2) { if (socketpair(AF_UNIX, SOCK_STREAM, 0, p)) exit(4); fd = p[1]; other = p[0]; }
            else fd = 987654;
            fill(buf, n, 32); set_errno(0);
            if (w) { CALLLOG(W_WRITE, fd, (intptr_t)buf, n, 0, 0); r = qt_write(fd, buf, n); RETLOG(r); } else { r = write(fd, buf, n); }
            e = cur_errno(); s->returns += w;
            if (fdk == 0 || fdk == 4) file_obs(fd, o, on); else if (fdk != 3) drain_obs(other, o, on);
            if (fdk != 3) close(fd);
            if (other >= 0) close(other);
            break;
        }
        case W_PWRITE: { /* a: fdkind filelen nbyte offset */
            int fdk = s->a[0]; size_t m = s->a[1], n = s->a[2]; off_t off = s->a[3]; int fd = -1, other = -1, p[2];
            if (fdk == 0) { fd = mkfile(m, 41, 0); lseek(fd, 5 % (m + 1), SEEK_SET); }
            else if (fdk == 1) { if (pipe(p)) exit(4); fd = p[1]; other = p[0]; } else fd = 987654;
            fill(buf, n, 42); set_errno(0);
            if (w) { CALLLOG(W_PWRITE, fd, (intptr_t)buf, n, off, 0); r = qt_pwrite(fd, buf, n, off); RETLOG(r); } else { r = pwrite(fd, buf, n, off); }
            e = cur_errno(); s->returns += w;
            if (fdk == 0) file_obs(fd, o, on); else if (fdk == 1) drain_obs(other, o, on);
            if (fdk != 3) close(fd);
            if (other >= 0) close(other);
            break;
        }
        case W_POLL:
        case W_SELECT: { /* a: nfds readymask eventmask timeoutkind(0: 0, 1: 15 ms, 2: infinite) delayedmask */
            int n = s->a[0], pr[4][2]; struct pollfd pf[4]; pthread_t th[4]; int nth = 0;
            for (int i = 0; i < n; i++) {
                if (pipe(pr[i])) exit(4);
                if ((s->a[1] >> i) & 1) (void)!syscall(SYS_write, pr[i][1], "x", 1);
                if ((s->a[4] >> i) & 1) th[nth++] = start_writer(pr[i][1], 3000, 1, 5);
            }
            if (s->kind == W_POLL) {
                for (int i = 0; i < n; i++) { int wr = (s->a[2] >> i) & 1; pf[i].fd = wr ? pr[i][1] : pr[i][0]; pf[i].events = wr ? POLLOUT : POLLIN; pf[i].revents = 0x7000; }
                int to = s->a[3] == 0 ? 0 : s->a[3] == 1 ? 15 : -1;
                set_errno(0);
                if (w) { CALLLOG(W_POLL, (intptr_t)pf, n, to, 0, 0); r = qt_poll(pf, n, to); RETLOG(r); } else { r = poll(pf, n, to); }
                e = cur_errno(); s->returns += w;
                int k = 0; for (int i = 0; i < n; i++) k += snprintf(o + k, on - k, "%x.", (unsigned)pf[i].revents);
            } else {
                fd_set rs, ws, es; FD_ZERO(&rs); FD_ZERO(&ws); FD_ZERO(&es); int mx = 0; struct timeval tv, *tp;
                for (int i = 0; i < n; i++) { int wr = (s->a[2] >> i) & 1; int fd = wr ? pr[i][1] : pr[i][0]; FD_SET(fd, wr ? &ws : &rs); FD_SET(fd, &es); if (fd + 1 > mx) mx = fd + 1; }
                tv.tv_sec = 0; tv.tv_usec = s->a[3] == 1 ? 15000 : 0; tp = s->a[3] == 2 ? NULL : &tv;
                set_errno(0);
                if (w) { CALLLOG(W_SELECT, mx, (intptr_t)&rs, (intptr_t)&ws, (intptr_t)&es, (intptr_t)tp); r = qt_select(mx, &rs, &ws, &es, tp); RETLOG(r); } else { r = select(mx, &rs, &ws, &es, tp); }
                e = cur_errno(); s->returns += w;
                int k = 0; for (int i = 0; i < n; i++) { int wr = (s->a[2] >> i) & 1; int fd = wr ? pr[i][1] : pr[i][0]; k += snprintf(o + k, on - k, "%d%d%d.", FD_ISSET(fd, &rs) ? 1 : 0, FD_ISSET(fd, &ws) ? 1 : 0, FD_ISSET(fd, &es) ? 1 : 0); }
            }
            for (int i = 0; i < nth; i++) pthread_join(th[i], NULL);
            for (int i = 0; i < n; i++) { close(pr[i][0]); close(pr[i][1]); }
            break;
        }
        case W_ACCEPT: { /* a: mode(0 pending, 1 nonblocking none pending, 2 bad fd, 3 connection arrives later) withaddr */
            struct sockaddr_un sa, peer; socklen_t pl = sizeof peer; int ls = -1, c = -1;
            memset(&sa, 0, sizeof sa); sa.sun_family = AF_UNIX; memset(&peer, 0, sizeof peer);
            snprintf(sa.sun_path, sizeof sa.sun_path, "%s/s%d_%d", scratch, (int)getpid(), __sync_fetch_and_add(&uniq, 1));
            if (s->a[0] != 2) {
                ls = socket(AF_UNIX, SOCK_STREAM, 0); if (bind(ls, (struct sockaddr *)&sa, sizeof sa) || listen(ls, 4)) { perror("bind"); exit(4); }
                if (s->a[0] == 1) fcntl(ls, F_SETFL, O_NONBLOCK);
                if (s->a[0] == 0 || s->a[0] == 3) { c = socket(AF_UNIX, SOCK_STREAM, 0); if (syscall(SYS_connect, c, &sa, sizeof sa)) { perror("conn"); exit(4); } (void)!syscall(SYS_write, c, "hello", 5); }
            } else ls = 987654;
            set_errno(0);
            if (w) { CALLLOG(W_ACCEPT, ls, (intptr_t)(s->a[1] ? &peer : NULL), (intptr_t)(s->a[1] ? &pl : NULL), 0, 0); r = qt_accept(ls, s->a[1] ? (struct sockaddr *)&peer : NULL, s->a[1] ? &pl : NULL); RETLOG(r); }
            else { r = accept(ls, s->a[1] ? (struct sockaddr *)&peer : NULL, s->a[1] ? &pl : NULL); }
            e = cur_errno(); s->returns += w;
            char t[100] = "";
            if (r >= 0) { drain_obs(r, t, sizeof t); close(r); r = 1000; /* canonical: a new descriptor */ }
            snprintf(o, on, "fam=%d,len=%d,%s", s->a[1] ? (int)peer.sun_family : -1, s->a[1] ? (int)pl : -1, t);
            if (c >= 0) close(c);
            if (s->a[0] != 2) { close(ls); unlink(sa.sun_path); }
            break;
        }
        case W_CONNECT: { /* a: mode(0 listener, 1 no listener, 2 bad fd, 3 short address length) */
            struct sockaddr_un sa; int ls = -1, c = -1; socklen_t al = sizeof sa;
            memset(&sa, 0, sizeof sa); sa.sun_family = AF_UNIX;
            snprintf(sa.sun_path, sizeof sa.sun_path, "%s/s%d_%d", scratch, (int)getpid(), __sync_fetch_and_add(&uniq, 1));
            if (s->a[0] == 0 || s->a[0] == 3) { ls = socket(AF_UNIX, SOCK_STREAM, 0); if (bind(ls, (struct sockaddr *)&sa, sizeof sa) || listen(ls, 4)) { perror("bind"); exit(4); } }
            if (s->a[0] == 3) al = 1;
            c = s->a[0] == 2 ? 987654 : socket(AF_UNIX, SOCK_STREAM, 0);
            set_errno(0);
            if (w) { CALLLOG(W_CONNECT, c, (intptr_t)&sa, al, 0, 0); r = qt_connect(c, (struct sockaddr *)&sa, al); RETLOG(r); } else { r = connect(c, (struct sockaddr *)&sa, al); }
            e = cur_errno(); s->returns += w;
            int acc = -1;
            if (r == 0 && ls >= 0) { fcntl(ls, F_SETFL, O_NONBLOCK); acc = syscall(SYS_accept, ls, NULL, NULL); }
            snprintf(o, on, "peer_accepted=%d", acc >= 0);
            if (acc >= 0) close(acc);
            if (s->a[0] != 2) close(c);
            if (ls >= 0) { close(ls); unlink(sa.sun_path); }
            break;
        }
        case W_WAIT4: {  /* a: mode(0 child exits with code, 1 WNOHANG on a live child, 2 no such child) code withrusage */
            int st = 0x7777; struct rusage ru; memset(&ru, 0, sizeof ru); pid_t ch = -1; int hold[2] = { -1, -1 };
            if (s->a[0] != 2) {
                if (pipe(hold)) exit(4);
                ch = fork();
                if (ch == 0) { char c_; close(hold[1]); if (s->a[0] == 1) (void)!syscall(SYS_read, hold[0], &c_, 1); _exit((int)s->a[1]); }
                close(hold[0]);
            } else ch = 0x3fff0000 + 17;
            set_errno(0);
            if (w) { CALLLOG(W_WAIT4, ch, (intptr_t)&st, s->a[0] == 1 ? WNOHANG : 0, (intptr_t)(s->a[2] ? &ru : NULL), 0); r = qt_wait4(ch, &st, s->a[0] == 1 ? WNOHANG : 0, s->a[2] ? &ru : NULL); RETLOG(r); }
            else { r = wait4(ch, &st, s->a[0] == 1 ? WNOHANG : 0, s->a[2] ? &ru : NULL); }
            e = cur_errno(); s->returns += w;
            snprintf(o, on, "status=%x", (unsigned)st);
            if (r == ch && r > 0) r = 2000;   /* canonical: the child's pid */
            if (s->a[0] == 1) { close(hold[1]); syscall(SYS_wait4, ch, NULL, 0, NULL); } else if (hold[1] >= 0) close(hold[1]);
            break;
        }
        case W_SYSTEM: { /* a: which(0 exit code, 1 append to a file, 2 NULL command) code */
            char cmd[400], path[256]; snprintf(path, sizeof path, "%s/y%d_%d", scratch, (int)getpid(), __sync_fetch_and_add(&uniq, 1));
            if (s->a[0] == 0) snprintf(cmd, sizeof cmd, "exit %d", (int)s->a[1]); else snprintf(cmd, sizeof cmd, "echo line%d >> %s", (int)s->a[1], path);
            const char *cp = s->a[0] == 2 ? NULL : cmd;
            set_errno(0);
            if (w) { CALLLOG(W_SYSTEM, (intptr_t)cp, 0, 0, 0, 0); r = qt_system(cp); RETLOG(r); } else { r = system(cp); }
            e = cur_errno(); s->returns += w;
            if (s->a[0] == 1) { int fd = open(path, O_RDONLY); if (fd >= 0) { file_obs(fd, o, on); close(fd); unlink(path); } else snprintf(o, on, "nofile"); }
            if (s->a[0] == 2) r = (r != 0);
            break;
        }
        case W_USER: {   /* a: region(0 empty, 1 read of a pipe that is filled 3 ms later, 2 nanosleep 2 ms) ; direct side = the region alone */
            int p[2]; if (pipe(p)) exit(4); int on_worker_before = qthread_worker(NULL) != NO_WORKER, in_region_worker = -1, after_worker;
            long before = syscall(SYS_gettid), inreg; pthread_t th; int hasth = 0; long rr = 0;
            if (s->a[0] == 1) { th = start_writer(p[1], 3000, 6, 77); hasth = 1; }
            if (w) { CALLLOG(W_USER, 0, 0, 0, 0, 0); qt_begin_blocking_action(); RETLOG(0); }
            region_runs++;
            inreg = syscall(SYS_gettid);
            if (s->a[0] == 1) rr = syscall(SYS_read, p[0], buf, 100);
            if (s->a[0] == 2) { struct timespec ts = { 0, 2000000 }; rr = syscall(SYS_nanosleep, &ts, NULL); }
            if (w) { lg(K_ENDCALL, qthread_id(), s->idx, 0, 0, 0, 0, 0, 0); qt_end_blocking_action(); lg(K_ENDRET, qthread_id(), s->idx, 0, 0, 0, 0, 0, 0); }
            s->returns += w;
            after_worker = qthread_worker(NULL) != NO_WORKER;
            if (hasth) pthread_join(th, NULL);
            r = rr; e = 0;
            /* the region must have run on a pthread that is not a worker when wrapped; afterwards the task is on a worker again */
            if (w) snprintf(o, on, "region=%ld,moved=%d,back_on_worker=%d,before_on_worker=%d", rr, before != inreg, after_worker, on_worker_before);
            else snprintf(o, on, "region=%ld", rr);
            close(p[0]); close(p[1]);
            break;
        }
        case W_SLEEP: {  /* a: which(0 sleep, 1 usleep, 2 nanosleep) amount(us) */
            struct timespec t0, t1, rq = { s->a[1] / 1000000, (s->a[1] % 1000000) * 1000 }, rm = { 0, 0 };
            clock_gettime(CLOCK_MONOTONIC, &t0); set_errno(0);
            if (s->a[0] == 0) r = w ? qt_sleep((unsigned)(s->a[1] / 1000000)) : sleep((unsigned)(s->a[1] / 1000000));
            else if (s->a[0] == 1) r = w ? qt_usleep((useconds_t)s->a[1]) : usleep((useconds_t)s->a[1]);
            else r = w ? qt_nanosleep(&rq, &rm) : nanosleep(&rq, &rm);
            e = cur_errno(); s->returns += w;
            clock_gettime(CLOCK_MONOTONIC, &t1);
            long us = (t1.tv_sec - t0.tv_sec) * 1000000L + (t1.tv_nsec - t0.tv_nsec) / 1000;
            long want = s->a[0] == 0 ? (s->a[1] / 1000000) * 1000000 : s->a[1];
            snprintf(o, on, "slept_enough=%d", us >= want);
            break;
        }
    }
    s->ret[w] = r; s->err[w] = e;
    free(buf);
}

static aligned_t scen_task(void *a)
{
    scen_t *s = a;
    one_side(s, 0);
    one_side(s, 1);
    return 0;
}

/* reader blocked in qt_read on an empty pipe while a ticker shares its worker */
static scen_t *tick_s; static int tick_pipe[2];
static aligned_t blocked_reader(void *a)
{
    scen_t *s = tick_s; char b[8]; set_errno(0);
    CALLLOG(W_READ, tick_pipe[0], (intptr_t)b, 4, 0, 0);
    long r = qt_read(tick_pipe[0], b, 4);
    RETLOG(r);
    s->ret[1] = r; s->returns++; reader_done = 1;
    return 0;
}

/* runs as a task of its own: the main task (which sherwood only runs on worker 0 of shepherd 0) must not be woken while a
 * perpetually yielding task is runnable */
static aligned_t run_ticker(void *arg)
{
    scen_t *s = arg;
    aligned_t r1, r2; if (pipe(tick_pipe)) exit(4);
    tick_s = s; ticker_count = 0; ticker_stop = 0; reader_done = 0;
    uint64_t h0 = handoffs;
    qthread_fork(ticker_task, NULL, &r1);
    qthread_fork(blocked_reader, NULL, &r2);
    stage = 1;
    while (handoffs == h0) qthread_yield();
    aligned_t c0 = ticker_count;
    stage = 2;
    while (ticker_count < c0 + (aligned_t)s->a[0]) qthread_yield();
    stage = 3;
    int still_blocked = !reader_done;
    aligned_t c1 = ticker_count;
    (void)!syscall(SYS_write, tick_pipe[1], "data", 4);
    qthread_readFF(NULL, &r2);
    stage = 4;
    ticker_stop = 1;
    qthread_readFF(NULL, &r1);
    stage = 5;
    s->ret[0] = 4;
    snprintf(s->obs[0], sizeof s->obs[0], "progress=1,still_blocked=1");
    snprintf(s->obs[1], sizeof s->obs[1], "progress=%d,still_blocked=%d", c1 >= c0 + (aligned_t)s->a[0], still_blocked);
    close(tick_pipe[0]); close(tick_pipe[1]);
    return 0;
}

/* ------------------------------------------------------------------ long concurrent sequences */
typedef struct { int t, ncalls; uint64_t seed; long mism; char first[300]; long returns; int files_equal, pipes_equal; int blockers; } mt_t;
static int m_idx_base = 0;

static aligned_t multi_task(void *a)
{
    mt_t *m = a; scen_t fake, *s = &fake; uint64_t st = m->seed;
    int fa = mkfile(4096, 100 + m->t, 0), fb = mkfile(4096, 100 + m->t, 0), pa[2], pb[2];
    if (pipe(pa) || pipe(pb)) exit(4);
    unsigned char *da = malloc(8192), *db = malloc(8192), *src = malloc(8192);
    long pipefill = 0;
    for (int i = 0; i < m->ncalls; i++) {
        uint64_t x = sm_next(&st); int opk = x % 8; size_t n = (x >> 8) % 300; off_t off = (x >> 24) % 6000; long ra, rb; int bad = 0; const char *nm = "";
        if (((x >> 40) & 15) == 0) n = 0;
        s->idx = m_idx_base + m->t * m->ncalls + i;
        fill(src, n, x); memset(da, 0, n + 1); memset(db, 0, n + 1);
        switch (opk) {
            case 0: nm = "pwrite"; ra = pwrite(fa, src, n, off); CALLLOG(W_PWRITE, fb, (intptr_t)src, n, off, 0); rb = qt_pwrite(fb, src, n, off); RETLOG(rb); break;
            case 1: nm = "pread"; ra = pread(fa, da, n, off); CALLLOG(W_PREAD, fb, (intptr_t)db, n, off, 0); rb = qt_pread(fb, db, n, off); RETLOG(rb); bad = ra > 0 && memcmp(da, db, ra); break;
            case 2: nm = "write"; lseek(fa, off, SEEK_SET); lseek(fb, off, SEEK_SET); ra = write(fa, src, n); CALLLOG(W_WRITE, fb, (intptr_t)src, n, 0, 0); rb = qt_write(fb, src, n); RETLOG(rb);
                bad = lseek(fa, 0, SEEK_CUR) != lseek(fb, 0, SEEK_CUR); break;
            case 3: nm = "read"; lseek(fa, off, SEEK_SET); lseek(fb, off, SEEK_SET); ra = read(fa, da, n); CALLLOG(W_READ, fb, (intptr_t)db, n, 0, 0); rb = qt_read(fb, db, n); RETLOG(rb);
                bad = (ra > 0 && memcmp(da, db, ra)) || lseek(fa, 0, SEEK_CUR) != lseek(fb, 0, SEEK_CUR); break;
            case 4: nm = "pipe-write"; if (pipefill + (long)n > 30000) n = 0; ra = write(pa[1], src, n); CALLLOG(W_WRITE, pb[1], (intptr_t)src, n, 0, 0); rb = qt_write(pb[1], src, n); RETLOG(rb); if (ra > 0) pipefill += ra; break;
            case 5: nm = "pipe-read"; if (pipefill == 0) { (void)!syscall(SYS_write, pa[1], "q", 1); (void)!syscall(SYS_write, pb[1], "q", 1); pipefill = 1; }
                if (n == 0) n = 1;
                ra = read(pa[0], da, n); CALLLOG(W_READ, pb[0], (intptr_t)db, n, 0, 0); rb = qt_read(pb[0], db, n); RETLOG(rb); if (ra > 0) pipefill -= ra; bad = ra > 0 && memcmp(da, db, ra); break;
            case 6: { nm = "poll"; struct pollfd qa[2] = { { pa[0], POLLIN, 0 }, { pa[1], POLLOUT, 0 } }, qb[2] = { { pb[0], POLLIN, 0 }, { pb[1], POLLOUT, 0 } };
                ra = poll(qa, 2, 0); CALLLOG(W_POLL, (intptr_t)qb, 2, 0, 0, 0); rb = qt_poll(qb, 2, 0); RETLOG(rb); bad = qa[0].revents != qb[0].revents || qa[1].revents != qb[1].revents; break; }
            default: { nm = "select"; fd_set ra_, rb_; struct timeval ta = { 0, 0 }, tb = { 0, 0 }; FD_ZERO(&ra_); FD_ZERO(&rb_); FD_SET(pa[0], &ra_); FD_SET(pb[0], &rb_);
                ra = select(pa[0] + 1, &ra_, NULL, NULL, &ta); CALLLOG(W_SELECT, pb[0] + 1, (intptr_t)&rb_, 0, 0, (intptr_t)&tb); rb = qt_select(pb[0] + 1, &rb_, NULL, NULL, &tb); RETLOG(rb);
                bad = (FD_ISSET(pa[0], &ra_) != 0) != (FD_ISSET(pb[0], &rb_) != 0); break; }
        }
        m->returns++;
        if ((ra != rb || bad) && m->mism++ == 0) snprintf(m->first, sizeof m->first, "task %d call %d %s n=%zu off=%lld: direct=%ld wrapper=%ld data_differs=%d", m->t, i, nm, n, (long long)off, ra, rb, bad);
        if ((x >> 60) == 0) qthread_yield();
    }
    char oa[200], ob[200]; file_obs(fa, oa, sizeof oa); file_obs(fb, ob, sizeof ob); m->files_equal = !strcmp(oa, ob);
    drain_obs(pa[0], oa, sizeof oa); drain_obs(pb[0], ob, sizeof ob); m->pipes_equal = !strcmp(oa, ob);
    close(fa); close(fb); close(pa[0]); close(pa[1]); close(pb[0]); close(pb[1]); free(da); free(db); free(src);
    return 0;
}

typedef struct { int nt; mt_t *ms; } join_t;
static aligned_t joiner_task(void *a)   /* the main task is woken only when everything is finished */
{
    join_t *j = a; aligned_t *rs = calloc(j->nt, sizeof *rs);
    for (int t = 0; t < j->nt; t++) qthread_fork(multi_task, &j->ms[t], &rs[t]);
    for (int t = 0; t < j->nt; t++) qthread_readFF(NULL, &rs[t]);
    free(rs);
    return 0;
}

/* ------------------------------------------------------------------ main */
static void dump_log(void)
{
    uint64_t n = nlog < LOGCAP ? nlog : LOGCAP;
    printf("L %llu %d\n", (unsigned long long)n, nlog > LOGCAP);
    for (uint64_t i = 0; i < n; i++) {
        ev_t *x = &evlog[i];
        printf("%d %llx %llx %lld %lld %lld %lld %lld %lld\n", (int)x->kind, (unsigned long long)x->who, (unsigned long long)x->v[0], (long long)x->v[1], (long long)x->v[2],
               (long long)x->v[3], (long long)x->v[4], (long long)x->v[5], (long long)x->v[6]);
    }
    nlog = 0; memset(evlog, 0, n * sizeof(ev_t));
}

int main(int argc, char **argv)
{
    char line[512];
    if (argc > 1) scratch = argv[1];
    signal(SIGALRM, on_alarm); signal(SIGPIPE, SIG_IGN);
    evlog = mmap(NULL, (size_t)LOGCAP * sizeof(ev_t), PROT_READ | PROT_WRITE, MAP_PRIVATE | MAP_ANONYMOUS | MAP_NORESERVE, -1, 0);
    if (evlog == MAP_FAILED) { perror("mmap"); return 4; }
    alarm(60);
    if (qthread_initialize() != QTHREAD_SUCCESS) { printf("INITFAIL\n"); return 4; }
    printf("H %d %d\n", (int)qthread_num_shepherds(), (int)qthread_num_workers()); fflush(stdout);
    while (fgets(line, sizeof line, stdin)) {
        if (line[0] == 'Q') break;
        if (line[0] == 'c') {          /* c idx kind a0..a5 */
            scen_t *s = calloc(1, sizeof *s); aligned_t r;
            if (sscanf(line + 1, "%d %d %ld %ld %ld %ld %ld %ld", &s->idx, &s->kind, &s->a[0], &s->a[1], &s->a[2], &s->a[3], &s->a[4], &s->a[5]) < 2) { printf("ERR\n"); continue; }
            alarm(30);
            qthread_fork(s->kind == W_TICKER ? run_ticker : scen_task, s, &r); qthread_readFF(NULL, &r);
            alarm(0);
            printf("r %d %d D %ld %d %s W %ld %d %s X %d\n", s->idx, s->kind, s->ret[0], s->err[0], s->obs[0][0] ? s->obs[0] : "-", s->ret[1], s->err[1], s->obs[1][0] ? s->obs[1] : "-", s->returns);
            fflush(stdout); free(s);
        } else if (line[0] == 'M') {   /* M idxbase ntasks ncalls seed watchdog */
            int nt, nc, wd; unsigned long long seed;
            if (sscanf(line + 1, "%d %d %d %llu %d", &m_idx_base, &nt, &nc, &seed, &wd) != 5) { printf("ERR\n"); continue; }
            mt_t *ms = calloc(nt, sizeof *ms); aligned_t jr; join_t jn = { nt, ms };
            alarm(wd);
            for (int t = 0; t < nt; t++) { ms[t].t = t; ms[t].ncalls = nc; ms[t].seed = seed * 1000 + t; }
            qthread_fork(joiner_task, &jn, &jr); qthread_readFF(NULL, &jr);
            alarm(0);
            long mism = 0, rets = 0; int fe = 1, pe = 1; const char *first = "-";
            for (int t = 0; t < nt; t++) { if (ms[t].mism && !mism) first = ms[t].first; mism += ms[t].mism; rets += ms[t].returns; fe &= ms[t].files_equal; pe &= ms[t].pipes_equal; }
            printf("m %d %d calls=%ld mism=%ld files_equal=%d pipes_equal=%d first=%s\n", nt, nc, rets, mism, fe, pe, first);
            fflush(stdout); free(ms);
        } else if (line[0] == 'L') {
            dump_log(); fflush(stdout);
        }
    }
    alarm(30);
    qthread_finalize();
    alarm(0);
    printf("E %d\n", region_runs); fflush(stdout);
    return 0;
}
