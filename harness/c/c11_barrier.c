/* C11 harness: drives the real qt_barrier_enter (white-box include of the working-tree src/barrier/feb.c).
 * Every shared access of qt_barrier_enter (readFF / incr / empty / fill) is interposed by macro and becomes a
 * schedule point: in baton mode the controller (main task) grants exactly one access at a time to one participant
 * (same adaptive schedule as the model: r_k selects among the currently enabled participants), and prints after
 * every access the kind, the gate states, blockers and every participant's position.
 * stdin : C <n> <maxb> <E> <r1> <r2> ...   baton case   (lines identical to the model driver's)
 *         F <n> <E> <seed> <yield_den>     free-running case with random yields (oracle only)
 * stdout: see ocaml/c11_driver.ml ; F -> "FR <violations> <t> <k> <min>" */
#ifdef HAVE_CONFIG_H
# include "config.h"
#endif
#include <stdlib.h>
#include <stdio.h>
#include <string.h>
#include <unistd.h>
#include <signal.h>
#include <stdint.h>
#include "qthread-int.h"
#include "qthread/qthread.h"
#include "qthread/barrier.h"
#include "qt_barrier.h"
#include "qt_atomics.h"
#include "qt_mpool.h"
#include "qt_visibility.h"
#include "qt_initialized.h"
#include "qt_debug.h"
#include "qt_asserts.h"
#include "qt_subsystems.h"

static aligned_t v_incr(aligned_t *addr, int64_t v);
static int       v_readFF(aligned_t *dest, const aligned_t *src);
static int       v_empty(const aligned_t *a);
static int       v_fill(const aligned_t *a);

static inline aligned_t real_incr(aligned_t *a, int64_t v) { return qthread_incr(a, v); }
static inline int real_readFF(aligned_t *d, const aligned_t *s) { return qthread_readFF(d, s); }
static inline int real_empty(const aligned_t *a) { return qthread_empty(a); }
static inline int real_fill(const aligned_t *a) { return qthread_fill(a); }

#undef qthread_incr
#define qthread_incr(a, v) v_incr((aligned_t *)(a), (int64_t)(v))
#define qthread_readFF v_readFF
#define qthread_empty  v_empty
#define qthread_fill   v_fill
#include "barrier/feb.c"
#undef qthread_incr
#undef qthread_readFF
#undef qthread_empty
#undef qthread_fill

#define MAXT 64
enum { K_INIT, K_CALL, K_IN, K_INW, K_INC, K_EMPIN, K_FILLOUT, K_OUT, K_OUTW, K_DEC, K_EMPOUT, K_FILLIN, K_RUN, K_DONE, K_UNK };
static const char *kname[] = { "Init", "Call", "In", "InW", "Inc", "EmpIn", "FillOut", "Out", "OutW", "Dec", "EmpOut", "FillIn", "Run", "Call", "Unknown" };

static qt_barrier_t      *B;
static int                N, E, mode; /* mode 0 baton, 1 free */
static volatile int       st[MAXT], ep[MAXT], retflag[MAXT], retmin[MAXT];
static volatile aligned_t callsv[MAXT];
static volatile int       turn = -1;
static aligned_t          rets[MAXT];
static unsigned           rstate[MAXT];
static int                yield_den;
static volatile int       fr_bad, fr_t, fr_k, fr_min;
static unsigned           wd_secs = 20;

static int who(void)
{
    aligned_t *r = qthread_retloc();
    if (r >= rets && r < rets + MAXT) return (int)(r - rets);
    return -1;
}

/* Waiting is done by blocking on FEB words, never by spinning on qthread_yield(): with several workers per
 * shepherd a task that spins on yield can starve the main task (the sherwood scheduler re-queues the main task
 * whenever a worker other than worker 0 picks it up, and the fair ticket lock phase-locks the two loops). */
static aligned_t go[MAXT]; /* baton of participant j: filled by the controller to grant one access */
static aligned_t ctl;      /* filled by a participant whenever it settles; the controller sleeps on it */

static void sp(int me, int kind)
{
    st[me] = kind;
    __sync_synchronize();
    real_fill(&ctl);
    qthread_readFE(NULL, &go[me]);
}

static void sp_done(int me, int next)
{
    st[me] = next;
    __sync_synchronize();
    turn = -1;
    real_fill(&ctl);
}

static void perturb(int me)
{
    if (yield_den <= 0) return;
    rstate[me] = rstate[me] * 1103515245u + 12345u;
    if (((rstate[me] >> 16) % (unsigned)yield_den) == 0) qthread_yield();
}

static int gate_kind(const aligned_t *a, int kin, int kout)
{
    if (B && a == &B->in_gate) return kin;
    if (B && a == &B->out_gate) return kout;
    return K_UNK;
}

static aligned_t v_incr(aligned_t *addr, int64_t v)
{
    int me = who();
    if (me < 0) return real_incr(addr, v);
    if (mode) { perturb(me); return real_incr(addr, v); }
    sp(me, (B && addr == &B->blockers) ? (v == 1 ? K_INC : (v == -1 ? K_DEC : K_UNK)) : K_UNK);
    aligned_t r = real_incr(addr, v);
    sp_done(me, K_RUN);
    return r;
}

static int v_empty(const aligned_t *a)
{
    int me = who();
    if (me < 0) return real_empty(a);
    if (mode) { perturb(me); return real_empty(a); }
    sp(me, gate_kind(a, K_EMPIN, K_EMPOUT));
    int r = real_empty(a);
    sp_done(me, K_RUN);
    return r;
}

static int v_fill(const aligned_t *a)
{
    int me = who();
    if (me < 0) return real_fill(a);
    if (mode) { perturb(me); return real_fill(a); }
    int k = gate_kind(a, K_FILLIN, K_FILLOUT);
    sp(me, k);
    int wk = (k == K_FILLIN) ? K_INW : (k == K_FILLOUT ? K_OUTW : -1);
    /* the waiters of this word become runnable: the controller must wait for them to reach their next access */
    for (int j = 0; j < N; j++) if (wk >= 0) __sync_bool_compare_and_swap(&st[j], wk, K_RUN);
    int r = real_fill(a);
    sp_done(me, K_RUN);
    return r;
}

static int v_readFF(aligned_t *dest, const aligned_t *src)
{
    int me = who();
    if (me < 0) return real_readFF(dest, src);
    if (mode) { perturb(me); return real_readFF(dest, src); }
    int k = gate_kind(src, K_IN, K_OUT);
    sp(me, k);
    if (qthread_feb_status(src)) {
        int r = real_readFF(dest, src);
        sp_done(me, K_RUN);
        return r;
    }
    sp_done(me, k == K_IN ? K_INW : (k == K_OUT ? K_OUTW : K_UNK));
    return real_readFF(dest, src); /* blocks until a fill of this word */
}

static int min_calls(void)
{
    aligned_t m = callsv[0];
    for (int j = 1; j < N; j++) if (callsv[j] < m) m = callsv[j];
    return (int)m;
}

static aligned_t participant(void *arg)
{
    int me = (int)(intptr_t)arg;
    for (int k = 1; k <= E; k++) {
        if (!mode) sp(me, K_CALL); else perturb(me);
        __sync_fetch_and_add(&callsv[me], 1); /* announce arrival, then enter */
        if (!mode) sp_done(me, K_RUN);
        if (me & 1) qt_barrier_enter_id(B, (size_t)me); else qt_barrier_enter(B);
        int m = min_calls();                 /* sampled right after enter returned */
        ep[me]     = k;
        retmin[me] = m;
        retflag[me] = 1;
        if (mode && m < k) {
            if (__sync_fetch_and_add(&fr_bad, 1) == 0) { fr_t = me; fr_k = k; fr_min = m; }
        }
    }
    __sync_synchronize();
    st[me] = K_DONE;
    if (!mode) real_fill(&ctl);
    return 0;
}

static void on_alarm(int s)
{
    printf("TIMEOUT turn=%d", turn);
    for (int j = 0; j < N; j++) printf(" %s:%d", kname[st[j]], ep[j]);
    printf("\n");
    fflush(stdout);
    _exit(3);
}

static int anyrun(void)
{
    if (turn != -1) return 1;
    for (int j = 0; j < N; j++) if (st[j] == K_RUN || st[j] == K_INIT) return 1;
    return 0;
}

static void spawn_all(int nsheps)
{
    for (int j = 0; j < N; j++) {
        st[j] = K_INIT; ep[j] = 0; retflag[j] = 0; callsv[j] = 0;
        real_empty(&go[j]);
    }
    real_empty(&ctl);
    __sync_synchronize();
    for (int j = 0; j < N; j++) qthread_fork_to(participant, (void *)(intptr_t)j, &rets[j], (qthread_shepherd_id_t)(j % nsheps));
}

int main(void)
{
    static char line[1 << 16];
    signal(SIGALRM, on_alarm);
    if (getenv("VERIF_WATCHDOG")) wd_secs = (unsigned)atoi(getenv("VERIF_WATCHDOG"));
    if (qthread_initialize() != 0) { printf("INITFAIL\n"); return 2; }
    int nsheps = (int)qthread_num_shepherds();
    printf("H %d %d\n", nsheps, (int)qthread_num_workers());
    fflush(stdout);
    while (fgets(line, sizeof line, stdin)) {
        if (line[0] == 'C') {
            char *p = line + 1, *e;
            long  maxb;
            static int rs[1 << 14];
            int        nr = 0;
            N = (int)strtol(p, &e, 10); p = e;
            maxb = strtol(p, &e, 10); p = e;
            E = (int)strtol(p, &e, 10); p = e;
            for (;;) { long r = strtol(p, &e, 10); if (e == p) break; p = e; if (nr < (1 << 14)) rs[nr++] = (int)r; }
            mode = 0; yield_den = 0; turn = -1;
            alarm(wd_secs);
            B = qt_barrier_create((size_t)maxb, REGION_BARRIER);
            spawn_all(nsheps);
            int k = 0, deadlock = 0;
            for (;;) {
                while (anyrun()) qthread_readFE(NULL, &ctl);
                int en[MAXT], ne = 0, nd = 0;
                for (int j = 0; j < N; j++) {
                    int s = st[j];
                    if (s == K_DONE) nd++;
                    else if (s != K_INW && s != K_OUTW) en[ne++] = j;
                }
                if (nd == N) { printf("END done %d\n", k); break; }
                if (ne == 0) { printf("END deadlock %d\n", k); deadlock = 1; break; }
                int r = nr ? rs[k % nr] : 0;
                int pref = r / 1024, i = en[(r % 1024) % ne];
                if (pref > 0 && pref - 1 < N) {
                    int s = st[pref - 1];
                    if (s != K_DONE && s != K_INW && s != K_OUTW) i = pref - 1;
                }
                int kind = st[i], epold = ep[i];
                retflag[i] = 0;
                __sync_synchronize();
                turn = i;
                real_fill(&go[i]);
                while (anyrun()) qthread_readFE(NULL, &ctl);
                k++;
                printf("%d %s %d %d %ld |", i, kname[kind], qthread_feb_status(&B->in_gate) ? 1 : 0,
                       qthread_feb_status(&B->out_gate) ? 1 : 0, (long)B->blockers);
                for (int j = 0; j < N; j++) printf(" %s:%d", kname[st[j]], ep[j]);
                if (ep[i] > epold) printf(" R %d %d", ep[i], retmin[i]);
                printf("\n");
                if (k > 100000) { printf("END runaway %d\n", k); deadlock = 1; break; }
            }
            alarm(0);
            if (!deadlock) {
                for (int j = 0; j < N; j++) qthread_readFF(NULL, &rets[j]);
                qt_barrier_destroy(B);
            }
            B = NULL;
        } else if (line[0] == 'F') {
            unsigned seed;
            sscanf(line + 1, "%d %d %u %d", &N, &E, &seed, &yield_den);
            mode = 1; fr_bad = 0; fr_t = fr_k = fr_min = 0;
            for (int j = 0; j < N; j++) rstate[j] = seed * 2654435761u + (unsigned)j * 40503u + 1u;
            alarm(wd_secs);
            B = qt_barrier_create((size_t)N, REGION_BARRIER);
            spawn_all(nsheps);
            for (int j = 0; j < N; j++) qthread_readFF(NULL, &rets[j]);
            alarm(0);
            int short_ep = 0;
            for (int j = 0; j < N; j++) if (ep[j] != E) short_ep++;
            printf("FR %d %d %d %d %d %ld\n", fr_bad, fr_t, fr_k, fr_min, short_ep, (long)B->blockers);
            qt_barrier_destroy(B);
            B = NULL;
        } else if (line[0] == 'Q') break;
        fflush(stdout);
    }
    fflush(stdout);
    return 0;
}
