/* C05 extension T harness: team trees on the REAL runtime with every operation of the finish protocol logged.
 * White-box TUs (c05_team_wb_qthread.c / _teams.c / _sinc.c) include the working tree's qthread.c, teams.c and
 * sincs/donecount.c with the calls renamed (c05_team_ipose.h); the wrappers below append one event per operation to a log
 * (one global ticket order) and forward to the real function.  Release-type operations (expect, submit, reset, destroy,
 * free, signal begin, fill, enqueue) are logged BEFORE they are performed, acquire-type operations (wait returned, readFF
 * returned, signal end) AFTER, so that the logged order is an order in which the real operations can have taken effect.
 * stdin:
 *   N <id> <parent|-1> <kind t|u|m|M|s|p>   declare a node (as in c05_ret.c)
 *   O <id> <id> ...                        run the tree, opening gates in this order (-id: satisfy the precondition of id)
 *   Q
 * stdout per tree: one line `e <actor> <kind> <a> <b> <c>` per event (actor n<node> | w<team ordinal> | m (main) | x),
 *   then `J <id>:<value> ...` and `E`.  On the watchdog: the events so far, then `TIMEOUT`. */
#include <qthread/qthread.h>
#include <qthread/sinc.h>
#include <stdio.h>
#include <stdlib.h>
#include <string.h>
#include <unistd.h>
#include <signal.h>
#include <sched.h>
#include <inttypes.h>
#include "qt_visibility.h"
#include "qt_qthread_struct.h"
#include "qt_qthread_mgmt.h"
#include "qt_teams.h"
#include "qt_mpool.h"
#include "qt_threadqueues.h"

/* ---------------- the log ---------------- */
typedef struct { char ak; int aid; const char *kind; int a, b, c; } ev_t;
#define MAXEV 16384
static ev_t         evs[MAXEV];
static volatile int nev;
static volatile int loglock;
static unsigned     perturb;      /* 0 = off; else LCG state: random sched_yield / usleep around logged operations */

static void lk(void) { while (__sync_lock_test_and_set(&loglock, 1)) sched_yield(); }
static void ul(void) { __sync_lock_release(&loglock); }

/* shadow table of team structures (addresses -> ordinals, in registration order) */
typedef struct { qt_team_t *team; void *sinc, *subs; int freed, sinc_dead, subs_dead; } sh_t;
#define MAXT 4096
static sh_t sh[MAXT];
static int  nsh;

#define MAXN 64
typedef struct { int used, parent; char kind; aligned_t ret, gate, pre; volatile int finished, started; } node_t;
static node_t    nd[MAXN];
static aligned_t body_n(void *arg);
extern void *c05t_watcher_fn(void);

static int team_ord(const void *p, int *dead)
{
    int d = -1;
    for (int i = nsh - 1; i >= 0; i--) if ((const void *)sh[i].team == p) { if (!sh[i].freed) { *dead = 0; return i; } if (d < 0) d = i; }
    *dead = 1;
    return d;
}
static void who(char *ak, int *aid)
{
    qthread_t *me = qthread_internal_self();
    if (!me) { *ak = 'x'; *aid = 0; return; }
    if ((void *)me->f == (void *)body_n) { *ak = 'n'; *aid = (int)(intptr_t)me->arg; return; }
    if ((void *)me->f == c05t_watcher_fn()) { int d; *ak = 'w'; *aid = team_ord(me->team, &d); return; }
    *ak = 'm'; *aid = 0;
}
/* append (lock held) */
static void put(const char *kind, int a, int b, int c)
{
    if (nev < MAXEV) { ev_t *e = &evs[nev]; who(&e->ak, &e->aid); e->kind = kind; e->a = a; e->b = b; e->c = c; nev++; }
}
static void jitter(void)
{
    if (!perturb) return;
    unsigned r = __sync_add_and_fetch(&perturb, 0x9E3779B9u) * 2654435761u;
    r >>= 24;
    if (r < 24) sched_yield(); else if (r < 36) usleep(20 + (r & 7) * 30);
}
/* which team sinc is this?  returns ordinal, *which = 'S' (members) / 'B' (subteams), *dead */
static int sinc_of(const void *p, char *which, int *dead)
{
    for (int i = nsh - 1; i >= 0; i--) {
        if (sh[i].sinc == p && !sh[i].sinc_dead) { *which = 'S'; *dead = 0; return i; }
        if (sh[i].subs == p && !sh[i].subs_dead) { *which = 'B'; *dead = 0; return i; }
    }
    for (int i = nsh - 1; i >= 0; i--) {
        if (sh[i].sinc == p) { *which = 'S'; *dead = 1; return i; }
        if (sh[i].subs == p) { *which = 'B'; *dead = 1; return i; }
    }
    return -1;
}
/* which team word is this?  'E' eureka, 'W' watcher_started */
static int word_of(const void *p, char *which, int *dead)
{
    int d = -1; char dw = 0;
    for (int i = nsh - 1; i >= 0; i--) {
        char w = 0;
        if (p == (const void *)&sh[i].team->eureka) w = 'E';
        else if (p == (const void *)&sh[i].team->watcher_started) w = 'W';
        if (!w) continue;
        if (!sh[i].freed) { *which = w; *dead = 0; return i; }
        if (d < 0) { d = i; dw = w; }
    }
    *which = dw; *dead = 1;
    return d;
}

/* ---------------- sinc operations (public names; real ones in c05_team_wb_sinc.c) ---------------- */
void c05t_real_sinc_expect(qt_sinc_t *s, size_t n);
void c05t_real_sinc_submit(qt_sinc_t *restrict s, const void *restrict v);
void c05t_real_sinc_wait(qt_sinc_t *restrict s, void *restrict t);
void c05t_real_sinc_reset(qt_sinc_t *s, const size_t n);
void c05t_real_sinc_destroy(qt_sinc_t *s);

static int log_sinc(const char *kind, const void *s, int arg, int mark_dead)
{
    char w; int dead, o;
    lk();
    o = sinc_of(s, &w, &dead);
    if (o >= 0) {
        put(kind, o, w, dead);
        if (mark_dead) { if (w == 'S') sh[o].sinc_dead = 1; else sh[o].subs_dead = 1; }
    }
    ul();
    (void)arg;
    return o >= 0;
}
void qt_sinc_expect(qt_sinc_t *s, size_t n) { jitter(); log_sinc("expect", s, (int)n, 0); c05t_real_sinc_expect(s, n); }
void qt_sinc_submit(qt_sinc_t *restrict s, const void *restrict v) { jitter(); log_sinc("submit", s, 0, 0); c05t_real_sinc_submit(s, v); jitter(); }
void qt_sinc_reset(qt_sinc_t *s, const size_t n) { log_sinc("reset", s, (int)n, 0); c05t_real_sinc_reset(s, n); }
void qt_sinc_destroy(qt_sinc_t *s) { jitter(); log_sinc("destroy", s, 0, 1); c05t_real_sinc_destroy(s); }
void qt_sinc_wait(qt_sinc_t *restrict s, void *restrict t)
{
    char w = 0; int dead = 0, o;
    lk(); o = sinc_of(s, &w, &dead); ul();
    c05t_real_sinc_wait(s, t);
    if (o >= 0) { lk(); put("wait", o, w, dead); ul(); }
    jitter();
}

/* ---------------- teams.c ---------------- */
void c05t_pool_free(qt_mpool pool, void *mem)
{
    int dead, o;
    jitter();
    lk(); o = team_ord(mem, &dead); if (o >= 0) { put("free", o, dead, 0); sh[o].freed = 1; } ul();
    qt_mpool_free(pool, mem);
}
int c05t_signal(aligned_t *dest, aligned_t src)
{
    char w; int dead, o, rc;
    lk(); o = word_of(dest, &w, &dead); if (o >= 0) put("sigb", o, w, dead); ul();
    rc = qthread_writeEF_const(dest, src);
    if (o >= 0) { lk(); put("sige", o, w, dead); ul(); }
    return rc;
}
int c05t_readFF(aligned_t *dest, const aligned_t *src)
{
    char w = 0; int dead = 0, o, rc;
    lk(); o = word_of(src, &w, &dead); ul();
    rc = qthread_readFF(dest, src);
    if (o >= 0 && w == 'W') { lk(); put("lwaitw", o, dead, 0); ul(); }
    return rc;
}
int c05t_empty(const aligned_t *dest)
{
    char w = 0, ak; int dead = 0, o, aid;
    lk();
    who(&ak, &aid);
    if (ak == 'w') { o = word_of(dest, &w, &dead); if (o >= 0 && w == 'E') put("wgot", o, dead, 0); }
    ul();
    return qthread_empty(dest);
}
int c05t_fill(const aligned_t *dest)
{
    char w = 0; int dead = 0, o;
    lk(); o = word_of(dest, &w, &dead); if (o >= 0 && w == 'W') put("wstart", o, dead, 0); ul();
    return qthread_fill(dest);
}

/* ---------------- qthread.c ---------------- */
qt_team_t *c05t_team_new(void *restrict ret, unsigned int feature_flag, qt_team_t *restrict curr_team, unsigned int parent_id)
{
    qt_team_t *t = qt_internal_team_new(ret, feature_flag, curr_team, parent_id);
    int dead = 0, p = -1;
    lk();
    if (curr_team) p = team_ord(curr_team, &dead);
    if (nsh < MAXT) {
        sh[nsh].team = t; sh[nsh].sinc = t->sinc; sh[nsh].subs = t->subteams_sinc; sh[nsh].freed = sh[nsh].sinc_dead = sh[nsh].subs_dead = 0;
        put("teamnew", nsh, parent_id == QTHREAD_NON_TEAM_ID ? 'T' : (curr_team ? 'S' : 'U'), p);
        nsh++;
    }
    ul();
    return t;
}
void c05t_enq(qt_threadqueue_t *restrict q, qthread_t *restrict t)
{
    if (t->thread_state == QTHREAD_STATE_NEW) {
        if ((void *)t->f == (void *)body_n) { lk(); put("enq", 'n', (int)(intptr_t)t->arg, 0); ul(); }
        else if ((void *)t->f == c05t_watcher_fn()) { int d; lk(); put("enq", 'w', team_ord(t->team, &d), 0); ul(); }
        jitter();
    }
    qt_threadqueue_enqueue(q, t);
}
int c05t_retfill(aligned_t *dest, aligned_t src)
{
    if ((char *)dest >= (char *)nd && (char *)dest < (char *)(nd + MAXN)) {
        int i = (int)(((char *)dest - (char *)nd) / sizeof(node_t));
        if (dest == &nd[i].ret) { jitter(); lk(); put("retfill", i, 0, 0); ul(); }
    }
    return qthread_writeEF_const(dest, src);
}

/* ---------------- team trees (as harness/c/c05_ret.c, with markers) ---------------- */
static aligned_t ctl;
static aligned_t nstarted;
static void ctl_wait(void) { aligned_t t; qthread_readFE(&t, &ctl); }
static void mark(const char *kind, int a, int b) { lk(); put(kind, a, b, 0); ul(); }

static void dump_events(void)
{
    for (int i = 0; i < nev; i++) printf("e %c%d %s %d %d %d\n", evs[i].ak, evs[i].aid, evs[i].kind, evs[i].a, evs[i].b, evs[i].c);
}
static void on_alarm(int s) { dump_events(); printf("TIMEOUT\n"); fflush(stdout); _exit(3); }

static void spawn_children(int id)
{
    for (int c = 0; c < MAXN; c++) {
        if (!nd[c].used || nd[c].parent != id) continue;
        qthread_empty(&nd[c].gate);
        mark("spawn", c, nd[c].kind);
        if (nd[c].kind == 'm' || nd[c].kind == 'M') qthread_fork(body_n, (void *)(intptr_t)c, &nd[c].ret);
        else if (nd[c].kind == 'p') { qthread_empty(&nd[c].pre); qthread_fork_precond(body_n, (void *)(intptr_t)c, &nd[c].ret, 1, &nd[c].pre); }
        else qthread_fork_new_subteam(body_n, (void *)(intptr_t)c, &nd[c].ret);
        mark("spawned", c, 0);
    }
}
static aligned_t body_n(void *arg)
{
    int id = (int)(intptr_t)arg;
    mark("start", 0, 0);
    if (nd[id].kind != 'M') spawn_children(id);
    nd[id].started = 1;
    qthread_incr(&nstarted, 1);
    qthread_fill(&ctl);
    qthread_readFF(NULL, &nd[id].gate);
    if (nd[id].kind == 'M') spawn_children(id);
    mark("ret", 0, 0);
    nd[id].finished = 1;
    qthread_fill(&ctl);
    return 100 + id;
}
static int has_late_anc(int i) { for (int p = nd[i].parent; p >= 0; p = nd[p].parent) if (nd[p].kind == 'M') return 1; return 0; }
static int unstarted_below(int id)
{
    int k = 0;
    for (int c = 0; c < MAXN; c++) {
        if (!nd[c].used || nd[c].parent != id || nd[c].kind == 'p') continue;
        if (!nd[c].started) k++;
        else if (nd[c].kind != 'M') k += unstarted_below(c);
    }
    return k;
}
static void run_tree(int *order, int norder)
{
    int n = 0, root = -1;
    for (int i = 0; i < MAXN; i++) if (nd[i].used) { if (nd[i].kind != 'p' && !has_late_anc(i)) n++; if (nd[i].parent < 0) root = i; }
    qthread_empty(&ctl); nstarted = 0; nev = 0; nsh = 0;
    alarm(getenv("C05_ALARM") ? atoi(getenv("C05_ALARM")) : 150);
    qthread_empty(&nd[root].gate);
    mark("spawn", root, nd[root].kind);
    if (nd[root].kind == 't') qthread_fork_new_team(body_n, (void *)(intptr_t)root, &nd[root].ret);
    else qthread_fork_new_subteam(body_n, (void *)(intptr_t)root, &nd[root].ret);
    mark("spawned", root, 0);
    while ((int)nstarted < n) ctl_wait();
    for (int j = 0; j < norder; j++) {
        int id = order[j];
        if (id < 0) {
            mark("satisfy", -id, 0);
            qthread_fill(&nd[-id].pre);
            while (!nd[-id].started) ctl_wait();
            continue;
        }
        mark("open", id, 0);
        qthread_fill(&nd[id].gate);
        while (!nd[id].finished || (nd[id].kind == 'M' && unstarted_below(id))) ctl_wait();
        usleep(200);
    }
    char jl[4096]; int jp = 0;
    jp += snprintf(jl + jp, sizeof jl - jp, "J");
    for (int i = 0; i < MAXN; i++) if (nd[i].used) { aligned_t v = 0; qthread_readFF(&v, &nd[i].ret); jp += snprintf(jl + jp, sizeof jl - jp, " %d:%lu", i, (unsigned long)v); }
    usleep(300);            /* let the last wrapper leave its delivery */
    alarm(0);
    lk(); dump_events(); ul();
    printf("%s\nE\n", jl);
    fflush(stdout);
    memset(nd, 0, sizeof nd);
}

int main(void)
{
    static char line[1 << 14];
    signal(SIGALRM, on_alarm);
    if (getenv("C05T_PERTURB")) perturb = (unsigned)strtoul(getenv("C05T_PERTURB"), NULL, 10);
    if (qthread_initialize() != 0) { printf("INITFAIL\n"); return 2; }
    printf("H %u %u\n", (unsigned)qthread_num_shepherds(), (unsigned)qthread_num_workers());
    fflush(stdout);
    while (fgets(line, sizeof line, stdin)) {
        if (line[0] == 'N') {
            int id, parent; char kind;
            sscanf(line + 1, "%d %d %c", &id, &parent, &kind);
            if (id >= 0 && id < MAXN) { nd[id].used = 1; nd[id].parent = parent; nd[id].kind = kind; nd[id].finished = 0; }
        } else if (line[0] == 'O') {
            static int order[2 * MAXN]; int n = 0; char *p = line + 1;
            for (;;) { char *e; long v = strtol(p, &e, 10); if (e == p) break; p = e; if (n < 2 * MAXN) order[n++] = (int)v; }
            run_tree(order, n);
        } else if (line[0] == 'Q') break;
    }
    return 0;
}
