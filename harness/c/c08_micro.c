/* C08 extension, mode M3: micro-step schedule replay of the lock discipline of the REAL sherwood thread queue
 * (white-box include of the working tree's src/threadqueues/sherwood_threadqueues.c; no edit of /repo).
 *
 * Interposed (schedule points): QTHREAD_TRYLOCK_LOCK / _TRY / _UNLOCK on a queue's qlock, the qthread_cas on
 * shepherd->stealing, SPINLOCK_BODY, and END between the operations of a thread.  K real pthreads registered as fake
 * workers of two fabricated shepherds (2 workers each) inside an initialised 1x1 runtime run under a baton: a grant lets
 * one thread perform its pending interposed access and run up to (not including) its next one.  After every grant the
 * controller prints the kind of the access now pending, the result if an operation ended, and for both queues the
 * counters, the stealing flag, the lock owner and the contents by pointer walk (both directions, checked).
 * The model (coq/theories/TQueue/Micro.v, run_to_sp) executes the same schedule; the lines must be identical.
 *
 * A blocked LOCK is a try-loop under the baton (one attempt per grant, built from the tree's own QTHREAD_TRYLOCK_TRY):
 * a failed attempt is a step.  An owner dequeue is one pass of qt_scheduler_get_thread's loop: when the pass ends without
 * a task the code goes on to steal / spin, which is a separate operation here - the call is left at that point (before
 * any shared write; also when the loop comes round to a second lock request).
 *
 * stdin : MC <chunk> <steal_disable> | <q0 nodes tid:flags ...> | <q1 nodes> | <home> <j> <op> ... ; <home> <j> <op> ... | <schedule>
 *         op = D (owner dequeue) | T (qthread_steal) | E<k>:<tid>:<flags> | Y<k>:<tid>:<flags>      flags: 1 unstealable, 2 McCoy
 * stdout: S |<dump>      g <t> <KIND>[ r=<tid|NULL>] |<dump>  per grant      F | <unfinished threads>
 */
#ifndef _GNU_SOURCE
# define _GNU_SOURCE
#endif
#include "config.h"
#include <setjmp.h>
#include <stdio.h>
#include <string.h>
#include <unistd.h>
#include <signal.h>
#include <pthread.h>
#include <semaphore.h>
#include <errno.h>
#include <time.h>
#include <sched.h>
#include "qthread/qthread.h"
#include "qt_atomics.h"

enum { K_NONE = 0, K_LOCK, K_TRY, K_UNLOCK, K_CAS, K_SPIN, K_END };
#define MAXT 4
static __thread int        my_tid = -1;
static __thread sigjmp_buf op_jb;
static __thread int        cur_op = 0, d_locks = 0;
static sem_t               sem_thr[MAXT], sem_ctl;
static volatile int        sp_kind_of[MAXT], t_finished[MAXT], aborting = 0;
static void               *lock_addr[2];
static volatile int        lock_owner[2] = { -1, -1 };

static void verif_sp(int kind)
{
    if (my_tid < 0) return;
    /* an owner dequeue that got no task: the real loop now turns to stealing (CAS) or to waiting (SPIN): the pass is over */
    if (cur_op == 'D' && (kind == K_CAS || kind == K_SPIN)) siglongjmp(op_jb, 1);
    sp_kind_of[my_tid] = kind;
    sem_post(&sem_ctl);
    while (sem_wait(&sem_thr[my_tid]) != 0) ;
    if (aborting) pthread_exit(NULL);
}

/* the working tree's own lock operations, captured before the macros are replaced */
static inline void c08m_orig_unlock(QTHREAD_TRYLOCK_TYPE *x) { QTHREAD_TRYLOCK_UNLOCK(x); }
static inline int  c08m_orig_try(QTHREAD_TRYLOCK_TYPE *x) { return QTHREAD_TRYLOCK_TRY(x); }
static void note_lock(void *x, int owner) { for (int k = 0; k < 2; k++) if (lock_addr[k] == x) lock_owner[k] = owner; }
static inline void c08m_lock(QTHREAD_TRYLOCK_TYPE *x)
{
    if (my_tid < 0) { while (!c08m_orig_try(x)) sched_yield(); return; }
    /* owner dequeue: a second lock request means that the loop of qt_scheduler_get_thread came round again (the first pass
     * got nothing and neither CAS nor SPIN lay on its way: steal_disable with a queue that holds only the McCoy task) */
    if (cur_op == 'D' && ++d_locks > 1) siglongjmp(op_jb, 1);
    for (;;) { verif_sp(K_LOCK); if (c08m_orig_try(x)) break; }
    note_lock(x, my_tid);
}
static inline int c08m_try(QTHREAD_TRYLOCK_TYPE *x)
{
    verif_sp(K_TRY);
    int r = c08m_orig_try(x);
    if (r && my_tid >= 0) note_lock(x, my_tid);
    return r;
}
static inline void c08m_unlock(QTHREAD_TRYLOCK_TYPE *x)
{
    verif_sp(K_UNLOCK);
    if (my_tid >= 0) note_lock(x, -1);
    c08m_orig_unlock(x);
}
static inline aligned_t c08m_cas(volatile aligned_t *a, aligned_t o, aligned_t n)
{
    verif_sp(K_CAS);
    return __sync_val_compare_and_swap(a, o, n);
}
#undef QTHREAD_TRYLOCK_LOCK
#undef QTHREAD_TRYLOCK_UNLOCK
#define QTHREAD_TRYLOCK_LOCK(x)   c08m_lock(x)
#define QTHREAD_TRYLOCK_UNLOCK(x) c08m_unlock(x)
#define QTHREAD_TRYLOCK_TRY(x)    c08m_try(x)
#undef qthread_cas
#define qthread_cas(A, O, N)      c08m_cas((volatile aligned_t *)(A), (aligned_t)(O), (aligned_t)(N))
#undef SPINLOCK_BODY
#define SPINLOCK_BODY()           verif_sp(K_SPIN)

#include "threadqueues/sherwood_threadqueues.c"

static void on_alarm(int s) { printf("TIMEOUT\n"); fflush(stdout); _exit(3); }
static void ctl_wait(void)
{
    struct timespec ts;
    clock_gettime(CLOCK_REALTIME, &ts);
    ts.tv_sec += 60;
    while (sem_timedwait(&sem_ctl, &ts) != 0) {
        if (errno == EINTR) continue;
        printf("TIMEOUT\n"); fflush(stdout); _exit(3);
    }
}

/* ------------------------------------------------------------------ fake shepherds (as harness/c/c08_tqueue.c) */
#define MAXTID 4096
#define FW 2
static qthread_shepherd_t *fsh = NULL;
static qthread_t          *desc[MAXTID];

static qthread_t *get_desc(long tid, int flags)
{
    if (tid < 0 || tid >= MAXTID) { printf("ERR tid\n"); exit(2); }
    if (!desc[tid]) desc[tid] = calloc(1, sizeof(qthread_t) + 64);
    qthread_t *t = desc[tid];
    t->thread_id       = (unsigned)tid;
    t->flags           = (uint16_t)(((flags & 1) ? QTHREAD_UNSTEALABLE : 0) | ((flags & 2) ? QTHREAD_REAL_MCCOY : 0));
    t->ret             = NULL;
    t->thread_state    = QTHREAD_STATE_RUNNING;
    t->target_shepherd = NO_SHEPHERD;
    return t;
}

static void fake_setup(long chunk, int dis)
{
    fsh = calloc(2, sizeof(qthread_shepherd_t));
    for (int i = 0; i < 2; i++) {
        fsh[i].shepherd_id = i;
        fsh[i].workers     = calloc(FW, sizeof(qthread_worker_t));
        for (int j = 0; j < FW; j++) {
            fsh[i].workers[j].shepherd         = &fsh[i];
            fsh[i].workers[j].worker_id        = j;
            fsh[i].workers[j].packed_worker_id = j + i * FW;
            fsh[i].workers[j].unique_id        = NO_WORKER;
        }
        fsh[i].ready              = qt_threadqueue_new();
        fsh[i].sorted_sheplist    = calloc(2, sizeof(qthread_shepherd_id_t));
        fsh[i].sorted_sheplist[0] = (qthread_shepherd_id_t)(1 - i);
        fsh[i].stealing           = 0;
        lock_addr[i]  = (void *)&fsh[i].ready->qlock;
        lock_owner[i] = -1;
    }
    qlib->nshepherds = 2;
    qlib->shepherds  = fsh;
    steal_chunksize  = chunk;
    steal_disable    = dis ? 1 : 0;
}

/* walk head->tail by next and tail->head by prev; both walks must see the same nodes */
static void dump_queue(int k)
{
    qt_threadqueue_t      *q = fsh[k].ready;
    qt_threadqueue_node_t *fw[1024];
    long                   n = 0, st = 0;
    const char            *bad = NULL;
    char                   lo[16];

    if (lock_owner[k] < 0) strcpy(lo, "-"); else snprintf(lo, sizeof lo, "%d", lock_owner[k]);
    printf(" q%d[%ld,%ld,%u,L%s]", k, q->qlength, q->qlength_stealable, (unsigned)fsh[k].stealing, lo);
    if ((q->head == NULL) != (q->tail == NULL)) bad = "head/tail";
    if (q->head && q->head->prev != NULL) bad = "head->prev";
    if (q->tail && q->tail->next != NULL) bad = "tail->next";
    for (qt_threadqueue_node_t *c = q->head; c && n < 1024; c = c->next) fw[n++] = c;
    if (n == 1024) bad = "cycle";
    if (!bad) {
        long i = n;
        for (qt_threadqueue_node_t *c = q->tail; c; c = c->prev) {
            if (i == 0 || fw[i - 1] != c) { bad = "prev-chain"; break; }
            i--;
        }
        if (!bad && i != 0) bad = "prev-chain-short";
    }
    if (bad) { printf(" CORRUPT(%s)", bad); return; }
    for (long i = 0; i < n; i++) { st += fw[i]->stealable ? 1 : 0; printf(" %u:%d", fw[i]->value->thread_id, (int)fw[i]->stealable); }
    if (n != q->qlength || st != q->qlength_stealable) printf(" RECOUNT(%ld,%ld)", n, st);
}
static void dump(void) { dump_queue(0); dump_queue(1); printf("\n"); }

/* ------------------------------------------------------------------ threads */
typedef struct { char k; int q; long tid; int fl; } mop_t;
#define MAXOPS 64
static mop_t ops[MAXT][MAXOPS];
static int   nops[MAXT], home[MAXT], wj[MAXT];
static char  res_buf[MAXT][32];
static void *real_tls;

static void *m3_thread(void *arg)
{
    int t = (int)(intptr_t)arg;
    my_tid = t;
    TLS_SET(shepherd_structs, &fsh[home[t]].workers[wj[t]]);
    while (sem_wait(&sem_thr[t]) != 0) ;
    if (aborting) return NULL;
    for (int i = 0; i < nops[t]; i++) {
        mop_t *o = &ops[t][i];
        res_buf[t][0] = 0;
        cur_op = o->k; d_locks = 0;
        if (sigsetjmp(op_jb, 0) == 0) {
            switch (o->k) {
                case 'E': qt_threadqueue_enqueue(fsh[o->q].ready, get_desc(o->tid, o->fl)); break;
                case 'Y': qt_threadqueue_enqueue_yielded(fsh[o->q].ready, get_desc(o->tid, o->fl)); break;
                case 'D': { qthread_t *th = qt_scheduler_get_thread(fsh[home[t]].ready, NULL, 1); snprintf(res_buf[t], 32, " r=%u", th->thread_id); break; }
                case 'T': {
                    qt_threadqueue_node_t *first = qthread_steal(&fsh[home[t]]);
                    if (first) { snprintf(res_buf[t], 32, " r=%u", first->value->thread_id); FREE_TQNODE(first); }
                    else strcpy(res_buf[t], " r=NULL");
                    break;
                }
            }
        } else {
            strcpy(res_buf[t], " r=NULL");
        }
        cur_op = 0;
        if (i == nops[t] - 1) { t_finished[t] = 1; sp_kind_of[t] = K_END; my_tid = -1; sem_post(&sem_ctl); return NULL; }
        verif_sp(K_END);
    }
    return NULL;
}

static const char *kname(int k)
{
    switch (k) { case K_LOCK: return "LOCK"; case K_TRY: return "TRY"; case K_UNLOCK: return "UNLOCK"; case K_CAS: return "CAS";
                 case K_SPIN: return "SPIN"; case K_END: return "END"; default: return "?"; }
}

static char *next_bar(char **s) { char *p = *s; if (!p) return NULL; char *b = strchr(p, '|'); if (b) { *b = 0; *s = b + 1; } else *s = NULL; return p; }

static void run_case(char *line)
{
    char *s = line, *hdr = next_bar(&s), *q0s = next_bar(&s), *q1s = next_bar(&s), *thrs = next_bar(&s), *sched = next_bar(&s);
    long  chunk = 0; int dis = 0, nt = 0;
    if (!hdr || !q0s || !q1s || !thrs || !sched || sscanf(hdr, "MC %ld %d", &chunk, &dis) != 2) { printf("ERR\n"); return; }
    fake_setup(chunk, dis);
    char *qs[2] = { q0s, q1s }, *save = NULL;
    for (int k = 0; k < 2; k++)
        for (char *tok = strtok_r(qs[k], " \n", &save); tok; tok = strtok_r(NULL, " \n", &save)) {
            long tid; int fl;
            if (sscanf(tok, "%ld:%d", &tid, &fl) == 2) qt_threadqueue_enqueue(fsh[k].ready, get_desc(tid, fl));
        }
    char *save2 = NULL;
    for (char *g = strtok_r(thrs, ";\n", &save2); g && nt < MAXT; g = strtok_r(NULL, ";\n", &save2)) {
        char *save3 = NULL, *tok = strtok_r(g, " ", &save3);
        if (!tok) continue;
        home[nt] = atoi(tok) ? 1 : 0;
        tok = strtok_r(NULL, " ", &save3);
        wj[nt] = tok ? (atoi(tok) ? 1 : 0) : 0;
        nops[nt] = 0;
        while ((tok = strtok_r(NULL, " ", &save3)) && nops[nt] < MAXOPS) {
            mop_t *o = &ops[nt][nops[nt]];
            o->k = tok[0]; o->q = 0; o->tid = 0; o->fl = 0;
            if (tok[0] == 'E' || tok[0] == 'Y') { if (sscanf(tok + 1, "%d:%ld:%d", &o->q, &o->tid, &o->fl) != 3) continue; o->q = o->q ? 1 : 0; }
            else if (tok[0] != 'D' && tok[0] != 'T') continue;
            nops[nt]++;
        }
        nt++;
    }
    pthread_t th[MAXT]; int started[MAXT];
    aborting = 0;
    for (int t = 0; t < nt; t++) {
        t_finished[t] = (nops[t] == 0); started[t] = 0; sp_kind_of[t] = K_END;
        if (nops[t]) { pthread_create(&th[t], NULL, m3_thread, (void *)(intptr_t)t); started[t] = 1; }
    }
    printf("S |"); dump(); fflush(stdout);
    char *save4 = NULL;
    for (char *tok = strtok_r(sched, " \n", &save4); tok; tok = strtok_r(NULL, " \n", &save4)) {
        int t = atoi(tok);
        if (t < 0 || t >= nt) continue;
        if (t_finished[t]) { printf("g %d - |", t); dump(); continue; }
        res_buf[t][0] = 0;
        sem_post(&sem_thr[t]);
        ctl_wait();
        printf("g %d %s%s |", t, kname(sp_kind_of[t]), sp_kind_of[t] == K_END ? res_buf[t] : "");
        dump();
        fflush(stdout);            /* a crash inside the next grant must not swallow what was observed so far */
    }
    printf("F |");
    for (int t = 0; t < nt; t++) if (!t_finished[t]) printf(" %d", t);
    printf("\n");
    fflush(stdout);
    aborting = 1;
    for (int t = 0; t < nt; t++) if (started[t]) { if (!t_finished[t]) sem_post(&sem_thr[t]); pthread_join(th[t], NULL); }
    aborting = 0;
}

int main(int argc, char **argv)
{
    static char line[1 << 16];
    setvbuf(stdout, NULL, _IOFBF, 1 << 16);
    qthread_initialize();
    real_tls = TLS_GET(shepherd_structs);
    signal(SIGALRM, on_alarm);
    for (int t = 0; t < MAXT; t++) sem_init(&sem_thr[t], 0, 0);
    sem_init(&sem_ctl, 0, 0);
    while (fgets(line, sizeof line, stdin)) {
        if (line[0] != 'M') continue;
        alarm(600);
        run_case(line);
        fflush(stdout);
    }
    alarm(0);
    fflush(stdout);
    _exit(0);
}
