/* C13 extension W: shim found before the working tree's include/qt_asserts.h (gcc -iquote, only for harness/c/c13_seq.c).
 * It includes the real header and then turns assert() into a probe: the only assert of drf_qsort_dbl / drf_qsort_algt is
 * `assert(i < MAX)` at the head of the outer loop, so the probe sees the stack index and the capacity of the explicit
 * stack on every visit.  `i` and `MAX` resolve to the locals of those functions; everywhere else to the file-scope
 * stand-ins of c13_seq.c (MAX = -1: ignored).  qt_asserts.h has no include guard around its body (on purpose), so it
 * cannot be pre-included to keep the macro. */
#include_next "qt_asserts.h"
#ifdef C13SEQ_PROBE
# ifdef assert
#  undef assert
# endif
# define assert(foo) c13s_probe((long)(i), (long)(MAX), (int)!!(foo))
#endif
