/* C05 harness: return-value handshake on the REAL runtime (public + internal API, no source edits).
 * stdin:
 *   V <kind a|s|n|v> <variant 0 fork|1 fork_to|2 copyargs|3 new_team|4 new_subteam|5 qthread_fork_copyargs_to (kind s)> <shep> <prefull 0|1> <value u64>
 *   N <id> <parent|-1> <kind t|u|m|M|s|p>    declare a node of a team tree (t: new team, u: subteam of the default team,
 *                                           p: leaf member spawned by its parent with qthread_fork_precond on an EMPTY word;
 *                                              the order token -<id> makes the controller fill that word,
 *                                           m: member spawned by its parent into the parent's team, s: subteam founded by its parent)
 *   O <id> <id> ...                         run the tree, opening the members' gates in this order
 *   Q
 * The controller never yield-spins: it sleeps on the FEB word ctl that participants fill. */
#include <qthread/qthread.h>
#include <qthread/sinc.h>
#include <stdio.h>
#include <stdlib.h>
#include <string.h>
#include <unistd.h>
#include <signal.h>
#include <inttypes.h>

static aligned_t ctl, gate0, started0;
static uint64_t  retvalue;

static void ctl_wait(void) { aligned_t t; qthread_readFE(&t, &ctl); }
static aligned_t body_v(void *arg)
{
    started0 = 1;
    qthread_fill(&ctl);
    qthread_readFF(NULL, &gate0);      /* held until the controller opens the gate */
    return (aligned_t)retvalue;
}
static void sum_op(void *a, const void *b) { *(aligned_t *)a += *(const aligned_t *)b; }
static void on_alarm(int s) { printf("TIMEOUT\n"); fflush(stdout); _exit(3); }

static void case_v(char kind, int variant, int shep, int prefull, uint64_t value)
{
    aligned_t  aret  = 0;
    syncvar_t  sret  = SYNCVAR_STATIC_INITIALIZER;
    qt_sinc_t *sinc  = NULL;
    aligned_t  init0 = 0;
    void      *ret   = NULL;
    unsigned   flags = 0;
    long       st[8];
    uint64_t   vff = 0, vfe = 0;
    char       argbuf[64];
    memset(argbuf, 7, sizeof argbuf);
    retvalue = value; started0 = 0;
    qthread_empty(&ctl); qthread_empty(&gate0);
    switch (kind) {
        case 'a': ret = &aret; if (prefull) { aligned_t j = 0xdeadbeef; qthread_writeF(&aret, &j); } else qthread_empty(&aret); break;
        case 's': ret = &sret; flags |= QTHREAD_SPAWN_RET_SYNCVAR_T;
                  if (prefull) { uint64_t j = 0xbeef; qthread_syncvar_writeF(&sret, &j); } else qthread_syncvar_empty(&sret); break;
        case 'n': sinc = qt_sinc_create(sizeof(aligned_t), &init0, sum_op, 1); ret = sinc; flags |= QTHREAD_SPAWN_RET_SINC; break;
        default:  sinc = qt_sinc_create(0, NULL, NULL, 1); ret = sinc; flags |= QTHREAD_SPAWN_RET_SINC_VOID; break;
    }
#define STATUS() (kind == 'a' ? (long)qthread_feb_status(&aret) : kind == 's' ? (long)qthread_syncvar_status(&sret) : 0L)
    st[0] = STATUS();
    if (variant == 3) flags |= QTHREAD_SPAWN_NEW_TEAM;
    if (variant == 4) flags |= QTHREAD_SPAWN_NEW_SUBTEAM;
    alarm(getenv("C05_ALARM") ? atoi(getenv("C05_ALARM")) : 150);
    int rc;
    if (variant == 5)   /* the API function itself: declared with a syncvar_t *ret (kind must be s) */
        rc = qthread_fork_copyargs_to(body_v, argbuf, sizeof argbuf, &sret, (qthread_shepherd_id_t)shep);
    else
        rc = qthread_spawn(body_v, variant == 2 ? (void *)argbuf : NULL, variant == 2 ? sizeof argbuf : 0, ret, 0, NULL,
                           variant == 1 ? (qthread_shepherd_id_t)shep : NO_SHEPHERD, flags);
    st[1] = STATUS();                       /* right after the spawn returned */
    while (!started0) ctl_wait();           /* the body is now running (held at the gate) */
    st[2] = STATUS(); usleep(300); st[3] = STATUS(); qthread_yield(); st[4] = STATUS();
    qthread_fill(&gate0);
    if (kind == 'a') { aligned_t v = 0; qthread_readFF(&v, &aret); vff = v; st[5] = STATUS(); qthread_readFE(&v, &aret); vfe = v; st[6] = STATUS(); }
    else if (kind == 's') { uint64_t v = 0; qthread_syncvar_readFF(&v, &sret); vff = v; st[5] = STATUS(); qthread_syncvar_readFE(&v, &sret); vfe = v; st[6] = STATUS(); }
    else if (kind == 'n') { aligned_t v = 0; qt_sinc_wait(sinc, &v); vff = vfe = v; st[5] = st[6] = 0; }
    else { qt_sinc_wait(sinc, NULL); vff = vfe = 0; st[5] = st[6] = 0; }
    usleep(2000);
    st[7] = STATUS();                       /* nothing fills it a second time */
    alarm(0);
    if (sinc) qt_sinc_destroy(sinc);
    printf("V %d %ld %ld %ld %ld %ld %" PRIu64 " %ld %" PRIu64 " %ld %ld\n", rc, st[0], st[1], st[2], st[3], st[4], vff, st[5], vfe, st[6], st[7]);
    fflush(stdout);
}

/* ---------------- team trees ---------------- */
#define MAXN 64
typedef struct { int used, parent; char kind; aligned_t ret, gate, pre; volatile int finished, started; } node_t;
static node_t    nd[MAXN];
static aligned_t nstarted;
static aligned_t seqctr;
static long      finseq[MAXN];

/* kind 'M' = a member that spawns its children LATE: not when its body starts but when its gate opens, i.e. possibly after
 * its team's leader function has returned and every earlier subteam has finished (a live member may still found subteams) */
static aligned_t body_n(void *arg);
static void spawn_children(int id)
{
    for (int c = 0; c < MAXN; c++) {
        if (!nd[c].used || nd[c].parent != id) continue;
        qthread_empty(&nd[c].gate);
        if (nd[c].kind == 'm' || nd[c].kind == 'M') qthread_fork(body_n, (void *)(intptr_t)c, &nd[c].ret);
        else if (nd[c].kind == 'p') { qthread_empty(&nd[c].pre); qthread_fork_precond(body_n, (void *)(intptr_t)c, &nd[c].ret, 1, &nd[c].pre); }
        else qthread_fork_new_subteam(body_n, (void *)(intptr_t)c, &nd[c].ret);
    }
}

static aligned_t body_n(void *arg)
{
    int id = (int)(intptr_t)arg;
    if (nd[id].kind != 'M') spawn_children(id);
    nd[id].started = 1;
    qthread_incr(&nstarted, 1);
    qthread_fill(&ctl);
    qthread_readFF(NULL, &nd[id].gate);
    if (nd[id].kind == 'M') spawn_children(id);
    finseq[id] = (long)qthread_incr(&seqctr, 1);
    nd[id].finished = 1;
    qthread_fill(&ctl);
    return 100 + id;
}

static int has_late_anc(int i) { for (int p = nd[i].parent; p >= 0; p = nd[p].parent) if (nd[p].kind == 'M') return 1; return 0; }
/* bodies that start as a consequence of `id` spawning its children and have not started yet */
static int unstarted_below(int id)
{
    int k = 0;
    for (int c = 0; c < MAXN; c++) {
        if (!nd[c].used || nd[c].parent != id || nd[c].kind == 'p') continue;
        if (!nd[c].started) k++;
        else if (nd[c].kind != 'M') k += unstarted_below(c);
    }
    return k;
}

static void run_tree(int *order, int norder)
{
    int n = 0, root = -1;   /* n: nodes that start without the controller's help (precondition members start when released) */
    for (int i = 0; i < MAXN; i++) if (nd[i].used) { if (nd[i].kind != 'p' && !has_late_anc(i)) n++; if (nd[i].parent < 0) root = i; }
    qthread_empty(&ctl); nstarted = 0; seqctr = 0;
    alarm(getenv("C05_ALARM") ? atoi(getenv("C05_ALARM")) : 150);
    qthread_empty(&nd[root].gate);
    if (nd[root].kind == 't') qthread_fork_new_team(body_n, (void *)(intptr_t)root, &nd[root].ret);
    else qthread_fork_new_subteam(body_n, (void *)(intptr_t)root, &nd[root].ret);
    while ((int)nstarted < n) ctl_wait();
    for (int j = 0; j < norder; j++) {
        int id = order[j];
        /* before the step: the status of every node's return location */
        printf("P %d", id);
        for (int i = 0; i < MAXN; i++) if (nd[i].used) printf(" %d:%d", i, qthread_feb_status(&nd[i].ret));
        printf("\n");
        if (id < 0) {           /* satisfy the precondition of member -id; it starts running now */
            qthread_fill(&nd[-id].pre);
            while (!nd[-id].started) ctl_wait();
            continue;
        }
        qthread_fill(&nd[id].gate);
        while (!nd[id].finished || (nd[id].kind == 'M' && unstarted_below(id))) ctl_wait();
        usleep(300);
    }
    printf("J");
    for (int i = 0; i < MAXN; i++) if (nd[i].used) { aligned_t v = 0; qthread_readFF(&v, &nd[i].ret); printf(" %d:%lu", i, (unsigned long)v); }
    printf("\nE\n");
    alarm(0);
    fflush(stdout);
    memset(nd, 0, sizeof nd);
}

int main(void)
{
    static char line[1 << 14];
    signal(SIGALRM, on_alarm);
    if (qthread_initialize() != 0) { printf("INITFAIL\n"); return 2; }
    printf("H %u %u\n", (unsigned)qthread_num_shepherds(), (unsigned)qthread_num_workers());
    fflush(stdout);
    while (fgets(line, sizeof line, stdin)) {
        if (line[0] == 'V') {
            char kind; int variant, shep, prefull; uint64_t value;
            sscanf(line + 1, " %c %d %d %d %" SCNu64, &kind, &variant, &shep, &prefull, &value);
            case_v(kind, variant, shep, prefull, value);
        } else if (line[0] == 'N') {
            int id, parent; char kind;
            sscanf(line + 1, "%d %d %c", &id, &parent, &kind);
            nd[id].used = 1; nd[id].parent = parent; nd[id].kind = kind; nd[id].finished = 0;
        } else if (line[0] == 'O') {
            static int order[2 * MAXN]; int n = 0; char *p = line + 1;
            for (;;) { char *e; long v = strtol(p, &e, 10); if (e == p) break; p = e; order[n++] = (int)v; }
            run_tree(order, n);
        } else if (line[0] == 'Q') break;
    }
    return 0;
}
