/* C17 extension L harness: the mutating / remaining public entry points of the real qarray code
 * (qarray_set_shepof, qarray_dist_like, qarray_destroy's bookkeeping, qarray_iter_loop_nb, qarray_elem_migrate)
 * on several live arrays; white-box include of the working-tree qarray.c (chunk_distribution_tracker is read directly).
 * stdin: one command per line; stdout: result lines (see lib/verif/props/_c17_mut.py). */
#include "ds/qarray.c"
#include <stdio.h>
#include <string.h>
#include <unistd.h>
#include <signal.h>

#define MAXSHEP 64
#define NSLOT   16
typedef struct { size_t lo, hi; } rng_t;
typedef struct { rng_t *r; size_t n, cap; volatile int lock; } log_t;
static log_t     logs[MAXSHEP];
static aligned_t active = 0, calls = 0, entered = 0, finished = 0;
static volatile int gate_open = 1;
static qarray   *arr[NSLOT];
static qarray   *A = NULL;
static int       yield_every = 0;

static void log_add(unsigned shep, size_t lo, size_t hi, int merge)
{
    log_t *l = &logs[shep % MAXSHEP];
    while (__sync_lock_test_and_set(&l->lock, 1)) ;
    if (merge && l->n && l->r[l->n - 1].hi == lo) {
        l->r[l->n - 1].hi = hi;
    } else {
        if (l->n == l->cap) { l->cap = l->cap ? 2 * l->cap : 64; l->r = realloc(l->r, l->cap * sizeof(rng_t)); }
        l->r[l->n].lo = lo; l->r[l->n].hi = hi; l->n++;
    }
    __sync_lock_release(&l->lock);
}

static size_t index_of(const qarray *a, const void *p)
{
    size_t off = (const char *)p - a->base_ptr;
    size_t seg = off / a->segment_bytes;
    return seg * a->segment_size + (off % a->segment_bytes) / a->unit_size;
}

static void maybe_yield(void)
{
    aligned_t c = qthread_incr(&calls, 1);
    if (yield_every && (c % yield_every) == 0) qthread_yield();
}

static aligned_t cb_elem(void *p)
{
    qthread_incr(&active, 1);
    size_t i = index_of(A, p);
    log_add(qthread_shep(), i, i + 1, 1);
    maybe_yield();
    qthread_incr(&active, -1);
    return 0;
}

static void cb_loop(const size_t lo, const size_t hi, qarray *a, void *arg)
{
    qthread_incr(&active, 1);
    qthread_incr(&entered, 1);
    while (!gate_open) qthread_yield();        /* qarray_iter_loop_nb: invocations are held here */
    log_add(qthread_shep(), lo, hi, 0);
    maybe_yield();
    qthread_incr(&finished, 1);
    qthread_incr(&active, -1);
}

static void cb_cloop(const size_t lo, const size_t hi, const qarray *a, void *arg) { cb_loop(lo, hi, (qarray *)a, arg); }

static void cb_loopr(const size_t lo, const size_t hi, qarray *a, void *arg, void *ret)
{
    qthread_incr(&active, 1);
    log_add(qthread_shep(), lo, hi, 0);
    *(aligned_t *)ret = (hi > lo) ? hi - lo : 0;
    maybe_yield();
    qthread_incr(&active, -1);
}

static void acc_add(void *a, const void *b) { *(aligned_t *)a += *(const aligned_t *)b; }

static void on_alarm(int s) { printf("TIMEOUT\n"); fflush(stdout); _exit(3); }

static size_t segcount(const qarray *a) { return a->count / a->segment_size + ((a->count % a->segment_size) ? 1 : 0); }

static void print_logs(void)
{
    for (int i = 0; i < MAXSHEP; i++) {
        if (!logs[i].n) continue;
        printf("R %d", i);
        for (size_t j = 0; j < logs[i].n; j++) printf(" %zu:%zu", logs[i].r[j].lo, logs[i].r[j].hi);
        printf("\n");
    }
}

static void print_desc(const qarray *a)
{
    printf("D %zu %zu %zu %d %zu %zu %u %zu %zu\n", a->unit_size, a->segment_bytes, a->segment_size, (int)a->dist_type,
           a->dist_type == FIXED_FIELDS ? a->dist_specific.stripes.segs_per_shep : (size_t)0,
           a->dist_type == FIXED_FIELDS ? a->dist_specific.stripes.extras : (size_t)0,
           a->dist_type == ALL_SAME ? (unsigned)a->dist_specific.dist_shep : 0u, segcount(a), a->count);
}

/* qarray_elem_migrate is called from a task started on a chosen shepherd */
struct mig { qarray *a; size_t idx; long off; unsigned before, after; };
static aligned_t mig_task(void *p)
{
    struct mig *m = p;
    m->before = qthread_shep();
    char *r = qarray_elem_migrate(m->a, m->idx);
    m->off   = r ? (long)(r - m->a->base_ptr) : -1L;
    m->after = qthread_shep();
    return 0;
}

int main(void)
{
    static char line[1 << 16];
    signal(SIGALRM, on_alarm);
    if (qthread_initialize() != 0) { printf("INITFAIL\n"); return 2; }
    printf("H %u %u %zu\n", (unsigned)qthread_num_shepherds(), (unsigned)qthread_num_workers(), (size_t)pagesize);
    while (fgets(line, sizeof line, stdin)) {
        int s = 0;
        if (line[0] == 'A') {
            size_t count, obj; int d, tight, segpages;
            sscanf(line + 1, "%d %zu %zu %d %d %d", &s, &count, &obj, &d, &tight, &segpages);
            arr[s] = qarray_create_configured(count, obj, (distribution_t)d, (char)tight, segpages);
            if (!arr[s]) printf("D NULL\n"); else print_desc(arr[s]);
        } else if (line[0] == 'd') {
            sscanf(line + 1, "%d", &s); print_desc(arr[s]);
        } else if (line[0] == 'S') {
            sscanf(line + 1, "%d", &s);
            size_t sc = segcount(arr[s]);
            printf("S");
            for (size_t g = 0; g < sc; g++) printf(" %u", (unsigned)qarray_shepof(arr[s], g * arr[s]->segment_size));
            printf("\n");
        } else if (line[0] == 's') { /* shepof of explicit indices: "s slot i i i" */
            char *p = line + 1; s = (int)strtol(p, &p, 10); printf("s");
            for (;;) { char *e; size_t i = strtoull(p, &e, 10); if (e == p) break; p = e; printf(" %u", (unsigned)qarray_shepof(arr[s], i)); }
            printf("\n");
        } else if (line[0] == 'e') {
            char *p = line + 1; s = (int)strtol(p, &p, 10); printf("e");
            for (;;) { char *e; size_t i = strtoull(p, &e, 10); if (e == p) break; p = e; printf(" %zu", (size_t)((char *)qarray_elem(arr[s], i) - arr[s]->base_ptr)); }
            printf("\n");
        } else if (line[0] == 'T') {
            printf("T");
            for (unsigned i = 0; i < qthread_num_shepherds(); i++) printf(" %ld", chunk_distribution_tracker ? (long)chunk_distribution_tracker[i] : 0L);
            printf("\n");
        } else if (line[0] == 'P') {
            size_t i; unsigned shep;
            sscanf(line + 1, "%d %zu %u", &s, &i, &shep);
            qarray_set_shepof(arr[s], i, (qthread_shepherd_id_t)shep);
            printf("P\n");
        } else if (line[0] == 'L') {
            int r, m;
            sscanf(line + 1, "%d %d", &r, &m);
            qarray_dist_like(arr[r], arr[m]);
            printf("L\n");
        } else if (line[0] == 'Y') {
            sscanf(line + 1, "%d", &yield_every); printf("Y\n");
        } else if (line[0] == 'I') {
            int k; size_t st, sp; aligned_t accret = 0;
            sscanf(line + 1, "%d %d %zu %zu", &s, &k, &st, &sp);
            A = arr[s];
            for (int i = 0; i < MAXSHEP; i++) logs[i].n = 0;
            active = 0; gate_open = 1;
            alarm(180);
            switch (k) {
                case 0: qarray_iter(A, st, sp, cb_elem); break;
                case 1: qarray_iter_loop(A, st, sp, cb_loop, NULL); break;
                case 2: qarray_iter_constloop(A, st, sp, cb_cloop, NULL); break;
                default: qarray_iter_loopaccum(A, st, sp, cb_loopr, NULL, &accret, sizeof(aligned_t), acc_add); break;
            }
            aligned_t act = active;
            alarm(0);
            print_logs();
            printf(". %lu %lu\n", (unsigned long)act, (unsigned long)accret);
        } else if (line[0] == 'N') { /* qarray_iter_loop_nb: "N slot start stop" */
            size_t st, sp; aligned_t ret = 12345;
            sscanf(line + 1, "%d %zu %zu", &s, &st, &sp);
            A = arr[s];
            for (int i = 0; i < MAXSHEP; i++) logs[i].n = 0;
            active = 0; entered = 0; finished = 0; gate_open = 0;
            alarm(180);
            qarray_iter_loop_nb(A, st, sp, cb_loop, NULL, &ret);
            int st0 = qthread_feb_status(&ret);           /* right after the call: the word was emptied by the fork */
            while (entered < 1) qthread_yield();          /* an invocation is now held at the gate */
            for (int i = 0; i < 50; i++) qthread_yield();
            int st1 = qthread_feb_status(&ret);           /* must still be empty */
            unsigned long ent1 = entered, fin1 = finished;
            gate_open = 1;
            aligned_t rv = 777;
            qthread_readFF(&rv, &ret);                    /* completion */
            unsigned long act = active, ent2 = entered, fin2 = finished;
            int st2 = qthread_feb_status(&ret);
            for (int i = 0; i < 50; i++) qthread_yield();
            unsigned long ent3 = entered;                 /* nothing may start after completion */
            alarm(0);
            print_logs();
            printf("n %d %d %d %lu %lu %lu %d %d\n", st0, st1, st2, (unsigned long)rv, act, fin1,
                   (int)(ent2 == fin2), (int)(ent3 == ent2));
        } else if (line[0] == 'M') { /* "M slot from index" */
            unsigned from; struct mig m; aligned_t r;
            sscanf(line + 1, "%d %u %zu", &s, &from, &m.idx);
            m.a = arr[s];
            alarm(60);
            qthread_fork_to(mig_task, &m, &r, (qthread_shepherd_id_t)from);
            qthread_readFF(NULL, &r);
            alarm(0);
            printf("M %ld %u %u\n", m.off, m.before, m.after);
        } else if (line[0] == 'F') {
            sscanf(line + 1, "%d", &s);
            if (arr[s]) qarray_destroy(arr[s]);
            arr[s] = NULL; printf("F\n");
        } else if (line[0] == 'Q') break;
        fflush(stdout);
    }
    fflush(stdout);
    return 0;
}
