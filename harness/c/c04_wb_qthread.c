/* white-box qthread.c of the working tree (C04/C07): every call that leaves the TU towards the ready queues, the
 * scheduler, the descriptor pools, find_active_shepherd and the blocking subsystem is logged; plus the M1 probe of the
 * static qthread_thread_new / qthread_thread_free pair. */
#define C04_IPOSE_QTHREAD 1
#define C04_TU 0
#include "c04_ipose.h"
#include "qthread.c"
#include <stdio.h>

/* M1 probe: descriptor construction for one arg_size on the live runtime */
extern int c04_last_pool;
void c04_probe_thread_new(size_t asize, FILE *out)
{
    static aligned_t dummyf_store;
    unsigned char *src = malloc(asize + 16);
    for (size_t i = 0; i < asize + 16; i++) src[i] = (unsigned char)(i * 131 + 7);
    c04_last_pool = -1;
    qthread_t *t = qthread_thread_new((qthread_f)(void *)&dummyf_store, src, asize, NULL, NULL, 0);
    int where;  /* 0: caller's pointer, 1: inside the descriptor (data[]), 2: separate heap block */
    if (t->arg == (void *)src) where = 0;
    else if (t->arg == (void *)&t->data) where = 1;
    else where = 2;
    int eq = (asize == 0) ? 1 : (memcmp(t->arg, src, asize) == 0);
    /* scribble the source: the copy must not follow */
    unsigned char first = asize ? ((unsigned char *)t->arg)[0] : 0, last = asize ? ((unsigned char *)t->arg)[asize - 1] : 0;
    memset(src, 0xA5, asize + 16);
    int stable = (asize == 0) ? 1 : (((unsigned char *)t->arg)[0] == first && ((unsigned char *)t->arg)[asize - 1] == last);
    /* last field: pool the descriptor came from (0 small: no room for an argument copy in data[], 1 big) */
    fprintf(out, "P %zu %u %d %d %d %u %u %u %d\n", asize, (unsigned)t->flags, where, eq, stable,
            (unsigned)t->thread_state, (unsigned)(t->target_shepherd == NO_SHEPHERD), (unsigned)qlib->qthread_argcopy_size, c04_last_pool);
    qthread_thread_free(t);
    free(src);
}
