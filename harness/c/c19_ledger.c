/* C19: interposed malloc/free ledger (linked into the lifecycle harness; overrides the libc entry points).
 * Every block handed out through malloc/calloc/realloc/posix_memalign/memalign/aligned_alloc/valloc is recorded with
 * its usable size, the cycle it was allocated in and the caller's return address; free removes it.
 * c19_ledger_live() -> live blocks / bytes; c19_ledger_dump(cycle) -> live blocks allocated in `cycle`, grouped by caller.
 * Optional poisoning of freed memory (C19_POISON=1): a use of a destroyed pool then faults instead of "working". */
#define _GNU_SOURCE
#include <stddef.h>
#include <stdint.h>
#include <string.h>
#include <stdio.h>
#include <stdlib.h>
#include <malloc.h>
#include <errno.h>

extern void *__libc_malloc(size_t);
extern void  __libc_free(void *);
extern void *__libc_calloc(size_t, size_t);
extern void *__libc_realloc(void *, size_t);
extern void *__libc_memalign(size_t, size_t);

#define NSLOT (1u << 20)
typedef struct { void *p; size_t sz; void *caller; unsigned cycle; } slot_t;
static slot_t        tab[NSLOT];
static volatile int  lk;
static size_t        live_blocks, live_bytes;
unsigned             c19_cycle  = 0;
int                  c19_poison = 0;
int                  c19_track  = 1;

static inline void lock(void) { while (__sync_lock_test_and_set(&lk, 1)) ; }
static inline void unlock(void) { __sync_lock_release(&lk); }
static inline unsigned h(void *p) { return (unsigned)(((uintptr_t)p >> 4) * 2654435761u) & (NSLOT - 1); }
#define TOMB ((void *)1)

static __thread size_t my_allocs;      /* allocations made by the calling OS thread (sound under concurrency, unlike the global count) */
size_t c19_ledger_my_allocs(void) { return my_allocs; }

static void add(void *p, void *caller)
{
    if (!p || !c19_track) return;
    my_allocs++;
    size_t sz = malloc_usable_size(p);
    lock();
    unsigned i = h(p);
    while (tab[i].p && tab[i].p != TOMB) i = (i + 1) & (NSLOT - 1);
    tab[i].p = p; tab[i].sz = sz; tab[i].caller = caller; tab[i].cycle = c19_cycle;
    live_blocks++; live_bytes += sz;
    unlock();
}

static void del(void *p)
{
    if (!p) return;
    lock();
    unsigned i = h(p), n = 0;
    while (tab[i].p && n < NSLOT) {
        if (tab[i].p == p) { live_blocks--; live_bytes -= tab[i].sz; tab[i].p = TOMB; break; }
        i = (i + 1) & (NSLOT - 1); n++;
    }
    unlock();
}

void *malloc(size_t n) { void *p = __libc_malloc(n); add(p, __builtin_return_address(0)); return p; }
void *calloc(size_t a, size_t b) { void *p = __libc_calloc(a, b); add(p, __builtin_return_address(0)); return p; }
void *realloc(void *q, size_t n)
{
    if (q) del(q);
    void *p = __libc_realloc(q, n);
    if (p) add(p, __builtin_return_address(0)); else if (q && n) add(q, __builtin_return_address(0));
    return p;
}
void free(void *p)
{
    if (!p) return;
    del(p);
    if (c19_poison) memset(p, 0xA5, malloc_usable_size(p));
    __libc_free(p);
}
void *memalign(size_t al, size_t n) { void *p = __libc_memalign(al, n); add(p, __builtin_return_address(0)); return p; }
void *aligned_alloc(size_t al, size_t n) { void *p = __libc_memalign(al, n); add(p, __builtin_return_address(0)); return p; }
void *valloc(size_t n) { void *p = __libc_memalign(4096, n); add(p, __builtin_return_address(0)); return p; }
int posix_memalign(void **out, size_t al, size_t n)
{
    void *p = __libc_memalign(al, n);
    if (!p) return ENOMEM;
    add(p, __builtin_return_address(0));
    *out = p;
    return 0;
}

void c19_ledger_live(size_t *blocks, size_t *bytes) { lock(); *blocks = live_blocks; *bytes = live_bytes; unlock(); }

/* print "L cycle caller-address blocks bytes" for the live blocks allocated in `cycle` (at most `max` callers) */
void c19_ledger_dump(unsigned cycle, int max)
{
    static struct { void *c; size_t n, b; } agg[256];
    int na = 0;
    c19_track = 0;
    lock();
    for (unsigned i = 0; i < NSLOT; i++) {
        if (tab[i].p && tab[i].p != TOMB && tab[i].cycle == cycle) {
            int k;
            for (k = 0; k < na; k++) if (agg[k].c == tab[i].caller) break;
            if (k == na) { if (na == 256) continue; agg[na].c = tab[i].caller; agg[na].n = 0; agg[na].b = 0; na++; }
            agg[k].n++; agg[k].b += tab[i].sz;
        }
    }
    unlock();
    for (int k = 0; k < na && k < max; k++) printf("L %u %p %zu %zu\n", cycle, agg[k].c, agg[k].n, agg[k].b);
    c19_track = 1;
}
