/* C10 extension S harness: the lifecycle entry points of the real donecount sinc (white-box include of the working-tree
 * src/sincs/donecount.c): qt_sinc_resize, qt_sinc_reset at any moment, qt_sinc_fini / qt_sinc_destroy with every free as
 * a schedule point, qt_sinc_init on caller-provided (static) storage versus qt_sinc_create, and qt_sinc_tmpdata.
 * Same baton protocol as c10_sinc.c: every shared access (qthread_incr, readFF, empty, fill, memcpy of the result, every
 * call of the user's operator, qt_free, qt_internal_aligned_free) is a schedule point; a controller (main task) grants one
 * access at a time; participants 0..N-1 run submit/expect/wait programs, participant N is the lifecycle thread.
 * Frees are RECORDED and deferred to the end of the session, so that a later access to a freed buffer is observable (it is
 * counted: u=<n>) instead of crashing.  qt_sinc_reset is one step (its plain stores cannot be interleaved).
 *   S <h|c> <hd> <size> <opk> <inithex> <c0>   h: qt_sinc_create   c: qt_sinc_init on static storage
 *   T <op> ...                                 program of the next participant: s:<hex> n e:<n> w v
 *   X <op> ...                                 lifecycle script: r:<diff> z:<n> f d
 *   R <r1> <r2> ...                            run under the adaptive schedule; then the sinc is finalised/abandoned; prints "D"
 *   M <ntasks>                                 (after S with c0 = ntasks) tasks on every shepherd: qt_sinc_tmpdata, then submit */
#ifdef HAVE_CONFIG_H
# include "config.h"
#endif
#include <stdlib.h>
#include <stdio.h>
#include <string.h>
#include <assert.h>
#include <unistd.h>
#include <signal.h>
#include <stdint.h>
#include "qthread/qthread.h"
#include "qthread/sinc.h"
#include "qthread/cacheline.h"
#include "qt_asserts.h"
#include "qt_shepherd_innards.h"
#include "qt_expect.h"
#include "qt_visibility.h"
#include "qt_alloc.h"
#include "qt_debug.h"
#include "qt_int_ceil.h"

static aligned_t v_incr(aligned_t *addr, int64_t v);
static int       v_readFF(aligned_t *dest, const aligned_t *src);
static int       v_empty(const aligned_t *a);
static int       v_fill(const aligned_t *a);
static void     *v_memcpy(void *d, const void *s, size_t n);
static void      v_free(void *p);
static void      v_afree(void *p, uint_fast16_t al);
static int       v_printf(const char *fmt, ...);

static inline aligned_t real_incr(aligned_t *a, int64_t v) { return qthread_incr(a, v); }
static inline int real_readFF(aligned_t *d, const aligned_t *s) { return qthread_readFF(d, s); }
static inline int real_empty(const aligned_t *a) { return qthread_empty(a); }
static inline int real_fill(const aligned_t *a) { return qthread_fill(a); }
static inline void *real_memcpy(void *d, const void *s, size_t n) { return memcpy(d, s, n); }
static inline void real_free(void *p) { qt_free(p); }
static inline void real_afree(void *p, uint_fast16_t al) { qt_internal_aligned_free(p, al); }

#undef qthread_incr
#define qthread_incr(a, v) v_incr((aligned_t *)(a), (int64_t)(v))
#define qthread_readFF v_readFF
#define qthread_empty  v_empty
#define qthread_fill   v_fill
#define memcpy         v_memcpy
#define qt_free        v_free
#define qt_internal_aligned_free v_afree
#define printf         v_printf
#include "sincs/donecount.c"
#undef qthread_incr
#undef qthread_readFF
#undef qthread_empty
#undef qthread_fill
#undef memcpy
#undef qt_free
#undef qt_internal_aligned_free
#undef printf

#define MAXT 16
#define MAXOPS 64
#define MAXV 64
enum { K_INIT, K_SLOT, K_DEC, K_C0, K_COL, K_FILL, K_ADD, K_EMPTY, K_READ, K_BLK, K_COPY, K_RUN, K_IDLE, K_UNK,
       K_RADD, K_RFILL, K_RESET, K_FREEI, K_FREEV, K_FREER, K_FFILL, K_FREES };
static const char *kname[] = { "Init", "Slot", "Dec", "C0", "Col", "Fill", "Add", "Empty", "Read", "Blk", "Copy", "Run", "Idle", "Unknown",
                               "RAdd", "RFill", "Reset", "FreeI", "FreeV", "FreeR", "FFill", "FreeS" };

typedef struct { char kind; unsigned char val[MAXV]; unsigned long n; } op_t;

static qt_sinc_t          statics[8192];
static int                nstatic;
static qt_sinc_t         *S;
static qt_internal_sinc_t *SI;
static int                hasdata, opk, N, NP;       /* N participants, NP = N + 1 with the lifecycle thread */
static size_t             vsize;
static unsigned char      initv[MAXV];
static op_t               prog[MAXT + 1][MAXOPS];
static int                nops[MAXT + 1];
static volatile int       st[MAXT + 1], colk[MAXT + 1];
static volatile int       turn = -1;
static aligned_t          rets[MAXT + 1], go[MAXT + 1], ctl;
static unsigned char      deliv[MAXT][MAXOPS][MAXV];
static int                delivkind[MAXT][MAXOPS]; /* 1 value copied, 0 none */
static volatile int       ndeliv[MAXT], copied[MAXT];
static int                printed[MAXT];
static volatile int       pl_slot[MAXT], pl_shep[MAXT], pl_worker[MAXT], pl_new[MAXT];
static unsigned           wd_secs = 20;
static volatile int       in_atomic, life_op;       /* life_op: 'r' 'z' 'f' 'd' while the lifecycle thread is inside that call */
static volatile int       f_res, f_vals, f_rdata, f_struct, uafcnt, warns;
static void              *sv_initial, *sv_values, *sv_rdata, *sv_result;   /* identities of the buffers (recorded at creation) */
static struct { void *p; int aligned; } pend[64];
static int                npend;

static int who(void)
{
    aligned_t *r = qthread_retloc();
    if (r >= rets && r < rets + MAXT + 1) return (int)(r - rets);
    return -1;
}

static void sp(int me, int kind)
{
    st[me] = kind;
    __sync_synchronize();
    real_fill(&ctl);
    qthread_readFE(NULL, &go[me]);
}

static void sp_done(int me, int next)
{
    st[me] = next;
    __sync_synchronize();
    turn = -1;
    real_fill(&ctl);
}

static int v_printf(const char *fmt, ...) { (void)fmt; __sync_fetch_and_add(&warns, 1); return 0; }

static void apply_op(unsigned char *d, const unsigned char *s)
{
    if (opk == 4 && vsize == 8) {
        uint64_t a, b; real_memcpy(&a, d, 8); real_memcpy(&b, s, 8); a += b; real_memcpy(d, &a, 8);
        return;
    }
    for (size_t i = 0; i < vsize; i++) {
        unsigned x = d[i], y = s[i];
        switch (opk) {
            case 0: d[i] = (unsigned char)(x + y); break;
            case 1: d[i] = (unsigned char)(x > y ? x : y); break;
            case 2: d[i] = (unsigned char)(x ^ y); break;
            default: d[i] = (unsigned char)(x < y ? x : y); break;
        }
    }
}

static size_t sv_part, sv_size;
static long slot_index(const void *p)
{
    size_t off = (const uint8_t *)p - (const uint8_t *)sv_values;
    size_t sh = off / sv_part, w = (off % sv_part) / sv_size;
    if ((const uint8_t *)p < (const uint8_t *)sv_values || sh >= num_sheps || w >= num_wps || (off % sv_part) % sv_size) return -1;
    return (long)(sh * num_wps + w);
}

static __thread void *tl_dest;

/* the user's operator: dest := dest (op) src */
static void user_op(void *dest, const void *src)
{
    int me = who();
    if (me < 0 || in_atomic) { if (dest != sv_result) tl_dest = dest; apply_op(dest, src); return; }
    if (dest == sv_result) {
        colk[me] = (int)slot_index(src);
        sp(me, K_COL);
        if (f_res || f_vals || f_struct) uafcnt++;
    } else {
        pl_slot[me]   = (int)slot_index(dest);
        pl_shep[me]   = (int)qthread_shep();
        pl_worker[me] = (int)qthread_readstate(CURRENT_WORKER);
        pl_new[me]    = 1;
        sp(me, K_SLOT);
        if (f_vals || f_struct) uafcnt++;
    }
    apply_op(dest, src);
    sp_done(me, K_RUN);
}

static aligned_t v_incr(aligned_t *addr, int64_t v)
{
    int me = who();
    if (me < 0 || in_atomic) return real_incr(addr, v);
    int k = K_UNK;
    if (addr == &SI->counter) k = (me == N) ? K_RADD : (v == -1 ? K_DEC : K_ADD);
    sp(me, k);
    if (f_struct) uafcnt++;
    aligned_t r = real_incr(addr, v);
    sp_done(me, K_RUN);
    return r;
}

static int v_empty(const aligned_t *a)
{
    int me = who();
    if (me < 0 || in_atomic) return real_empty(a);
    sp(me, (a == &SI->ready) ? K_EMPTY : K_UNK);
    if (f_struct) uafcnt++;
    int r = real_empty(a);
    sp_done(me, K_RUN);
    return r;
}

static int v_fill(const aligned_t *a)
{
    int me = who();
    if (me < 0 || in_atomic) return real_fill(a);
    int k = K_UNK;
    if (a == &SI->ready) k = (me == N) ? (life_op == 'r' ? K_RFILL : K_FFILL) : K_FILL;
    sp(me, k);
    if (f_struct) uafcnt++;
    for (int j = 0; j < N; j++) __sync_bool_compare_and_swap(&st[j], K_BLK, K_RUN);
    int r = real_fill(a);
    sp_done(me, K_RUN);
    return r;
}

static int v_readFF(aligned_t *dest, const aligned_t *src)
{
    int me = who();
    if (me < 0 || in_atomic) return real_readFF(dest, src);
    sp(me, (src == &SI->ready) ? K_READ : K_UNK);
    if (f_struct) uafcnt++;
    if (qthread_feb_status(src)) {
        int r = real_readFF(dest, src);
        sp_done(me, K_RUN);
        return r;
    }
    sp_done(me, K_BLK);
    return real_readFF(dest, src);
}

static void *v_memcpy(void *d, const void *s, size_t n)
{
    int me = who();
    if (me < 0 || in_atomic || !SI || !sv_result) return real_memcpy(d, s, n);
    int k = (d == sv_result) ? K_C0 : ((s == sv_result) ? K_COPY : K_UNK);
    sp(me, k);
    if (f_res || f_struct) uafcnt++;
    if (k == K_COPY && me < N) copied[me] = 1;
    real_memcpy(d, s, n);
    sp_done(me, K_RUN);
    return d;
}

static void defer(void *p, int aligned)
{
    if (npend < 64) { pend[npend].p = p; pend[npend].aligned = aligned; npend++; }
}

static void v_free(void *p)
{
    int me = who();
    if (me < 0 || in_atomic) {
        if ((qt_sinc_t *)p >= statics && (qt_sinc_t *)p < statics + 8192) return;
        real_free(p);
        return;
    }
    int k = K_UNK;
    if (p == sv_initial) k = K_FREEI; else if (p == sv_rdata) k = K_FREER; else if (p == (void *)SI) k = K_FREES;
    sp(me, k);
    if (f_struct) uafcnt++;
    if (k == K_FREEI) f_res = 1;
    if (k == K_FREER) f_rdata = 1;
    if (k == K_FREES) f_struct = 1;
    defer(p, 0);
    sp_done(me, K_RUN);
}

static void v_afree(void *p, uint_fast16_t al)
{
    int me = who();
    if (me < 0 || in_atomic) { real_afree(p, al); return; }
    sp(me, (p == sv_values) ? K_FREEV : K_UNK);
    if (f_struct) uafcnt++;
    if (p == sv_values) f_vals = 1;
    defer(p, 1);
    sp_done(me, K_RUN);
}

static aligned_t participant(void *arg)
{
    int me = (int)(intptr_t)arg;
    for (int k = 0; k < nops[me]; k++) {
        op_t *o = &prog[me][k];
        switch (o->kind) {
            /* a value submit to a sinc whose value part is gone (after qt_sinc_fini) is a NULL dereference, outside the API:
             * performed as submit(NULL), which is what the model's `load` does for a void sinc */
            case 's': qt_sinc_submit(S, SI->rdata ? o->val : NULL); break;
            case 'n': qt_sinc_submit(S, NULL); break;
            case 'e': qt_sinc_expect(S, (size_t)o->n); break;
            case 'w': {
                unsigned char buf[MAXV];
                memset(buf, 0xee, MAXV);
                copied[me] = 0;
                qt_sinc_wait(S, buf);
                real_memcpy(deliv[me][ndeliv[me]], buf, MAXV);
                delivkind[me][ndeliv[me]] = copied[me];
                __sync_synchronize();
                ndeliv[me]++;
                break;
            }
            default:
                qt_sinc_wait(S, NULL);
                delivkind[me][ndeliv[me]] = 0;
                __sync_synchronize();
                ndeliv[me]++;
                break;
        }
    }
    __sync_synchronize();
    st[me] = K_IDLE;
    real_fill(&ctl);
    return 0;
}

static volatile int finied, destroyed;

static aligned_t lifecycle(void *arg)
{
    int me = N;
    for (int k = 0; k < nops[me]; k++) {
        op_t *o = &prog[me][k];
        life_op = o->kind;
        switch (o->kind) {
            case 'r': qt_sinc_resize(S, (size_t)o->n); break;
            case 'z':
                sp(me, K_RESET);
                if (f_struct) uafcnt++;
                in_atomic = 1;
                qt_sinc_reset(S, (size_t)o->n);
                in_atomic = 0;
                sp_done(me, K_RUN);
                break;
            case 'f': qt_sinc_fini(S); finied = 1; break;
            case 'd': qt_sinc_destroy(S); finied = 1; destroyed = 1; break;
        }
    }
    life_op = 0;
    __sync_synchronize();
    st[me] = K_IDLE;
    real_fill(&ctl);
    return 0;
}

static void on_alarm(int s)
{
    printf("TIMEOUT turn=%d", turn);
    for (int j = 0; j < NP; j++) printf(" %s", kname[st[j]]);
    printf("\n");
    fflush(stdout);
    _exit(3);
}

static int anyrun(void)
{
    if (turn != -1) return 1;
    for (int j = 0; j < NP; j++) if (st[j] == K_RUN || st[j] == K_INIT) return 1;
    return 0;
}

static void hexout(const unsigned char *p, size_t n) { for (size_t i = 0; i < n; i++) printf("%02x", p[i]); }

static int unhex(const char *h, unsigned char *out)
{
    int n = 0;
    while (h[0] && h[1] && n < MAXV) { unsigned v; if (sscanf(h, "%2x", &v) != 1) break; out[n++] = (unsigned char)v; h += 2; }
    return n;
}

static void dump_shared(void)
{
    printf("%lu %d ", (unsigned long)SI->counter, qthread_feb_status(&SI->ready) ? 1 : 0);
    if (!SI->rdata) { printf("- -"); return; }
    hexout(sv_result, sv_size);
    printf(" ");
    for (size_t s = 0; s < num_sheps; s++)
        for (size_t w = 0; w < num_wps; w++) {
            if (s || w) printf(",");
            hexout((uint8_t *)sv_values + s * sv_part + w * sv_size, sv_size);
        }
}

/* ---------- qt_sinc_tmpdata ---------- */
#define MAXM 256
static aligned_t m_ret[MAXM];
static struct { int shep, worker; long tslot, sslot, off; int null; } m_res[MAXM];
static aligned_t m_task(void *arg)
{
    int           j = (int)(intptr_t)arg;
    unsigned char v[MAXV];
    for (size_t i = 0; i < MAXV; i++) v[i] = (unsigned char)(j + 1);
    m_res[j].shep   = (int)qthread_shep();
    m_res[j].worker = (int)qthread_readstate(CURRENT_WORKER);
    void *p = qt_sinc_tmpdata(S);
    m_res[j].null = (p == NULL);
    if (p) {
        m_res[j].tslot = slot_index(p);
        m_res[j].off   = (long)((uint8_t *)p - (uint8_t *)sv_values);
        tl_dest = NULL;
        qt_sinc_submit(S, v);
        m_res[j].sslot = tl_dest ? slot_index(tl_dest) : -2;
    } else {
        m_res[j].tslot = m_res[j].sslot = m_res[j].off = -1;
        qt_sinc_submit(S, NULL);
    }
    return 0;
}

int main(void)
{
    static char line[1 << 16];
    signal(SIGALRM, on_alarm);
    if (getenv("VERIF_WATCHDOG")) wd_secs = (unsigned)atoi(getenv("VERIF_WATCHDOG"));
    if (qthread_initialize() != 0) { printf("INITFAIL\n"); return 2; }
    int nsheps = (int)qthread_num_shepherds();
    printf("H %d %d\n", nsheps, (int)qthread_num_workers());
    fflush(stdout);
    int is_static = 0;
    while (fgets(line, sizeof line, stdin)) {
        if (line[0] == 'S') {
            char ih[256], stc; unsigned long c0; int hd; unsigned long sz;
            sscanf(line + 1, " %c %d %lu %d %255s %lu", &stc, &hd, &sz, &opk, ih, &c0);
            hasdata = hd; vsize = sz; N = 0; NP = 1; nops[0] = 0;
            is_static = (stc == 'c');
            if (hd) unhex(ih, initv);
            in_atomic = 1;
            if (is_static) {
                if (nstatic >= 8192) { printf("NOSTATIC\n"); fflush(stdout); return 2; }
                S = &statics[nstatic++];
                if (hd) qt_sinc_init(S, vsize, initv, user_op, (size_t)c0); else qt_sinc_init(S, 0, NULL, NULL, (size_t)c0);
            } else {
                S = hd ? qt_sinc_create(vsize, initv, user_op, (size_t)c0) : qt_sinc_create(0, NULL, NULL, (size_t)c0);
            }
            in_atomic = 0;
            SI = (qt_internal_sinc_t *)S;
            sv_initial = sv_values = sv_rdata = sv_result = NULL; sv_part = sv_size = 1;
            if (SI->rdata) {
                sv_rdata = SI->rdata; sv_initial = SI->rdata->initial_value; sv_values = SI->rdata->values; sv_result = SI->rdata->result;
                sv_part = SI->rdata->sizeof_shep_value_part; sv_size = SI->rdata->sizeof_value;
            }
            f_res = f_vals = f_rdata = f_struct = uafcnt = warns = npend = 0; finied = destroyed = 0;
            printf("C %d %d %d %lu %lu ", (int)num_sheps, (int)num_wps, (int)cacheline, (unsigned long)sv_part, (unsigned long)sv_size);
            dump_shared();
            printf("\n");
        } else if (line[0] == 'T' || line[0] == 'X') {
            char *p = strtok(line + 1, " \n");
            int   me;
            if (line[0] == 'T') {
                if (N >= MAXT) continue;
                me = N++; nops[me] = 0; nops[N] = 0; NP = N + 1;
            } else me = -1;
            while (p) {
                int t = (me < 0) ? N : me;
                if (nops[t] >= MAXOPS) break;
                op_t *o = &prog[t][nops[t]++];
                o->kind = p[0];
                if (p[0] == 's') unhex(p + 2, o->val);
                if (p[0] == 'e' || p[0] == 'r' || p[0] == 'z') o->n = strtoul(p + 2, NULL, 10);
                p = strtok(NULL, " \n");
            }
        } else if (line[0] == 'R') {
            char *p = line + 1, *e;
            static int rs[1 << 14];
            int        nr = 0;
            for (;;) { long r = strtol(p, &e, 10); if (e == p) break; p = e; if (nr < (1 << 14)) rs[nr++] = (int)r; }
            turn = -1;
            /* the X line must follow the T lines (it is stored at index N) */
            NP = N + 1;
            printf("I "); dump_shared(); printf("\n");
            alarm(wd_secs);
            for (int j = 0; j < NP; j++) { st[j] = K_INIT; real_empty(&go[j]); }
            for (int j = 0; j < N; j++) { ndeliv[j] = 0; printed[j] = 0; pl_new[j] = 0; copied[j] = 0; }
            real_empty(&ctl);
            __sync_synchronize();
            for (int j = 0; j < N; j++) qthread_fork_to(participant, (void *)(intptr_t)j, &rets[j], (qthread_shepherd_id_t)(j % nsheps));
            qthread_fork_to(lifecycle, NULL, &rets[N], (qthread_shepherd_id_t)(N % nsheps));
            int k = 0, ended_done = 0;
            for (;;) {
                while (anyrun()) qthread_readFE(NULL, &ctl);
                int en[MAXT + 1], ne = 0, nd = 0;
                for (int j = 0; j < NP; j++) {
                    int s = st[j];
                    if (s == K_IDLE) nd++;
                    else if (s != K_BLK) en[ne++] = j;
                }
                if (ne == 0) { printf("END %s %d\n", nd == NP ? "done" : "deadlock", k); ended_done = (nd == NP); break; }
                int r = nr ? rs[k % nr] : 0;
                int pref = r / 1024, i = en[(r % 1024) % ne];
                if (pref > 0 && pref - 1 < NP) {
                    int s = st[pref - 1];
                    if (s != K_IDLE && s != K_BLK) i = pref - 1;
                }
                int kind = st[i];
                if (kind == K_SLOT && pl_new[i]) { printf("P %d %d %d %d\n", i, pl_slot[i], pl_shep[i], pl_worker[i]); pl_new[i] = 0; }
                __sync_synchronize();
                turn = i;
                real_fill(&go[i]);
                while (anyrun()) qthread_readFE(NULL, &ctl);
                k++;
                printf("%d %s ", i, kname[kind]);
                dump_shared();
                printf(" |");
                for (int j = 0; j < NP; j++) {
                    if (st[j] == K_COL) printf(" Col%d", colk[j]); else printf(" %s", kname[st[j]]);
                }
                printf(" u=%d f=%d%d%d%d", uafcnt, f_res, f_vals, f_rdata, f_struct);
                for (int j = 0; j < N; j++)
                    while (printed[j] < ndeliv[j]) {
                        printf(" ; W%d=", j);
                        if (delivkind[j][printed[j]]) hexout(deliv[j][printed[j]], vsize); else printf("-");
                        printed[j]++;
                    }
                printf("\n");
                if (k > 200000) { printf("END runaway %d\n", k); break; }
            }
            alarm(0);
            printf("W %d\n", warns);
            if (ended_done) {
                for (int j = 0; j < NP; j++) qthread_readFF(NULL, &rets[j]);
                /* really release what the session freed, and finalise what it did not */
                for (int j = 0; j < npend; j++) {
                    void *q = pend[j].p;
                    if ((qt_sinc_t *)q >= statics && (qt_sinc_t *)q < statics + 8192) continue;
                    if (pend[j].aligned) real_afree(q, cacheline); else real_free(q);
                }
                npend = 0;
                if (!finied) { in_atomic = 1; if (is_static) qt_sinc_fini(S); else qt_sinc_destroy(S); in_atomic = 0; }
                else if (!destroyed && !is_static) real_free(S);
            } /* else: blocked participants are left behind, the sinc is abandoned */
            S = NULL; SI = NULL; N = 0; NP = 1; nops[0] = 0;
            printf("D\n");
        } else if (line[0] == 'M') {
            int nt = atoi(line + 1);
            if (nt > MAXM) nt = MAXM;
            alarm(wd_secs);
            for (int j = 0; j < nt; j++) qthread_fork_to(m_task, (void *)(intptr_t)j, &m_ret[j], (qthread_shepherd_id_t)(j % nsheps));
            unsigned char buf[MAXV];
            memset(buf, 0xee, MAXV);
            qt_sinc_wait(S, hasdata ? buf : NULL);
            for (int j = 0; j < nt; j++) qthread_readFF(NULL, &m_ret[j]);
            alarm(0);
            for (int j = 0; j < nt; j++)
                printf("M %d %d %d %ld %ld %ld\n", m_res[j].shep, m_res[j].worker, m_res[j].null, m_res[j].tslot, m_res[j].off, m_res[j].sslot);
            printf("MR ");
            if (hasdata) hexout(buf, vsize); else printf("-");
            printf("\n");
            in_atomic = 1; if (is_static) qt_sinc_fini(S); else qt_sinc_destroy(S); in_atomic = 0;
            S = NULL; SI = NULL; N = 0; NP = 1; nops[0] = 0;
            printf("D\n");
        } else if (line[0] == 'Q') break;
        fflush(stdout);
    }
    fflush(stdout);
    return 0;
}
