#define C04_TU 3
#include "c04_ipose.h"
#include "io.c"
