#include "c04_ipose.h"
#define C04_TU 3
#include "io.c"
